(* ArenaInv.v — the arena invariant and its preservation by every operation (C01 core;
   C02, C03, C05, C10, C13 are corollaries in their own files). *)
From Coq Require Import ZArith List Bool Lia ZifyBool.
From BS Require Import Word BumpSpec ChunkSpec Arena.
Import ListNotations.
Open Scope Z_scope.

(* ------------------------------------------------------------ list infrastructure *)
Lemma set_nth_length {A} (l : list A) i x : length (set_nth l i x) = length l.
Proof. revert i; induction l as [|h t IH]; intros [|i]; cbn; auto. Qed.

Lemma nth_error_set_nth_eq {A} (l : list A) i x :
  (i < length l)%nat -> nth_error (set_nth l i x) i = Some x.
Proof. revert i; induction l as [|h t IH]; intros [|i] H; cbn in *; try lia; auto. apply IH; lia. Qed.

Lemma nth_error_set_nth_neq {A} (l : list A) i j x :
  i <> j -> nth_error (set_nth l i x) j = nth_error l j.
Proof.
  revert i j; induction l as [|h t IH]; intros [|i] [|j] H; cbn; auto; try congruence.
Qed.

Lemma Forall_set_nth {A} (P : A -> Prop) l i x : Forall P l -> P x -> Forall P (set_nth l i x).
Proof.
  revert i; induction l as [|h t IH]; intros [|i] Hl Hx; cbn; auto;
    inversion Hl; subst; constructor; auto.
Qed.

Lemma Forall_nth_error {A} (P : A -> Prop) l i x : Forall P l -> nth_error l i = Some x -> P x.
Proof. intros H E. rewrite Forall_forall in H. apply H. eapply nth_error_In; eassumption. Qed.

Lemma nth_error_some_lt {A} (l : list A) i x : nth_error l i = Some x -> (i < length l)%nat.
Proof. intros H. apply nth_error_Some. congruence. Qed.

Lemma nth_error_app_last {A} (l : list A) x : nth_error (l ++ [x]) (length l) = Some x.
Proof. rewrite nth_error_app2 by lia. rewrite Nat.sub_diag. reflexivity. Qed.

(* ------------------------------------------------------------ configuration and chunks *)
Definition cfg_ok (c : cfg) : Prop := hdr_ok (hs c) (ha c) /\ 0 <= min_chunk c < W.

Definition chunk_geom (c : cfg) (ch : chunk) : Prop :=
  0 < cbase ch /\ (ha c | cbase ch) /\ (16 | csize ch) /\ (up c = false -> (ha c | csize ch)) /\
  hs c <= csize ch /\ creq ch <= csize ch /\ csize ch <= cgranted ch /\
  cbase ch + cgranted ch < W /\ cgranted ch <= IMAX.

Definition chunk_ok (c : cfg) (ch : chunk) : Prop :=
  chunk_geom c ch /\ content_start c ch <= cpos ch <= content_end c ch.

Section ChunkFacts.
  Variable c : cfg.
  Hypothesis Hc : cfg_ok c.

  Let Hha2 : pow2 (ha c). Proof. unfold cfg_ok, hdr_ok in Hc; tauto. Qed.
  Let Hha16 : 16 <= ha c. Proof. unfold cfg_ok, hdr_ok in Hc; tauto. Qed.
  Let Hhs : (ha c | hs c) /\ 32 <= hs c. Proof. unfold cfg_ok, hdr_ok in Hc; tauto. Qed.

  Lemma ha_div16 : (16 | ha c).
  Proof. apply pow2_divide; [apply pow2_16|assumption|assumption]. Qed.

  Lemma geom_bounds ch : chunk_geom c ch ->
    0 < content_start c ch /\ content_start c ch <= content_end c ch /\ content_end c ch < W /\
    content_end c ch - content_start c ch <= IMAX /\
    (16 | content_start c ch) /\ (16 | content_end c ch) /\
    cbase ch <= content_start c ch /\ content_end c ch <= cbase ch + csize ch.
  Proof.
    intros (Hb0 & Hbd & Hs16 & Hsha & Hhsle & Hreq & Hgr & Hlim & Hgi).
    destruct Hhs as [Hhsd Hhs32]. pose proof ha_div16 as H16.
    assert (Hb16 : (16 | cbase ch)) by (apply Z.divide_trans with (ha c); assumption).
    assert (Hh16 : (16 | hs c)) by (apply Z.divide_trans with (ha c); assumption).
    unfold content_start, content_end. destruct (up c) eqn:Eup.
    - repeat split; try lia; try (apply Z.divide_add_r; assumption).
    - specialize (Hsha eq_refl).
      repeat split; try lia; try assumption.
      apply Z.divide_sub_r; [apply Z.divide_add_r; assumption|assumption].
  Qed.

  Lemma fresh_pos_ok ch : chunk_geom c ch -> chunk_ok c (reset_chunk c ch) /\ (16 | fresh_pos c ch).
  Proof.
    intros Hg. pose proof (geom_bounds ch Hg) as (H0 & Hle & Hlim & Hlim2 & Hs16 & He16 & _).
    unfold reset_chunk, chunk_ok, set_pos, fresh_pos, chunk_geom in *.
    unfold content_start, content_end in *. cbn [cbase csize creq cgranted cpos].
    destruct (up c); (split; [split; [exact Hg|lia]|assumption]).
  Qed.

  Lemma set_pos_ok ch p : chunk_geom c ch -> content_start c ch <= p <= content_end c ch ->
    chunk_ok c (set_pos ch p).
  Proof.
    intros Hg Hp. unfold chunk_ok, set_pos, chunk_geom, content_start, content_end in *.
    cbn [cbase csize creq cgranted cpos]. split; [exact Hg|exact Hp].
  Qed.

  Lemma set_pos_geom ch p : chunk_geom c ch -> chunk_geom c (set_pos ch p).
  Proof. intros Hg. exact Hg. Qed.

  (* allocation inside one chunk *)
  Lemma chunk_alloc_sound m ch size align p ch' :
    chunk_ok c ch -> valid_min_align m -> (m | cpos ch) -> valid_layout size align ->
    chunk_alloc c m ch size align = Some (p, ch') ->
    exists np, ch' = set_pos ch np /\ (align | p) /\ (m | np) /\
      content_start c ch <= np <= content_end c ch /\
      (if up c then cpos ch <= p /\ p + size <= np
       else np = p /\ p + size <= cpos ch).
  Proof.
    intros [Hg Hpos] Hm Hmp Hl H.
    pose proof (geom_bounds ch Hg) as (H0 & Hle & Hlim & Hlim2 & Hs16 & He16 & _).
    pose proof W_val. pose proof IMAX_val. pose proof Hl as (_ & Hs0 & _).
    unfold chunk_alloc in H. destruct (up c) eqn:Eup.
    - destruct (spec_up (cpos ch) (content_end c ch) m size align) as [[q np]|] eqn:E; [|discriminate].
      injection H as <- <-.
      assert (Hreg : regular_up (cpos ch) (content_end c ch) m) by (unfold regular_up; repeat split; try lia; assumption).
      pose proof (spec_up_sound _ _ _ _ _ _ _ Hm Hl Hreg E) as (A1 & A2 & A3 & A4 & A5 & _).
      exists np. repeat split; try assumption; lia.
    - destruct (spec_down (content_start c ch) (cpos ch) m size align) as [q|] eqn:E; [|discriminate].
      injection H as <- <-.
      assert (Hreg : regular_down (content_start c ch) (cpos ch) m) by (unfold regular_down; repeat split; try lia; assumption).
      pose proof (spec_down_sound _ _ _ _ _ _ Hm Hl Hreg E) as (A1 & A2 & A3 & A4).
      exists q. repeat split; try assumption; lia.
  Qed.
End ChunkFacts.

(* ------------------------------------------------------------ the invariant *)
Definition chunks_disjoint (cs : list chunk) : Prop :=
  forall i j a b, i <> j -> nth_error cs i = Some a -> nth_error cs j = Some b ->
    cbase a + cgranted a <= cbase b \/ cbase b + cgranted b <= cbase a.

Definition same_geom (a b : chunk) : Prop :=
  cbase a = cbase b /\ csize a = csize b /\ creq a = creq b /\ cgranted a = cgranted b.

Definition ginv (c : cfg) (s : arena) : Prop :=
  Forall (chunk_ok c) (chunks s) /\ chunks_disjoint (chunks s) /\ valid_min_align (malign s) /\
  match cur s with
  | Cur i => exists ch, nth_error (chunks s) i = Some ch /\ (malign s | cpos ch)
  | Unalloc => chunks s = []
  | Claimed => False
  end.

Definition in_chunk (c : cfg) (ch : chunk) (p sz : Z) : Prop :=
  content_start c ch <= p /\ p + sz <= content_end c ch.
Definition alloc_side (c : cfg) (ch : chunk) (p sz : Z) : Prop :=
  0 < sz -> if up c then p + sz <= cpos ch else cpos ch <= p.

(* where a live block may be: in a chunk not after the current one, and in the current chunk
   only on the allocated side of the bump position *)
Definition placed (c : cfg) (s : arena) (p sz : Z) : Prop :=
  exists k ch, nth_error (chunks s) k = Some ch /\ in_chunk c ch p sz /\
    match cur s with
    | Cur i => (k <= i)%nat /\ (k = i -> alloc_side c ch p sz)
    | _ => False
    end.

Definition block_ok (c : cfg) (s : arena) (b : block) : Prop :=
  0 <= bsize b /\ (balign b | bptr b) /\ placed c s (bptr b) (bsize b).

Definition disjoint_rng (p1 s1 p2 s2 : Z) : Prop :=
  s1 <= 0 \/ s2 <= 0 \/ p1 + s1 <= p2 \/ p2 + s2 <= p1.
Definition disjoint2 (a b : block) : Prop := disjoint_rng (bptr a) (bsize a) (bptr b) (bsize b).

Definition ids_ok (s : arena) : Prop :=
  NoDup (map bid (live s)) /\ Forall (fun b => (bid b < nextid s)%nat) (live s).

Definition inv (c : cfg) (s : arena) : Prop :=
  ginv c s /\ Forall (block_ok c s) (live s) /\ ForallOrdPairs disjoint2 (live s) /\ ids_ok s.

(* what the base allocator must guarantee about its answer *)
Definition prev_size (s : arena) : option Z :=
  match rev (chunks s) with last :: _ => Some (csize last) | [] => None end.

Definition resp_ok (c : cfg) (s : arena) (size align : Z) (r : resp) : Prop :=
  match r with
  | None => True
  | Some (addr, g) =>
    0 < addr /\ (ha c | addr) /\ addr + g < W /\ g <= IMAX /\
    (forall n, new_chunk_size c (prev_size s) size align = Some n -> n <= g) /\
    (forall ch, In ch (chunks s) -> cbase ch + cgranted ch <= addr \/ addr + g <= cbase ch)
  end.

Lemma same_geom_refl a : same_geom a a.
Proof. repeat split. Qed.
Lemma same_geom_set_pos a p : same_geom a (set_pos a p).
Proof. repeat split. Qed.
Lemma same_geom_trans a b d : same_geom a b -> same_geom b d -> same_geom a d.
Proof. unfold same_geom. intuition congruence. Qed.

Lemma same_geom_content c a b : same_geom a b ->
  content_start c a = content_start c b /\ content_end c a = content_end c b.
Proof. intros (E1 & E2 & _). unfold content_start, content_end. rewrite E1, E2. split; reflexivity. Qed.

Lemma same_geom_chunk_geom c a b : same_geom a b -> chunk_geom c a -> chunk_geom c b.
Proof. intros (E1 & E2 & E3 & E4). unfold chunk_geom. rewrite E1, E2, E3, E4. tauto. Qed.

Lemma Forall2_same_geom_refl l : Forall2 same_geom l l.
Proof. induction l; constructor; auto using same_geom_refl. Qed.

Lemma Forall2_same_geom_trans l1 l2 l3 :
  Forall2 same_geom l1 l2 -> Forall2 same_geom l2 l3 -> Forall2 same_geom l1 l3.
Proof.
  intros H; revert l3; induction H as [|a b l l' Hab Hl IH]; intros l3 H3; inversion H3; subst;
    constructor; eauto using same_geom_trans.
Qed.

Lemma Forall2_set_nth {A} (R : A -> A -> Prop) l l' i x y :
  Forall2 R l l' -> nth_error l i = Some x -> R x y -> Forall2 R l (set_nth l' i y).
Proof.
  intros H; revert i; induction H as [|a b l l' Hab Hl IH]; intros [|i] Hn Hr; cbn in *; try discriminate.
  - injection Hn as ->. constructor; assumption.
  - constructor; [assumption|]. apply IH; assumption.
Qed.

Lemma Forall2_nth_error {A} (R : A -> A -> Prop) l l' i x :
  Forall2 R l l' -> nth_error l i = Some x -> exists y, nth_error l' i = Some y /\ R x y.
Proof.
  intros H; revert i; induction H as [|a b l l' Hab Hl IH]; intros [|i] Hn; cbn in *; try discriminate.
  - injection Hn as ->. eauto.
  - apply IH; assumption.
Qed.

Lemma Forall2_nth_error_r {A} (R : A -> A -> Prop) l l' i y :
  Forall2 R l l' -> nth_error l' i = Some y -> exists x, nth_error l i = Some x /\ R x y.
Proof.
  intros H; revert i; induction H as [|a b l l' Hab Hl IH]; intros [|i] Hn; cbn in *; try discriminate.
  - injection Hn as ->. eauto.
  - apply IH; assumption.
Qed.

Lemma Forall2_length {A} (R : A -> A -> Prop) l l' : Forall2 R l l' -> length l = length l'.
Proof. induction 1; cbn; congruence. Qed.

Lemma chunks_disjoint_same_geom cs cs' :
  Forall2 same_geom cs cs' -> chunks_disjoint cs -> chunks_disjoint cs'.
Proof.
  intros HF Hd i j a b Hij Ha Hb.
  destruct (Forall2_nth_error_r _ _ _ _ _ HF Ha) as (a0 & Ha0 & (E1 & _ & _ & E4)).
  destruct (Forall2_nth_error_r _ _ _ _ _ HF Hb) as (b0 & Hb0 & (F1 & _ & _ & F4)).
  specialize (Hd i j a0 b0 Hij Ha0 Hb0). rewrite <- E1, <- E4, <- F1, <- F4. exact Hd.
Qed.

(* ------------------------------------------------------------ walking to later chunks *)
Section Walk.
  Variable c : cfg.
  Hypothesis Hc : cfg_ok c.
  Variable m : Z.
  Hypothesis Hm : valid_min_align m.
  (* the per-chunk action (alloc or prepare) and what it guarantees about its result *)
  Variable R : Type.
  Variable f : chunk -> option (R * chunk).
  Variable Q : chunk -> R -> Prop.
  Hypothesis Hf : forall ch p ch1, chunk_ok c ch -> (m | cpos ch) -> f ch = Some (p, ch1) ->
    chunk_ok c ch1 /\ same_geom ch ch1 /\ (m | cpos ch1) /\ Q ch1 p.

  Lemma m_div16 : (m | 16).
  Proof. apply min_align_div16; assumption. Qed.

  (* the outcome of walk_next, as a relation between the chunk lists *)
  Lemma walk_next_spec fuel : forall cs i cs' j res,
    Forall (chunk_ok c) cs -> (i < length cs)%nat ->
    walk_next c f cs i fuel = (cs', j, res) ->
    Forall (chunk_ok c) cs' /\ Forall2 same_geom cs cs' /\ (i <= j < length cs)%nat /\
    (forall k, (k <= i)%nat -> nth_error cs' k = nth_error cs k) /\
    (forall k ch, (j < k)%nat -> nth_error cs' k = Some ch -> nth_error cs k = Some ch) /\
    ((i < j)%nat -> exists ch, nth_error cs' j = Some ch /\ (m | cpos ch)) /\
    (j = i -> res = None) /\
    (forall p, res = Some p -> exists ch, nth_error cs' j = Some ch /\ Q ch p).
  Proof.
    induction fuel as [|fuel IH]; intros cs i cs' j res Hok Hi H.
    - cbn in H. injection H as <- <- <-.
      repeat split; auto using Forall2_same_geom_refl; try lia; try discriminate.
    - cbn [walk_next] in H. destruct (nth_error cs (S i)) as [ch|] eqn:En.
      2:{ injection H as <- <- <-.
          repeat split; auto using Forall2_same_geom_refl; try lia; try discriminate. }
      pose proof (Forall_nth_error _ _ _ _ Hok En) as [Hg _].
      pose proof (nth_error_some_lt _ _ _ En) as Hlt.
      destruct (fresh_pos_ok c Hc ch Hg) as [Hrok Hr16].
      assert (Hrm : (m | cpos (reset_chunk c ch))).
      { eapply Z.divide_trans; [apply m_div16|exact Hr16]. }
      destruct (f (reset_chunk c ch)) as [[p ch1]|] eqn:Ef.
      + injection H as <- <- <-.
        destruct (Hf _ _ _ Hrok Hrm Ef) as (Hg1 & Hsg & Hm1 & Hq).
        split; [apply Forall_set_nth; assumption|]. split.
        { eapply Forall2_set_nth; [apply Forall2_same_geom_refl|exact En|].
          eapply same_geom_trans; [apply (same_geom_set_pos ch)|exact Hsg]. }
        split; [lia|]. split.
        { intros k Hk. apply nth_error_set_nth_neq. lia. }
        split.
        { intros k ch0 Hk E. rewrite nth_error_set_nth_neq in E by lia. exact E. }
        split.
        { intros _. eexists; split; [apply nth_error_set_nth_eq; lia|exact Hm1]. }
        split; [lia|].
        intros p0 E0. injection E0 as <-.
        eexists; split; [apply nth_error_set_nth_eq; lia|exact Hq].
      + assert (Hok2 : Forall (chunk_ok c) (set_nth cs (S i) (reset_chunk c ch)))
          by (apply Forall_set_nth; assumption).
        assert (Hi2 : (S i < length (set_nth cs (S i) (reset_chunk c ch)))%nat)
          by (rewrite set_nth_length; lia).
        destruct (IH _ _ _ _ _ Hok2 Hi2 H) as (A1 & A2 & A3 & A4 & A5 & A6 & A7 & A8).
        rewrite set_nth_length in A3.
        split; [exact A1|]. split.
        { assert (HF : Forall2 same_geom cs (set_nth cs (S i) (reset_chunk c ch))).
          { eapply Forall2_set_nth; [apply Forall2_same_geom_refl|exact En|apply same_geom_set_pos]. }
          eapply Forall2_same_geom_trans; eassumption. }
        split; [lia|]. split.
        { intros k Hk. rewrite A4 by lia. apply nth_error_set_nth_neq. lia. }
        split.
        { intros k ch0 Hk E. specialize (A5 k ch0 Hk E). rewrite nth_error_set_nth_neq in A5 by lia. exact A5. }
        split.
        { intros _. destruct (Nat.eq_dec j (S i)) as [->|Hne].
          - rewrite A4 by lia. rewrite nth_error_set_nth_eq by lia. eexists; split; [reflexivity|exact Hrm].
          - apply A6. lia. }
        split; [lia|]. exact A8.
  Qed.
End Walk.

(* ------------------------------------------------------------ creating a chunk *)
Definition frame (s s' : arena) : Prop :=
  live s' = live s /\ mem s' = mem s /\ depth s' = depth s /\ aligns s' = aligns s /\
  epoch s' = epoch s /\ nextid s' = nextid s.

Lemma frame_refl s : frame s s.
Proof. repeat split. Qed.
Lemma frame_trans a b d : frame a b -> frame b d -> frame a d.
Proof. unfold frame. intuition congruence. Qed.

Lemma new_chunk_size_facts c prev size align n :
  cfg_ok c -> new_chunk_size c prev size align = Some n ->
  (16 | n) /\ (up c = false -> (ha c | n)) /\ hs c <= n /\ 0 < n.
Proof.
  intros [Hh _] H. unfold new_chunk_size in H.
  destruct (W <=? spec_hint (up c) (hs c) (ha c) size align); [discriminate|].
  destruct (W <=? match prev with Some ps => 2 * ps | None => 0 end); [discriminate|].
  match type of H with context [spec_size0 _ _ ?h] => set (hint := h) in * end.
  destruct (W <=? spec_size0 (hs c) (ha c) hint); [discriminate|].
  destruct (IMAX - (ha c - 1) <? spec_size_from_hint (up c) (hs c) (ha c) hint); [discriminate|].
  injection H as <-.
  pose proof (size_from_hint_facts (up c) (hs c) (ha c) Hh hint) as (A1 & A2 & _ & A4 & _).
  destruct Hh as (_ & _ & _ & _ & H32 & _). repeat split; try assumption; lia.
Qed.

Lemma make_chunk_ok c n addr g :
  cfg_ok c -> (16 | n) -> (up c = false -> (ha c | n)) -> hs c <= n -> n <= g ->
  0 < addr -> (ha c | addr) -> addr + g < W -> g <= IMAX ->
  let ch := make_chunk c n addr g in
  chunk_ok c ch /\ (16 | cpos ch) /\ cbase ch = addr /\ cgranted ch = g.
Proof.
  intros Hc H16 Hha Hhs Hng Ha0 Had HaW Hgi. cbv zeta.
  pose proof (align_size_between (up c) (hs c) (ha c) (proj1 Hc) n g H16 Hha Hng) as (B1 & B2 & B3 & B4).
  unfold make_chunk.
  set (ch0 := mkChunk addr (spec_align_size (up c) (ha c) g) n g 0).
  assert (Hg : chunk_geom c ch0).
  { unfold chunk_geom, ch0. cbn [cbase csize creq cgranted]. repeat split; try assumption; lia. }
  destruct (fresh_pos_ok c Hc ch0 Hg) as [Hok H16p].
  unfold reset_chunk in Hok. split; [exact Hok|]. split; [exact H16p|]. split; reflexivity.
Qed.

Lemma grow_arena_spec c s size align r s1 e :
  cfg_ok c -> resp_ok c s size align r ->
  grow_arena c s size align r = (s1, e) ->
  frame s s1 /\
  match e with
  | Some _ => chunks s1 = chunks s /\ cur s1 = cur s
  | None => exists ch addr g, r = Some (addr, g) /\ chunks s1 = chunks s ++ [ch] /\
            cur s1 = Cur (length (chunks s)) /\ chunk_ok c ch /\ (16 | cpos ch) /\
            cbase ch = addr /\ cgranted ch = g
  end.
Proof.
  intros Hc Hr H. unfold grow_arena in H. fold (prev_size s) in H.
  destruct (new_chunk_size c (prev_size s) size align) as [n|] eqn:En.
  2:{ injection H as <- <-. split; [apply frame_refl|split; reflexivity]. }
  destruct (new_chunk_size_facts _ _ _ _ _ Hc En) as (N1 & N2 & N3 & N4).
  destruct r as [[addr g]|].
  - injection H as <- <-. split; [repeat split|].
    destruct Hr as (R1 & R2 & R3 & R4 & R5 & R6). specialize (R5 n En).
    destruct (make_chunk_ok c n addr g Hc N1 N2 N3 R5 R1 R2 R3 R4) as (M1 & M2 & M3 & M4).
    exists (make_chunk c n addr g), addr, g. cbn [chunks cur upd_cur upd_chunks log_event].
    split; [reflexivity|]. split; [reflexivity|]. split; [reflexivity|]. tauto.
  - injection H as <- <-. split; [repeat split|split; reflexivity].
Qed.

Lemma chunk_range_in_granted c ch p sz :
  cfg_ok c -> chunk_geom c ch -> in_chunk c ch p sz -> 0 <= sz ->
  cbase ch <= p /\ p + sz <= cbase ch + cgranted ch.
Proof.
  intros Hc Hg [H1 H2] Hs. pose proof (geom_bounds c Hc ch Hg) as (_ & _ & _ & _ & _ & _ & B1 & B2).
  destruct Hg as (_ & _ & _ & _ & _ & _ & G & _). lia.
Qed.

(* ------------------------------------------------------------ the allocation paths *)
Lemma Forall2_rev_same_geom l l' : Forall2 same_geom l l' -> Forall2 same_geom (rev l) (rev l').
Proof.
  induction 1 as [|a b l l' Hab Hl IH]; cbn; [constructor|].
  apply Forall2_app; [assumption|constructor; [assumption|constructor]].
Qed.

Lemma prev_size_same_geom s s' :
  Forall2 same_geom (chunks s) (chunks s') -> prev_size s' = prev_size s.
Proof.
  intros H. apply Forall2_rev_same_geom in H. unfold prev_size.
  destruct H as [|a b l l' (_ & E & _) _]; [reflexivity|]. rewrite E. reflexivity.
Qed.

Lemma resp_ok_same_geom c s s' size align r :
  Forall2 same_geom (chunks s) (chunks s') -> resp_ok c s size align r -> resp_ok c s' size align r.
Proof.
  intros HF Hr. destruct r as [[addr g]|]; [|exact I].
  destruct Hr as (R1 & R2 & R3 & R4 & R5 & R6). repeat split; try assumption.
  - intros n. rewrite (prev_size_same_geom _ _ HF). apply R5.
  - intros ch Hin. apply In_nth_error in Hin. destruct Hin as [k Hk].
    destruct (Forall2_nth_error_r _ _ _ _ _ HF Hk) as (ch0 & Hk0 & (E1 & _ & _ & E4)).
    rewrite <- E1, <- E4. apply R6. eapply nth_error_In; eassumption.
Qed.

Definition alloc_result_ok (c : cfg) (s s' : arena) (size align : Z) (res : Z + err) : Prop :=
  frame s s' /\ ginv c s' /\
  (forall q sz, 0 <= sz -> placed c s q sz -> placed c s' q sz) /\
  match res with
  | inl p => (align | p) /\ placed c s' p size /\
             (forall q sz, 0 <= sz -> placed c s q sz -> disjoint_rng q sz p size)
  | inr _ => True
  end.

Lemma chunks_disjoint_app c cs ch :
  cfg_ok c -> chunks_disjoint cs ->
  (forall ch0, In ch0 cs -> cbase ch0 + cgranted ch0 <= cbase ch \/ cbase ch + cgranted ch <= cbase ch0) ->
  chunks_disjoint (cs ++ [ch]).
Proof.
  intros Hc Hd Hnew i j a b Hij Ha Hb.
  destruct (Nat.lt_ge_cases i (length cs)) as [Hi|Hi]; destruct (Nat.lt_ge_cases j (length cs)) as [Hj|Hj].
  - rewrite nth_error_app1 in Ha, Hb by assumption. eapply Hd; eassumption.
  - rewrite nth_error_app1 in Ha by assumption. rewrite nth_error_app2 in Hb by assumption.
    destruct (j - length cs)%nat as [|x] eqn:E; cbn in Hb; [|destruct x; discriminate].
    injection Hb as <-. apply Hnew. eapply nth_error_In; eassumption.
  - rewrite nth_error_app1 in Hb by assumption. rewrite nth_error_app2 in Ha by assumption.
    destruct (i - length cs)%nat as [|x] eqn:E; cbn in Ha; [|destruct x; discriminate].
    injection Ha as <-. specialize (Hnew b ltac:(eapply nth_error_In; eassumption)). lia.
  - rewrite nth_error_app2 in Ha, Hb by assumption.
    destruct (i - length cs)%nat as [|x] eqn:E; cbn in Ha; [|destruct x; discriminate].
    destruct (j - length cs)%nat as [|y] eqn:F; cbn in Hb; [|destruct y; discriminate]. lia.
Qed.

(* ranges inside the content of two different chunks do not meet *)
Lemma placed_other_chunk_disjoint c cs i j a b p1 s1 p2 s2 :
  cfg_ok c -> Forall (chunk_ok c) cs -> chunks_disjoint cs -> i <> j ->
  nth_error cs i = Some a -> nth_error cs j = Some b ->
  in_chunk c a p1 s1 -> in_chunk c b p2 s2 -> 0 <= s1 -> 0 <= s2 ->
  disjoint_rng p1 s1 p2 s2.
Proof.
  intros Hc Hok Hd Hij Ha Hb I1 I2 Z1 Z2.
  pose proof (Forall_nth_error _ _ _ _ Hok Ha) as [Ga _].
  pose proof (Forall_nth_error _ _ _ _ Hok Hb) as [Gb _].
  pose proof (chunk_range_in_granted c a p1 s1 Hc Ga I1 Z1).
  pose proof (chunk_range_in_granted c b p2 s2 Hc Gb I2 Z2).
  specialize (Hd i j a b Hij Ha Hb). unfold disjoint_rng. lia.
Qed.

(* geometric core: one successful allocation inside a chunk *)
Lemma chunk_alloc_geom c m ch size align p ch1 :
  cfg_ok c -> chunk_ok c ch -> valid_min_align m -> (m | cpos ch) -> valid_layout size align ->
  chunk_alloc c m ch size align = Some (p, ch1) ->
  chunk_ok c ch1 /\ same_geom ch ch1 /\ (m | cpos ch1) /\ (align | p) /\
  in_chunk c ch1 p size /\ alloc_side c ch1 p size /\
  (forall q sz, 0 <= sz -> in_chunk c ch q sz -> alloc_side c ch q sz ->
     alloc_side c ch1 q sz /\ disjoint_rng q sz p size).
Proof.
  intros Hc Hok Hm Hmp Hl H.
  destruct (chunk_alloc_sound c Hc m ch size align p ch1 Hok Hm Hmp Hl H) as (np & -> & Hap & Hmnp & Hnp & Hside).
  pose proof Hok as [Hg Hpos]. destruct Hl as (_ & Hs0 & _).
  split; [exact (set_pos_ok c ch np Hg Hnp)|]. split; [apply same_geom_set_pos|].
  split; [exact Hmnp|]. split; [exact Hap|].
  unfold in_chunk, alloc_side, disjoint_rng.
  change (content_start c (set_pos ch np)) with (content_start c ch).
  change (content_end c (set_pos ch np)) with (content_end c ch).
  cbn [set_pos cpos].
  destruct (up c); destruct Hside as [S1 S2].
  - split; [lia|]. split; [lia|]. intros q sz Hsz [I1 I2] Ha. split; [intros Hp; specialize (Ha Hp); lia|].
    destruct (Z_le_gt_dec sz 0); [lia|]. specialize (Ha ltac:(lia)). lia.
  - subst np. split; [lia|]. split; [lia|]. intros q sz Hsz [I1 I2] Ha. split; [intros Hp; specialize (Ha Hp); lia|].
    destruct (Z_le_gt_dec sz 0); [lia|]. specialize (Ha ltac:(lia)). lia.
Qed.

Lemma raw_alloc_fast c s size align i ch p ch1 :
  cfg_ok c -> ginv c s -> valid_layout size align ->
  cur s = Cur i -> nth_error (chunks s) i = Some ch ->
  chunk_alloc c (malign s) ch size align = Some (p, ch1) ->
  alloc_result_ok c s (upd_chunks s (set_nth (chunks s) i ch1)) size align (inl p).
Proof.
  intros Hc (Hok & Hd & Hm & Hcur) Hl Ec En Ef. rewrite Ec in Hcur.
  destruct Hcur as (ch' & En' & Hmp). rewrite En in En'. injection En' as <-.
  pose proof (Forall_nth_error _ _ _ _ Hok En) as Hchok.
  pose proof (nth_error_some_lt _ _ _ En) as Hlt.
  destruct (chunk_alloc_geom c _ ch size align p ch1 Hc Hchok Hm Hmp Hl Ef)
    as (G1 & G2 & G3 & G4 & G5 & G6 & G7).
  assert (HF : Forall2 same_geom (chunks s) (set_nth (chunks s) i ch1)).
  { eapply Forall2_set_nth; [apply Forall2_same_geom_refl|exact En|exact G2]. }
  split; [repeat split|]. split.
  { (* ginv *)
    unfold ginv. cbn [chunks cur upd_chunks malign aligns]. split; [apply Forall_set_nth; assumption|].
    split; [eapply chunks_disjoint_same_geom; eassumption|]. split; [exact Hm|].
    rewrite Ec. exists ch1. split; [apply nth_error_set_nth_eq; assumption|exact G3]. }
  assert (Hpl : forall q sz, 0 <= sz -> placed c s q sz ->
            placed c (upd_chunks s (set_nth (chunks s) i ch1)) q sz /\ disjoint_rng q sz p size).
  { intros q sz Hsz (k & chk & Hk & Hin & Hside). rewrite Ec in Hside. destruct Hside as [Hki Hks].
    destruct (Nat.eq_dec k i) as [->|Hne].
    - rewrite En in Hk. injection Hk as <-. destruct (G7 q sz Hsz Hin (Hks eq_refl)) as [S1 S2].
      split; [|exact S2]. exists i, ch1. cbn [chunks cur upd_chunks]. rewrite Ec.
      split; [apply nth_error_set_nth_eq; assumption|]. split.
      + destruct (same_geom_content c _ _ G2) as [E1 E2]. unfold in_chunk in *. rewrite <- E1, <- E2. exact Hin.
      + split; [lia|intros _; exact S1].
    - split.
      + exists k, chk. cbn [chunks cur upd_chunks]. rewrite Ec.
        split; [rewrite nth_error_set_nth_neq by congruence; exact Hk|]. split; [exact Hin|].
        split; [exact Hki|intros E; congruence].
      + destruct Hl as (_ & Hs0 & _).
        assert (Hin1 : in_chunk c ch p size).
        { destruct (same_geom_content c _ _ G2) as [E1 E2]. unfold in_chunk in *. rewrite E1, E2. exact G5. }
        eapply (placed_other_chunk_disjoint c (chunks s) k i); eassumption. }
  split; [intros q sz Hsz Hq; apply (Hpl q sz Hsz Hq)|].
  split; [exact G4|]. split.
  - exists i, ch1. cbn [chunks cur upd_chunks]. rewrite Ec.
    split; [apply nth_error_set_nth_eq; assumption|]. split; [exact G5|]. split; [lia|intros _; exact G6].
  - intros q sz Hsz Hq; apply (Hpl q sz Hsz Hq).
Qed.

(* allocation in a chunk that holds no live range yet (a later chunk or a new one) *)
Lemma alloc_on_fresh c s s1 k ch size align s' res :
  cfg_ok c -> valid_layout size align -> frame s s1 ->
  Forall (chunk_ok c) (chunks s1) -> chunks_disjoint (chunks s1) -> valid_min_align (malign s1) ->
  cur s1 = Cur k -> nth_error (chunks s1) k = Some ch -> (malign s1 | cpos ch) ->
  (forall q sz, 0 <= sz -> placed c s q sz ->
     exists k0 chk, (k0 < k)%nat /\ nth_error (chunks s1) k0 = Some chk /\ in_chunk c chk q sz) ->
  match chunk_alloc c (malign s1) ch size align with
  | Some (p, ch1) => (upd_chunks s1 (set_nth (chunks s1) k ch1), inl p)
  | None => (s1, inr ErrOverflow)
  end = (s', res) ->
  alloc_result_ok c s s' size align res.
Proof.
  intros Hc Hl Hfr Hok Hd Hm Ec En Hmp Hold H.
  pose proof (Forall_nth_error _ _ _ _ Hok En) as Hchok.
  pose proof (nth_error_some_lt _ _ _ En) as Hlt.
  destruct (chunk_alloc c (malign s1) ch size align) as [[p ch1]|] eqn:Ef.
  - injection H as <- <-.
    destruct (chunk_alloc_geom c _ ch size align p ch1 Hc Hchok Hm Hmp Hl Ef)
      as (G1 & G2 & G3 & G4 & G5 & G6 & G7).
    assert (HF : Forall2 same_geom (chunks s1) (set_nth (chunks s1) k ch1)).
    { eapply Forall2_set_nth; [apply Forall2_same_geom_refl|exact En|exact G2]. }
    split; [exact Hfr|]. split.
    { unfold ginv. cbn [chunks cur upd_chunks malign aligns]. split; [apply Forall_set_nth; assumption|].
      split; [eapply chunks_disjoint_same_geom; eassumption|]. split; [exact Hm|].
      rewrite Ec. exists ch1. split; [apply nth_error_set_nth_eq; assumption|exact G3]. }
    assert (Hin1 : in_chunk c ch p size).
    { destruct (same_geom_content c _ _ G2) as [E1 E2]. unfold in_chunk in *. rewrite E1, E2. exact G5. }
    split.
    { intros q sz Hsz Hq. destruct (Hold q sz Hsz Hq) as (k0 & chk & Hk0 & Hnk & Hin).
      exists k0, chk. cbn [chunks cur upd_chunks]. rewrite Ec.
      split; [rewrite nth_error_set_nth_neq by lia; exact Hnk|]. split; [exact Hin|]. split; lia. }
    split; [exact G4|]. split.
    { exists k, ch1. cbn [chunks cur upd_chunks]. rewrite Ec.
      split; [apply nth_error_set_nth_eq; assumption|]. split; [exact G5|]. split; [lia|intros _; exact G6]. }
    intros q sz Hsz Hq. destruct (Hold q sz Hsz Hq) as (k0 & chk & Hk0 & Hnk & Hin).
    destruct Hl as (_ & Hs0 & _).
    eapply (placed_other_chunk_disjoint c (chunks s1) k0 k); try eassumption. lia.
  - injection H as <- <-. split; [exact Hfr|]. split.
    { unfold ginv. split; [assumption|]. split; [assumption|]. split; [assumption|].
      rewrite Ec. exists ch. split; assumption. }
    split; [|exact I].
    intros q sz Hsz Hq. destruct (Hold q sz Hsz Hq) as (k0 & chk & Hk0 & Hnk & Hin).
    exists k0, chk. rewrite Ec. split; [exact Hnk|]. split; [exact Hin|]. split; lia.
Qed.

Lemma in_another_chunk_post c s size align r s' res :
  cfg_ok c -> ginv c s -> valid_layout size align -> resp_ok c s size align r ->
  in_another_chunk c s (cur s) size align (fun ch => chunk_alloc c (malign s) ch size align) r = (s', res) ->
  alloc_result_ok c s s' size align res.
Proof.
  intros Hc Hg Hl Hr H. pose proof Hg as (Hok & Hd & Hm & Hcur).
  unfold in_another_chunk in H. destruct (cur s) as [i| |] eqn:Ec; [| |contradiction].
  - (* a chunk is current: walk the later chunks, then append *)
    destruct Hcur as (chi & Eni & Hmpi).
    pose proof (nth_error_some_lt _ _ _ Eni) as Hilt.
    destruct (walk_next c (fun ch => chunk_alloc c (malign s) ch size align) (chunks s) i (length (chunks s)))
      as [[cs j] wres] eqn:Ew.
    assert (HfA : forall ch p ch1, chunk_ok c ch -> (malign s | cpos ch) ->
              chunk_alloc c (malign s) ch size align = Some (p, ch1) ->
              chunk_ok c ch1 /\ same_geom ch ch1 /\ (malign s | cpos ch1) /\
              ((align | p) /\ in_chunk c ch1 p size /\ alloc_side c ch1 p size)).
    { intros ch p ch1 Hcok Hcm Hca.
      destruct (chunk_alloc_geom c _ ch size align p ch1 Hc Hcok Hm Hcm Hl Hca) as (G1 & G2 & G3 & G4 & G5 & G6 & _).
      split; [exact G1|]. split; [exact G2|]. split; [exact G3|]. split; [exact G4|]. split; [exact G5|exact G6]. }
    destruct (walk_next_spec c Hc (malign s) Hm Z (fun ch => chunk_alloc c (malign s) ch size align)
                (fun ch1 p => (align | p) /\ in_chunk c ch1 p size /\ alloc_side c ch1 p size) HfA
                _ _ _ _ _ _ Hok Hilt Ew)
      as (W1 & W2 & W3 & W4 & W5 & W6 & W7 & W8).
    pose proof (Forall2_length _ _ _ W2) as Hlen.
    (* where the old ranges are, in terms of the walked chunk list *)
    assert (Hold : forall q sz, 0 <= sz -> placed c s q sz ->
              exists k0 chk, (k0 <= i)%nat /\ nth_error cs k0 = Some chk /\ in_chunk c chk q sz /\
                             (k0 = i -> alloc_side c chk q sz)).
    { intros q sz Hsz (k0 & chk & Hk0 & Hin & Hside). rewrite Ec in Hside. destruct Hside as [Hle Hs].
      exists k0, chk. split; [exact Hle|]. split; [rewrite W4 by exact Hle; exact Hk0|]. split; assumption. }
    assert (Hcurj : exists chj, nth_error cs j = Some chj /\ (malign s | cpos chj)).
    { destruct (Nat.eq_dec j i) as [->|Hne].
      - exists chi. split; [rewrite W4 by lia; exact Eni|exact Hmpi].
      - apply W6. lia. }
    assert (Hg0 : ginv c (upd_cur (upd_chunks s cs) (Cur j))).
    { unfold ginv. cbn [chunks cur upd_cur upd_chunks malign aligns].
      split; [exact W1|]. split; [eapply chunks_disjoint_same_geom; eassumption|]. split; [exact Hm|exact Hcurj]. }
    assert (Hpl0 : forall q sz, 0 <= sz -> placed c s q sz -> placed c (upd_cur (upd_chunks s cs) (Cur j)) q sz).
    { intros q sz Hsz Hq. destruct (Hold q sz Hsz Hq) as (k0 & chk & Hle & Hk0 & Hin & Hs).
      exists k0, chk. cbn [chunks cur upd_cur upd_chunks]. split; [exact Hk0|]. split; [exact Hin|].
      split; [lia|]. intros ->. apply Hs. lia. }
    destruct wres as [p|].
    + injection H as <- <-.
      destruct (W8 p eq_refl) as (chj & Ej & Hap & Hin & Hside).
      assert (Hij : (i < j)%nat) by (destruct (Nat.eq_dec j i) as [E|]; [specialize (W7 E); discriminate|lia]).
      split; [repeat split|]. split; [exact Hg0|]. split; [exact Hpl0|].
      split; [exact Hap|]. split.
      * exists j, chj. cbn [chunks cur upd_cur upd_chunks]. split; [exact Ej|]. split; [exact Hin|].
        split; [lia|intros _; exact Hside].
      * intros q sz Hsz Hq. destruct (Hold q sz Hsz Hq) as (k0 & chk & Hle & Hk0 & Hinq & _).
        destruct Hl as (_ & Hs0 & _).
        eapply (placed_other_chunk_disjoint c cs k0 j); try eassumption.
        -- eapply chunks_disjoint_same_geom; eassumption.
        -- lia.
    + set (s0 := upd_cur (upd_chunks s cs) (Cur j)) in *.
      assert (Hr0 : resp_ok c s0 size align r).
      { eapply resp_ok_same_geom; [|exact Hr]. exact W2. }
      destruct (grow_arena c s0 size align r) as [s1 [e|]] eqn:Eg.
      * injection H as <- <-.
        destruct (grow_arena_spec c s0 size align r s1 (Some e) Hc Hr0 Eg) as (Hfr & Ech & Ecu).
        cbn [chunks upd_cur upd_chunks s0] in Ech.
        split; [eapply frame_trans; [|eapply frame_trans; [exact Hfr|]]; repeat split|].
        assert (Hal : malign s1 = malign s) by (unfold malign; destruct Hfr as (_ & _ & _ & -> & _); reflexivity).
        split.
        { unfold ginv. cbn [chunks cur upd_cur]. change (malign (upd_cur s1 (Cur i))) with (malign s1). rewrite Ech, Hal.
          split; [exact W1|]. split; [eapply chunks_disjoint_same_geom; eassumption|]. split; [exact Hm|].
          exists chi. split; [rewrite W4 by lia; exact Eni|exact Hmpi]. }
        split; [|exact I].
        intros q sz Hsz Hq. destruct (Hold q sz Hsz Hq) as (k0 & chk & Hle & Hk0 & Hin & Hs).
        exists k0, chk. cbn [chunks cur upd_cur]. rewrite Ech. split; [exact Hk0|]. split; [exact Hin|].
        split; [exact Hle|exact Hs].
      * destruct (grow_arena_spec c s0 size align r s1 None Hc Hr0 Eg)
          as (Hfr & ch & addr & g & -> & Ech & Ecu & Hchok & Hc16 & Ecb & Ecg).
        cbn [chunks upd_cur upd_chunks s0] in Ech, Ecu.
        assert (Hal : malign s1 = malign s) by (unfold malign; destruct Hfr as (_ & _ & _ & -> & _); reflexivity).
        rewrite Ecu in H. rewrite Ech in H at 1. rewrite nth_error_app_last in H.
        rewrite <- Hal in H.
        assert (F1 : frame s s1) by (eapply frame_trans; [|exact Hfr]; repeat split).
        assert (F2 : Forall (chunk_ok c) (chunks s1)).
        { rewrite Ech. apply Forall_app. split; [exact W1|constructor; [exact Hchok|constructor]]. }
        assert (F3 : chunks_disjoint (chunks s1)).
        { rewrite Ech. apply (chunks_disjoint_app c); [exact Hc|eapply chunks_disjoint_same_geom; eassumption|].
          intros ch0 Hin0. destruct Hr0 as (_ & _ & _ & _ & _ & R6).
          specialize (R6 ch0 Hin0). rewrite Ecb, Ecg. lia. }
        assert (F4 : valid_min_align (malign s1)) by (rewrite Hal; exact Hm).
        assert (F5 : nth_error (chunks s1) (length cs) = Some ch) by (rewrite Ech; apply nth_error_app_last).
        assert (F6 : (malign s1 | cpos ch)).
        { rewrite Hal. eapply Z.divide_trans; [apply min_align_div16; exact Hm|exact Hc16]. }
        assert (F7 : forall q sz, 0 <= sz -> placed c s q sz ->
                  exists k0 chk, (k0 < length cs)%nat /\ nth_error (chunks s1) k0 = Some chk /\ in_chunk c chk q sz).
        { intros q sz Hsz Hq. destruct (Hold q sz Hsz Hq) as (k0 & chk & Hle & Hk0 & Hinq & _).
          exists k0, chk. split; [lia|]. split; [rewrite Ech; rewrite nth_error_app1 by lia; exact Hk0|exact Hinq]. }
        exact (alloc_on_fresh c s s1 (length cs) ch size align s' res Hc Hl F1 F2 F3 F4 Ecu F5 F6 F7 H).
  - (* unallocated: create the first chunk *)
    assert (Hno : forall q sz, ~ placed c s q sz).
    { intros q sz (k0 & chk & _ & _ & Hside). rewrite Ec in Hside. exact Hside. }
    destruct (grow_arena c s size align r) as [s1 [e|]] eqn:Eg.
    + injection H as <- <-.
      destruct (grow_arena_spec c s size align r s1 (Some e) Hc Hr Eg) as (Hfr & Ech & Ecu).
      assert (Hal : malign s1 = malign s) by (unfold malign; destruct Hfr as (_ & _ & _ & -> & _); reflexivity).
      split; [exact Hfr|]. split.
      { unfold ginv. rewrite Ech, Ecu, Hal, Ec. split; [exact Hok|]. split; [exact Hd|]. split; [exact Hm|exact Hcur]. }
      split; [|exact I]. intros q sz _ Hq. exfalso. exact (Hno q sz Hq).
    + destruct (grow_arena_spec c s size align r s1 None Hc Hr Eg)
        as (Hfr & ch & addr & g & -> & Ech & Ecu & Hchok & Hc16 & Ecb & Ecg).
      assert (Hal : malign s1 = malign s) by (unfold malign; destruct Hfr as (_ & _ & _ & -> & _); reflexivity).
      rewrite Hcur in Ech, Ecu. cbn [app length] in Ech, Ecu.
      rewrite Ecu in H. rewrite Ech in H at 1. cbn [nth_error] in H. rewrite <- Hal in H.
      assert (F2 : Forall (chunk_ok c) (chunks s1)) by (rewrite Ech; constructor; [exact Hchok|constructor]).
      assert (F3 : chunks_disjoint (chunks s1)).
      { rewrite Ech. intros i j a b Hij Ha Hb. destruct i as [|[|i]], j as [|[|j]]; cbn in Ha, Hb; try discriminate; congruence. }
      assert (F4 : valid_min_align (malign s1)) by (rewrite Hal; exact Hm).
      assert (F5 : nth_error (chunks s1) 0%nat = Some ch) by (rewrite Ech; reflexivity).
      assert (F6 : (malign s1 | cpos ch)).
      { rewrite Hal. eapply Z.divide_trans; [apply min_align_div16; exact Hm|exact Hc16]. }
      assert (F7 : forall q sz, 0 <= sz -> placed c s q sz ->
                exists k0 chk, (k0 < 0)%nat /\ nth_error (chunks s1) k0 = Some chk /\ in_chunk c chk q sz).
      { intros q sz _ Hq. exfalso. exact (Hno q sz Hq). }
      exact (alloc_on_fresh c s s1 0%nat ch size align s' res Hc Hl Hfr F2 F3 F4 Ecu F5 F6 F7 H).
Qed.

Theorem raw_alloc_post c s size align r s' res :
  cfg_ok c -> ginv c s -> valid_layout size align -> resp_ok c s size align r ->
  raw_alloc c s size align r = (s', res) ->
  alloc_result_ok c s s' size align res.
Proof.
  intros Hc Hg Hl Hr H. unfold raw_alloc in H.
  destruct (cur s) as [i| |] eqn:Ec.
  - destruct (nth_error (chunks s) i) as [ch|] eqn:En.
    + destruct (chunk_alloc c (malign s) ch size align) as [[p ch1]|] eqn:Ef.
      * injection H as <- <-. eapply raw_alloc_fast; eassumption.
      * rewrite <- Ec in H. eapply in_another_chunk_post; eassumption.
    + exfalso. destruct Hg as (_ & _ & _ & Hcur). rewrite Ec in Hcur. destruct Hcur as (ch & E & _). congruence.
  - rewrite <- Ec in H. eapply in_another_chunk_post; eassumption.
  - rewrite <- Ec in H. eapply in_another_chunk_post; eassumption.
Qed.

Theorem raw_alloc_slow_post c s size align r s' res :
  cfg_ok c -> ginv c s -> valid_layout size align -> resp_ok c s size align r ->
  raw_alloc_slow c s size align r = (s', res) ->
  alloc_result_ok c s s' size align res.
Proof. intros Hc Hg Hl Hr H. unfold raw_alloc_slow in H. eapply in_another_chunk_post; eassumption. Qed.

(* ------------------------------------------------------------ ghost list bookkeeping *)
Lemma placed_ext c s s' p sz :
  chunks s' = chunks s -> cur s' = cur s -> placed c s p sz -> placed c s' p sz.
Proof. intros E1 E2 H. unfold placed in *. rewrite E1, E2. exact H. Qed.

Lemma ginv_ext c s s' :
  chunks s' = chunks s -> cur s' = cur s -> aligns s' = aligns s -> ginv c s -> ginv c s'.
Proof. intros E1 E2 E3 H. unfold ginv, malign in *. rewrite E1, E2, E3. exact H. Qed.

Lemma block_ok_ext c s s' b :
  chunks s' = chunks s -> cur s' = cur s -> block_ok c s b -> block_ok c s' b.
Proof. intros E1 E2 (A & B & C). repeat split; try assumption. eapply placed_ext; eassumption. Qed.

Lemma find_block_spec s id blk : find_block s id = Some blk -> In blk (live s) /\ bid blk = id.
Proof.
  unfold find_block. intros H. apply find_some in H. destruct H as [H1 H2].
  split; [exact H1|]. apply Nat.eqb_eq. exact H2.
Qed.

Lemma ForallOrdPairs_filter {A} (R : A -> A -> Prop) (f : A -> bool) l :
  ForallOrdPairs R l -> ForallOrdPairs R (filter f l).
Proof.
  induction 1 as [|a l Ha Hl IH]; cbn; [constructor|].
  destruct (f a); [|exact IH]. constructor; [|exact IH].
  rewrite Forall_forall in *. intros x Hx. apply filter_In in Hx. apply Ha. tauto.
Qed.

Lemma Forall_filter {A} (P : A -> Prop) (f : A -> bool) l : Forall P l -> Forall P (filter f l).
Proof. rewrite !Forall_forall. intros H x Hx. apply filter_In in Hx. apply H. tauto. Qed.

Lemma NoDup_map_filter {A B} (g : A -> B) (f : A -> bool) l : NoDup (map g l) -> NoDup (map g (filter f l)).
Proof.
  induction l as [|a l IH]; cbn; intros H; [constructor|]. inversion H as [|x xs Hn Hd]; subst.
  destruct (f a); cbn; [constructor|]; auto.
  intros Hin. apply Hn. apply in_map_iff in Hin. destruct Hin as (y & E & Hy).
  apply in_map_iff. exists y. split; [exact E|]. apply filter_In in Hy. tauto.
Qed.

Lemma ids_ok_filter s f : ids_ok s -> ids_ok (upd_live s (filter f (live s))).
Proof.
  intros [H1 H2]. unfold ids_ok. cbn [live upd_live nextid]. split.
  - apply NoDup_map_filter. exact H1.
  - apply Forall_filter. exact H2.
Qed.

Lemma disjoint_rng_sym p1 s1 p2 s2 : disjoint_rng p1 s1 p2 s2 -> disjoint_rng p2 s2 p1 s1.
Proof. unfold disjoint_rng. lia. Qed.

(* the invariant over a state whose ghost list was filtered *)
Lemma inv_filter c s f : inv c s -> inv c (upd_live s (filter f (live s))).
Proof.
  intros (Hg & Hb & Hd & Hi). split; [exact Hg|]. split.
  - cbn [live upd_live]. apply Forall_filter. exact Hb.
  - split; [cbn [live upd_live]; apply ForallOrdPairs_filter; exact Hd|apply ids_ok_filter; exact Hi].
Qed.

(* adding a fresh, well placed, disjoint block *)
Lemma inv_add_block c s p sz al s' id :
  ginv c s -> Forall (block_ok c s) (live s) -> ForallOrdPairs disjoint2 (live s) -> ids_ok s ->
  0 <= sz -> (al | p) -> placed c s p sz ->
  (forall b, In b (live s) -> disjoint_rng (bptr b) (bsize b) p sz) ->
  add_block s p sz al = (s', id) ->
  inv c s'.
Proof.
  intros Hg Hb Hd [Hn Hlt] Hsz Hal Hpl Hdis H. unfold add_block in H. injection H as <- <-.
  split; [exact Hg|]. split.
  - cbn [live bump_id upd_live]. constructor; [|exact Hb].
    repeat split; cbn [bsize bptr balign]; assumption.
  - split.
    + cbn [live bump_id upd_live]. constructor; [|exact Hd].
      rewrite Forall_forall. intros b Hin. unfold disjoint2. cbn [bptr bsize].
      apply disjoint_rng_sym. apply Hdis. exact Hin.
    + unfold ids_ok. cbn [live bump_id upd_live nextid map bid]. split.
      * constructor; [|exact Hn]. intros Hin. apply in_map_iff in Hin. destruct Hin as (b & E & Hb').
        rewrite Forall_forall in Hlt. specialize (Hlt b Hb'). cbn in E. lia.
      * constructor; [cbn; lia|]. rewrite Forall_forall in *. intros b Hb'. specialize (Hlt b Hb'). cbn. lia.
Qed.

(* ------------------------------------------------------------ moving the bump position *)
Lemma cur_chunk_spec s ch : cur_chunk s = Some ch -> exists i, cur s = Cur i /\ nth_error (chunks s) i = Some ch.
Proof. unfold cur_chunk. destruct (cur s) as [i| |]; try discriminate. intros H. exists i. split; [reflexivity|exact H]. Qed.

Lemma set_cur_pos_inv c s i ch np :
  cfg_ok c -> inv c s -> cur s = Cur i -> nth_error (chunks s) i = Some ch ->
  content_start c ch <= np <= content_end c ch -> (malign s | np) ->
  (forall b, In b (live s) -> 0 < bsize b -> in_chunk c ch (bptr b) (bsize b) ->
     if up c then bptr b + bsize b <= np else np <= bptr b) ->
  inv c (set_cur_pos s np).
Proof.
  intros Hc ((Hok & Hd & Hm & Hcur) & Hb & Hdis & Hids) Ec En Hnp Hmnp Hside.
  pose proof (Forall_nth_error _ _ _ _ Hok En) as [Hgeo _].
  pose proof (nth_error_some_lt _ _ _ En) as Hlt.
  unfold set_cur_pos. rewrite Ec, En.
  assert (HF : Forall2 same_geom (chunks s) (set_nth (chunks s) i (set_pos ch np))).
  { eapply Forall2_set_nth; [apply Forall2_same_geom_refl|exact En|apply same_geom_set_pos]. }
  split.
  { unfold ginv. cbn [chunks cur upd_chunks malign aligns].
    split; [apply Forall_set_nth; [exact Hok|exact (set_pos_ok c ch np Hgeo Hnp)]|].
    split; [eapply chunks_disjoint_same_geom; eassumption|]. split; [exact Hm|].
    rewrite Ec. exists (set_pos ch np). split; [apply nth_error_set_nth_eq; exact Hlt|exact Hmnp]. }
  split; [|split; [exact Hdis|exact Hids]].
  cbn [live upd_chunks]. rewrite Forall_forall in *. intros b Hin.
  destruct (Hb b Hin) as (B1 & B2 & (k & chk & Hk & Hinc & Hs)). rewrite Ec in Hs. destruct Hs as [Hki Hks].
  split; [exact B1|]. split; [exact B2|].
  destruct (Nat.eq_dec k i) as [->|Hne].
  - rewrite En in Hk. injection Hk as <-.
    exists i, (set_pos ch np). cbn [chunks cur upd_chunks]. rewrite Ec.
    split; [apply nth_error_set_nth_eq; exact Hlt|]. split; [exact Hinc|]. split; [lia|].
    intros _ Hpos. unfold alloc_side. cbn [set_pos cpos]. apply Hside; assumption.
  - exists k, chk. cbn [chunks cur upd_chunks]. rewrite Ec.
    split; [rewrite nth_error_set_nth_neq by congruence; exact Hk|]. split; [exact Hinc|].
    split; [exact Hki|intros E; congruence].
Qed.

(* is_last never fires for a block of another chunk *)
Lemma is_last_in_cur c s i ch p sz :
  cfg_ok c -> ginv c s -> cur s = Cur i -> nth_error (chunks s) i = Some ch ->
  0 <= sz -> placed c s p sz ->
  (if up c then p + sz = cpos ch else p = cpos ch) ->
  in_chunk c ch p sz.
Proof.
  intros Hc (Hok & Hd & Hm & Hcur) Ec En Hsz (k & chk & Hk & Hin & Hs) Hlast.
  rewrite Ec in Hs. destruct Hs as [Hki _].
  destruct (Nat.eq_dec k i) as [->|Hne]; [rewrite En in Hk; injection Hk as <-; exact Hin|exfalso].
  pose proof (Forall_nth_error _ _ _ _ Hok En) as [Gi Pi].
  pose proof (Forall_nth_error _ _ _ _ Hok Hk) as [Gk _].
  pose proof (geom_bounds c Hc ch Gi) as (_ & _ & _ & _ & _ & _ & Bi1 & Bi2).
  pose proof (geom_bounds c Hc chk Gk) as (_ & _ & _ & _ & _ & _ & Bk1 & Bk2).
  specialize (Hd k i chk ch Hne Hk En).
  destruct Gi as (_ & _ & _ & _ & Hhsi & _ & Gri & _). destruct Gk as (_ & _ & _ & _ & Hhsk & _ & Grk & _).
  destruct Hin as [I1 I2]. destruct Hc as [(_ & _ & _ & _ & H32 & _) _].
  unfold content_start, content_end in *. destruct (up c); lia.
Qed.

(* ------------------------------------------------------------ contracts *)
(* a checkpoint the caller may still reset to (the documented safety contract of reset_to;
   ArenaScope.v shows that checkpoints taken by OCheckpoint satisfy it until a reset crosses them) *)
Definition cp_valid (c : cfg) (s : arena) (cp : checkpoint) : Prop :=
  match cp_state cp with
  | Cur j => exists ch, nth_error (chunks s) j = Some ch /\
      content_start c ch <= cp_addr cp <= content_end c ch /\ (malign s | cp_addr cp) /\
      (exists i, cur s = Cur i /\ (j <= i)%nat) /\
      (forall b, In b (live s) -> (born b <= cp_epoch cp)%nat ->
         exists k chk, nth_error (chunks s) k = Some chk /\ in_chunk c chk (bptr b) (bsize b) /\ (k <= j)%nat /\
           (k = j -> 0 < bsize b -> if up c then bptr b + bsize b <= cp_addr cp else cp_addr cp <= bptr b))
  | Unalloc => guaranteed c = false /\ forall b, In b (live s) -> (born b <= cp_epoch cp)%nat -> False
  | Claimed => False
  end.

Definition op_ok (c : cfg) (s : arena) (o : op) : Prop :=
  match o with
  | OAlloc _ _ size align _ => valid_layout size align
  | OTryErr _ _ size align => valid_layout size align
  | OGrow _ _ b nsize nalign _ =>
    valid_layout nsize nalign /\ forall blk, find_block s b = Some blk -> bsize blk <= nsize
  | OShrink _ _ b nsize nalign =>
    valid_layout nsize nalign /\ forall blk, find_block s b = Some blk -> nsize <= bsize blk
  | OResetTo _ cp => cp_valid c s cp
  | OReserve _ n => 0 <= n
  | OReset | OResetToStart | ODrop => depth s = 0%nat
  | OUnclaim => (0 < depth s)%nat
  | _ => True
  end.

(* the layout for which an operation may ask the base allocator for a chunk *)
Definition op_layout (c : cfg) (s : arena) (o : op) : option (Z * Z) :=
  match o with
  | OAlloc _ _ size align _ => Some (size, align)
  | OGrow _ _ _ nsize nalign _ => Some (nsize, nalign)
  | OShrink _ _ _ nsize nalign => Some (nsize, nalign)
  | OTryErr _ _ size align => Some (size, align)
  | OReserve _ n =>
    match cur_chunk s with
    | Some ch => Some (n - (remaining_in c ch + sumZ (map (capacity c) (chunks_after s))), 1)
    | None => Some (n, 1)
    end
  | _ => None
  end.

Definition op_resp_ok (c : cfg) (s : arena) (o : op) (r : resp) : Prop :=
  match op_layout c s o with
  | Some (sz, al) => resp_ok c s sz al r
  | None => True
  end.

Lemma inv_ext c s s' :
  chunks s' = chunks s -> cur s' = cur s -> aligns s' = aligns s -> live s' = live s ->
  nextid s' = nextid s -> inv c s -> inv c s'.
Proof.
  intros E1 E2 E3 E4 E5 (Hg & Hb & Hd & Hi). split; [eapply ginv_ext; eassumption|].
  rewrite E4. split.
  - rewrite Forall_forall in *. intros b Hin. eapply block_ok_ext; [exact E1|exact E2|]. apply Hb. exact Hin.
  - split; [exact Hd|]. unfold ids_ok in *. rewrite E4, E5. exact Hi.
Qed.

Lemma inv_tick c s : inv c s -> inv c (tick s).
Proof. apply inv_ext; reflexivity. Qed.

Lemma resp_ok_ext c s s' size align r :
  chunks s' = chunks s -> resp_ok c s size align r -> resp_ok c s' size align r.
Proof.
  intros E H. eapply resp_ok_same_geom; [|exact H]. rewrite E. apply Forall2_same_geom_refl.
Qed.

Lemma inv_no_live_unalloc c s : inv c s -> (forall i, cur s <> Cur i) -> live s = [].
Proof.
  intros (_ & Hb & _) Hn. destruct (live s) as [|b l]; [reflexivity|exfalso].
  inversion Hb as [|x xs (_ & _ & (k & chk & _ & _ & Hs)) _]; subst.
  destruct (cur s) as [i| |]; [apply (Hn i); reflexivity|exact Hs|exact Hs].
Qed.

(* ------------------------------------------------------------ OAlloc *)
Lemma step_inv_alloc c s0 h ws size align zeroed r :
  cfg_ok c -> inv c s0 -> valid_layout size align -> resp_ok c s0 size align r ->
  inv c (fst (step c s0 (OAlloc h ws size align zeroed) r)).
Proof.
  intros Hc Hinv Hl Hr. apply inv_tick in Hinv.
  assert (Hr' : resp_ok c (tick s0) size align r) by (eapply resp_ok_ext; [|exact Hr]; reflexivity).
  cbn [step]. set (s := tick s0) in *.
  destruct (negb (is_top s h)); [exact Hinv|].
  destruct (raw_alloc c s size align r) as [s1 [p|e]] eqn:Ea.
  - destruct (raw_alloc_post c s size align r s1 (inl p) Hc (proj1 Hinv) Hl Hr' Ea)
      as ((F1 & F2 & F3 & F4 & F5 & F6) & Hg1 & Hpl & Hap & Hpp & Hdisj).
    destruct Hinv as (Hg & Hb & Hd & Hi).
    set (s2 := if zeroed then zero_fill s1 p size else s1).
    assert (E2 : chunks s2 = chunks s1 /\ cur s2 = cur s1 /\ aligns s2 = aligns s1 /\ live s2 = live s1 /\ nextid s2 = nextid s1).
    { unfold s2. destruct zeroed; repeat split. }
    destruct E2 as (E21 & E22 & E23 & E24 & E25).
    destruct (add_block s2 p size align) as [s3 id] eqn:Eadd. cbn [fst].
    destruct Hl as (Hl1 & Hs0 & Hl3).
    eapply (inv_add_block c s2 p size align s3 id).
    + eapply ginv_ext; eassumption.
    + rewrite E24, F1. rewrite Forall_forall in *. intros b Hin.
      destruct (Hb b Hin) as (B1 & B2 & B3). repeat split; try assumption.
      eapply placed_ext; [exact E21|exact E22|]. apply Hpl; assumption.
    + rewrite E24, F1. exact Hd.
    + unfold ids_ok in *. rewrite E24, E25, F1, F6. exact Hi.
    + exact Hs0.
    + exact Hap.
    + eapply placed_ext; [exact E21|exact E22|exact Hpp].
    + rewrite E24, F1. intros b Hin. rewrite Forall_forall in Hb. destruct (Hb b Hin) as (B1 & _ & B3).
      apply Hdisj; assumption.
    + exact Eadd.
  - cbn [fst].
    destruct (raw_alloc_post c s size align r s1 (inr e) Hc (proj1 Hinv) Hl Hr' Ea)
      as ((F1 & F2 & F3 & F4 & F5 & F6) & Hg1 & Hpl & _).
    destruct Hinv as (Hg & Hb & Hd & Hi).
    split; [exact Hg1|]. rewrite F1. split.
    + rewrite Forall_forall in *. intros b Hin. destruct (Hb b Hin) as (B1 & B2 & B3).
      repeat split; try assumption. apply Hpl; assumption.
    + split; [exact Hd|]. unfold ids_ok in *. rewrite F1, F6. exact Hi.
Qed.

(* ------------------------------------------------------------ ODealloc *)
(* reclaiming the last block: the position moves back to (the aligned) start of the block *)
Lemma dealloc_last_inv c s p sz :
  cfg_ok c -> inv c s -> 0 <= sz -> placed c s p sz ->
  (forall b, In b (live s) -> disjoint_rng (bptr b) (bsize b) p sz) ->
  is_last c s p sz = true ->
  inv c (dealloc_assume_last c s p sz).
Proof.
  intros Hc Hinv Hsz Hpl Hdis Hlast. unfold dealloc_assume_last.
  destruct (negb (deallocates c)); [exact Hinv|].
  unfold is_last in Hlast. destruct (cur_chunk s) as [ch|] eqn:Ecc; [|discriminate].
  destruct (cur_chunk_spec s ch Ecc) as (i & Ec & En).
  pose proof Hinv as ((Hok & Hd & Hm & Hcur) & _).
  rewrite Ec in Hcur. destruct Hcur as (ch' & En' & Hmp). rewrite En in En'. injection En' as <-.
  pose proof (Forall_nth_error _ _ _ _ Hok En) as [Hgeo Hpos].
  pose proof (min_align_pos _ Hm) as Hmpos.
  assert (Hin : in_chunk c ch p sz).
  { eapply is_last_in_cur; try eassumption; [exact (proj1 Hinv)|].
    destruct (up c); [apply Z.eqb_eq in Hlast|apply Z.eqb_eq in Hlast]; exact Hlast. }
  destruct Hin as [I1 I2].
  destruct (up c) eqn:Eup; apply Z.eqb_eq in Hlast.
  - (* up: new position = up_align ptr m, between ptr and the old position *)
    unfold align_posZ.
    assert (Hnp1 : p <= up_alignZ p (malign s)) by (apply up_align_ge; exact Hmpos).
    assert (Hnp2 : up_alignZ p (malign s) <= cpos ch) by (apply up_align_min; [exact Hmpos|exact Hmp|lia]).
    eapply set_cur_pos_inv; try eassumption.
    + lia.
    + apply up_align_div; exact Hmpos.
    + rewrite Eup. intros b Hb Hbs [J1 J2]. specialize (Hdis b Hb). unfold disjoint_rng in Hdis.
      destruct Hinv as (_ & Hbl & _). rewrite Forall_forall in Hbl.
      destruct (Hbl b Hb) as (_ & _ & (k & chk & Hk & Hinc & Hs)). rewrite Ec in Hs.
      (* b lies in the content range of the current chunk: it is placed there *)
      assert (Hside : bptr b + bsize b <= cpos ch).
      { destruct Hs as [Hki Hks]. destruct (Nat.eq_dec k i) as [->|Hne].
        - rewrite En in Hk. injection Hk as <-. specialize (Hks eq_refl Hbs). rewrite Eup in Hks. exact Hks.
        - exfalso. pose proof (Forall_nth_error _ _ _ _ Hok Hk) as [Gk _].
          pose proof (chunk_range_in_granted c chk _ _ Hc Gk Hinc ltac:(lia)).
          pose proof (chunk_range_in_granted c ch _ _ Hc Hgeo (conj J1 J2) ltac:(lia)).
          specialize (Hd k i chk ch Hne Hk En). lia. }
      lia.
  - (* down: new position = down_align (ptr + size) m, between ptr and ptr + size *)
    unfold align_posZ. subst p.
    assert (Hnp1 : down_alignZ (cpos ch + sz) (malign s) <= cpos ch + sz) by (apply down_align_le; exact Hmpos).
    assert (Hnp2 : cpos ch <= down_alignZ (cpos ch + sz) (malign s)) by (apply down_align_max; [exact Hmpos|exact Hmp|lia]).
    eapply set_cur_pos_inv; try eassumption.
    + lia.
    + apply down_align_div; exact Hmpos.
    + rewrite Eup. intros b Hb Hbs [J1 J2]. specialize (Hdis b Hb). unfold disjoint_rng in Hdis.
      destruct Hinv as (_ & Hbl & _). rewrite Forall_forall in Hbl.
      destruct (Hbl b Hb) as (_ & _ & (k & chk & Hk & Hinc & Hs)). rewrite Ec in Hs.
      assert (Hside : cpos ch <= bptr b).
      { destruct Hs as [Hki Hks]. destruct (Nat.eq_dec k i) as [->|Hne].
        - rewrite En in Hk. injection Hk as <-. specialize (Hks eq_refl Hbs). rewrite Eup in Hks. exact Hks.
        - exfalso. pose proof (Forall_nth_error _ _ _ _ Hok Hk) as [Gk _].
          pose proof (chunk_range_in_granted c chk _ _ Hc Gk Hinc ltac:(lia)).
          pose proof (chunk_range_in_granted c ch _ _ Hc Hgeo (conj J1 J2) ltac:(lia)).
          specialize (Hd k i chk ch Hne Hk En). lia. }
      lia.
Qed.

(* facts about a block found in the ghost list, relative to the list without it *)
Lemma remove_block_facts c s id blk :
  inv c s -> find_block s id = Some blk ->
  inv c (remove_block s id) /\ 0 <= bsize blk /\ (balign blk | bptr blk) /\
  placed c (remove_block s id) (bptr blk) (bsize blk) /\
  (forall b, In b (live (remove_block s id)) -> disjoint_rng (bptr b) (bsize b) (bptr blk) (bsize blk)).
Proof.
  intros Hinv Hf. destruct (find_block_spec _ _ _ Hf) as [Hin Hid].
  split; [apply inv_filter; exact Hinv|].
  destruct Hinv as (Hg & Hb & Hd & (Hnd & _)).
  rewrite Forall_forall in Hb. destruct (Hb blk Hin) as (B1 & B2 & B3).
  split; [exact B1|]. split; [exact B2|]. split; [exact B3|].
  intros b Hb'. unfold remove_block in Hb'. cbn [live upd_live] in Hb'. apply filter_In in Hb'.
  destruct Hb' as [Hbin Hne]. apply negb_true_iff in Hne. apply Nat.eqb_neq in Hne.
  (* two different elements of a pairwise-disjoint list *)
  clear - Hd Hin Hbin Hne Hid. induction Hd as [|a l Ha Hl IH]; [contradiction|].
  rewrite Forall_forall in Ha. destruct Hin as [->|Hin], Hbin as [->|Hbin].
  - congruence.
  - apply disjoint_rng_sym. exact (Ha b Hbin).
  - exact (Ha blk Hin).
  - apply IH; assumption.
Qed.

Lemma step_inv_dealloc c s0 h ws b r :
  cfg_ok c -> inv c s0 -> inv c (fst (step c s0 (ODealloc h ws b) r)).
Proof.
  intros Hc Hinv. apply inv_tick in Hinv. cbn [step]. set (s := tick s0) in *.
  destruct (find_block s b) as [blk|] eqn:Ef; [|exact Hinv].
  destruct (remove_block_facts c s b blk Hinv Ef) as (Hinv1 & B1 & B2 & B3 & B4).
  destruct (negb (is_top s h) || has_wrapper WDealloc ws); [exact Hinv1|].
  cbn [fst]. unfold raw_dealloc. destruct (negb (deallocates c)); [exact Hinv1|].
  destruct (is_last c (remove_block s b) (bptr blk) (bsize blk)) eqn:El; [|exact Hinv1].
  apply dealloc_last_inv; assumption.
Qed.

(* ------------------------------------------------------------ resets *)
Lemma inv_single_fresh c s ch :
  cfg_ok c -> valid_min_align (malign s) -> chunk_geom c ch ->
  inv c (upd_cur (upd_chunks (upd_live s []) [reset_chunk c ch]) (Cur 0)).
Proof.
  intros Hc Hm Hg. destruct (fresh_pos_ok c Hc ch Hg) as [Hok H16].
  split.
  - unfold ginv. cbn [chunks cur upd_cur upd_chunks upd_live malign aligns].
    split; [constructor; [exact Hok|constructor]|]. split.
    + intros i j a b Hij Ha Hb. destruct i as [|[|i]], j as [|[|j]]; cbn in Ha, Hb; try discriminate; congruence.
    + split; [exact Hm|]. exists (reset_chunk c ch). split; [reflexivity|].
      eapply Z.divide_trans; [apply min_align_div16; exact Hm|exact H16].
  - cbn [live upd_cur upd_chunks upd_live]. split; [constructor|]. split; [constructor|].
    split; [constructor|constructor].
Qed.

Lemma log_events_fields s es :
  chunks (log_events s es) = chunks s /\ cur (log_events s es) = cur s /\
  aligns (log_events s es) = aligns s /\ live (log_events s es) = live s /\
  nextid (log_events s es) = nextid s /\ depth (log_events s es) = depth s /\
  mem (log_events s es) = mem s /\ epoch (log_events s es) = epoch s.
Proof.
  revert s. induction es as [|e es IH]; intros s; [repeat split|].
  unfold log_events in *. cbn [fold_left]. destruct (IH (log_event s e)) as (A1 & A2 & A3 & A4 & A5 & A6 & A7 & A8).
  rewrite A1, A2, A3, A4, A5, A6, A7, A8. repeat split.
Qed.

Lemma inv_clear_live c s : inv c s -> inv c (upd_live s []).
Proof.
  intros (Hg & _). split; [exact Hg|]. cbn [live upd_live].
  split; [constructor|]. split; [constructor|]. split; constructor.
Qed.

Lemma last_in_rev {A} (l : list A) x t : rev l = x :: t -> In x l.
Proof. intros H. apply in_rev. rewrite H. left; reflexivity. Qed.

Lemma step_inv_reset c s0 r : cfg_ok c -> inv c s0 -> inv c (fst (step c s0 OReset r)).
Proof.
  intros Hc Hinv. apply inv_tick in Hinv. cbn [step]. set (s := tick s0) in *.
  pose proof Hinv as ((Hok & Hd & Hm & Hcur) & _).
  pose proof (inv_clear_live c s Hinv) as Hlive0.
  cbn [cur upd_live]. destruct (cur s) as [i| |] eqn:Ec; [|exact Hlive0|exact Hlive0].
  cbn [chunks upd_live]. destruct (rev (chunks s)) as [|lst t] eqn:Er; [exact Hlive0|].
  cbn [fst].
  pose proof (last_in_rev _ _ _ Er) as Hin. rewrite Forall_forall in Hok. destruct (Hok lst Hin) as [Hg _].
  destruct (log_events_fields (upd_live s []) (reset_events c (upd_live s []))) as (A1 & A2 & A3 & A4 & A5 & _).
  apply (inv_ext c (upd_cur (upd_chunks (upd_live s []) [reset_chunk c lst]) (Cur 0))); try reflexivity.
  - cbn [aligns upd_cur upd_chunks]. rewrite A3. reflexivity.
  - cbn [live upd_cur upd_chunks]. rewrite A4. reflexivity.
  - cbn [nextid upd_cur upd_chunks]. rewrite A5. reflexivity.
  - apply inv_single_fresh; assumption.
Qed.

Lemma step_inv_reset_to_start c s0 r : cfg_ok c -> inv c s0 -> inv c (fst (step c s0 OResetToStart r)).
Proof.
  intros Hc Hinv. apply inv_tick in Hinv. cbn [step]. set (s := tick s0) in *.
  pose proof Hinv as ((Hok & Hd & Hm & Hcur) & _).
  pose proof (inv_clear_live c s Hinv) as Hlive0.
  cbn [cur upd_live]. destruct (cur s) as [i| |] eqn:Ec; [|exact Hlive0|exact Hlive0].
  cbn [chunks upd_live]. destruct (chunks s) as [|ch rest] eqn:Ech; [exact Hlive0|].
  cbn [fst]. inversion Hok as [|x xs [Hg _] Hrest]; subst.
  destruct (fresh_pos_ok c Hc ch Hg) as [Hrok H16].
  split.
  - unfold ginv. cbn [chunks cur upd_cur upd_chunks upd_live malign aligns].
    split; [constructor; assumption|]. split.
    + eapply (chunks_disjoint_same_geom (ch :: rest)); [|exact Hd].
      constructor; [apply same_geom_set_pos|apply Forall2_same_geom_refl].
    + split; [exact Hm|]. exists (reset_chunk c ch). split; [reflexivity|].
      eapply Z.divide_trans; [apply min_align_div16; exact Hm|exact H16].
  - cbn [live upd_cur upd_chunks upd_live]. split; [constructor|]. split; [constructor|]. split; constructor.
Qed.

Lemma step_inv_drop c s0 r : cfg_ok c -> inv c s0 -> inv c (fst (step c s0 ODrop r)).
Proof.
  intros Hc Hinv. apply inv_tick in Hinv. cbn [step]. set (s := tick s0) in *.
  pose proof (inv_clear_live c s Hinv) as Hlive0.
  destruct (Nat.eqb (depth (upd_live s [])) 0); [|exact Hlive0]. cbn [fst].
  destruct (log_events_fields (upd_live s []) (drop_events c (upd_live s []))) as (A1 & A2 & A3 & A4 & A5 & _).
  destruct Hinv as ((_ & _ & Hm & _) & _).
  apply (inv_ext c (upd_cur (upd_chunks (upd_live s []) []) Unalloc)); try reflexivity.
  - cbn [aligns upd_cur upd_chunks]. rewrite A3. reflexivity.
  - cbn [live upd_cur upd_chunks]. rewrite A4. reflexivity.
  - cbn [nextid upd_cur upd_chunks]. rewrite A5. reflexivity.
  - split.
    + unfold ginv. cbn [chunks cur upd_cur upd_chunks upd_live].
      split; [constructor|]. split; [intros i j a b _ Ha; destruct i; discriminate|]. split; [exact Hm|reflexivity].
    + cbn [live upd_cur upd_chunks upd_live]. split; [constructor|]. split; [constructor|]. split; constructor.
Qed.

(* ------------------------------------------------------------ trivial operations *)
Lemma step_inv_fill c s0 b seed r : inv c s0 -> inv c (fst (step c s0 (OFill b seed) r)).
Proof.
  intros Hinv. apply inv_tick in Hinv. cbn [step]. destruct (find_block (tick s0) b); cbn [fst]; [|exact Hinv].
  eapply inv_ext; [..|exact Hinv]; reflexivity.
Qed.

Lemma step_inv_checkpoint c s0 h r : inv c s0 -> inv c (fst (step c s0 (OCheckpoint h) r)).
Proof. intros Hinv. apply inv_tick in Hinv. exact Hinv. Qed.

Lemma step_inv_claim c s0 h r : inv c s0 -> inv c (fst (step c s0 (OClaim h) r)).
Proof.
  intros Hinv. apply inv_tick in Hinv. cbn [step]. destruct (is_top (tick s0) h); cbn [fst]; [|exact Hinv].
  eapply inv_ext; [..|exact Hinv]; reflexivity.
Qed.

Lemma step_inv_unclaim c s0 r : inv c s0 -> inv c (fst (step c s0 OUnclaim r)).
Proof.
  intros Hinv. apply inv_tick in Hinv. cbn [step fst]. eapply inv_ext; [..|exact Hinv]; reflexivity.
Qed.

(* ------------------------------------------------------------ OResetTo *)
Lemma filter_nil_all {A} (f : A -> bool) l : (forall x, In x l -> f x = false) -> filter f l = [].
Proof.
  induction l as [|a l IH]; intros H; [reflexivity|]. cbn. rewrite (H a (or_introl eq_refl)).
  apply IH. intros x Hx. apply H. right; exact Hx.
Qed.

Lemma step_inv_reset_to c s0 h cp r :
  cfg_ok c -> inv c s0 -> cp_valid c s0 cp -> inv c (fst (step c s0 (OResetTo h cp) r)).
Proof.
  intros Hc Hinv Hcp. apply inv_tick in Hinv.
  assert (Hcp' : cp_valid c (tick s0) cp) by exact Hcp. clear Hcp.
  cbn [step]. set (s := tick s0) in *.
  set (keep := fun b : block => Nat.leb (born b) (cp_epoch cp)).
  pose proof (inv_filter c s keep Hinv) as Hinv1.
  unfold do_reset_to.
  unfold cp_valid in Hcp'. destruct (cp_state cp) as [j| |] eqn:Ecp; [| |contradiction].
  - destruct Hcp' as (ch & En & Hrng & Hmal & (i & Ec & Hji) & Hblocks).
    cbn [chunks upd_live]. rewrite En. cbn [fst].
    pose proof Hinv as ((Hok & Hd & Hm & Hcur) & Hb & Hdis & Hids).
    pose proof (Forall_nth_error _ _ _ _ Hok En) as [Hgeo _].
    pose proof (nth_error_some_lt _ _ _ En) as Hlt.
    assert (HF : Forall2 same_geom (chunks s) (set_nth (chunks s) j (set_pos ch (cp_addr cp)))).
    { eapply Forall2_set_nth; [apply Forall2_same_geom_refl|exact En|apply same_geom_set_pos]. }
    split.
    { unfold ginv. cbn [chunks cur upd_cur upd_chunks upd_live malign aligns].
      split; [apply Forall_set_nth; [exact Hok|exact (set_pos_ok c ch _ Hgeo Hrng)]|].
      split; [eapply chunks_disjoint_same_geom; eassumption|]. split; [exact Hm|].
      exists (set_pos ch (cp_addr cp)). split; [apply nth_error_set_nth_eq; exact Hlt|exact Hmal]. }
    destruct Hinv1 as (_ & Hb1 & Hdis1 & Hids1).
    split; [|split; [exact Hdis1|exact Hids1]].
    cbn [live upd_cur upd_chunks upd_live]. rewrite Forall_forall in *. intros b Hin.
    apply filter_In in Hin. destruct Hin as [Hin Hk]. apply Nat.leb_le in Hk.
    destruct (Hb b Hin) as (B1 & B2 & _). split; [exact B1|]. split; [exact B2|].
    destruct (Hblocks b Hin Hk) as (k & chk & Hnk & Hinc & Hkj & Hside).
    destruct (Nat.eq_dec k j) as [->|Hne].
    + rewrite En in Hnk. injection Hnk as <-.
      exists j, (set_pos ch (cp_addr cp)). cbn [chunks cur upd_cur upd_chunks upd_live].
      split; [apply nth_error_set_nth_eq; exact Hlt|]. split; [exact Hinc|]. split; [lia|].
      intros _ Hpos. unfold alloc_side. cbn [set_pos cpos]. apply Hside; [reflexivity|exact Hpos].
    + exists k, chk. cbn [chunks cur upd_cur upd_chunks upd_live].
      split; [rewrite nth_error_set_nth_neq by congruence; exact Hnk|]. split; [exact Hinc|].
      split; [exact Hkj|intros E; congruence].
  - destruct Hcp' as [_ Hnone].
    assert (Hnil : filter keep (live s) = []).
    { apply filter_nil_all. intros b Hin. unfold keep. destruct (Nat.leb (born b) (cp_epoch cp)) eqn:E; [|reflexivity].
      exfalso. apply Nat.leb_le in E. exact (Hnone b Hin E). }
    fold keep. rewrite Hnil in *.
    cbn [cur upd_live]. destruct (cur s) as [i| |] eqn:Ec; [|exact Hinv1|exact Hinv1].
    cbn [chunks upd_live]. destruct (chunks s) as [|ch rest] eqn:Ech; [exact Hinv1|].
    cbn [fst]. pose proof Hinv as ((Hok & Hd & Hm & Hcur) & _). rewrite Ech in Hok, Hd.
    inversion Hok as [|x xs [Hg _] Hrest]; subst.
    destruct (fresh_pos_ok c Hc ch Hg) as [Hrok H16].
    split.
    + unfold ginv. cbn [chunks cur upd_cur upd_chunks upd_live malign aligns].
      split; [constructor; assumption|]. split.
      * eapply (chunks_disjoint_same_geom (ch :: rest)); [|exact Hd].
        constructor; [apply same_geom_set_pos|apply Forall2_same_geom_refl].
      * split; [exact Hm|]. exists (reset_chunk c ch). split; [reflexivity|].
        eapply Z.divide_trans; [apply min_align_div16; exact Hm|exact H16].
    + cbn [live upd_cur upd_chunks upd_live]. split; [constructor|]. split; [constructor|]. split; constructor.
Qed.

(* ------------------------------------------------------------ OReserve *)
Lemma step_inv_reserve c s0 h n r :
  cfg_ok c -> inv c s0 -> 0 <= n -> op_resp_ok c s0 (OReserve h n) r ->
  inv c (fst (step c s0 (OReserve h n) r)).
Proof.
  intros Hc Hinv Hn Hr. apply inv_tick in Hinv.
  assert (Hr' : op_resp_ok c (tick s0) (OReserve h n) r) by exact Hr. clear Hr.
  cbn [step]. set (s := tick s0) in *.
  destruct (negb (is_top s h)); [exact Hinv|].
  unfold op_resp_ok, op_layout, cur_chunk in Hr'.
  pose proof Hinv as ((Hok & Hd & Hm & Hcur) & Hb & Hdis & Hids).
  destruct (cur s) as [i| |] eqn:Ec; [| |exact Hinv].
  - destruct Hcur as (ch & En & Hmp). rewrite En in *.
    destruct (n <=? remaining_in c ch + sumZ (map (capacity c) (chunks_after s))); [exact Hinv|].
    set (rest := n - (remaining_in c ch + sumZ (map (capacity c) (chunks_after s)))) in *.
    destruct (IMAX <? rest); [exact Hinv|].
    destruct (grow_arena c s rest 1 r) as [s1 [e|]] eqn:Eg; cbn [fst].
    + destruct (grow_arena_spec c s rest 1 r s1 (Some e) Hc Hr' Eg) as ((F1 & F2 & F3 & F4 & F5 & F6) & Ech & Ecu).
      apply (inv_ext c s); try assumption; cbn [chunks cur aligns live nextid upd_cur]; congruence.
    + destruct (grow_arena_spec c s rest 1 r s1 None Hc Hr' Eg)
        as ((F1 & F2 & F3 & F4 & F5 & F6) & nch & addr & g & -> & Ech & Ecu & Hchok & Hc16 & Ecb & Ecg).
      pose proof (nth_error_some_lt _ _ _ En) as Hlt.
      split.
      * unfold ginv, malign in *. cbn [chunks cur aligns upd_cur]. rewrite Ech, F4.
        split; [apply Forall_app; split; [exact Hok|constructor; [exact Hchok|constructor]]|].
        split.
        { apply (chunks_disjoint_app c); [exact Hc|exact Hd|].
          intros ch0 Hin0. destruct Hr' as (_ & _ & _ & _ & _ & R6). specialize (R6 ch0 Hin0). rewrite Ecb, Ecg. lia. }
        split; [exact Hm|]. try rewrite Ec. exists ch. split; [rewrite nth_error_app1 by exact Hlt; exact En|exact Hmp].
      * cbn [live upd_cur]. rewrite F1. split.
        { rewrite Forall_forall in *. intros b Hin. destruct (Hb b Hin) as (B1 & B2 & (k & chk & Hk & Hinc & Hs)).
          split; [exact B1|]. split; [exact B2|]. exists k, chk. cbn [chunks cur upd_cur]. rewrite Ech.
          split; [rewrite nth_error_app1 by (apply nth_error_some_lt in Hk; exact Hk); exact Hk|].
          split; [exact Hinc|]. try rewrite Ec in Hs. try rewrite Ec. exact Hs. }
        split; [exact Hdis|]. unfold ids_ok in *. cbn [live nextid upd_cur]. rewrite F1, F6. exact Hids.
  - (* unallocated *)
    destruct (IMAX <? n); [exact Hinv|].
    pose proof (inv_no_live_unalloc c s Hinv ltac:(intros i0; congruence)) as Hnil.
    destruct (grow_arena c s n 1 r) as [s1 [e|]] eqn:Eg; cbn [fst].
    + destruct (grow_arena_spec c s n 1 r s1 (Some e) Hc Hr' Eg) as ((F1 & F2 & F3 & F4 & F5 & F6) & Ech & Ecu).
      apply (inv_ext c s); try assumption; congruence.
    + destruct (grow_arena_spec c s n 1 r s1 None Hc Hr' Eg)
        as ((F1 & F2 & F3 & F4 & F5 & F6) & nch & addr & g & -> & Ech & Ecu & Hchok & Hc16 & Ecb & Ecg).
      rewrite Hcur in Ech, Ecu. cbn [app length] in Ech, Ecu.
      split.
      * unfold ginv, malign. rewrite Ech, Ecu, F4.
        split; [constructor; [exact Hchok|constructor]|]. split.
        { intros i j a b Hij Ha Hb'. destruct i as [|[|i]], j as [|[|j]]; cbn in Ha, Hb'; try discriminate; congruence. }
        split; [exact Hm|]. exists nch. split; [reflexivity|].
        eapply Z.divide_trans; [apply min_align_div16; exact Hm|exact Hc16].
      * unfold ids_ok. rewrite F1, Hnil. cbn [map]. split; [constructor|]. split; [constructor|]. split; constructor.
Qed.

(* ------------------------------------------------------------ reallocation *)
Lemma In_ForallOrdPairs_disjoint l a b :
  ForallOrdPairs disjoint2 l -> In a l -> In b l -> bid a <> bid b -> disjoint2 a b.
Proof.
  intros Hl. induction Hl as [|x l Hx Hl IH]; [contradiction|].
  rewrite Forall_forall in Hx. intros [->|Ha] [->|Hb] Hne.
  - congruence.
  - exact (Hx b Hb).
  - apply disjoint_rng_sym. exact (Hx a Ha).
  - apply IH; assumption.
Qed.

(* With `blk` the newest block of the current chunk, any range of that chunk that starts no
   earlier than blk (up) / ends no later than blk's end (down) meets no other live block. *)
Lemma others_disjoint_free_side c s i ch blk b' x n :
  cfg_ok c -> inv c s -> cur s = Cur i -> nth_error (chunks s) i = Some ch ->
  In blk (live s) -> In b' (live s) -> bid b' <> bid blk ->
  (if up c then bptr blk + bsize blk = cpos ch else bptr blk = cpos ch) ->
  in_chunk c ch x n -> 0 <= n ->
  (if up c then bptr blk <= x else x + n <= bptr blk + bsize blk) ->
  disjoint_rng (bptr b') (bsize b') x n /\
  (0 < bsize b' -> in_chunk c ch (bptr b') (bsize b') ->
     if up c then bptr b' + bsize b' <= bptr blk else bptr blk + bsize blk <= bptr b').
Proof.
  intros Hc Hinv Ec En Hblk Hb' Hne Hlast Hin Hn Hside.
  pose proof Hinv as ((Hok & Hd & Hm & Hcur) & Hb & Hdis & _).
  rewrite Forall_forall in Hb.
  destruct (Hb b' Hb') as (B1 & _ & (k & chk & Hk & Hinc & Hs)). rewrite Ec in Hs. destruct Hs as [Hki Hks].
  destruct (Hb blk Hblk) as (C1 & _ & _).
  pose proof (In_ForallOrdPairs_disjoint _ _ _ Hdis Hb' Hblk Hne) as Hdj. unfold disjoint2, disjoint_rng in Hdj.
  pose proof (Forall_nth_error _ _ _ _ Hok En) as [Hgeo Hpos].
  assert (Hsame : 0 < bsize b' -> in_chunk c ch (bptr b') (bsize b') ->
                  if up c then bptr b' + bsize b' <= bptr blk else bptr blk + bsize blk <= bptr b').
  { intros Hpos' [J1 J2].
    assert (Hk' : k = i).
    { destruct (Nat.eq_dec k i) as [E|Hnk]; [exact E|exfalso].
      pose proof (Forall_nth_error _ _ _ _ Hok Hk) as [Gk _].
      pose proof (chunk_range_in_granted c chk _ _ Hc Gk Hinc ltac:(lia)).
      pose proof (chunk_range_in_granted c ch _ _ Hc Hgeo (conj J1 J2) ltac:(lia)).
      specialize (Hd k i chk ch Hnk Hk En). lia. }
    subst k. rewrite En in Hk. injection Hk as <-. specialize (Hks eq_refl Hpos').
    destruct (up c); lia. }
  split; [|exact Hsame].
  destruct (Z_le_gt_dec (bsize b') 0) as [Hz|Hpos']; [unfold disjoint_rng; lia|].
  destruct (Nat.eq_dec k i) as [->|Hnk].
  - rewrite En in Hk. injection Hk as <-. specialize (Hsame ltac:(lia) Hinc).
    unfold disjoint_rng. destruct (up c); lia.
  - eapply (placed_other_chunk_disjoint c (chunks s) k i); try eassumption; try lia.
Qed.

Lemma set_nth_set_nth {A} (l : list A) i x y : set_nth (set_nth l i x) i y = set_nth l i y.
Proof. revert i; induction l as [|a l IH]; intros [|i]; cbn; try reflexivity. f_equal. apply IH. Qed.

(* the reallocation cases that stay inside the current chunk *)
Lemma realloc_in_cur_chunk c s b blk i ch x n al np s1 s3 id :
  cfg_ok c -> inv c s -> find_block s b = Some blk ->
  cur s = Cur i -> nth_error (chunks s) i = Some ch ->
  (if up c then bptr blk + bsize blk = cpos ch else bptr blk = cpos ch) ->
  0 <= n -> (al | x) -> in_chunk c ch x n -> (malign s | np) ->
  (if up c then bptr blk <= x /\ x + n <= np /\ np <= content_end c ch
   else np <= x /\ x + n <= bptr blk + bsize blk /\ content_start c ch <= np) ->
  chunks s1 = set_nth (chunks s) i (set_pos ch np) -> cur s1 = cur s -> aligns s1 = aligns s ->
  live s1 = live s -> nextid s1 = nextid s ->
  add_block (remove_block s1 b) x n al = (s3, id) ->
  inv c s3.
Proof.
  intros Hc Hinv Hf Ec En Hlast Hn Hal Hin Hmnp Hgeo E1 E2 E3 E4 E5 Hadd.
  destruct (find_block_spec _ _ _ Hf) as [Hblk Hid].
  pose proof Hinv as ((Hok & Hd & Hm & Hcur) & Hb & Hdis & Hids).
  pose proof (Forall_nth_error _ _ _ _ Hok En) as [Hg Hpos].
  destruct Hin as [I1 I2].
  rewrite Forall_forall in Hb. destruct (Hb blk Hblk) as (C1 & _ & Cpl).
  assert (Hblkin : in_chunk c ch (bptr blk) (bsize blk)).
  { eapply is_last_in_cur; try eassumption. exact (proj1 Hinv). }
  (* the state with the position moved satisfies the invariant for all blocks but blk *)
  assert (Hrange : content_start c ch <= np <= content_end c ch).
  { destruct Hblkin as [K1 K2]. destruct (up c); lia. }
  assert (Hinv' : inv c (remove_block (set_cur_pos s np) b)).
  { assert (Hs : set_cur_pos (remove_block s b) np = remove_block (set_cur_pos s np) b).
    { unfold set_cur_pos, remove_block. cbn [cur chunks upd_live]. rewrite Ec, En. reflexivity. }
    rewrite <- Hs.
    eapply (set_cur_pos_inv c (remove_block s b) i ch np Hc); try eassumption.
    - apply inv_filter. exact Hinv.
    - intros b' Hb'. cbn [live remove_block upd_live] in Hb'. apply filter_In in Hb'. destruct Hb' as [Hb'in Hne'].
      apply negb_true_iff in Hne'. apply Nat.eqb_neq in Hne'.
      intros Hpos' Hinc'.
      destruct (others_disjoint_free_side c s i ch blk b' (bptr blk) (bsize blk) Hc Hinv Ec En Hblk Hb'in
                  ltac:(congruence) Hlast Hblkin C1 ltac:(destruct (up c); lia)) as [_ Hside'].
      specialize (Hside' Hpos' Hinc'). destruct (up c); lia. }
  (* transfer to s1 (same chunks/cur/ghost data as set_cur_pos s np) *)
  assert (Hinv1 : inv c (remove_block s1 b)).
  { eapply (inv_ext c (remove_block (set_cur_pos s np) b)); [..|exact Hinv'];
      unfold remove_block, set_cur_pos; cbn [chunks cur aligns live nextid upd_live upd_chunks];
      rewrite ?Ec, ?En; cbn [chunks cur aligns live nextid upd_live upd_chunks]; congruence. }
  destruct Hinv1 as (Hg1 & Hb1 & Hd1 & Hi1).
  eapply (inv_add_block c (remove_block s1 b) x n al s3 id); try eassumption.
  - (* placed *)
    exists i, (set_pos ch np). cbn [chunks cur remove_block upd_live]. rewrite E1, E2, Ec.
    split; [apply nth_error_set_nth_eq; eapply nth_error_some_lt; exact En|].
    split; [split; assumption|]. split; [lia|]. intros _ Hpn. unfold alloc_side. cbn [set_pos cpos].
    destruct (up c); lia.
  - (* disjoint from every other live block *)
    intros b' Hb'. cbn [live remove_block upd_live] in Hb'. rewrite E4 in Hb'. apply filter_In in Hb'.
    destruct Hb' as [Hb'in Hne']. apply negb_true_iff in Hne'. apply Nat.eqb_neq in Hne'.
    apply (others_disjoint_free_side c s i ch blk b' x n Hc Hinv Ec En Hblk Hb'in ltac:(congruence) Hlast (conj I1 I2) Hn).
    destruct (up c); lia.
Qed.

(* after any allocation attempt the invariant still holds for the old blocks *)
Lemma alloc_result_inv c s s1 size align res :
  inv c s -> alloc_result_ok c s s1 size align res -> inv c s1.
Proof.
  intros (Hg & Hb & Hd & Hi) ((F1 & F2 & F3 & F4 & F5 & F6) & Hg1 & Hpl & _).
  split; [exact Hg1|]. rewrite F1. split.
  - rewrite Forall_forall in *. intros b Hin. destruct (Hb b Hin) as (B1 & B2 & B3).
    repeat split; try assumption. apply Hpl; assumption.
  - split; [exact Hd|]. unfold ids_ok in *. rewrite F1, F6. exact Hi.
Qed.

(* a reallocation that moved the block to a freshly allocated one *)
Lemma realloc_moved c s b blk s1 s2 p n al s3 id :
  cfg_ok c -> inv c s -> find_block s b = Some blk ->
  alloc_result_ok c s s1 n al (inl p) -> 0 <= n ->
  chunks s2 = chunks s1 -> cur s2 = cur s1 -> aligns s2 = aligns s1 -> live s2 = live s1 ->
  nextid s2 = nextid s1 ->
  add_block (remove_block s2 b) p n al = (s3, id) ->
  inv c s3.
Proof.
  intros Hc Hinv Hf Hres Hn E1 E2 E3 E4 E5 Hadd.
  pose proof (alloc_result_inv c s s1 n al (inl p) Hinv Hres) as Hinv1.
  destruct Hres as ((F1 & _) & _ & Hpl & Hap & Hpp & Hdisj).
  assert (Hinv2 : inv c s2) by (eapply inv_ext; eassumption).
  pose proof (inv_filter c s2 (fun x => negb (Nat.eqb (bid x) b)) Hinv2) as (Hg3 & Hb3 & Hd3 & Hi3).
  eapply (inv_add_block c (remove_block s2 b) p n al s3 id); try eassumption.
  - eapply placed_ext; [exact E1|exact E2|exact Hpp].
  - intros b' Hb'. cbn [live remove_block upd_live] in Hb'. apply filter_In in Hb'. destruct Hb' as [Hb'in _].
    rewrite E4, F1 in Hb'in. destruct Hinv as (_ & Hb & _). rewrite Forall_forall in Hb.
    destruct (Hb b' Hb'in) as (B1 & _ & B3). apply Hdisj; assumption.
Qed.

Lemma copy_block_fields s src dst len no s' ub :
  copy_block s src dst len no = (s', ub) ->
  chunks s' = chunks s /\ cur s' = cur s /\ aligns s' = aligns s /\ live s' = live s /\ nextid s' = nextid s.
Proof. unfold copy_block. intros H. injection H as <- _. repeat split. Qed.

Lemma zero_fill_fields s a n :
  chunks (zero_fill s a n) = chunks s /\ cur (zero_fill s a n) = cur s /\ aligns (zero_fill s a n) = aligns s /\
  live (zero_fill s a n) = live s /\ nextid (zero_fill s a n) = nextid s.
Proof. repeat split. Qed.

Lemma set_cur_pos_fields s i ch p :
  cur s = Cur i -> nth_error (chunks s) i = Some ch ->
  chunks (set_cur_pos s p) = set_nth (chunks s) i (set_pos ch p) /\ cur (set_cur_pos s p) = cur s /\
  aligns (set_cur_pos s p) = aligns s /\ live (set_cur_pos s p) = live s /\ nextid (set_cur_pos s p) = nextid s.
Proof.
  intros Ec En. unfold set_cur_pos. destruct (cur s) as [j| |] eqn:E; try discriminate.
  injection Ec as ->. rewrite En. repeat split. cbn [cur upd_chunks]. exact E.
Qed.

(* ------------------------------------------------------------ OGrow *)
Lemma step_inv_grow c s0 h ws b nsize nalign zeroed r :
  cfg_ok c -> inv c s0 -> valid_layout nsize nalign ->
  (forall blk, find_block s0 b = Some blk -> bsize blk <= nsize) ->
  resp_ok c s0 nsize nalign r ->
  inv c (fst (step c s0 (OGrow h ws b nsize nalign zeroed) r)).
Proof.
  intros Hc Hinv Hl Hge Hr. apply inv_tick in Hinv.
  assert (Hr' : resp_ok c (tick s0) nsize nalign r) by (eapply resp_ok_ext; [|exact Hr]; reflexivity).
  assert (Hge' : forall blk, find_block (tick s0) b = Some blk -> bsize blk <= nsize) by exact Hge.
  clear Hr Hge. cbn [step]. set (s := tick s0) in *.
  destruct (find_block s b) as [blk|] eqn:Ef; [|exact Hinv].
  destruct (negb (is_top s h)); [exact Hinv|].
  specialize (Hge' blk eq_refl).
  destruct (find_block_spec _ _ _ Ef) as [Hblk Hid].
  pose proof Hinv as (Hg & Hb & Hdis & Hids).
  pose proof Hg as (Hok & Hd & Hm & Hcur).
  pose proof (min_align_pos _ Hm) as Hmpos.
  rewrite Forall_forall in Hb. destruct (Hb blk Hblk) as (C1 & C2 & Cpl).
  pose proof Hl as (Ha2 & Hs0 & Hl3). pose proof (pow2_pos _ Ha2) as Hapos.
  (* the three outcomes of an allocation-based move *)
  assert (Hmoved : forall x : arena * (Z + err),
            (x = raw_alloc c s nsize nalign r \/ x = raw_alloc_slow c s nsize nalign r) ->
            inv c (fst (let '(s1, res) :=
                     match x with
                     | (s1, inl np) => let '(s2, ub) := copy_block s1 (bptr blk) np (bsize blk) true in (s2, inl (mkRO np nsize ub))
                     | (s1, inr e) => (s1, inr e)
                     end in
                   match res with
                   | inl ro =>
                     let s2 := if zeroed then zero_fill s1 (ro_ptr ro + bsize blk) (nsize - bsize blk) else s1 in
                     let '(s3, id) := add_block (remove_block s2 b) (ro_ptr ro) (ro_size ro) nalign in
                     (s3, mkOut (RBlock id (ro_ptr ro) (ro_size ro)) (new_events s s3) (ro_ub ro))
                   | inr e => (s1, mkOut (RErr e) (new_events s s1) false)
                   end))).
  { intros [s1 [np|e]] Hx.
    - assert (Hres : alloc_result_ok c s s1 nsize nalign (inl np)).
      { destruct Hx as [Hx|Hx]; symmetry in Hx; [eapply raw_alloc_post|eapply raw_alloc_slow_post]; eassumption. }
      destruct (copy_block s1 (bptr blk) np (bsize blk) true) as [s2 ub] eqn:Ecb.
      destruct (copy_block_fields _ _ _ _ _ _ _ Ecb) as (K1 & K2 & K3 & K4 & K5).
      cbn [ro_ptr ro_size ro_ub].
      set (s2' := if zeroed then zero_fill s2 (np + bsize blk) (nsize - bsize blk) else s2).
      assert (K' : chunks s2' = chunks s1 /\ cur s2' = cur s1 /\ aligns s2' = aligns s1 /\ live s2' = live s1 /\ nextid s2' = nextid s1).
      { unfold s2'. destruct zeroed; cbn [chunks cur aligns live nextid zero_fill upd_mem]; repeat split; assumption. }
      destruct K' as (L1 & L2 & L3 & L4 & L5).
      destruct (add_block (remove_block s2' b) np nsize nalign) as [s3 id] eqn:Eadd. cbn [fst].
      eapply (realloc_moved c s b blk s1 s2' np nsize nalign s3 id); eassumption.
    - cbn [fst].
      assert (Hres : alloc_result_ok c s s1 nsize nalign (inr e)).
      { destruct Hx as [Hx|Hx]; symmetry in Hx; [eapply raw_alloc_post|eapply raw_alloc_slow_post]; eassumption. }
      eapply alloc_result_inv; eassumption. }
  unfold raw_grow. destruct (up c) eqn:Eup.
  - (* upwards *)
    destruct (is_last c s (bptr blk) (bsize blk) && divides nalign (bptr blk)) eqn:Elast.
    + apply andb_true_iff in Elast. destruct Elast as [El Ediv].
      unfold is_last in El. destruct (cur_chunk s) as [ch|] eqn:Ecc; [|discriminate].
      destruct (cur_chunk_spec s ch Ecc) as (i & Ec & En). rewrite Eup in El. apply Z.eqb_eq in El.
      destruct (Z.leb_spec nsize (content_end c ch - bptr blk)) as [Hfit|Hnofit].
      * (* grow in place *)
        cbn [ro_ptr ro_size ro_ub].
        set (np := up_alignZ (bptr blk + nsize) (malign s)).
        set (s1 := set_cur_pos s np).
        set (s2 := if zeroed then zero_fill s1 (bptr blk + bsize blk) (nsize - bsize blk) else s1).
        destruct (add_block (remove_block s2 b) (bptr blk) nsize nalign) as [s3 id] eqn:Eadd. cbn [fst].
        pose proof (Forall_nth_error _ _ _ _ Hok En) as [Hgeo Hpos].
        pose proof (geom_bounds c Hc ch Hgeo) as (_ & _ & _ & _ & _ & He16 & _).
        assert (Hblkin : in_chunk c ch (bptr blk) (bsize blk)).
        { eapply is_last_in_cur; try eassumption. rewrite Eup. exact El. }
        destruct Hblkin as [I1 I2].
        assert (Hnp1 : bptr blk + nsize <= np) by (apply up_align_ge; exact Hmpos).
        assert (Hnp2 : np <= content_end c ch).
        { apply up_align_min; [exact Hmpos| |lia]. eapply Z.divide_trans; [apply min_align_div16; exact Hm|exact He16]. }
        destruct (set_cur_pos_fields s i ch np Ec En) as (G1 & G2 & G3 & G4 & G5).
        assert (HF : chunks s2 = set_nth (chunks s) i (set_pos ch np) /\ cur s2 = cur s /\ aligns s2 = aligns s /\
                     live s2 = live s /\ nextid s2 = nextid s).
        { unfold s2, s1. destruct zeroed; cbn [chunks cur aligns live nextid zero_fill upd_mem]; repeat split; assumption. }
        destruct HF as (HF1 & HF2 & HF3 & HF4 & HF5).
        eapply (realloc_in_cur_chunk c s b blk i ch (bptr blk) nsize nalign np s2 s3 id); try eassumption.
        -- rewrite Eup. exact El.
        -- unfold divides in Ediv. apply Z.eqb_eq in Ediv. apply Z.mod_divide; [lia|exact Ediv].
        -- split; lia.
        -- apply up_align_div; exact Hmpos.
        -- rewrite Eup. repeat split; lia.
      * apply (Hmoved (raw_alloc_slow c s nsize nalign r)). right; reflexivity.
    + apply (Hmoved (raw_alloc c s nsize nalign r)). left; reflexivity.
  - (* downwards *)
    destruct (is_last c s (bptr blk) (bsize blk)) eqn:El.
    + unfold is_last in El. destruct (cur_chunk s) as [ch|] eqn:Ecc; [|discriminate].
      destruct (cur_chunk_spec s ch Ecc) as (i & Ec & En). rewrite Eup in El. apply Z.eqb_eq in El.
      set (A := Z.max nalign (malign s)).
      set (na := down_alignZ (Z.max (bptr blk - (nsize - bsize blk)) 0) A).
      destruct (Z.leb_spec (content_start c ch) na) as [Hfit|Hnofit].
      * (* reuse the space in place: the block moves down inside the current chunk *)
        destruct (copy_block s (bptr blk) na (bsize blk) (na + nsize <? bptr blk)) as [s1 ub] eqn:Ecb.
        destruct (copy_block_fields _ _ _ _ _ _ _ Ecb) as (K1 & K2 & K3 & K4 & K5).
        cbn [ro_ptr ro_size ro_ub].
        set (s1' := set_cur_pos s1 na).
        set (s2 := if zeroed then zero_fill s1' (na + bsize blk) (nsize - bsize blk) else s1').
        destruct (add_block (remove_block s2 b) na nsize nalign) as [s3 id] eqn:Eadd. cbn [fst].
        pose proof (Forall_nth_error _ _ _ _ Hok En) as [Hgeo Hpos].
        pose proof (geom_bounds c Hc ch Hgeo) as (Hcs0 & _).
        assert (HA2 : pow2 A) by (apply pow2_max; [exact Ha2|exact (proj1 Hm)]).
        pose proof (pow2_pos _ HA2) as HApos.
        assert (Hblkin : in_chunk c ch (bptr blk) (bsize blk)).
        { eapply is_last_in_cur; try eassumption. rewrite Eup. exact El. }
        destruct Hblkin as [I1 I2].
        assert (Hna1 : na <= Z.max (bptr blk - (nsize - bsize blk)) 0) by (apply down_align_le; exact HApos).
        assert (Hna0 : 0 < na) by lia.
        assert (Hna2 : na <= bptr blk - (nsize - bsize blk)) by lia.
        assert (En1 : nth_error (chunks s1) i = Some ch) by (rewrite K1; exact En).
        assert (Ec1 : cur s1 = Cur i) by (rewrite K2; exact Ec).
        destruct (set_cur_pos_fields s1 i ch na Ec1 En1) as (G1 & G2 & G3 & G4 & G5).
        assert (HF : chunks s2 = set_nth (chunks s) i (set_pos ch na) /\ cur s2 = cur s /\ aligns s2 = aligns s /\
                     live s2 = live s /\ nextid s2 = nextid s).
        { unfold s2, s1'. destruct zeroed; cbn [chunks cur aligns live nextid zero_fill upd_mem];
            rewrite ?G1, ?G2, ?G3, ?G4, ?G5, ?K1, ?K2, ?K3, ?K4, ?K5; repeat split. }
        destruct HF as (HF1 & HF2 & HF3 & HF4 & HF5).
        eapply (realloc_in_cur_chunk c s b blk i ch na nsize nalign na s2 s3 id); try eassumption.
        -- rewrite Eup. exact El.
        -- apply down_align_div_finer; [exact HApos|]. apply pow2_divide; [exact Ha2|exact HA2|unfold A; lia].
        -- split; lia.
        -- apply down_align_div_finer; [exact HApos|]. apply pow2_divide; [exact (proj1 Hm)|exact HA2|unfold A; lia].
        -- rewrite Eup. repeat split; lia.
      * apply (Hmoved (raw_alloc_slow c s nsize nalign r)). right; reflexivity.
    + apply (Hmoved (raw_alloc c s nsize nalign r)). left; reflexivity.
Qed.

(* ------------------------------------------------------------ OShrink *)
(* the same block handed back, possibly shorter and with another (satisfied) alignment *)
Lemma readd_subblock c s b blk n al s3 id :
  cfg_ok c -> inv c s -> find_block s b = Some blk ->
  0 <= n <= bsize blk -> (al | bptr blk) ->
  add_block (remove_block s b) (bptr blk) n al = (s3, id) ->
  inv c s3.
Proof.
  intros Hc Hinv Hf Hn Hal Hadd.
  destruct (remove_block_facts c s b blk Hinv Hf) as ((Hg1 & Hb1 & Hd1 & Hi1) & B1 & B2 & B3 & B4).
  eapply (inv_add_block c (remove_block s b) (bptr blk) n al s3 id); try eassumption; try lia.
  - destruct B3 as (k & chk & Hk & [I1 I2] & Hs). exists k, chk. split; [exact Hk|]. split; [split; lia|].
    destruct (cur (remove_block s b)); try contradiction. destruct Hs as [Hki Hks]. split; [exact Hki|].
    intros E Hpos. specialize (Hks E ltac:(lia)). unfold alloc_side in *. destruct (up c); lia.
  - intros b' Hb'. specialize (B4 b' Hb'). unfold disjoint_rng in *. lia.
Qed.

Lemma find_block_ext s s' b : live s' = live s -> find_block s' b = find_block s b.
Proof. intros E. unfold find_block. rewrite E. reflexivity. Qed.

Lemma set_nth_same {A} (l : list A) i x : nth_error l i = Some x -> set_nth l i x = l.
Proof. revert i; induction l as [|a l IH]; intros [|i] H; cbn in *; try discriminate; [congruence|]. f_equal. apply IH. exact H. Qed.

Lemma set_pos_cpos ch : set_pos ch (cpos ch) = ch.
Proof. destruct ch; reflexivity. Qed.

Lemma set_pos_set_pos ch p q : set_pos (set_pos ch p) q = set_pos ch q.
Proof. reflexivity. Qed.

(* the allocation-based outcomes of a shrink, shared by WithoutShrink and the unfit path *)
Lemma shrink_moved_inv c s b blk nsize nalign r (x : arena * (Z + err)) len :
  cfg_ok c -> inv c s -> find_block s b = Some blk -> valid_layout nsize nalign ->
  resp_ok c s nsize nalign r ->
  (x = raw_alloc c s nsize nalign r \/ x = raw_alloc_slow c s nsize nalign r) ->
  inv c (fst (let '(s1, res) :=
           match x with
           | (s1, inl np) => let '(s2, ub) := copy_block s1 (bptr blk) np len true in (s2, inl (mkRO np nsize ub))
           | (s1, inr e) => (s1, inr e)
           end in
         match res with
         | inl ro =>
           let '(s3, id) := add_block (remove_block s1 b) (ro_ptr ro) (ro_size ro) nalign in
           (s3, mkOut (RBlock id (ro_ptr ro) (ro_size ro)) (new_events s s3) (ro_ub ro))
         | inr e => (s1, mkOut (RErr e) (new_events s s1) false)
         end)).
Proof.
  intros Hc Hinv Hf Hl Hr Hx. destruct x as [s1 [np|e]].
  - assert (Hres : alloc_result_ok c s s1 nsize nalign (inl np)).
    { destruct Hx as [Hx|Hx]; symmetry in Hx; [eapply raw_alloc_post|eapply raw_alloc_slow_post]; try eassumption; exact (proj1 Hinv). }
    destruct (copy_block s1 (bptr blk) np len true) as [s2 ub] eqn:Ecb.
    destruct (copy_block_fields _ _ _ _ _ _ _ Ecb) as (K1 & K2 & K3 & K4 & K5).
    cbn [ro_ptr ro_size ro_ub].
    destruct (add_block (remove_block s2 b) np nsize nalign) as [s3 id] eqn:Eadd. cbn [fst].
    destruct Hl as (_ & Hs0 & _).
    eapply (realloc_moved c s b blk s1 s2 np nsize nalign s3 id); eassumption.
  - cbn [fst].
    assert (Hres : alloc_result_ok c s s1 nsize nalign (inr e)).
    { destruct Hx as [Hx|Hx]; symmetry in Hx; [eapply raw_alloc_post|eapply raw_alloc_slow_post]; try eassumption; exact (proj1 Hinv). }
    eapply alloc_result_inv; eassumption.
Qed.

Lemma divides_spec a x : 0 < a -> divides a x = true -> (a | x).
Proof. intros Ha H. unfold divides in H. apply Z.eqb_eq in H. apply Z.mod_divide; [lia|exact H]. Qed.

Lemma step_inv_shrink c s0 h ws b nsize nalign r :
  cfg_ok c -> inv c s0 -> valid_layout nsize nalign ->
  (forall blk, find_block s0 b = Some blk -> nsize <= bsize blk) ->
  resp_ok c s0 nsize nalign r ->
  inv c (fst (step c s0 (OShrink h ws b nsize nalign) r)).
Proof.
  intros Hc Hinv Hl Hle Hr. apply inv_tick in Hinv.
  assert (Hr' : resp_ok c (tick s0) nsize nalign r) by (eapply resp_ok_ext; [|exact Hr]; reflexivity).
  assert (Hle' : forall blk, find_block (tick s0) b = Some blk -> nsize <= bsize blk) by exact Hle.
  clear Hr Hle. cbn [step]. set (s := tick s0) in *.
  destruct (find_block s b) as [blk|] eqn:Ef; [|exact Hinv].
  specialize (Hle' blk eq_refl).
  destruct (find_block_spec _ _ _ Ef) as [Hblk Hid].
  pose proof Hinv as (Hg & Hb & Hdis & Hids).
  pose proof Hg as (Hok & Hd & Hm & Hcur).
  pose proof (min_align_pos _ Hm) as Hmpos.
  rewrite Forall_forall in Hb. destruct (Hb blk Hblk) as (C1 & C2 & Cpl).
  pose proof Hl as (Ha2 & Hs0 & Hl3). pose proof (pow2_pos _ Ha2) as Hapos.
  (* handle claimed: block unchanged or error *)
  destruct (negb (is_top s h) && negb (has_wrapper WShrink ws && divides nalign (bptr blk))).
  { destruct (divides nalign (bptr blk)) eqn:Ediv; [|exact Hinv].
    destruct (add_block (remove_block s b) (bptr blk) (bsize blk) nalign) as [s3 id] eqn:Eadd. cbn [fst].
    eapply (readd_subblock c s b blk (bsize blk) nalign s3 id); try eassumption; [lia|].
    apply divides_spec; assumption. }
  destruct (has_wrapper WShrink ws).
  - (* WithoutShrink *)
    unfold ws_shrink. destruct (divides nalign (bptr blk)) eqn:Ediv.
    + cbn [ro_ptr ro_size ro_ub].
      destruct (add_block (remove_block s b) (bptr blk) nsize nalign) as [s3 id] eqn:Eadd. cbn [fst].
      eapply (readd_subblock c s b blk nsize nalign s3 id); try eassumption; [lia|].
      apply divides_spec; assumption.
    + apply (shrink_moved_inv c s b blk nsize nalign r (raw_alloc c s nsize nalign r)
               (if fix_without_shrink c then nsize else bsize blk)); try assumption. left; reflexivity.
  - unfold raw_shrink. destruct (negb (divides nalign (bptr blk))) eqn:Endiv.
    + (* shrink_unfit *)
      destruct (shrinks c && is_last c s (bptr blk) (bsize blk)) eqn:Esl.
      * apply andb_true_iff in Esl. destruct Esl as [_ El].
        unfold is_last in El. destruct (cur_chunk s) as [ch0|] eqn:Ecc; [|discriminate].
        destruct (cur_chunk_spec s ch0 Ecc) as (i & Ec & En).
        pose proof (Forall_nth_error _ _ _ _ Hok En) as [Hgeo Hpos].
        assert (Hlast : if up c then bptr blk + bsize blk = cpos ch0 else bptr blk = cpos ch0).
        { destruct (up c); apply Z.eqb_eq in El; exact El. }
        assert (Hblkin : in_chunk c ch0 (bptr blk) (bsize blk)) by (eapply is_last_in_cur; eassumption).
        destruct Hblkin as [I1 I2].
        rewrite Ec in Hcur. destruct Hcur as (ch0' & En' & Hmp). rewrite En in En'. injection En' as <-.
        (* the position after deallocate_assume_last *)
        set (p1 := if negb (deallocates c) then cpos ch0
                   else if up c then align_posZ true (malign s) (bptr blk)
                   else align_posZ false (malign s) (bptr blk + bsize blk)).
        assert (Hp1 : (malign s | p1) /\ content_start c ch0 <= p1 <= content_end c ch0 /\
                      (if up c then bptr blk <= p1 else p1 <= bptr blk + bsize blk)).
        { unfold p1, align_posZ. destruct (negb (deallocates c)).
          - split; [exact Hmp|]. split; [exact Hpos|]. destruct (up c); lia.
          - destruct (up c) eqn:Eup.
            + pose proof (up_align_ge (bptr blk) (malign s) Hmpos).
              assert (up_alignZ (bptr blk) (malign s) <= cpos ch0) by (apply up_align_min; [exact Hmpos|exact Hmp|lia]).
              split; [apply up_align_div; exact Hmpos|]. split; lia.
            + pose proof (down_align_le (bptr blk + bsize blk) (malign s) Hmpos).
              assert (cpos ch0 <= down_alignZ (bptr blk + bsize blk) (malign s)) by (apply down_align_max; [exact Hmpos|exact Hmp|lia]).
              split; [apply down_align_div; exact Hmpos|]. split; lia. }
        destruct Hp1 as (Hp1m & Hp1r & Hp1s).
        assert (Es1 : chunks (dealloc_assume_last c s (bptr blk) (bsize blk)) = set_nth (chunks s) i (set_pos ch0 p1) /\
                      cur (dealloc_assume_last c s (bptr blk) (bsize blk)) = cur s /\
                      aligns (dealloc_assume_last c s (bptr blk) (bsize blk)) = aligns s /\
                      live (dealloc_assume_last c s (bptr blk) (bsize blk)) = live s /\
                      nextid (dealloc_assume_last c s (bptr blk) (bsize blk)) = nextid s).
        { unfold dealloc_assume_last, p1. destruct (negb (deallocates c)).
          - rewrite set_pos_cpos, (set_nth_same _ _ _ En). repeat split.
          - destruct (up c); apply set_cur_pos_fields; assumption. }
        set (s1 := dealloc_assume_last c s (bptr blk) (bsize blk)) in *.
        destruct Es1 as (D1 & D2 & D3 & D4 & D5).
        assert (En1 : nth_error (chunks s1) i = Some (set_pos ch0 p1)).
        { rewrite D1. apply nth_error_set_nth_eq. eapply nth_error_some_lt; exact En. }
        assert (Ecc1 : cur_chunk s1 = Some (set_pos ch0 p1)) by (unfold cur_chunk; rewrite D2, Ec; exact En1).
        rewrite Ecc1.
        assert (Hm1 : malign s1 = malign s) by (unfold malign; rewrite D3; reflexivity).
        assert (Hchok1 : chunk_ok c (set_pos ch0 p1)) by (apply set_pos_ok; assumption).
        destruct (chunk_alloc c (malign s) (set_pos ch0 p1) nsize nalign) as [[np ch1]|] eqn:Eca.
        -- (* reallocated inside the current chunk *)
           destruct (chunk_alloc_sound c Hc (malign s) (set_pos ch0 p1) nsize nalign np ch1 Hchok1 Hm Hp1m Hl Eca)
             as (npos & -> & Hanp & Hmnpos & Hnposr & Hside).
           cbn [set_pos cpos] in Hside.
           change (content_start c (set_pos ch0 p1)) with (content_start c ch0) in Hnposr.
           change (content_end c (set_pos ch0 p1)) with (content_end c ch0) in Hnposr.
           rewrite D2, Ec.
           set (s2 := upd_chunks s1 (set_nth (chunks s1) i (set_pos (set_pos ch0 p1) npos))).
           match goal with |- context [copy_block s2 ?a ?bb ?l ?no] => destruct (copy_block s2 a bb l no) as [s3' ub] eqn:Ecb end.
           destruct (copy_block_fields _ _ _ _ _ _ _ Ecb) as (K1 & K2 & K3 & K4 & K5).
           cbn [ro_ptr ro_size ro_ub].
           destruct (add_block (remove_block s3' b) np nsize nalign) as [s4 id] eqn:Eadd. cbn [fst].
           assert (HF : chunks s3' = set_nth (chunks s) i (set_pos ch0 npos) /\ cur s3' = cur s /\ aligns s3' = aligns s /\
                        live s3' = live s /\ nextid s3' = nextid s).
           { rewrite K1, K2, K3, K4, K5. unfold s2. cbn [chunks cur aligns live nextid upd_chunks].
             rewrite D1, set_nth_set_nth, set_pos_set_pos. repeat split; assumption. }
           destruct HF as (HF1 & HF2 & HF3 & HF4 & HF5).
           eapply (realloc_in_cur_chunk c s b blk i ch0 np nsize nalign npos s3' s4 id); try eassumption.
           ++ destruct (up c); [destruct Hside as [S1 S2]|destruct Hside as [S1 S2]]; split; lia.
           ++ destruct (up c); [destruct Hside as [S1 S2]|destruct Hside as [S1 S2]]; repeat split; lia.
        -- (* does not fit: restore the position, allocate elsewhere *)
           set (s2 := set_cur_pos s1 (cpos ch0)).
           assert (Ec1 : cur s1 = Cur i) by (rewrite D2; exact Ec).
           destruct (set_cur_pos_fields s1 i (set_pos ch0 p1) (cpos ch0) Ec1 En1) as (G1 & G2 & G3 & G4 & G5).
           fold s2 in G1, G2, G3, G4, G5.
           assert (G1' : chunks s2 = chunks s).
           { rewrite G1, D1, set_nth_set_nth, set_pos_set_pos, set_pos_cpos. apply set_nth_same. exact En. }
           assert (Hinv2 : inv c s2) by (eapply (inv_ext c s); try eassumption; congruence).
           assert (Hf2 : find_block s2 b = Some blk) by (rewrite (find_block_ext s s2) by congruence; exact Ef).
           assert (Hr2 : resp_ok c s2 nsize nalign r) by (eapply resp_ok_ext; eassumption).
           pose proof (shrink_moved_inv c s2 b blk nsize nalign r (raw_alloc_slow c s2 nsize nalign r) nsize
                         Hc Hinv2 Hf2 Hl Hr2 (or_intror eq_refl)) as Hfin.
           destruct (raw_alloc_slow c s2 nsize nalign r) as [s3' [np|e]].
           ++ destruct (copy_block s3' (bptr blk) np nsize true) as [s4 ub]. cbn [ro_ptr ro_size ro_ub] in *.
              destruct (add_block (remove_block s4 b) np nsize nalign) as [s5 id]. exact Hfin.
           ++ exact Hfin.
      * pose proof (shrink_moved_inv c s b blk nsize nalign r (raw_alloc c s nsize nalign r) nsize
                      Hc Hinv Ef Hl Hr' (or_introl eq_refl)) as Hfin.
        destruct (raw_alloc c s nsize nalign r) as [s3' [np|e]].
        -- destruct (copy_block s3' (bptr blk) np nsize true) as [s4 ub]. cbn [ro_ptr ro_size ro_ub] in *.
           destruct (add_block (remove_block s4 b) np nsize nalign) as [s5 id]. exact Hfin.
        -- exact Hfin.
    + (* alignment fits *)
      apply negb_false_iff in Endiv. pose proof (divides_spec _ _ Hapos Endiv) as Hdivp.
      destruct (negb (shrinks c) || negb (is_last c s (bptr blk) (bsize blk))) eqn:Eno.
      * cbn [ro_ptr ro_size ro_ub].
        destruct (add_block (remove_block s b) (bptr blk) (bsize blk) nalign) as [s3 id] eqn:Eadd. cbn [fst].
        eapply (readd_subblock c s b blk (bsize blk) nalign s3 id); try eassumption. lia.
      * apply orb_false_iff in Eno. destruct Eno as [_ El]. apply negb_false_iff in El.
        unfold is_last in El. destruct (cur_chunk s) as [ch0|] eqn:Ecc; [|discriminate].
        destruct (cur_chunk_spec s ch0 Ecc) as (i & Ec & En).
        pose proof (Forall_nth_error _ _ _ _ Hok En) as [Hgeo Hpos].
        assert (Hlast : if up c then bptr blk + bsize blk = cpos ch0 else bptr blk = cpos ch0).
        { destruct (up c); apply Z.eqb_eq in El; exact El. }
        assert (Hblkin : in_chunk c ch0 (bptr blk) (bsize blk)) by (eapply is_last_in_cur; eassumption).
        destruct Hblkin as [I1 I2].
        rewrite Ec in Hcur. destruct Hcur as (ch0' & En' & Hmp). rewrite En in En'. injection En' as <-.
        destruct (up c) eqn:Eup.
        -- (* up: keep the pointer, move the position back *)
           cbn [ro_ptr ro_size ro_ub].
           set (np := up_alignZ (bptr blk + nsize) (malign s)).
           destruct (add_block (remove_block (set_cur_pos s np) b) (bptr blk) nsize nalign) as [s3 id] eqn:Eadd. cbn [fst].
           assert (Hnp1 : bptr blk + nsize <= np) by (apply up_align_ge; exact Hmpos).
           assert (Hnp2 : np <= cpos ch0) by (apply up_align_min; [exact Hmpos|exact Hmp|lia]).
           destruct (set_cur_pos_fields s i ch0 np Ec En) as (G1 & G2 & G3 & G4 & G5).
           eapply (realloc_in_cur_chunk c s b blk i ch0 (bptr blk) nsize nalign np (set_cur_pos s np) s3 id); try eassumption.
           ++ rewrite Eup. exact Hlast.
           ++ split; lia.
           ++ apply up_align_div; exact Hmpos.
           ++ rewrite Eup. repeat split; lia.
        -- (* down: the block slides towards its old end *)
           set (A := Z.max nalign (malign s)).
           set (na := down_alignZ (Z.max (bptr blk + bsize blk - nsize) 0) A).
           match goal with |- context [copy_block s ?a ?bb ?l ?no] => destruct (copy_block s a bb l no) as [s1 ub] eqn:Ecb end.
           destruct (copy_block_fields _ _ _ _ _ _ _ Ecb) as (K1 & K2 & K3 & K4 & K5).
           cbn [ro_ptr ro_size ro_ub].
           destruct (add_block (remove_block (set_cur_pos s1 na) b) na nsize nalign) as [s3 id] eqn:Eadd. cbn [fst].
           assert (HA2 : pow2 A) by (apply pow2_max; [exact Ha2|exact (proj1 Hm)]).
           pose proof (pow2_pos _ HA2) as HApos.
           pose proof (geom_bounds c Hc ch0 Hgeo) as (Hcs0 & _).
           assert (HAp : (A | bptr blk)).
           { unfold A. destruct (Z.max_spec nalign (malign s)) as [[_ ->]|[_ ->]]; [rewrite Hlast; exact Hmp|exact Hdivp]. }
           assert (Hna1 : na <= bptr blk + bsize blk - nsize).
           { pose proof (down_align_le (Z.max (bptr blk + bsize blk - nsize) 0) A HApos). fold na in H. lia. }
           assert (Hna2 : bptr blk <= na) by (apply down_align_max; [exact HApos|exact HAp|lia]).
           assert (En1 : nth_error (chunks s1) i = Some ch0) by (rewrite K1; exact En).
           assert (Ec1 : cur s1 = Cur i) by (rewrite K2; exact Ec).
           destruct (set_cur_pos_fields s1 i ch0 na Ec1 En1) as (G1 & G2 & G3 & G4 & G5).
           assert (HF : chunks (set_cur_pos s1 na) = set_nth (chunks s) i (set_pos ch0 na) /\ cur (set_cur_pos s1 na) = cur s /\
                        aligns (set_cur_pos s1 na) = aligns s /\ live (set_cur_pos s1 na) = live s /\ nextid (set_cur_pos s1 na) = nextid s).
           { rewrite G1, G2, G3, G4, G5, K1, K2, K3, K4, K5. repeat split. }
           destruct HF as (HF1 & HF2 & HF3 & HF4 & HF5).
           eapply (realloc_in_cur_chunk c s b blk i ch0 na nsize nalign na (set_cur_pos s1 na) s3 id); try eassumption.
           ++ rewrite Eup. exact Hlast.
           ++ apply down_align_div_finer; [exact HApos|]. apply pow2_divide; [exact Ha2|exact HA2|unfold A; lia].
           ++ split; lia.
           ++ apply down_align_div_finer; [exact HApos|]. apply pow2_divide; [exact (proj1 Hm)|exact HA2|unfold A; lia].
           ++ rewrite Eup. repeat split; lia.
Qed.

(* ------------------------------------------------------------ every reachable state *)
Definition is_realloc (o : op) : bool :=
  match o with
  | OTryErr _ _ _ _ | OAlignPush _ _ | OAlignPop _ | OPrepare _ _ _ _ _ | OWriteRaw _ _ _
  | OCommit _ _ _ _ _ _ _ _ => true
  | _ => false
  end.

(* PARTIAL: every operation except OTryErr (alloc_try_with(_mut) whose closure returns Err: its
   preservation proof is not finished; the executable model of that operation is still tied to
   the code by the correspondence check and monitored on every trace). *)
Theorem step_inv_partial c s o r :
  cfg_ok c -> inv c s -> is_realloc o = false -> op_ok c s o -> op_resp_ok c s o r ->
  inv c (fst (step c s o r)).
Proof.
  intros Hc Hinv Hnr Hok Hr. destruct o; try discriminate Hnr.
  - apply step_inv_alloc; assumption.
  - apply step_inv_dealloc; assumption.
  - destruct Hok as [Hl Hge]. apply step_inv_grow; assumption.
  - destruct Hok as [Hl Hle]. apply step_inv_shrink; assumption.
  - apply step_inv_fill; assumption.
  - apply step_inv_checkpoint; assumption.
  - apply step_inv_reset_to; assumption.
  - apply step_inv_reset; assumption.
  - apply step_inv_reset_to_start; assumption.
  - apply step_inv_reserve; assumption.
  - apply inv_tick in Hinv. cbn [step]. destruct (is_top (tick s) h); exact Hinv.
  - apply step_inv_claim; assumption.
  - apply step_inv_unclaim; assumption.
  - apply step_inv_drop; assumption.
Qed.

(* a run: operations with the base allocator's answers *)
Fixpoint run (c : cfg) (s : arena) (ops : list (op * resp)) : arena :=
  match ops with
  | [] => s
  | (o, r) :: rest => run c (fst (step c s o r)) rest
  end.

Fixpoint run_ok (c : cfg) (s : arena) (ops : list (op * resp)) : Prop :=
  match ops with
  | [] => True
  | (o, r) :: rest =>
    is_realloc o = false /\ op_ok c s o /\ op_resp_ok c s o r /\ run_ok c (fst (step c s o r)) rest
  end.

Theorem run_inv_partial c ops : forall s,
  cfg_ok c -> inv c s -> run_ok c s ops -> inv c (run c s ops).
Proof.
  induction ops as [|[o r] rest IH]; intros s Hc Hinv Hok; [exact Hinv|].
  destruct Hok as (H1 & H2 & H3 & H4). cbn [run]. apply IH; [exact Hc| |exact H4].
  apply step_inv_partial; assumption.
Qed.

(* the initial states satisfy the invariant *)
Lemma inv_unallocated c m : valid_min_align m -> inv c (init_unallocated m).
Proof.
  intros Hm. split.
  - unfold ginv, init_unallocated, empty_arena, malign. cbn.
    split; [constructor|]. split; [intros i j a b _ Ha; destruct i; discriminate|]. split; [exact Hm|reflexivity].
  - cbn. split; [constructor|]. split; [constructor|]. split; constructor.
Qed.

(* what the invariant says about every live block (the statement of C01) *)
Theorem inv_live_blocks c s :
  cfg_ok c -> inv c s ->
  (forall b, In b (live s) ->
     (balign b | bptr b) /\ 0 <= bsize b /\
     exists ch, In ch (chunks s) /\
       cbase ch <= bptr b /\ bptr b + bsize b <= cbase ch + cgranted ch /\
       content_start c ch <= bptr b /\ bptr b + bsize b <= content_end c ch) /\
  (forall a b, In a (live s) -> In b (live s) -> bid a <> bid b ->
     0 < bsize a -> 0 < bsize b ->
     bptr a + bsize a <= bptr b \/ bptr b + bsize b <= bptr a).
Proof.
  intros Hc ((Hok & _) & Hb & Hd & _). split.
  - intros b Hin. rewrite Forall_forall in Hb. destruct (Hb b Hin) as (B1 & B2 & (k & chk & Hk & Hinc & _)).
    split; [exact B2|]. split; [exact B1|]. exists chk. split; [eapply nth_error_In; exact Hk|].
    pose proof (Forall_nth_error _ _ _ _ Hok Hk) as [Gk _].
    pose proof (chunk_range_in_granted c chk _ _ Hc Gk Hinc B1) as [R1 R2].
    destruct Hinc as [I1 I2]. repeat split; assumption.
  - intros a b Ha Hb' Hne Hsa Hsb.
    assert (Hgen : forall l, ForallOrdPairs disjoint2 l -> In a l -> In b l -> disjoint2 a b).
    { clear - Hne. intros l Hl. induction Hl as [|x l Hx Hl IH]; [contradiction|].
      rewrite Forall_forall in Hx. intros [->|Ha] [->|Hb].
      - congruence.
      - exact (Hx b Hb).
      - apply disjoint_rng_sym. exact (Hx a Ha).
      - apply IH; assumption. }
    specialize (Hgen _ Hd Ha Hb'). unfold disjoint2, disjoint_rng in Hgen. lia.
Qed.

