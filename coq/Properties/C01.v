(* C01 — Live allocations are valid, aligned and pairwise disjoint.
   Only pinned statements, `exact`, and Print Assumptions.
   Preservation is proved for EVERY modelled operation (allocate, allocate_zeroed, deallocate,
   grow(_zeroed), shrink — in place, moved, through WithoutDealloc/WithoutShrink — fill,
   checkpoint, reset_to, alloc_try_with(_mut) returning Err, reset, reset_to_start, reserve, claim,
   unclaim, entering and leaving aligned / scoped_aligned regions, prepare, writes into a prepared
   region, commit (typed and dyn, forward and reverse), drop) under the contract of each, and
   lifted to every history (C01_reachable).  The older `…_partial` statements are kept: other
   properties' files refer to them. *)
From Coq Require Import ZArith List.
From BS Require Import Word BumpSpec ChunkSpec Arena ArenaInv ArenaExt ArenaInv2 ArenaSplit LibRefine AllocRefine ArenaReserve.
From BS.gen Require AllocSites.
Import ListNotations.
Open Scope Z_scope.

(* what the invariant gives for every live block: aligned, inside a chunk the arena owns
   (inside the block granted by the base allocator), pairwise disjoint *)
Theorem C01_live_blocks :
  forall c s, cfg_ok c -> inv c s ->
  (forall b, In b (live s) ->
     (balign b | bptr b) /\ 0 <= bsize b /\
     exists ch, In ch (chunks s) /\
       cbase ch <= bptr b /\ bptr b + bsize b <= cbase ch + cgranted ch /\
       content_start c ch <= bptr b /\ bptr b + bsize b <= content_end c ch) /\
  (forall a b, In a (live s) -> In b (live s) -> bid a <> bid b ->
     0 < bsize a -> 0 < bsize b ->
     bptr a + bsize a <= bptr b \/ bptr b + bsize b <= bptr a).
Proof. exact inv_live_blocks. Qed.

(* one step preserves the invariant: any settings, any header layout, any granted size *)
Theorem C01_step_inv_partial :
  forall c s o r,
  cfg_ok c -> inv c s -> is_realloc o = false -> op_ok c s o -> op_resp_ok c s o r ->
  inv c (fst (step c s o r)).
Proof. exact step_inv_partial. Qed.

(* hence every state reachable by a contract-respecting history *)
Theorem C01_reachable_partial :
  forall c ops s, cfg_ok c -> inv c s -> run_ok c s ops -> inv c (run c s ops).
Proof. exact run_inv_partial. Qed.

(* the full statements: every operation, every history *)
Theorem C01_step_inv :
  forall c s o r,
  cfg_ok c -> inv c s -> op_ok2 c s o -> op_resp_ok2 c s o r -> inv c (fst (step c s o r)).
Proof. exact step_inv. Qed.

Theorem C01_reachable :
  forall c xs s, cfg_ok c -> inv c s -> hok c s xs -> inv c (hrun c s xs).
Proof. exact run_inv. Qed.

(* the contract commit asks for is what a successful prepare delivers *)
Theorem C01_prepare_gives_commit_contract :
  forall c s0 h es ea cap rev r ptr cap',
  cfg_ok c -> inv c s0 -> resp_ok c s0 (es * cap) ea r ->
  0 < es -> 0 <= cap -> pow2 ea -> (ea | es) ->
  o_res (snd (step c s0 (OPrepare h es ea cap rev) r)) = RRange ptr cap' ->
  forall len, 0 <= len <= cap' ->
  commit_ok c (fst (step c s0 (OPrepare h es ea cap rev) r)) es ea ptr len cap' rev.
Proof. exact prepare_gives_commit_ok. Qed.

Theorem C01_initial_unallocated :
  forall c m, valid_min_align m -> inv c (init_unallocated m).
Proof. exact inv_unallocated. Qed.

(* the block returned by an allocation: aligned, placed in owned memory on the allocated side of
   the bump position, disjoint from everything that could be live before *)
Theorem C01_result_block :
  forall c s size align r s' res,
  cfg_ok c -> ginv c s -> valid_layout size align -> resp_ok c s size align r ->
  raw_alloc c s size align r = (s', res) ->
  alloc_result_ok c s s' size align res.
Proof. exact raw_alloc_post. Qed.

(* is_last has no false positives across chunks (back-to-back chunks, zero-sized blocks) *)
Theorem C01_is_last_no_false_positive :
  forall c s i ch p sz,
  cfg_ok c -> ginv c s -> cur s = Cur i -> nth_error (chunks s) i = Some ch ->
  0 <= sz -> placed c s p sz ->
  (if up c then p + sz = cpos ch else p = cpos ch) ->
  in_chunk c ch p sz.
Proof. exact is_last_in_cur. Qed.

(* ---- split-off parts of a block count as separate live blocks (ArenaSplit.v): dividing a live
   block is pure bookkeeping, the invariant survives it, and so does every later operation on a part *)
Theorem C01_split_keeps_invariant :
  forall c s b blk mid ralign,
  inv c s -> find_block s b = Some blk -> 0 <= mid <= bsize blk -> (ralign | bptr blk + mid) ->
  inv c (split_block s b mid ralign).
Proof. exact split_keeps_inv. Qed.

Theorem C01_split_is_bookkeeping :
  forall s b mid ralign,
  chunks (split_block s b mid ralign) = chunks s /\ cur (split_block s b mid ralign) = cur s /\
  (forall a, mem (split_block s b mid ralign) a = mem s a) /\ depth (split_block s b mid ralign) = depth s /\
  ledger (split_block s b mid ralign) = ledger s.
Proof. exact split_is_bookkeeping. Qed.

Theorem C01_split_parts :
  forall s b blk mid ralign, find_block s b = Some blk ->
  exists l r, live (split_block s b mid ralign) = r :: l :: live (remove_block s b) /\
    bptr l = bptr blk /\ bsize l = mid /\ balign l = balign blk /\
    bptr r = bptr blk + mid /\ bsize r = bsize blk - mid /\ balign r = ralign /\
    bptr l + bsize l = bptr r /\ bsize l + bsize r = bsize blk /\
    born l = born blk /\ born r = born blk /\ bid l = nextid s /\ bid r = S (nextid s).
Proof. exact split_parts. Qed.

Theorem C01_histories_with_splits_keep_invariant :
  forall c xs s, cfg_ok c -> inv c s -> xrun_ok c s xs -> inv c (fold_left (xstep c) xs s).
Proof. exact xrun_inv. Qed.

Theorem C01_split_is_last :
  forall c s ptr size mid,
  (up c = true -> is_last c s (ptr + mid) (size - mid) = is_last c s ptr size) /\
  (up c = false -> is_last c s ptr mid = is_last c s ptr size).
Proof. exact split_is_last. Qed.

Theorem C01_split_other_part_not_last :
  forall c s ptr size mid ch,
  cur_chunk s = Some ch -> 0 < mid < size ->
  (up c = true -> is_last c s ptr mid = true -> is_last c s ptr size = false) /\
  (up c = false -> is_last c s (ptr + mid) (size - mid) = true -> is_last c s ptr size = false).
Proof. exact split_other_part_not_last. Qed.

(* the position arithmetic of the CURRENT allocator_impl.rs / set_pos_addr_and_align (cut out by tools/allocsites.py, translated into gen/AllocSites.v on every run) is the arena model's (AllocRefine.v) *)
Theorem C01_source_is_last_is_the_models :
  forall ptr size pos, 0 <= ptr -> 0 <= size -> ptr + size < W ->
  AllocSites.is_last_up ptr size pos = Ok (ptr + size =? pos) /\
  AllocSites.is_last_down ptr pos = Ok (ptr =? pos).
Proof. exact is_last_refines. Qed.

Theorem C01_source_dealloc_position_is_the_models :
  forall upb m ptr size, valid_min_align m -> 0 <= ptr -> 0 <= size -> ptr + size + m - 1 < W ->
  (AllocSites.dealloc_up_target ptr = Ok ptr /\ AllocSites.dealloc_down_target ptr size = Ok (ptr + size)) /\
  AllocSites.set_pos_and_align_addr upb m (if upb then ptr else ptr + size)
  = Ok (align_posZ upb m (if upb then ptr else ptr + size)).
Proof. exact dealloc_target_refines. Qed.

Theorem C01_source_grow_up_is_the_models :
  forall chunk_end ptr nsize m, valid_min_align m -> 0 <= ptr <= chunk_end -> 0 <= nsize -> ptr + nsize + m - 1 < W ->
  AllocSites.grow_up_remaining chunk_end ptr = Ok (chunk_end - ptr) /\
  AllocSites.grow_up_fits nsize (chunk_end - ptr) = Ok (nsize <=? chunk_end - ptr) /\
  AllocSites.grow_up_new_pos ptr nsize m = Ok (up_alignZ (ptr + nsize) m).
Proof. exact grow_up_refines. Qed.

Theorem C01_source_grow_down_is_the_models :
  forall ptr osize nsize nalign m very_start,
  valid_min_align m -> pow2 nalign -> nalign < W -> 0 <= ptr < W -> 0 <= osize <= nsize ->
  let new_addr := down_alignZ (Z.max (ptr - (nsize - osize)) 0) (Z.max nalign m) in
  new_addr + nsize < W ->
  AllocSites.grow_down_additional nsize osize = Ok (nsize - osize) /\
  AllocSites.grow_down_new_addr ptr (nsize - osize) nalign m = Ok new_addr /\
  AllocSites.grow_down_fits new_addr very_start = Ok (very_start <=? new_addr) /\
  AllocSites.grow_down_new_addr_end new_addr nsize = Ok (new_addr + nsize) /\
  AllocSites.grow_down_nonoverlapping (new_addr + nsize) ptr = Ok (new_addr + nsize <? ptr).
Proof. exact grow_down_refines. Qed.

(* reserve: the walk over the chunk list as the code writes it (checked_sub of what the current chunk has left, then of
   every later chunk's capacity; the shape of the loop is checked against the source by tools/allocsites.py) asks for
   a new chunk exactly when the request exceeds the sum, and then for exactly the difference - the closed form the
   arena model uses *)
Theorem C01_reserve_walk_closed_form :
  forall n remaining_cur caps,
  0 <= n -> 0 <= remaining_cur -> Forall (fun x => 0 <= x) caps ->
  reserve_walk n remaining_cur caps =
  let avail := remaining_cur + sumZ caps in
  if n <=? avail then None else Some (n - avail).
Proof. exact reserve_walk_closed_form. Qed.

(* where the position goes when a typed prepared slice is committed: RawChunk::set_pos_addr_and_align_from of the CURRENT source
   (cut out and translated on every run) is the model's commit_pos - re-align in bump direction exactly when the element
   alignment is below the minimum alignment *)
Theorem C01_source_commit_position_is_the_models :
  forall (c : cfg) m ea x, valid_min_align m -> 0 <= x -> x + m - 1 < W ->
  AllocSites.commit_pos_from (up c) m x ea = Ok (commit_pos c m ea false x).
Proof. exact commit_pos_refines. Qed.

Print Assumptions C01_live_blocks.
Print Assumptions C01_step_inv_partial.
Print Assumptions C01_reachable_partial.
Print Assumptions C01_step_inv.
Print Assumptions C01_reachable.
Print Assumptions C01_prepare_gives_commit_contract.
Print Assumptions C01_initial_unallocated.
Print Assumptions C01_result_block.
Print Assumptions C01_is_last_no_false_positive.
Print Assumptions C01_split_keeps_invariant.
Print Assumptions C01_split_is_bookkeeping.
Print Assumptions C01_split_parts.
Print Assumptions C01_histories_with_splits_keep_invariant.
Print Assumptions C01_split_is_last.
Print Assumptions C01_split_other_part_not_last.
Print Assumptions C01_source_is_last_is_the_models.
Print Assumptions C01_source_dealloc_position_is_the_models.
Print Assumptions C01_source_grow_up_is_the_models.
Print Assumptions C01_source_grow_down_is_the_models.
Print Assumptions C01_reserve_walk_closed_form.
Print Assumptions C01_source_commit_position_is_the_models.
