(* C09 — String types behave like std String and always hold valid UTF-8.
   Model: coq/Utf8.v (UTF-8 recogniser = Unicode table 3-7, encoder, char boundaries) and coq/Str.v
   (every string operation as the code performs it: boundary assertions first, then memmove /
   memcpy on `contents ++ spare capacity`, then set_len; retain with its SetLenOnDrop guard and a
   callback that may panic at any invocation; Drain consumed from both ends, dropped or leaked;
   split_off by rotation; strict and lossy UTF-8 / UTF-16 conversions; C strings).
   Theorems are for ALL byte strings, indices, replacement texts, callback scripts.
   PARTIAL: what `str::chars()` yields is taken to be Utf8.decode, core::str::from_utf8 to be
   Utf8.valid and Utf8Chunks to split as Str.lossy_fuel does (all three are std code; the tie
   compares them on every case); formatting is compared with std format! on the implementation only. *)
From Coq Require Import ZArith List Bool Arith.
From BS Require Import Utf8 Colls Str StrProofs StrAssertSpec.
From BS.gen Require StrAsserts.
Import ListNotations.

(* ---- UTF-8 itself *)
Theorem C09_valid_is_concatenation_of_encodings :
  forall l, valid l = true <-> exists cs, Forall (fun c => scalar c = true) cs /\ l = enc cs.
Proof. exact valid_iff. Qed.

Theorem C09_boundaries_are_ends_of_characters :
  forall cs i, Forall (fun c => scalar c = true) cs ->
  (boundaryb (enc cs) i = true <-> exists k, i = length (enc (firstn k cs))).
Proof. exact boundary_iff. Qed.

Theorem C09_split_at_boundary_is_valid :
  forall l i, valid l = true -> boundaryb l i = true ->
  valid (firstn i l) = true /\ valid (skipn i l) = true.
Proof. exact valid_split. Qed.

(* ---- the byte-level edits compute the std definitions *)
Theorem C09_insert_bytes_code :
  forall s spare idx bytes, idx <= length s -> length bytes <= length spare ->
  insert_bytes_code s spare idx bytes = firstn idx s ++ bytes ++ skipn idx s.
Proof. exact insert_bytes_code_spec. Qed.

Theorem C09_remove_code :
  forall s idx next, idx <= next <= length s -> remove_code s idx next = firstn idx s ++ skipn next s.
Proof. exact remove_code_spec. Qed.

Theorem C09_replace_range_code :
  forall s spare a b r, a <= b <= length s -> length r - (b - a) <= length spare ->
  replace_range_code s spare a b r = firstn a s ++ r ++ skipn b s.
Proof. exact replace_range_code_spec. Qed.

(* ---- contents are valid UTF-8 after every operation, including one that panicked *)
Theorem C09_push_valid : forall s c, V s -> scalar c = true -> V (s_after (s_push s c)).
Proof. exact push_valid. Qed.
Theorem C09_push_str_valid : forall s r, V s -> V r -> V (s_after (s_push_str s r)).
Proof. exact push_str_valid. Qed.
Theorem C09_insert_str_valid :
  forall s spare idx r, V s -> V r -> length r <= length spare -> V (s_after (s_insert_str s spare idx r)).
Proof. exact insert_str_valid. Qed.
Theorem C09_insert_valid :
  forall s spare idx c, V s -> scalar c = true -> length (encode c) <= length spare -> V (s_after (s_insert s spare idx c)).
Proof. exact insert_valid. Qed.
Theorem C09_remove_valid : forall s idx, V s -> V (s_after (s_remove s idx)).
Proof. exact remove_valid. Qed.
Theorem C09_pop_valid : forall s, V s -> V (s_after (s_pop s)).
Proof. exact pop_valid. Qed.
Theorem C09_truncate_valid : forall s n, V s -> V (s_after (s_truncate s n)).
Proof. exact truncate_valid. Qed.
Theorem C09_retain_valid_even_when_the_callback_panics : forall f s, V s -> V (s_after (s_retain f s)).
Proof. exact retain_valid. Qed.
Theorem C09_drain_valid : forall s a b kf kb forget, V s -> V (s_after (s_drain s a b kf kb forget)).
Proof. exact drain_valid. Qed.
Theorem C09_replace_range_valid :
  forall s spare a b r, V s -> V r -> length r - (b - a) <= length spare -> V (s_after (s_replace_range s spare a b r)).
Proof. exact replace_range_valid. Qed.
Theorem C09_extend_from_within_valid : forall s a b, V s -> V (s_after (s_extend_from_within s a b)).
Proof. exact extend_from_within_valid. Qed.
Theorem C09_split_off_valid :
  forall fixed s a b, V s -> V (s_after (s_split_off fixed s a b)) /\
    match s_split_off fixed s a b with SOk _ _ off => V off | SPanic _ => True end.
Proof. exact split_off_valid. Qed.

(* ---- same results as std String; panics exactly off boundaries / out of range *)
Theorem C09_insert_str_spec :
  forall s spare idx r, boundaryb s idx = true -> length r <= length spare ->
  s_insert_str s spare idx r = SOk (firstn idx s ++ r ++ skipn idx s) [] [].
Proof. exact insert_str_spec. Qed.
Theorem C09_insert_str_panics_iff :
  forall s spare idx r, s_panicked (s_insert_str s spare idx r) = true <-> boundaryb s idx = false.
Proof. exact insert_str_panics_iff. Qed.
Theorem C09_remove_spec :
  forall s idx, V s -> boundaryb s idx = true -> idx < length s ->
  exists c, scalar c = true /\ firstn (length (encode c)) (skipn idx s) = encode c /\
            s_remove s idx = SOk (firstn idx s ++ skipn (idx + length (encode c)) s) [c] [] /\
            V (firstn idx s ++ skipn (idx + length (encode c)) s).
Proof. exact remove_spec. Qed.
Theorem C09_remove_panics_iff :
  forall s idx, V s -> (s_panicked (s_remove s idx) = true <-> boundaryb s idx = false \/ length s <= idx).
Proof. exact remove_panics_iff. Qed.
Theorem C09_pop_spec :
  forall s cs, scalars cs -> s = enc cs ->
  s_pop s = match rev cs with [] => SOk s [] [] | c :: r => SOk (enc (rev r)) [c] [] end.
Proof. exact pop_spec. Qed.
Theorem C09_truncate_spec : forall s n, boundaryb s n = true -> s_truncate s n = SOk (firstn n s) [] [].
Proof. exact truncate_spec. Qed.
Theorem C09_truncate_panics_iff :
  forall s n, s_panicked (s_truncate s n) = true <-> (n <= length s /\ boundaryb s n = false).
Proof. exact truncate_panics_iff. Qed.
Theorem C09_retain_is_filter :
  forall (g : nat -> Z -> bool) cs, scalars cs ->
  s_retain (fun k c => Ret (g k c)) (enc cs) = SOk (enc (filter_kz g 0 cs)) [] [].
Proof. exact retain_is_filter. Qed.
Theorem C09_drain_spec :
  forall s a b kf kb, V s -> a <= b <= length s -> boundaryb s a = true -> boundaryb s b = true ->
  exists cs, scalars cs /\ firstn (b - a) (skipn a s) = enc cs /\
    forall forget, exists ys, s_drain s a b kf kb forget = SOk (if forget then s else firstn a s ++ skipn b s) ys [] /\
      (length cs <= kf -> ys = cs).
Proof. exact drain_spec. Qed.
Theorem C09_drain_panics_iff :
  forall s a b kf kb forget, V s -> (s_panicked (s_drain s a b kf kb forget) = true <-> range_bad s a b).
Proof. exact drain_panics_iff. Qed.
Theorem C09_replace_range_spec :
  forall s spare a b r, a <= b <= length s -> boundaryb s a = true -> boundaryb s b = true ->
  length r - (b - a) <= length spare ->
  s_replace_range s spare a b r = SOk (firstn a s ++ r ++ skipn b s) [] [].
Proof. exact replace_range_spec. Qed.
Theorem C09_replace_range_panics_iff :
  forall s spare a b r, s_panicked (s_replace_range s spare a b r) = true <-> range_bad s a b.
Proof. exact replace_range_panics_iff. Qed.
Theorem C09_extend_from_within_panics_iff :
  forall s a b, s_panicked (s_extend_from_within s a b) = true <-> range_bad s a b.
Proof. exact extend_from_within_panics_iff. Qed.
Theorem C09_split_off_spec :
  forall fixed s a b, a <= b <= length s -> boundaryb s a = true -> boundaryb s b = true ->
  s_split_off fixed s a b = SOk (firstn a s ++ skipn b s) [] (firstn (b - a) (skipn a s)).
Proof. exact split_off_spec. Qed.
Theorem C09_split_off_panics_iff :
  forall s a b, s_panicked (s_split_off true s a b) = true <-> range_bad s a b.
Proof. exact split_off_panics_iff. Qed.
(* the code before the "fix:" commit 6b75076 did not satisfy that clause (the witness is the finding) *)
Theorem C09_split_off_pinned_refuted :
  exists s a b, V s /\ range_bad s a b /\ s_panicked (s_split_off false s a b) = false.
Proof. exact split_off_pinned_refuted. Qed.

(* ---- conversions *)
Theorem C09_from_utf8_lossy_valid : forall v, V (s_from_utf8_lossy v).
Proof. exact from_utf8_lossy_valid. Qed.
Theorem C09_from_utf8_lossy_identity_on_valid : forall v, V v -> s_from_utf8_lossy v = v.
Proof. exact from_utf8_lossy_id. Qed.
Theorem C09_lossy_fuel_is_enough :
  forall n m l, length l <= n -> length l <= m -> lossy_fuel n l = lossy_fuel m l.
Proof. exact lossy_fuel_enough. Qed.
Theorem C09_from_utf16_valid : forall v s, Forall unit16 v -> s_from_utf16 v = Some s -> V s.
Proof. exact from_utf16_valid. Qed.
Theorem C09_from_utf16_error_iff_unpaired_surrogate :
  forall v, s_from_utf16 v = None <-> In None (decode_utf16 v).
Proof. exact from_utf16_err_iff. Qed.
Theorem C09_from_utf16_lossy_valid : forall v, Forall unit16 v -> V (s_from_utf16_lossy v).
Proof. exact from_utf16_lossy_valid. Qed.
Theorem C09_from_utf16_lossy_agrees : forall v s, s_from_utf16 v = Some s -> s_from_utf16_lossy v = s.
Proof. exact from_utf16_lossy_agrees. Qed.

(* ---- C strings *)
Theorem C09_cstr_is_text_up_to_first_nul_plus_one_nul :
  forall s, exists text, s_into_cstr s = text ++ [0%Z] /\ ~ In 0%Z text /\
    exists rest, s = text ++ rest /\ (rest = [] \/ exists r, rest = 0%Z :: r).
Proof. exact into_cstr_contract. Qed.

(* "panic exactly when an index is ... not on a character boundary": the assert_char_boundary calls of the CURRENT string
   sources (read out on every run: gen/StrAsserts.v) are the ones the model's panic conditions mention - every growing /
   replacing / splitting operation of BumpString, MutBumpString, FixedBumpString and BumpBox<str> asserts exactly its
   index arguments, split_off in each of its branches (the empty interior range included: defect 4), and
   assert_char_boundary is the is_char_boundary test *)
Theorem C09_source_boundary_assertions_are_the_models :
  asserts_ok StrAsserts.boundary_asserts = true /\ StrAsserts.assert_char_boundary_is_the_boundary_test = true.
Proof. vm_compute. split; reflexivity. Qed.

Theorem C09_passing_assertion_table_means :
  forall rows, asserts_ok rows = true ->
  (forall f fn args, In (f, fn, args) rows -> expected_asserts fn = Some args) /\
  (forall k, In k required -> exists args, In (fst k, snd k, args) rows).
Proof. exact asserts_ok_spec. Qed.

Print Assumptions C09_valid_is_concatenation_of_encodings.
Print Assumptions C09_boundaries_are_ends_of_characters.
Print Assumptions C09_split_at_boundary_is_valid.
Print Assumptions C09_insert_bytes_code.
Print Assumptions C09_remove_code.
Print Assumptions C09_replace_range_code.
Print Assumptions C09_push_valid.
Print Assumptions C09_push_str_valid.
Print Assumptions C09_insert_str_valid.
Print Assumptions C09_insert_valid.
Print Assumptions C09_remove_valid.
Print Assumptions C09_pop_valid.
Print Assumptions C09_truncate_valid.
Print Assumptions C09_retain_valid_even_when_the_callback_panics.
Print Assumptions C09_drain_valid.
Print Assumptions C09_replace_range_valid.
Print Assumptions C09_extend_from_within_valid.
Print Assumptions C09_split_off_valid.
Print Assumptions C09_insert_str_spec.
Print Assumptions C09_insert_str_panics_iff.
Print Assumptions C09_remove_spec.
Print Assumptions C09_remove_panics_iff.
Print Assumptions C09_pop_spec.
Print Assumptions C09_truncate_spec.
Print Assumptions C09_truncate_panics_iff.
Print Assumptions C09_retain_is_filter.
Print Assumptions C09_drain_spec.
Print Assumptions C09_drain_panics_iff.
Print Assumptions C09_replace_range_spec.
Print Assumptions C09_replace_range_panics_iff.
Print Assumptions C09_extend_from_within_panics_iff.
Print Assumptions C09_split_off_spec.
Print Assumptions C09_split_off_panics_iff.
Print Assumptions C09_split_off_pinned_refuted.
Print Assumptions C09_from_utf8_lossy_valid.
Print Assumptions C09_from_utf8_lossy_identity_on_valid.
Print Assumptions C09_lossy_fuel_is_enough.
Print Assumptions C09_from_utf16_valid.
Print Assumptions C09_from_utf16_error_iff_unpaired_surrogate.
Print Assumptions C09_from_utf16_lossy_valid.
Print Assumptions C09_from_utf16_lossy_agrees.
Print Assumptions C09_cstr_is_text_up_to_first_nul_plus_one_nul.
Print Assumptions C09_source_boundary_assertions_are_the_models.
Print Assumptions C09_passing_assertion_table_means.
