(* C02 — Bytes of a live allocation change only through its owner.
   PARTIAL: the frame property is proved for allocate / allocate_zeroed / fill and for every
   operation that never writes; the copy performed by grow/shrink is covered by the
   correspondence check (block contents compared) and the byte-pattern monitor. *)
From Coq Require Import ZArith List Bool.
From BS Require Import Word BumpSpec ChunkSpec Arena ArenaInv ArenaMem.
Import ListNotations.
Open Scope Z_scope.

Theorem C02_alloc_frame :
  forall c s h ws size align zeroed r a,
  let '(s', out) := step c s (OAlloc h ws size align zeroed) r in
  mem s' a <> mem s a ->
  zeroed = true /\ exists id p, o_res out = RBlock id p size /\ p <= a < p + size.
Proof. exact alloc_frame. Qed.

Theorem C02_zeroed_reads_zero :
  forall c s h ws size align r,
  let '(s', out) := step c s (OAlloc h ws size align true) r in
  forall id p sz, o_res out = RBlock id p sz -> forall a, p <= a < p + sz -> mem s' a = 0.
Proof. exact alloc_zeroed_reads_zero. Qed.

Theorem C02_fill_frame :
  forall c s b seed r a,
  mem (fst (step c s (OFill b seed) r)) a <> mem s a ->
  exists blk, find_block (tick s) b = Some blk /\ bptr blk <= a < bptr blk + bsize blk.
Proof. exact fill_frame. Qed.

Theorem C02_no_write_ops :
  forall c s o r a,
  match o with
  | ODealloc _ _ _ | OCheckpoint _ | OResetTo _ _ | OReset | OResetToStart | OReserve _ _
  | OClaim _ | OUnclaim | ODrop => mem (fst (step c s o r)) a = mem s a
  | _ => True
  end.
Proof. exact no_write_ops. Qed.

(* the defect repaired by commit cb4dad0, as a refutation of the frame property for the old code *)
Theorem C02_without_shrink_unfixed_refuted :
  exists a id p sz,
    o_res (snd (step (Refuted.cf false) Refuted.s5 Refuted.o None)) = RBlock id p sz /\
    ~ (p <= a < p + sz) /\
    mem (fst (step (Refuted.cf false) Refuted.s5 Refuted.o None)) a <> mem Refuted.s5 a.
Proof. exact Refuted.without_shrink_frame_refuted. Qed.

Print Assumptions C02_alloc_frame.
Print Assumptions C02_zeroed_reads_zero.
Print Assumptions C02_fill_frame.
Print Assumptions C02_no_write_ops.
Print Assumptions C02_without_shrink_unfixed_refuted.
