(* C02 — Bytes of a live allocation change only through its owner.
   The frame property is proved for allocate / allocate_zeroed / fill, for every operation that
   never writes, and for grow(_zeroed) / shrink (every branch: in place, moved down in place,
   moved to another chunk, through WithoutShrink): the new block starts with the old contents,
   a zeroed grow has a zero tail, and no byte outside the returned block changes; with the
   invariant, growing a block leaves the bytes of every OTHER live block alone.
   growing or shrinking one block leaves the bytes of every OTHER live block alone.
   PARTIAL: commit's moves (C15) are stated per operation only. *)
From Coq Require Import ZArith List Bool.
From BS Require Import Word BumpSpec ChunkSpec Arena ArenaInv ArenaMem ArenaMem2 LibRefine AllocRefine.
From BS.gen Require AllocSites.
Import ListNotations.
Open Scope Z_scope.

Theorem C02_alloc_frame :
  forall c s h ws size align zeroed r a,
  let '(s', out) := step c s (OAlloc h ws size align zeroed) r in
  mem s' a <> mem s a ->
  zeroed = true /\ exists id p, o_res out = RBlock id p size /\ p <= a < p + size.
Proof. exact alloc_frame. Qed.

Theorem C02_zeroed_reads_zero :
  forall c s h ws size align r,
  let '(s', out) := step c s (OAlloc h ws size align true) r in
  forall id p sz, o_res out = RBlock id p sz -> forall a, p <= a < p + sz -> mem s' a = 0.
Proof. exact alloc_zeroed_reads_zero. Qed.

Theorem C02_fill_frame :
  forall c s b seed r a,
  mem (fst (step c s (OFill b seed) r)) a <> mem s a ->
  exists blk, find_block (tick s) b = Some blk /\ bptr blk <= a < bptr blk + bsize blk.
Proof. exact fill_frame. Qed.

Theorem C02_no_write_ops :
  forall c s o r a,
  match o with
  | ODealloc _ _ _ | OCheckpoint _ | OResetTo _ _ | OReset | OResetToStart | OReserve _ _
  | OClaim _ | OUnclaim | ODrop => mem (fst (step c s o r)) a = mem s a
  | _ => True
  end.
Proof. exact no_write_ops. Qed.

(* the defect repaired by commit cb4dad0, as a refutation of the frame property for the old code *)
Theorem C02_without_shrink_unfixed_refuted :
  exists a id p sz,
    o_res (snd (step (Refuted.cf false) Refuted.s5 Refuted.o None)) = RBlock id p sz /\
    ~ (p <= a < p + sz) /\
    mem (fst (step (Refuted.cf false) Refuted.s5 Refuted.o None)) a <> mem Refuted.s5 a.
Proof. exact Refuted.without_shrink_frame_refuted. Qed.

Theorem C02_grow_contents_and_frame :
  forall c s0 h ws b nsize nalign zeroed r blk,
  find_block (tick s0) b = Some blk -> bsize blk <= nsize -> 0 <= bsize blk ->
  let '(s', out) := step c s0 (OGrow h ws b nsize nalign zeroed) r in
  match o_res out with
  | RBlock id p sz =>
    sz = nsize /\
    (forall k, 0 <= k < bsize blk -> mem s' (p + k) = mem s0 (bptr blk + k)) /\
    (zeroed = true -> forall a, p + bsize blk <= a < p + nsize -> mem s' a = 0) /\
    (forall a, ~ (p <= a < p + nsize) -> mem s' a = mem s0 a)
  | _ => forall a, mem s' a = mem s0 a
  end.
Proof. exact grow_contents_and_frame. Qed.

Theorem C02_shrink_contents_and_frame :
  forall c s0 h ws b nsize nalign r blk,
  fix_without_shrink c = true ->
  find_block (tick s0) b = Some blk -> 0 <= nsize <= bsize blk ->
  let '(s', out) := step c s0 (OShrink h ws b nsize nalign) r in
  match o_res out with
  | RBlock id p sz =>
    nsize <= sz /\
    (forall k, 0 <= k < nsize -> mem s' (p + k) = mem s0 (bptr blk + k)) /\
    (forall a, ~ (p <= a < p + nsize) -> mem s' a = mem s0 a)
  | _ => forall a, mem s' a = mem s0 a
  end.
Proof. exact shrink_contents_and_frame. Qed.

Theorem C02_grow_keeps_other_blocks :
  forall c s0 h ws b nsize nalign zeroed r blk b',
  cfg_ok c -> inv c s0 -> valid_layout nsize nalign -> resp_ok c s0 nsize nalign r ->
  find_block (tick s0) b = Some blk -> bsize blk <= nsize ->
  In b' (live s0) -> bid b' <> b ->
  forall a, bptr b' <= a < bptr b' + bsize b' ->
  mem (fst (step c s0 (OGrow h ws b nsize nalign zeroed) r)) a = mem s0 a.
Proof. exact grow_keeps_other_blocks. Qed.

Theorem C02_shrink_keeps_other_blocks :
  forall c s0 h ws b nsize nalign r blk b',
  cfg_ok c -> fix_without_shrink c = true -> inv c s0 -> valid_layout nsize nalign -> resp_ok c s0 nsize nalign r ->
  find_block (tick s0) b = Some blk -> 0 <= nsize <= bsize blk ->
  In b' (live s0) -> bid b' <> b ->
  forall a, bptr b' <= a < bptr b' + bsize b' ->
  mem (fst (step c s0 (OShrink h ws b nsize nalign) r)) a = mem s0 a.
Proof. exact shrink_keeps_other_blocks. Qed.

(* the position arithmetic of the CURRENT allocator_impl.rs / set_pos_addr_and_align (cut out by tools/allocsites.py, translated into gen/AllocSites.v on every run) is the arena model's (AllocRefine.v): which copy overlaps *)
Theorem C02_source_grow_down_is_the_models :
  forall ptr osize nsize nalign m very_start,
  valid_min_align m -> pow2 nalign -> nalign < W -> 0 <= ptr < W -> 0 <= osize <= nsize ->
  let new_addr := down_alignZ (Z.max (ptr - (nsize - osize)) 0) (Z.max nalign m) in
  new_addr + nsize < W ->
  AllocSites.grow_down_additional nsize osize = Ok (nsize - osize) /\
  AllocSites.grow_down_new_addr ptr (nsize - osize) nalign m = Ok new_addr /\
  AllocSites.grow_down_fits new_addr very_start = Ok (very_start <=? new_addr) /\
  AllocSites.grow_down_new_addr_end new_addr nsize = Ok (new_addr + nsize) /\
  AllocSites.grow_down_nonoverlapping (new_addr + nsize) ptr = Ok (new_addr + nsize <? ptr).
Proof. exact grow_down_refines. Qed.

Theorem C02_source_shrink_down_is_the_models :
  forall ptr osize nsize nalign m,
  valid_min_align m -> pow2 nalign -> nalign < W -> 0 <= ptr -> 0 <= nsize <= osize -> ptr + osize < W ->
  let new_addr := down_alignZ (Z.max (ptr + osize - nsize) 0) (Z.max nalign m) in
  AllocSites.shrink_down_old_end ptr osize = Ok (ptr + osize) /\
  AllocSites.shrink_down_new_addr (ptr + osize) nsize nalign m = Ok new_addr /\
  AllocSites.shrink_down_copy_src_end ptr nsize = Ok (ptr + nsize) /\
  AllocSites.shrink_down_overlaps (ptr + nsize) new_addr = Ok (new_addr <? ptr + nsize).
Proof. exact shrink_down_refines. Qed.

Theorem C02_source_unfit_ends_are_the_models :
  forall ptr np nsize, 0 <= ptr -> 0 <= np -> 0 <= nsize -> ptr + nsize < W -> np + nsize < W ->
  AllocSites.unfit_up_old_end ptr nsize = Ok (ptr + nsize) /\ AllocSites.unfit_down_new_end np nsize = Ok (np + nsize).
Proof. exact unfit_ends_refine. Qed.

Print Assumptions C02_alloc_frame.
Print Assumptions C02_shrink_keeps_other_blocks.
Print Assumptions C02_grow_contents_and_frame.
Print Assumptions C02_shrink_contents_and_frame.
Print Assumptions C02_grow_keeps_other_blocks.
Print Assumptions C02_zeroed_reads_zero.
Print Assumptions C02_fill_frame.
Print Assumptions C02_no_write_ops.
Print Assumptions C02_without_shrink_unfixed_refuted.
Print Assumptions C02_source_grow_down_is_the_models.
Print Assumptions C02_source_shrink_down_is_the_models.
Print Assumptions C02_source_unfit_ends_are_the_models.
