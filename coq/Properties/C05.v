(* C05 — Every chunk is returned to the base allocator exactly once and fits.
   PARTIAL: exactly-once release on drop, fitting layouts, reset keeping the last chunk and
   scope operations releasing nothing are proved over the model, and so is "never touches bytes
   outside the blocks it was granted" for the data the arena itself writes (zeroing, the copies of
   grow / shrink / commit, fill): every changed byte lies inside a granted block the arena holds
   after the operation — hence not in a released one (ArenaWrites.v).  Writes to chunk headers are
   not modelled; they, and reads, are monitored on the implementation (poisoning, guard bytes). *)
From Coq Require Import ZArith List Permutation.
From BS Require Import Word BumpSpec ChunkSpec Arena ArenaInv ArenaStats ArenaMisc ArenaExt ArenaInv2 ArenaWrites ArenaHeader ArenaLinks.
Import ListNotations.
Open Scope Z_scope.

Theorem C05_drop_releases_each_chunk_once :
  forall c s i, cur s = Cur i -> (i < length (chunks s))%nat ->
  Permutation (drop_events c s) (map (dealloc_event c) (chunks s)).
Proof. exact drop_releases_each_chunk_once. Qed.

Theorem C05_released_layout_fits :
  forall c ch, chunk_geom c ch ->
  match dealloc_event c ch with
  | EvDealloc addr size align => addr = cbase ch /\ align = ha c /\ creq ch <= size <= cgranted ch
  | _ => False
  end.
Proof. exact released_layout_fits. Qed.

Theorem C05_reset_keeps_exactly_last :
  forall c s i lst t r, cur s = Cur i -> rev (chunks s) = lst :: t ->
  chunks (fst (step c s OReset r)) = [reset_chunk c lst].
Proof. exact reset_keeps_exactly_last. Qed.

Theorem C05_scope_exit_releases_none :
  forall c s h cp j ch r,
  cp_state cp = Cur j -> nth_error (chunks s) j = Some ch ->
  o_events (snd (step c s (OResetTo h cp) r)) = [].
Proof. intros c s h cp j ch r E N. exact (proj2 (proj2 (proj2 (proj2 (reset_to_restores c s h cp j ch r E N))))). Qed.

Theorem C05_refused_links_nothing :
  forall c s size align,
  exists e, snd (grow_arena c s size align None) = Some e /\
            chunks (fst (grow_arena c s size align None)) = chunks s /\
            cur (fst (grow_arena c s size align None)) = cur s /\
            frame s (fst (grow_arena c s size align None)).
Proof. exact refused_grow_is_error. Qed.

(* whatever byte an operation of the arena changes lies inside a block granted by the base
   allocator that the arena holds afterwards (OWriteRaw is the user's own write into a range it was
   handed; alloc_try_with Err writes nothing it keeps; shrink: next theorem) *)
Theorem C05_writes_stay_inside_granted_blocks :
  forall c s0 o r a,
  cfg_ok c -> inv c s0 -> op_ok2 c s0 o -> op_resp_ok2 c s0 o r ->
  match o with OWriteRaw _ _ _ | OTryErr _ _ _ _ | OShrink _ _ _ _ _ => False | _ => True end ->
  mem (fst (step c s0 o r)) a <> mem s0 a -> in_granted (fst (step c s0 o r)) a.
Proof. exact writes_stay_inside_granted_blocks. Qed.

Theorem C05_shrink_writes_stay_inside_granted_blocks :
  forall c s0 h ws b nsize nalign r a,
  cfg_ok c -> inv c s0 -> fix_without_shrink c = true ->
  op_ok2 c s0 (OShrink h ws b nsize nalign) -> op_resp_ok2 c s0 (OShrink h ws b nsize nalign) r ->
  mem (fst (step c s0 (OShrink h ws b nsize nalign) r)) a <> mem s0 a ->
  in_granted (fst (step c s0 (OShrink h ws b nsize nalign) r)) a.
Proof. exact shrink_writes_stay_inside_granted_blocks. Qed.

(* the block an operation returns is a live block of the state it leaves *)
Theorem C05_result_block_is_live :
  forall c s0 o r id p sz,
  o_res (snd (step c s0 o r)) = RBlock id p sz ->
  exists blk, In blk (live (fst (step c s0 o r))) /\ bptr blk = p /\ bsize blk = sz.
Proof. exact result_block_is_live. Qed.

(* the chunk header: inside the granted block, aligned, disjoint from the content range, and no live
   block overlaps the header of any chunk (ArenaHeader.v) *)
Theorem C05_header_inside_granted_block :
  forall c ch, cfg_ok c -> chunk_geom c ch ->
  (cbase ch <= header_start c ch /\ header_start c ch + hs c <= cbase ch + cgranted ch) /\
  (ha c | header_start c ch) /\
  (header_start c ch + hs c <= content_start c ch \/ content_end c ch <= header_start c ch).
Proof.
  intros c ch Hc Hg. split; [apply header_inside_granted; assumption|].
  split; [apply header_aligned; assumption | apply header_disjoint_from_content].
Qed.

Theorem C05_live_block_misses_every_header :
  forall c s b k ch, cfg_ok c -> inv c s -> In b (live s) -> nth_error (chunks s) k = Some ch ->
  disjoint_rng (bptr b) (bsize b) (header_start c ch) (hs c).
Proof. exact live_block_misses_every_header. Qed.

(* the walks over the chunk list while chunks are given back (ArenaLinks.v: the loops of raw_bump.rs statement by
   statement, their shape checked against the source by tools/allocsites.py): Drop releases every chunk exactly once
   and never reads a header of a released chunk; reset releases every chunk but the last exactly once; releasing a
   chunk BEFORE reading its link is a use after free whenever a later chunk exists *)
Theorem C05_drop_releases_every_chunk_once :
  forall n i, (i < n)%nat ->
  exists st', run_drop true (ArenaLinks.fresh n) i = WOk st' /\ Permutation (hreleased st') (seq 0 n).
Proof. exact drop_releases_every_chunk_once. Qed.

Theorem C05_reset_keeps_exactly_the_last_chunk :
  forall n i, (i < n)%nat ->
  exists st', run_reset (ArenaLinks.fresh n) i = WOk (st', (n - 1)%nat) /\ Permutation (hreleased st') (seq 0 (n - 1)).
Proof. exact reset_keeps_exactly_the_last_chunk. Qed.

Theorem C05_release_before_link_is_use_after_free :
  forall n i, (S i < n)%nat ->
  exists st1, fe_prev true n (ArenaLinks.fresh n) (match i with O => None | S j => Some j end) = WOk st1 /\
              fe_next false n st1 (Some (S i)) = WUaf.
Proof. exact release_before_link_uaf_general. Qed.

Print Assumptions C05_drop_releases_each_chunk_once.
Print Assumptions C05_released_layout_fits.
Print Assumptions C05_reset_keeps_exactly_last.
Print Assumptions C05_scope_exit_releases_none.
Print Assumptions C05_refused_links_nothing.
Print Assumptions C05_writes_stay_inside_granted_blocks.
Print Assumptions C05_shrink_writes_stay_inside_granted_blocks.
Print Assumptions C05_result_block_is_live.
Print Assumptions C05_header_inside_granted_block.
Print Assumptions C05_live_block_misses_every_header.
Print Assumptions C05_drop_releases_every_chunk_once.
Print Assumptions C05_reset_keeps_exactly_the_last_chunk.
Print Assumptions C05_release_before_link_is_use_after_free.
