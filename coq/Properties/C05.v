(* C05 — Every chunk is returned to the base allocator exactly once and fits.
   PARTIAL: exactly-once release on drop, fitting layouts, reset keeping the last chunk and
   scope operations releasing nothing are proved over the model; "never read or written
   afterwards" and "never touches bytes outside granted blocks" are monitored on the
   implementation (poisoning, guard bytes) but not proved. *)
From Coq Require Import ZArith List Permutation.
From BS Require Import Word BumpSpec ChunkSpec Arena ArenaInv ArenaStats ArenaMisc.
Import ListNotations.
Open Scope Z_scope.

Theorem C05_drop_releases_each_chunk_once :
  forall c s i, cur s = Cur i -> (i < length (chunks s))%nat ->
  Permutation (drop_events c s) (map (dealloc_event c) (chunks s)).
Proof. exact drop_releases_each_chunk_once. Qed.

Theorem C05_released_layout_fits :
  forall c ch, chunk_geom c ch ->
  match dealloc_event c ch with
  | EvDealloc addr size align => addr = cbase ch /\ align = ha c /\ creq ch <= size <= cgranted ch
  | _ => False
  end.
Proof. exact released_layout_fits. Qed.

Theorem C05_reset_keeps_exactly_last :
  forall c s i lst t r, cur s = Cur i -> rev (chunks s) = lst :: t ->
  chunks (fst (step c s OReset r)) = [reset_chunk c lst].
Proof. exact reset_keeps_exactly_last. Qed.

Theorem C05_scope_exit_releases_none :
  forall c s h cp j ch r,
  cp_state cp = Cur j -> nth_error (chunks s) j = Some ch ->
  o_events (snd (step c s (OResetTo h cp) r)) = [].
Proof. intros c s h cp j ch r E N. exact (proj2 (proj2 (proj2 (proj2 (reset_to_restores c s h cp j ch r E N))))). Qed.

Theorem C05_refused_links_nothing :
  forall c s size align,
  exists e, snd (grow_arena c s size align None) = Some e /\
            chunks (fst (grow_arena c s size align None)) = chunks s /\
            cur (fst (grow_arena c s size align None)) = cur s /\
            frame s (fst (grow_arena c s size align None)).
Proof. exact refused_grow_is_error. Qed.

Print Assumptions C05_drop_releases_each_chunk_once.
Print Assumptions C05_released_layout_fits.
Print Assumptions C05_reset_keeps_exactly_last.
Print Assumptions C05_scope_exit_releases_none.
Print Assumptions C05_refused_links_nothing.
