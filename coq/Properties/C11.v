(* C11 — Bump-pointer arithmetic is correct, tight and hint-independent.
   Only pinned statements, `exact`, and Print Assumptions. *)
From Coq Require Import ZArith.
From BS Require Import Word BumpSpec BumpRefine.
From BS.gen Require Import Bumping.
Open Scope Z_scope.

(* The code generated from the current src/bumping.rs equals the specification on every valid
   input: never Ovf (no overflow/panic), and independent of the three hints. *)
Theorem C11_bump_up_refines :
  forall start end_ m size align ac sc mult,
  valid_min_align m -> valid_layout size align -> valid_up start end_ m ->
  (mult = true -> (align | size)) ->
  bump_up {| bp_start := start; bp_end := end_; bp_min_align := m;
             bp_layout := mkLayout size align; bp_align_is_const := ac;
             bp_size_is_const := sc; bp_size_is_multiple_of_align := mult |}
  = Ok (up_result (spec_up start end_ m size align)).
Proof. exact bump_up_refines. Qed.

Theorem C11_bump_down_refines :
  forall start end_ m size align ac sc mult,
  valid_min_align m -> valid_layout size align -> valid_down start end_ m ->
  (mult = true -> (align | size)) ->
  bump_down {| bp_start := start; bp_end := end_; bp_min_align := m;
               bp_layout := mkLayout size align; bp_align_is_const := ac;
               bp_size_is_const := sc; bp_size_is_multiple_of_align := mult |}
  = Ok (spec_down start end_ m size align).
Proof. exact bump_down_refines. Qed.

Theorem C11_bump_prepare_up_refines :
  forall start end_ m size align ac sc mult,
  valid_min_align m -> valid_layout size align -> valid_up start end_ m ->
  bump_prepare_up {| bp_start := start; bp_end := end_; bp_min_align := m;
               bp_layout := mkLayout size align; bp_align_is_const := ac;
               bp_size_is_const := sc; bp_size_is_multiple_of_align := mult |}
  = Ok (spec_prep_up start end_ size align).
Proof. exact bump_prepare_up_refines. Qed.

Theorem C11_bump_prepare_down_refines :
  forall start end_ m size align ac sc mult,
  valid_min_align m -> valid_layout size align -> valid_down start end_ m ->
  bump_prepare_down {| bp_start := start; bp_end := end_; bp_min_align := m;
               bp_layout := mkLayout size align; bp_align_is_const := ac;
               bp_size_is_const := sc; bp_size_is_multiple_of_align := mult |}
  = Ok (spec_prep_down start end_ size align).
Proof. exact bump_prepare_down_refines. Qed.

(* What the specification means: sound, tight, nearest; dummy range always fails;
   prepare returns the maximal aligned range. *)
Theorem C11_up_sound :
  forall start end_ m size align ptr np,
  valid_min_align m -> valid_layout size align -> regular_up start end_ m ->
  spec_up start end_ m size align = Some (ptr, np) ->
  (align | ptr) /\ start <= ptr /\ ptr + size <= np /\ np <= end_ /\ (m | np) /\
  np < ptr + size + m.
Proof. exact spec_up_sound. Qed.

Theorem C11_up_tight :
  forall start end_ m size align,
  valid_layout size align -> regular_up start end_ m ->
  (spec_up start end_ m size align = None <->
   ~ exists q, (align | q) /\ start <= q /\ q + size <= end_).
Proof. exact spec_up_tight. Qed.

Theorem C11_up_nearest :
  forall start end_ m size align ptr np q,
  valid_layout size align ->
  spec_up start end_ m size align = Some (ptr, np) ->
  (align | q) -> start <= q -> ptr <= q.
Proof. exact spec_up_nearest. Qed.

Theorem C11_down_sound :
  forall start end_ m size align p,
  valid_min_align m -> valid_layout size align -> regular_down start end_ m ->
  spec_down start end_ m size align = Some p ->
  (align | p) /\ (m | p) /\ start <= p /\ p + size <= end_.
Proof. exact spec_down_sound. Qed.

Theorem C11_down_tight :
  forall start end_ m size align,
  valid_min_align m -> valid_layout size align -> regular_down start end_ m ->
  (spec_down start end_ m size align = None <->
   ~ exists q, (align | q) /\ start <= q /\ q + size <= end_).
Proof. exact spec_down_tight. Qed.

Theorem C11_down_nearest :
  forall start end_ m size align p q,
  valid_min_align m -> valid_layout size align ->
  spec_down start end_ m size align = Some p ->
  (Z.max align m | q) -> q + size <= end_ -> q <= p.
Proof. exact spec_down_nearest. Qed.

Theorem C11_dummy_up : forall start end_ m size align,
  0 <= size -> 0 < align -> dummy_range start end_ -> spec_up start end_ m size align = None.
Proof. exact spec_up_dummy. Qed.

Theorem C11_dummy_down : forall start end_ m size align,
  dummy_range start end_ -> spec_down start end_ m size align = None.
Proof. exact spec_down_dummy. Qed.

Theorem C11_prep_up_maximal :
  forall start end_ size align s e,
  valid_layout size align -> (align | size) ->
  spec_prep_up start end_ size align = Some (s, e) ->
  (align | s) /\ (align | e) /\ start <= s /\ e <= end_ /\ size <= e - s /\
  (forall a b, (align | a) -> (align | b) -> start <= a -> b <= end_ -> s <= a /\ b <= e).
Proof. exact spec_prep_up_maximal. Qed.

Theorem C11_prep_down_maximal :
  forall start end_ size align s e,
  valid_layout size align -> (align | size) ->
  spec_prep_down start end_ size align = Some (s, e) ->
  (align | s) /\ (align | e) /\ start <= s /\ e <= end_ /\ size <= e - s /\
  (forall a b, (align | a) -> (align | b) -> start <= a -> b <= end_ -> s <= a /\ b <= e).
Proof. exact spec_prep_down_maximal. Qed.

Print Assumptions C11_bump_up_refines.
Print Assumptions C11_bump_down_refines.
Print Assumptions C11_bump_prepare_up_refines.
Print Assumptions C11_bump_prepare_down_refines.
Print Assumptions C11_up_sound.
Print Assumptions C11_up_tight.
Print Assumptions C11_up_nearest.
Print Assumptions C11_down_sound.
Print Assumptions C11_down_tight.
Print Assumptions C11_down_nearest.
Print Assumptions C11_dummy_up.
Print Assumptions C11_dummy_down.
Print Assumptions C11_prep_up_maximal.
Print Assumptions C11_prep_down_maximal.
