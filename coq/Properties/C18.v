(* C18 — Changing the minimum alignment keeps the position aligned and data intact.
   Entry / exit alignment and preservation of the block invariant are proved over the arena model;
   the run-time checks of the settings conversions are the decision function Conv.conversion_panics
   (a transcription of RawBump::ensure_satisfies_settings / ensure_scope_satisfies_settings), proved
   to panic exactly when a requirement of the target type is not met, and compared with the
   implementation on the complete matrix of arena states and target settings. *)
From Coq Require Import ZArith List.
From BS Require Import Word BumpSpec ChunkSpec Arena ArenaInv ArenaExt ArenaMisc ArenaInv2 Conv LibRefine.
From BS.gen Require AlignFacts.
From BS.gen Require LibArith.
Import ListNotations.
Open Scope Z_scope.

(* entering aligned::<n>/scoped_aligned::<n>: the new minimum alignment is in force, the
   invariant holds (so the position of the current chunk is a multiple of n, and every block
   allocated before is live, disjoint and untouched) *)
Theorem C18_enter_aligns_and_keeps_blocks :
  forall c s0 h n r, cfg_ok c -> inv c s0 -> valid_min_align n ->
  inv c (fst (step c s0 (OAlignPush h n) r)) /\
  malign (fst (step c s0 (OAlignPush h n) r)) = n.
Proof. exact step_inv_align_push. Qed.

(* leaving a lowered region (normally or by unwinding: the same guard runs) re-aligns the
   position of whatever chunk is current then *)
Theorem C18_exit_realigns :
  forall c s0 inner outer rest r,
  cfg_ok c -> inv c s0 -> aligns s0 = inner :: outer :: rest -> valid_min_align outer ->
  let s' := fst (step c s0 (OAlignPop true) r) in
  malign s' = outer /\ forall ch, cur_chunk s' = Some ch -> (outer | cpos ch).
Proof. exact align_pop_realigns. Qed.

(* scoped_aligned: the checkpoint is taken before aligning, so leaving restores exactly the
   entry position (C03's restoration theorem) *)
Theorem C18_scoped_aligned_exit_exact :
  forall c s h cp j ch r,
  cp_state cp = Cur j -> nth_error (chunks s) j = Some ch ->
  let s' := fst (step c s (OResetTo h cp) r) in
  cur s' = Cur j /\ nth_error (chunks s') j = Some (set_pos ch (cp_addr cp)) /\
  length (chunks s') = length (chunks s) /\
  (forall k, k <> j -> nth_error (chunks s') k = nth_error (chunks s) k) /\
  o_events (snd (step c s (OResetTo h cp) r)) = [].
Proof. exact reset_to_restores. Qed.

(* inside the region every allocation keeps the position a multiple of the alignment in force:
   the invariant (ginv includes `malign | cpos` of the current chunk) is preserved by every
   allocation-like operation *)
Theorem C18_allocations_keep_position_aligned :
  forall c s0 h ws size align zeroed r,
  cfg_ok c -> inv c s0 -> valid_layout size align -> resp_ok c s0 size align r ->
  inv c (fst (step c s0 (OAlloc h ws size align zeroed) r)).
Proof. exact step_inv_alloc. Qed.

(* leaving aligned::<N>: all earlier data intact (the whole invariant holds again under the outer
   alignment), whichever chunk is current by then *)
Theorem C18_exit_keeps_invariant :
  forall c s0 r inner outer rest,
  cfg_ok c -> inv c s0 -> aligns s0 = inner :: outer :: rest -> valid_min_align outer ->
  inv c (fst (step c s0 (OAlignPop true) r)).
Proof. exact step_inv_align_pop. Qed.

(* conversions: with_settings by value panics exactly when the target type requires an unclaimed
   arena and it is claimed, or requires an allocated arena and it is unallocated; a scope held by
   value is never unallocated; the borrow conversions have compile-time checks only *)
Theorem C18_by_value_conversion_panics_iff :
  forall news st,
  conversion_panics ByValue news st = true <->
  (requires_unclaimed news = true /\ st = AClaimed) \/ (requires_allocated news = true /\ st = AUnallocated).
Proof. exact by_value_conversion_panics_iff. Qed.

Theorem C18_scope_conversion_panics_iff :
  forall news st,
  conversion_panics ScopeByValue news st = true <-> (requires_unclaimed news = true /\ st = AClaimed).
Proof. exact scope_conversion_panics_iff. Qed.

Theorem C18_borrow_conversions_never_panic :
  forall news st,
  conversion_panics Borrow news st = false /\ conversion_panics BorrowMut news st = false.
Proof. exact borrow_conversions_never_panic. Qed.

(* the re-alignment the model performs (Arena.align_posZ) is what `align_pos` of the CURRENT
   src/lib.rs computes (regenerated on every run), for the position of every chunk of a state that
   satisfies the invariant *)
Theorem C18_align_pos_is_the_code :
  forall c ch upb m,
  cfg_ok c -> chunk_ok c ch -> valid_min_align m ->
  LibArith.align_pos upb m (cpos ch) = Ok (align_posZ upb m (cpos ch)).
Proof. exact align_pos_refines_chunk. Qed.

(* the shapes behind aligned / scoped_aligned in the CURRENT source, read out on every run (gen/AlignFacts.v): a lowered
   `aligned` runs its closure under a BumpAlignGuard (so the re-alignment also happens when the closure unwinds), the
   guard re-aligns the chunk that is current at the EXIT, a raised `aligned` aligns before the closure runs,
   scoped_aligned takes its checkpoint before it aligns, align_to aligns the current position in bump direction - the
   steps the model takes (OAlignPush after the checkpoint, OAlignPop with re-alignment of the current chunk) *)
Theorem C18_source_align_shapes_are_the_models : AlignFacts.align_shapes_ok = true.
Proof. vm_compute. reflexivity. Qed.

Print Assumptions C18_enter_aligns_and_keeps_blocks.
Print Assumptions C18_exit_keeps_invariant.
Print Assumptions C18_exit_realigns.
Print Assumptions C18_scoped_aligned_exit_exact.
Print Assumptions C18_allocations_keep_position_aligned.
Print Assumptions C18_by_value_conversion_panics_iff.
Print Assumptions C18_scope_conversion_panics_iff.
Print Assumptions C18_borrow_conversions_never_panic.
Print Assumptions C18_align_pos_is_the_code.
Print Assumptions C18_source_align_shapes_are_the_models.
