(* C04 — References into a scope cannot outlive it in safe code.
   Ground truth is rustc's borrow checker, which a Coq theorem cannot be.  What is proved:
   (a) Regions.v: a region discipline whose static check is sound against a dynamic semantics of
       "memory may be handed out again" for ALL programs (any nesting depth, any mix of producers,
       rewinding operations and uses) — provided the signature tables say every producer's result
       lifetime is tied to its handle and every rewinding operation needs exclusive access;
   (b) the tables regenerated from the CURRENT source (gen/Tables.v) satisfy that proviso;
   (c) with one producer's lifetime free, or one rewinding operation through `&self`, an accepted
       program does use memory after reuse (the tables matter);
   (d) the translated compile-time assertions of every settings conversion reject what weakens a
       guarantee, for all pairs of settings.
   PARTIAL, named: rustc's real NLL / variance / auto-trait reasoning is only observed, on the
   generated corpus (every producer x escape route x handle kind, each with a control that must
   compile), where the verdict of Regions.check on the program's abstraction must equal rustc's. *)
From Coq Require Import List Arith Bool.
From BS Require Import Regions RegionsProofs Conv.
From BS.gen Require Import Tables.
Import ListNotations.

Theorem C04_region_discipline_sound :
  forall T p, Tables_ok T = true -> check T sinit p = true -> dexec dinit p = false.
Proof. exact region_discipline_sound. Qed.

Theorem C04_current_signatures_satisfy_the_proviso : Tables_ok tables = true.
Proof. vm_compute. reflexivity. Qed.

Theorem C04_no_accepted_program_uses_memory_after_reuse :
  forall p, check tables sinit p = true -> dexec dinit p = false.
Proof. intros p. apply region_discipline_sound. exact C04_current_signatures_satisfy_the_proviso. Qed.

Theorem C04_a_free_lifetime_admits_an_escape :
  forall T p0, let T' := with_cls T p0 in let prog := [Alloc 0 p0; Rewind WReset; Use 0] in
  check T' sinit prog = true /\ dexec dinit prog = true.
Proof. exact free_lifetime_admits_escape. Qed.

Theorem C04_a_shared_rewinder_admits_an_escape :
  forall T w0 p, rcv T w0 = RShared -> let prog := [Alloc 0 p; Rewind w0; Use 0] in
  check T sinit prog = true /\ dexec dinit prog = true.
Proof. exact shared_rewinder_admits_escape. Qed.

Theorem C04_only_send_with_send_allocator_never_sync : send_only_with_send_allocator_and_never_sync = true.
Proof. reflexivity. Qed.

(* ---- settings conversions: for ALL pairs of settings *)
Theorem C04_no_conversion_flips_the_direction :
  forall s n,
  (bump_with_settings s n = true -> s_up n = s_up s) /\
  (bump_scope_with_settings s n = true -> s_up n = s_up s) /\
  (bump_borrow_with_settings s n = true -> s_up n = s_up s) /\
  (bump_borrow_mut_with_settings s n = true -> s_up n = s_up s) /\
  (bump_scope_borrow_with_settings s n = true -> s_up n = s_up s) /\
  (bump_scope_borrow_mut_with_settings s n = true -> s_up n = s_up s).
Proof.
  intros s n. unfold bump_with_settings, bump_scope_with_settings, bump_borrow_with_settings, bump_borrow_mut_with_settings,
    bump_scope_borrow_with_settings, bump_scope_borrow_mut_with_settings,
    ensure_satisfies_settings, ensure_scope_satisfies_settings, ensure_satisfies_settings_for_borrow, ensure_satisfies_settings_for_borrow_mut.
  repeat split; intros H; repeat (apply andb_prop in H; destruct H as [H ?]); apply eqb_prop in H; exact H.
Qed.

Theorem C04_shared_borrow_conversion_keeps_every_guarantee :
  forall s n, bump_borrow_with_settings s n = true \/ bump_scope_borrow_with_settings s n = true ->
  s_min_align n = s_min_align s /\ s_claimable n = s_claimable s /\ (s_guaranteed n = true -> s_guaranteed s = true).
Proof.
  intros s n H. assert (H' : ensure_satisfies_settings_for_borrow s n = true) by (destruct H; assumption).
  unfold ensure_satisfies_settings_for_borrow in H'.
  repeat (apply andb_prop in H'; destruct H' as [H' ?]).
  split; [apply Nat.eqb_eq; assumption|]. split; [apply eqb_prop; assumption|].
  intros Hg. destruct (s_guaranteed n), (s_guaranteed s); try reflexivity; try discriminate.
Qed.

Theorem C04_mutable_borrow_conversion_never_lowers_alignment :
  forall s n, bump_borrow_mut_with_settings s n = true \/ bump_scope_borrow_mut_with_settings s n = true ->
  s_min_align s <= s_min_align n /\ s_claimable n = s_claimable s /\ s_guaranteed n = s_guaranteed s.
Proof.
  intros s n H. assert (H' : ensure_satisfies_settings_for_borrow_mut s n = true) by (destruct H; assumption).
  unfold ensure_satisfies_settings_for_borrow_mut in H'.
  repeat (apply andb_prop in H'; destruct H' as [H' ?]).
  split; [apply Nat.leb_le; assumption|]. split; apply eqb_prop; assumption.
Qed.

Theorem C04_scope_conversion_never_lowers_alignment :
  forall s n, bump_scope_with_settings s n = true -> s_min_align s <= s_min_align n.
Proof.
  intros s n H. unfold bump_scope_with_settings, ensure_scope_satisfies_settings in H.
  apply andb_prop in H. destruct H as [_ H]. apply Nat.leb_le. exact H.
Qed.

Print Assumptions C04_region_discipline_sound.
Print Assumptions C04_current_signatures_satisfy_the_proviso.
Print Assumptions C04_no_accepted_program_uses_memory_after_reuse.
Print Assumptions C04_a_free_lifetime_admits_an_escape.
Print Assumptions C04_a_shared_rewinder_admits_an_escape.
Print Assumptions C04_only_send_with_send_allocator_never_sync.
Print Assumptions C04_no_conversion_flips_the_direction.
Print Assumptions C04_shared_borrow_conversion_keeps_every_guarantee.
Print Assumptions C04_mutable_borrow_conversion_never_lowers_alignment.
Print Assumptions C04_scope_conversion_never_lowers_alignment.
