(* C07 — Allocation failure is reported as an error and leaves all state intact.
   Proved for the arena (refused chunk request / overflow / claimed handle) and, at collection
   level, for the capacity model of BumpVec / FixedBumpVec / MutBumpVec(Rev) (VecCap.v): a failed reserve / push /
   extend leaves length and capacity as they were, an overflowing request is an error decided
   without asking the allocator.  PARTIAL: strings and the contents after a
   failure are probed on the implementation only. *)
From Coq Require Import ZArith List.
From BS Require Import Word BumpSpec ChunkSpec Arena ArenaInv ArenaStats ArenaMisc ArenaExt VecCap VecCapProofs CapRefine.
From BS.gen Require FixFacts.
From BS.gen Require CapSites.
Import ListNotations.
Open Scope Z_scope.

Theorem C07_refused_is_error :
  forall c s size align,
  exists e, snd (grow_arena c s size align None) = Some e /\
            chunks (fst (grow_arena c s size align None)) = chunks s /\
            cur (fst (grow_arena c s size align None)) = cur s /\
            frame s (fst (grow_arena c s size align None)).
Proof. exact refused_grow_is_error. Qed.

Theorem C07_overflow_is_error :
  forall c s size align r,
  new_chunk_size c (prev_size s) size align = None ->
  grow_arena c s size align r = (s, Some ErrOverflow).
Proof. exact overflow_is_error. Qed.

Theorem C07_failed_alloc_keeps_live_and_memory :
  forall c s h ws size align zeroed r e,
  o_res (snd (step c s (OAlloc h ws size align zeroed) r)) = RErr e ->
  let s' := fst (step c s (OAlloc h ws size align zeroed) r) in
  live s' = live s /\ (forall a, mem s' a = mem s a) /\ depth s' = depth s /\ aligns s' = aligns s.
Proof. exact failed_alloc_keeps_live_and_memory. Qed.

Theorem C07_state_after_failure_satisfies_invariant :
  forall c s h ws size align zeroed r,
  cfg_ok c -> inv c s -> valid_layout size align -> resp_ok c s size align r ->
  inv c (fst (step c s (OAlloc h ws size align zeroed) r)).
Proof. exact failed_alloc_still_satisfies_invariant. Qed.

Theorem C07_claimed_alloc_fails :
  forall c s h ws size align zeroed r,
  h <> depth s ->
  step c s (OAlloc h ws size align zeroed) r = (tick s, mkOut (RErr ErrClaimed) [] false).
Proof. exact claimed_alloc_fails. Qed.

(* a failed allocation leaves the current chunk current and every chunk up to it untouched *)
Theorem C07_failed_alloc_keeps_current_chunk :
  forall c s size align r s1 e,
  cfg_ok c -> ginv c s -> valid_layout size align -> resp_ok c s size align r ->
  raw_alloc c s size align r = (s1, inr e) ->
  cur s1 = cur s /\
  match cur s with
  | Cur i => forall k, (k <= i)%nat -> nth_error (chunks s1) k = nth_error (chunks s) k
  | _ => chunks s1 = chunks s
  end.
Proof. exact failed_alloc_keeps_current. Qed.

(* the chunk appended for a layout has room for it (no `unreachable_unchecked` is reached) *)
Theorem C07_fresh_chunk_fits :
  forall c prev size align m n addr g,
  cfg_ok c -> valid_layout size align -> valid_min_align m ->
  new_chunk_size c prev size align = Some n -> n <= g -> (ha c | addr) ->
  chunk_alloc c m (make_chunk c n addr g) size align <> None /\
  ((align | size) -> chunk_prepare c (make_chunk c n addr g) size align <> None).
Proof. exact make_chunk_fits. Qed.

(* collection level (VecCap.v): whatever the operation, whatever the allocator answers, a failure
   leaves length and capacity as they were, and the invariant holds either way *)
Theorem C07_collection_failure_is_atomic :
  forall fixed sz al s o grant shrunk got,
  elem_ok sz al -> vinv sz al s -> got_ok sz got -> vop_ok o ->
  let '(s', out) := vstep fixed sz al s o grant shrunk got in
  vinv sz al s' /\ (vo_err out <> None -> s' = s).
Proof. exact vstep_inv. Qed.

Theorem C07_collection_overflow_is_error :
  forall sz al s n grant shrunk got (exact : bool),
  elem_ok sz al -> vinv sz al s -> 0 <= n -> IMAX < (vlen s + n) * sz ->
  let '(s', out) := vstep false sz al s (if exact then VReserveExact n else VReserve n) grant shrunk got in
  vo_err out = Some VOverflow /\ vo_asked out = false /\ s' = s.
Proof. exact overflow_is_error_without_call. Qed.

(* zero-sized element types: capacity usize::MAX ("unlimited"), never an allocator call, the length
   never passes usize::MAX, an operation that would overflow it is an error that changes nothing *)
Theorem C07_zst_vector_never_overflows :
  forall al s o grant shrunk got,
  vcap s = W - 1 -> 0 <= vlen s <= vcap s -> vop_ok o ->
  let '(s', out) := vstep true 0 al s o grant shrunk got in
  vcap s' = W - 1 /\ 0 <= vlen s' <= W - 1 /\ (vo_err out <> None -> s' = s) /\ vo_asked out = false /\
  (forall n, (o = VExtend n \/ (o = VPush /\ n = 1)) -> (vo_err out = None <-> vlen s + n <= W - 1)).
Proof. exact zst_vector_never_overflows. Qed.

(* "a size computation that overflows is reported": the growth computations of the CURRENT sources never
   trap (Ok) and report an overflowing length as None = capacity_overflow, for every input *)
Theorem C07_growth_computations_of_the_source_report_overflow :
  forall len cap add sz,
  CapSites.bv_grow_amortized len cap add sz = Ok (amortized_target sz len cap add) /\
  CapSites.bv_grow_exact len cap add sz = Ok (exact_target len add) /\
  (W <= len + add -> amortized_target sz len cap add = None /\ exact_target len add = None).
Proof.
  intros. split; [apply bv_grow_amortized_refines|]. split; [apply bv_grow_exact_refines|].
  intros H. unfold amortized_target, exact_target.
  assert (E : W <=? len + add = true) by (apply Z.leb_le; exact H). rewrite E. split; reflexivity.
Qed.

(* the repair of a genuine defect recorded in known_findings.json is still in place in the CURRENT source (tools/fixsites.py ->
   gen/FixFacts.v, read out on every run): a `fixed:` entry suppresses nothing, and its syntactic return breaks this obligation *)
Theorem C07_repair_in_place_defect3 : FixFacts.defect3_and_7_a_failed_or_panicking_append_restores_the_original_chunk = true.
Proof. vm_compute. reflexivity. Qed.

Print Assumptions C07_failed_alloc_keeps_current_chunk.
Print Assumptions C07_fresh_chunk_fits.
Print Assumptions C07_refused_is_error.
Print Assumptions C07_overflow_is_error.
Print Assumptions C07_failed_alloc_keeps_live_and_memory.
Print Assumptions C07_state_after_failure_satisfies_invariant.
Print Assumptions C07_claimed_alloc_fails.
Print Assumptions C07_collection_failure_is_atomic.
Print Assumptions C07_collection_overflow_is_error.
Print Assumptions C07_zst_vector_never_overflows.
Print Assumptions C07_growth_computations_of_the_source_report_overflow.
Print Assumptions C07_repair_in_place_defect3.
