(* C15 — Exclusive-borrow collections use free space without moving the pointer.
   PARTIAL: the primitives behind MutBumpVec / MutBumpVecRev / MutBumpString and the *_mut
   helpers (prepare, fill, commit; forward and reverse; typed and dyn) are modelled and proved;
   the collection layer on top (growth policy, iterator size hints) is covered by C08's model. *)
From Coq Require Import ZArith List.
From BS Require Import Word BumpSpec ChunkSpec Arena ArenaInv ArenaExt ArenaInv2.
Import ListNotations.
Open Scope Z_scope.

Theorem C15_prepare_keeps_positions :
  forall c s i size align r s1 res,
  cfg_ok c -> ginv c s -> cur s = Cur i ->
  raw_prepare_range c s size align r = (s1, res) ->
  (forall k, (k <= i)%nat -> nth_error (chunks s1) k = nth_error (chunks s) k) /\
  (exists j, cur s1 = Cur j /\ (i <= j)%nat).
Proof. exact prepare_keeps_positions. Qed.

Theorem C15_commit_up_advance :
  forall c s h es ea ptr len cap dyn r,
  up c = true -> valid_min_align (malign s) ->
  let '(s', out) := step c s (OCommit h es ea ptr len cap false dyn) r in
  (exists id, o_res out = RBlock id ptr (len * es)) /\
  (forall a, mem s' a = mem s a) /\
  (forall ch, cur_chunk s = Some ch -> exists ch', cur_chunk s' = Some ch' /\
     ptr + len * es <= cpos ch' < ptr + len * es + malign s).
Proof. exact commit_up_advance. Qed.

Theorem C15_commit_down_contents :
  forall c s h es ea ptr len cap dyn r,
  up c = false ->
  let '(s', out) := step c s (OCommit h es ea ptr len cap false dyn) r in
  let dst := ptr + cap * es - len * es in
  (exists id, o_res out = RBlock id dst (len * es)) /\
  (forall k, 0 <= k < len * es -> mem s' (dst + k) = mem s (ptr + k)) /\
  (forall a, ~ (dst <= a < dst + len * es) -> mem s' a = mem s a).
Proof. exact commit_down_contents. Qed.

Theorem C15_commit_position_bounds :
  forall c m ea dyn x, valid_min_align m ->
  (if up c then x <= commit_pos c m ea dyn x < x + m else x - m < commit_pos c m ea dyn x <= x).
Proof. exact commit_pos_bounds. Qed.

(* growth that fails (the base allocator refuses, or the size overflows) leaves the chunk the
   collection lives in current, so finalising afterwards sets the position of the right chunk *)
Theorem C15_failed_growth_keeps_current_chunk :
  forall c s i size align r s1 e,
  cfg_ok c -> ginv c s -> cur s = Cur i ->
  valid_layout size align -> (align | size) -> resp_ok c s size align r ->
  raw_prepare_range c s size align r = (s1, inr e) ->
  cur s1 = Cur i /\ (forall k, (k <= i)%nat -> nth_error (chunks s1) k = nth_error (chunks s) k).
Proof. exact failed_prepare_keeps_current. Qed.

(* the arena invariant (every live block valid, aligned, disjoint; position aligned and in range)
   is preserved by prepare and by commit, and the committed slice becomes a live block *)
Theorem C15_prepare_preserves_invariant :
  forall c s0 h es ea cap rev r,
  cfg_ok c -> inv c s0 -> resp_ok c s0 (es * cap) ea r ->
  inv c (fst (step c s0 (OPrepare h es ea cap rev) r)).
Proof. exact step_inv_prepare. Qed.

Theorem C15_commit_preserves_invariant :
  forall c s0 h es ea ptr len cap rev dyn r,
  cfg_ok c -> inv c s0 -> commit_ok c s0 es ea ptr len cap rev ->
  inv c (fst (step c s0 (OCommit h es ea ptr len cap rev dyn) r)).
Proof. exact step_inv_commit. Qed.

Print Assumptions C15_prepare_keeps_positions.
Print Assumptions C15_prepare_preserves_invariant.
Print Assumptions C15_commit_preserves_invariant.
Print Assumptions C15_failed_growth_keeps_current_chunk.
Print Assumptions C15_commit_up_advance.
Print Assumptions C15_commit_down_contents.
Print Assumptions C15_commit_position_bounds.
