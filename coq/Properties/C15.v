(* C15 — Exclusive-borrow collections use free space without moving the pointer.
   The primitives behind MutBumpVec / MutBumpVecRev / MutBumpString and the *_mut helpers
   (prepare, fill, commit; forward and reverse; typed and dyn) are modelled and proved, and so is
   every SEQUENCE of prepare / write steps (ArenaFill.v): however often the collection grows,
   no chunk up to the original current one changes, at most a later, empty chunk becomes current.
   The growth policy that decides the sizes asked for is C08's capacity model (VecCap.v).
   PARTIAL: iterator size hints and the helpers built on top are exercised on the implementation. *)
From Coq Require Import ZArith List.
From BS Require Import Word BumpSpec ChunkSpec Arena ArenaInv ArenaExt ArenaInv2 ArenaFill ArenaRegrow AllocRefine.
From BS.gen Require FixFacts.
From BS.gen Require AllocSites.
Import ListNotations.
Open Scope Z_scope.

Theorem C15_prepare_keeps_positions :
  forall c s i size align r s1 res,
  cfg_ok c -> ginv c s -> cur s = Cur i ->
  raw_prepare_range c s size align r = (s1, res) ->
  (forall k, (k <= i)%nat -> nth_error (chunks s1) k = nth_error (chunks s) k) /\
  (exists j, cur s1 = Cur j /\ (i <= j)%nat).
Proof. exact prepare_keeps_positions. Qed.

Theorem C15_commit_up_advance :
  forall c s h es ea ptr len cap dyn r,
  up c = true -> valid_min_align (malign s) ->
  let '(s', out) := step c s (OCommit h es ea ptr len cap false dyn) r in
  (exists id, o_res out = RBlock id ptr (len * es)) /\
  (forall a, mem s' a = mem s a) /\
  (forall ch, cur_chunk s = Some ch -> exists ch', cur_chunk s' = Some ch' /\
     ptr + len * es <= cpos ch' < ptr + len * es + malign s).
Proof. exact commit_up_advance. Qed.

Theorem C15_commit_down_contents :
  forall c s h es ea ptr len cap dyn r,
  up c = false ->
  let '(s', out) := step c s (OCommit h es ea ptr len cap false dyn) r in
  let dst := ptr + cap * es - len * es in
  (exists id, o_res out = RBlock id dst (len * es)) /\
  (forall k, 0 <= k < len * es -> mem s' (dst + k) = mem s (ptr + k)) /\
  (forall a, ~ (dst <= a < dst + len * es) -> mem s' a = mem s a).
Proof. exact commit_down_contents. Qed.

Theorem C15_commit_position_bounds :
  forall c m ea dyn x, valid_min_align m ->
  (if up c then x <= commit_pos c m ea dyn x < x + m else x - m < commit_pos c m ea dyn x <= x).
Proof. exact commit_pos_bounds. Qed.

(* growth that fails (the base allocator refuses, or the size overflows) leaves the chunk the
   collection lives in current, so finalising afterwards sets the position of the right chunk *)
Theorem C15_failed_growth_keeps_current_chunk :
  forall c s i size align r s1 e,
  cfg_ok c -> ginv c s -> cur s = Cur i ->
  valid_layout size align -> (align | size) -> resp_ok c s size align r ->
  raw_prepare_range c s size align r = (s1, inr e) ->
  cur s1 = Cur i /\ (forall k, (k <= i)%nat -> nth_error (chunks s1) k = nth_error (chunks s) k).
Proof. exact failed_prepare_keeps_current. Qed.

(* the arena invariant (every live block valid, aligned, disjoint; position aligned and in range)
   is preserved by prepare and by commit, and the committed slice becomes a live block *)
Theorem C15_prepare_preserves_invariant :
  forall c s0 h es ea cap rev r,
  cfg_ok c -> inv c s0 -> resp_ok c s0 (es * cap) ea r ->
  inv c (fst (step c s0 (OPrepare h es ea cap rev) r)).
Proof. exact step_inv_prepare. Qed.

Theorem C15_commit_preserves_invariant :
  forall c s0 h es ea ptr len cap rev dyn r,
  cfg_ok c -> inv c s0 -> commit_ok c s0 es ea ptr len cap rev ->
  inv c (fst (step c s0 (OCommit h es ea ptr len cap rev dyn) r)).
Proof. exact step_inv_commit. Qed.

(* any sequence of prepare (creation, every growth — granted, refused or overflowing) and write
   steps: the invariant holds at the end, no chunk up to and including the original current one
   has changed (position, hence allocated bytes), the live blocks, the alignment stack and the claim
   depth are as before, and the current chunk has not moved backwards *)
Theorem C15_fill_sequence_keeps :
  forall c xs s i,
  cfg_ok c -> inv c s -> cur s = Cur i -> fok c s xs ->
  inv c (frun c s xs) /\ kept i s (frun c s xs).
Proof. exact fill_sequence_keeps. Qed.

Theorem C15_fill_sequence_keeps_positions :
  forall c xs s i,
  cfg_ok c -> inv c s -> cur s = Cur i -> fok c s xs ->
  forall k ch, (k <= i)%nat -> nth_error (chunks s) k = Some ch ->
  exists ch', nth_error (chunks (frun c s xs)) k = Some ch' /\ cpos ch' = cpos ch /\ allocated_in c ch' = allocated_in c ch.
Proof. exact fill_sequence_keeps_positions. Qed.

(* "at most a later, still empty chunk becomes the current one": every chunk after the original
   current one up to the final current one is empty *)
Theorem C15_fill_sequence_later_chunks_empty :
  forall c xs s i,
  cfg_ok c -> inv c s -> cur s = Cur i -> fok c s xs -> later_empty c i (frun c s xs).
Proof. exact fill_sequence_later_chunks_empty. Qed.

Theorem C15_fresh_chunk_is_empty : forall c ch, fresh c ch -> allocated_in c ch = 0.
Proof. exact fresh_empty. Qed.

(* "even when filling had to continue in a bigger chunk": a vector whose capacity is the whole rest of
   its chunk cannot be regrown inside that chunk — the bigger range lies in another chunk — … *)
Theorem C15_regrow_leaves_chunk :
  forall c ch es ea cap st en newcap,
  pow2 ea -> 0 < es -> (ea | es) ->
  chunk_prepare c ch (es * cap) ea = Some (st, en) ->
  (en - st) / es < newcap ->
  chunk_prepare c ch (es * newcap) ea = None.
Proof. exact regrow_leaves_chunk. Qed.

(* … whereas after map_in_place to a smaller element type (capacity re-expressed: never more bytes
   than before, possibly fewer than the chunk offers) the same chunk can serve the bigger request
   with a range that OVERLAPS the old buffer (computed state; genuine defect 8: the copy was a
   copy_nonoverlapping) … *)
Theorem C15_reshape_inside :
  forall cap ts us, 0 <= cap -> 0 < us -> us <= ts ->
  reshape_capacity cap ts us * us <= cap * ts /\ cap <= reshape_capacity cap ts us.
Proof. exact reshape_inside. Qed.

Theorem C15_regrow_same_chunk_overlaps :
  o_res (snd RegrowExample.first) = RRange 66040 2 /\
  reshape_capacity 2 4 1 = 8 /\
  o_res (snd RegrowExample.second) = RRange 66037 11 /\
  cur (fst RegrowExample.second) = Cur 0 /\
  ranges_overlap 66040 8 66037 11 = true.
Proof. exact RegrowExample.regrow_same_chunk_overlaps. Qed.

(* … and the copy the repaired code makes (memmove) delivers the elements intact whatever the
   overlap and changes no byte outside the new range *)
Theorem C15_regrow_copy_keeps_contents :
  forall (m : memory) src dst bytes i, 0 <= i < bytes -> mem_copy m src dst bytes (dst + i) = m (src + i).
Proof. exact regrow_copy_keeps_contents. Qed.

Theorem C15_regrow_copy_frame :
  forall (m : memory) src dst bytes x, ~ (dst <= x < dst + bytes) -> mem_copy m src dst bytes x = m x.
Proof. exact regrow_copy_frame. Qed.

(* where the position goes when a typed prepared slice is committed: RawChunk::set_pos_addr_and_align_from of the CURRENT source
   (cut out and translated on every run) is the model's commit_pos - re-align in bump direction exactly when the element
   alignment is below the minimum alignment *)
Theorem C15_source_commit_position_is_the_models :
  forall (c : cfg) m ea x, valid_min_align m -> 0 <= x -> x + m - 1 < W ->
  AllocSites.commit_pos_from (up c) m x ea = Ok (commit_pos c m ea false x).
Proof. exact commit_pos_refines. Qed.

(* the repair of a genuine defect recorded in known_findings.json is still in place in the CURRENT source (tools/fixsites.py ->
   gen/FixFacts.v, read out on every run): a `fixed:` entry suppresses nothing, and its syntactic return breaks this obligation *)
Theorem C15_repair_in_place_defect8 : FixFacts.defect8_regrowth_copies_with_memmove = true.
Proof. vm_compute. reflexivity. Qed.

Print Assumptions C15_prepare_keeps_positions.
Print Assumptions C15_prepare_preserves_invariant.
Print Assumptions C15_commit_preserves_invariant.
Print Assumptions C15_failed_growth_keeps_current_chunk.
Print Assumptions C15_commit_up_advance.
Print Assumptions C15_commit_down_contents.
Print Assumptions C15_commit_position_bounds.
Print Assumptions C15_fill_sequence_keeps.
Print Assumptions C15_fill_sequence_keeps_positions.
Print Assumptions C15_fill_sequence_later_chunks_empty.
Print Assumptions C15_fresh_chunk_is_empty.
Print Assumptions C15_regrow_leaves_chunk.
Print Assumptions C15_reshape_inside.
Print Assumptions C15_regrow_same_chunk_overlaps.
Print Assumptions C15_regrow_copy_keeps_contents.
Print Assumptions C15_regrow_copy_frame.
Print Assumptions C15_source_commit_position_is_the_models.
Print Assumptions C15_repair_in_place_defect8.
