(* C08 — Vector types behave like std Vec on every operation sequence.
   The modelled operations compute the std list functions and panic exactly on the out-of-range
   arguments.  The capacity clauses (capacity >= len and >= promise, no reallocation within the
   promise, fixed vectors never reallocate) are proved for BumpVec / FixedBumpVec / MutBumpVec(Rev) over the
   capacity model VecCap.v.  PARTIAL: the operations not modelled (map, into_flattened, into_* conversions) are checked on the
   implementation against std::vec::Vec in lock-step only. *)
From Coq Require Import List Arith ZArith.
From BS Require Import Word VecCap VecCapProofs LibRefine CapRefine Colls CollsProofs SplitCap SplitRefine.
From BS.gen Require FixFacts.
From BS.gen Require SplitSites SplitFacts.
From BS.gen Require LibArith CapSites.
Import ListNotations.
Close Scope Z_scope.

Theorem C08_truncate_spec : forall dp l n, final (op_truncate dp l n) = firstn n l.
Proof. exact truncate_spec. Qed.

Theorem C08_remove_spec : forall l i x, nth_error l i = Some x ->
  op_remove l i = mkOutcome (firstn i l ++ skipn (S i) l) [x] [] false 0.
Proof. exact remove_spec. Qed.

Theorem C08_remove_panics_iff : forall l i, unwound (op_remove l i) = true <-> length l <= i.
Proof. exact remove_panics_iff. Qed.

Theorem C08_insert_spec : forall l i x, i <= length l ->
  op_insert l i x = mkOutcome (firstn i l ++ x :: skipn i l) [] [] false 0.
Proof. exact insert_spec. Qed.

Theorem C08_retain_is_filter :
  forall (g : nat -> nat -> bool) dp l, (forall x, dp x = false) ->
  final (op_retain (fun k x => Ret (g k x)) dp l) = filter_k g 0 l /\
  unwound (op_retain (fun k x => Ret (g k x)) dp l) = false.
Proof. exact retain_is_filter. Qed.

Theorem C08_dedup_is_std :
  forall (g : nat -> nat -> nat -> bool) dp x r, (forall y, dp y = false) ->
  final (op_dedup_by (fun k a p => Ret (g k a p)) dp (x :: r)) = x :: dedup_ref g 0 x r.
Proof. exact dedup_is_std. Qed.

Theorem C08_drain_spec : forall dp l a b, a <= b <= length l ->
  final (op_drain dp l a b (b - a) 0 DrainDrop) = firstn a l ++ skipn b l /\
  yielded (op_drain dp l a b (b - a) 0 DrainDrop) = firstn (b - a) (skipn a l).
Proof. exact drain_spec. Qed.

Theorem C08_extract_if_spec :
  forall (g : nat -> nat -> bool) rest k want kept ys, length rest < want ->
  extract_go (fun k x => Ret (g k x)) k want kept rest ys =
  mkOutcome (kept ++ filter_k (fun k x => negb (g k x)) k rest) (ys ++ filter_k g k rest) [] false (k + length rest).
Proof. exact extract_go_spec. Qed.

Theorem C08_split_off_panics_iff : forall l a b,
  unwound (op_split_off l a b) = true <-> (b < a \/ length l < b).
Proof. exact split_off_panics_iff. Qed.

Theorem C08_splice_spec : forall dp l a b repl take, a <= b <= length l ->
  final (op_splice dp l a b repl take) = firstn a l ++ repl ++ skipn b l.
Proof. exact splice_spec. Qed.
Theorem C08_into_iter_leaves_nothing : forall dp l kf kb, final (op_into_iter dp l kf kb) = [].
Proof. exact into_iter_leaves_nothing. Qed.

(* growth by a producer, when nothing panics, is the std::vec::Vec function *)
Theorem C08_extend_is_std : forall l ids, final (op_extend_iter (fun _ => false) l ids) = l ++ ids /\
  unwound (op_extend_iter (fun _ => false) l ids) = false.
Proof. exact extend_is_std. Qed.
Theorem C08_resize_with_is_std : forall dp l new_len ids, new_len - length l <= length ids ->
  let o := op_resize_with (fun _ => false) dp l new_len ids in
  final o = firstn new_len l ++ firstn (new_len - length l) ids /\ length (final o) = new_len.
Proof. exact resize_with_is_std. Qed.
Theorem C08_resize_is_std : forall dp l new_len ids v, new_len - length l - 1 <= length ids ->
  let o := op_resize (fun _ => false) dp l new_len ids v in
  (length l < new_len -> final o = l ++ firstn (new_len - length l - 1) ids ++ [v] /\ dropped o = []) /\
  (new_len <= length l -> final o = firstn new_len l) /\ length (final o) = new_len.
Proof. exact resize_is_std. Qed.
Theorem C08_dedup_by_key_is_std : forall (kf : nat -> nat) dp x r, (forall y, dp y = false) ->
  final (op_dedup_by_key (fun _ e => Some (kf e)) dp (x :: r)) =
  x :: dedup_ref (fun _ e prev => Nat.eqb (kf e) (kf prev)) 0 x r.
Proof. exact dedup_by_key_is_std. Qed.

(* ---- capacity (VecCap.v): Z-valued lengths and capacities, `grant` = the allocator's answer,
   `got` = the capacity a MutBumpVec(Rev) is handed (the rest of the chunk; 0 for BumpVec) *)
Open Scope Z_scope.

(* capacity >= length, and the buffer a legal allocation, after every operation; an operation that
   fails changes neither *)
Theorem C08_capacity_invariant_step :
  forall fixed sz al s o grant shrunk got,
  elem_ok sz al -> vinv sz al s -> got_ok sz got -> vop_ok o ->
  let '(s', out) := vstep fixed sz al s o grant shrunk got in
  vinv sz al s' /\ (vo_err out <> None -> s' = s).
Proof. exact vstep_inv. Qed.

Theorem C08_capacity_invariant_reachable :
  forall fixed sz al xs s,
  elem_ok sz al -> vinv sz al s -> Forall (step_ok sz) xs -> vinv sz al (vrun fixed sz al s xs).
Proof. exact vrun_inv. Qed.

Theorem C08_reserve_keeps_its_promise :
  forall sz al s n grant shrunk got (exact : bool),
  elem_ok sz al -> vinv sz al s -> got_ok sz got -> 0 <= n ->
  let '(s', out) := vstep false sz al s (if exact then VReserveExact n else VReserve n) grant shrunk got in
  vo_err out = None -> n <= vcap s' - vlen s' /\ vlen s' = vlen s /\ vcap s <= vcap s'.
Proof. exact reserve_promise. Qed.

Theorem C08_with_capacity_spec :
  forall sz al c grant got,
  elem_ok sz al -> got_ok sz got -> 0 <= c ->
  let '(s, out) := with_capacity sz al c grant got in
  (vo_err out = None -> vinv sz al s /\ vlen s = 0 /\ c <= vcap s /\ (got = 0 -> vcap s = c)) /\ (vo_err out <> None -> s = mkV 0 0).
Proof. exact with_capacity_spec. Qed.

(* while the promise suffices: no allocator call, no failure, same capacity (the buffer stays) *)
Theorem C08_no_reallocation_while_room :
  forall fixed sz al s o grant shrunk got n,
  elem_ok sz al -> vinv sz al s ->
  (o = VReserve n \/ o = VReserveExact n \/ o = VExtend n \/ (o = VPush /\ n = 1)) -> 0 <= n ->
  n <= vcap s - vlen s ->
  let '(s', out) := vstep fixed sz al s o grant shrunk got in
  vo_err out = None /\ vo_asked out = false /\ vcap s' = vcap s.
Proof. exact enough_room_no_allocator_call. Qed.

Theorem C08_promise_window :
  forall sz al k s,
  elem_ok sz al -> vinv sz al s -> Z.of_nat k <= vcap s - vlen s ->
  let s' := vrun false sz al s (pushes k) in
  vcap s' = vcap s /\ vlen s' = vlen s + Z.of_nat k.
Proof. exact promise_window. Qed.

Theorem C08_growing_push_doubles :
  forall sz al s grant shrunk got,
  elem_ok sz al -> vinv sz al s -> got_ok sz got -> vlen s = vcap s ->
  let '(s', out) := vstep false sz al s VPush grant shrunk got in
  vo_err out = None -> 2 * vcap s <= vcap s' /\ min_non_zero_cap sz <= vcap s' /\ vlen s' = vlen s + 1.
Proof. exact growing_push_doubles. Qed.

(* BumpVec: reserve_exact that has to grow ends with exactly len + n *)
Theorem C08_reserve_exact_is_exact :
  forall sz al s n grant shrunk,
  elem_ok sz al -> vinv sz al s -> 0 <= n -> vcap s - vlen s < n ->
  let '(s', out) := vstep false sz al s (VReserveExact n) grant shrunk 0 in
  vo_err out = None -> vcap s' = vlen s + n.
Proof. exact reserve_exact_is_exact. Qed.

Theorem C08_fixed_never_reallocates :
  forall sz al s o grant shrunk got,
  let '(s', out) := vstep true sz al s o grant shrunk got in
  vcap s' = vcap s /\ vo_asked out = false.
Proof. exact fixed_never_reallocates. Qed.

Theorem C08_fixed_push_fails_iff_full :
  forall sz al s grant shrunk got,
  vinv sz al s ->
  (vo_err (snd (vstep true sz al s VPush grant shrunk got)) <> None <-> vlen s = vcap s).
Proof. exact fixed_push_fails_iff_full. Qed.

Theorem C08_shrink_to_bounds :
  forall sz al s m grant shrunk got,
  vinv sz al s ->
  let s' := fst (vstep false sz al s (VShrinkTo m) grant shrunk got) in
  vlen s' = vlen s /\ vlen s <= vcap s' <= vcap s /\ Z.min (vcap s) m <= vcap s'.
Proof. exact shrink_to_bounds. Qed.

(* zero-sized element types: capacity usize::MAX ("unlimited"), never an allocator call, the length
   never passes usize::MAX, an operation that would overflow it is an error that changes nothing *)
Theorem C08_zst_vector_never_overflows :
  forall al s o grant shrunk got,
  vcap s = W - 1 -> 0 <= vlen s <= vcap s -> vop_ok o ->
  let '(s', out) := vstep true 0 al s o grant shrunk got in
  vcap s' = W - 1 /\ 0 <= vlen s' <= W - 1 /\ (vo_err out <> None -> s' = s) /\ vo_asked out = false /\
  (forall n, (o = VExtend n \/ (o = VPush /\ n = 1)) -> (vo_err out = None <-> vlen s + n <= W - 1)).
Proof. exact zst_vector_never_overflows. Qed.

(* the smallest capacity a growing vector asks for is `min_non_zero_cap` of the CURRENT src/lib.rs *)
Theorem C08_min_non_zero_cap_is_the_code :
  forall sz, LibArith.min_non_zero_cap sz = Ok (min_non_zero_cap sz).
Proof. exact min_non_zero_cap_refines. Qed.

(* The growth decisions of the CURRENT sources (cut out of bump_vec.rs / mut_bump_vec.rs / mut_bump_vec_rev.rs
   and translated on every run: gen/CapSites.v) are the capacity model's: when reserve / reserve_exact /
   the reserve_one of push grow, and the capacity they then ask for (or the overflow they report). *)
Theorem C08_bump_vec_growth_target_is_the_models :
  forall len cap add sz,
  CapSites.bv_grow_amortized len cap add sz = Ok (amortized_target sz len cap add) /\
  CapSites.bv_grow_exact len cap add sz = Ok (exact_target len add).
Proof. intros. split; [apply bv_grow_amortized_refines | apply bv_grow_exact_refines]. Qed.

Theorem C08_mut_bump_vec_growth_target_is_the_models :
  forall len cap add sz, 0 <= cap <= IMAX ->
  CapSites.mv_grow_amortized len cap add sz = Ok (amortized_target sz len cap add) /\
  CapSites.mv_grow_exact len cap add sz = Ok (exact_target len add) /\
  CapSites.rv_grow_amortized len cap add sz = Ok (amortized_target sz len cap add) /\
  CapSites.rv_grow_exact len cap add sz = Ok (exact_target len add).
Proof.
  intros len cap add sz H. repeat split;
  [apply mv_grow_amortized_refines | apply mv_grow_exact_refines | apply rv_grow_amortized_refines | apply rv_grow_exact_refines]; exact H.
Qed.

Theorem C08_growth_conditions_are_the_models :
  forall len cap add, len <= cap ->
  CapSites.bv_reserve_grows len cap add = Ok (cap - len <? add) /\
  CapSites.bv_reserve_exact_grows len cap add = Ok (cap - len <? add) /\
  CapSites.bv_reserve_one_grows len cap = Ok (cap - len <? 1) /\
  (CapSites.mv_reserve_grows len cap add = Ok (cap - len <? add) /\
   CapSites.mv_reserve_exact_grows len cap add = Ok (cap - len <? add) /\
   CapSites.mv_reserve_one_grows len cap = Ok (cap - len <? 1)) /\
  (CapSites.rv_reserve_grows len cap add = Ok (cap - len <? add) /\
   CapSites.rv_reserve_exact_grows len cap add = Ok (cap - len <? add) /\
   CapSites.rv_reserve_one_grows len cap = Ok (cap - len <? 1)).
Proof.
  intros len cap add H. split; [apply bv_reserve_grows_refines; exact H|].
  split; [apply bv_reserve_exact_grows_refines; exact H|].
  split; [apply bv_reserve_one_grows_refines; exact H|].
  split; [apply mv_reserve_grows_refines; exact H | apply rv_reserve_grows_refines; exact H].
Qed.

Theorem C08_reserve_of_the_source_is_the_models :
  forall sz al s n grant got, vlen s <= vcap s ->
  reserve sz al s n grant got =
  match CapSites.bv_reserve_grows (vlen s) (vcap s) n with
  | Ok true =>
    match CapSites.bv_grow_amortized (vlen s) (vcap s) n sz with
    | Ok (Some c) => grow_to sz al s c grant got
    | _ => (s, mkVO (Some VOverflow) false)
    end
  | _ => quiet s
  end.
Proof. exact bv_reserve_is_model. Qed.

Theorem C08_mut_reserve_of_the_source_is_the_models :
  forall sz al s n grant got, vlen s <= vcap s -> 0 <= vcap s <= IMAX ->
  reserve sz al s n grant got =
  match CapSites.mv_reserve_grows (vlen s) (vcap s) n with
  | Ok true =>
    match CapSites.mv_grow_amortized (vlen s) (vcap s) n sz with
    | Ok (Some c) => grow_to sz al s c grant got
    | _ => (s, mkVO (Some VOverflow) false)
    end
  | _ => quiet s
  end.
Proof. exact mv_reserve_is_model. Qed.

(* the window arithmetic of the CURRENT FixedBumpVec::split_off (BumpVec::split_off wraps it), cut out branch by branch and
   translated on every run (gen/SplitSites.v, gen/SplitFacts.v): in the two interior branches - the ones that rotate - the
   offsets, lengths and capacities of both parts, the side `self` keeps and the rotation are SplitCap.split_off_windows
   (SplitRefine.v; the two boundary branches likewise: split_off_tail_refines, split_off_front_refines) *)
Theorem C08_source_split_off_windows_head_short :
  forall (len cap a b : nat),
  (0 < a)%nat -> (a < b)%nat -> (b < len)%nat -> (len <= cap)%nat -> (a < len - b)%nat ->
  let '(keep, off) := split_off_windows len cap a b in
  SplitFacts.so_headshort_self_keeps_lhs = false /\ SplitFacts.so_headshort_rotation_ok = true /\ SplitFacts.so_interior_defs_ok = true /\
  woff off = 0%nat /\ SplitSites.so_headshort_lhs_len (Z.of_nat a) (Z.of_nat b) = Ok (Z.of_nat (wlen off)) /\
  SplitSites.so_headshort_lhs_cap (Z.of_nat a) (Z.of_nat b) = Ok (Z.of_nat (wcap off)) /\
  SplitSites.so_headshort_rhs_off (Z.of_nat a) (Z.of_nat b) = Ok (Z.of_nat (woff keep)) /\
  SplitSites.so_headshort_rhs_len (Z.of_nat a) (Z.of_nat b) (Z.of_nat len) = Ok (Z.of_nat (wlen keep)) /\
  SplitSites.so_headshort_rhs_cap (Z.of_nat a) (Z.of_nat b) (Z.of_nat cap) = Ok (Z.of_nat (wcap keep)).
Proof. exact split_off_headshort_refines. Qed.

Theorem C08_source_split_off_windows_tail_long :
  forall (len cap a b : nat),
  (0 < a)%nat -> (a < b)%nat -> (b < len)%nat -> (len <= cap)%nat -> (len - b <= a)%nat ->
  let '(keep, off) := split_off_windows len cap a b in
  SplitFacts.so_taillong_self_keeps_lhs = true /\ SplitFacts.so_taillong_rotation_ok = true /\
  woff keep = 0%nat /\ SplitSites.so_taillong_lhs_len (Z.of_nat a) (Z.of_nat b) (Z.of_nat len) = Ok (Z.of_nat (wlen keep)) /\
  SplitSites.so_taillong_lhs_cap (Z.of_nat a) (Z.of_nat b) (Z.of_nat len) = Ok (Z.of_nat (wcap keep)) /\
  SplitSites.so_taillong_rhs_off (Z.of_nat a) (Z.of_nat b) (Z.of_nat len) = Ok (Z.of_nat (woff off)) /\
  SplitSites.so_taillong_rhs_len (Z.of_nat a) (Z.of_nat b) = Ok (Z.of_nat (wlen off)) /\
  SplitSites.so_taillong_rhs_cap (Z.of_nat a) (Z.of_nat b) (Z.of_nat len) (Z.of_nat cap) = Ok (Z.of_nat (wcap off)).
Proof. exact split_off_taillong_refines. Qed.

(* the repair of a genuine defect recorded in known_findings.json is still in place in the CURRENT source (tools/fixsites.py ->
   gen/FixFacts.v, read out on every run): a `fixed:` entry suppresses nothing, and its syntactic return breaks this obligation *)
Theorem C08_repair_in_place_defect8 : FixFacts.defect8_regrowth_copies_with_memmove = true.
Proof. vm_compute. reflexivity. Qed.

Print Assumptions C08_truncate_spec.
Print Assumptions C08_remove_spec.
Print Assumptions C08_remove_panics_iff.
Print Assumptions C08_insert_spec.
Print Assumptions C08_retain_is_filter.
Print Assumptions C08_dedup_is_std.
Print Assumptions C08_drain_spec.
Print Assumptions C08_extract_if_spec.
Print Assumptions C08_split_off_panics_iff.
Print Assumptions C08_splice_spec.
Print Assumptions C08_into_iter_leaves_nothing.
Print Assumptions C08_capacity_invariant_step.
Print Assumptions C08_capacity_invariant_reachable.
Print Assumptions C08_reserve_keeps_its_promise.
Print Assumptions C08_with_capacity_spec.
Print Assumptions C08_no_reallocation_while_room.
Print Assumptions C08_promise_window.
Print Assumptions C08_growing_push_doubles.
Print Assumptions C08_reserve_exact_is_exact.
Print Assumptions C08_fixed_never_reallocates.
Print Assumptions C08_fixed_push_fails_iff_full.
Print Assumptions C08_shrink_to_bounds.
Print Assumptions C08_zst_vector_never_overflows.
Print Assumptions C08_min_non_zero_cap_is_the_code.
Print Assumptions C08_extend_is_std.
Print Assumptions C08_resize_with_is_std.
Print Assumptions C08_resize_is_std.
Print Assumptions C08_dedup_by_key_is_std.
Print Assumptions C08_bump_vec_growth_target_is_the_models.
Print Assumptions C08_mut_bump_vec_growth_target_is_the_models.
Print Assumptions C08_growth_conditions_are_the_models.
Print Assumptions C08_reserve_of_the_source_is_the_models.
Print Assumptions C08_mut_reserve_of_the_source_is_the_models.
Print Assumptions C08_source_split_off_windows_head_short.
Print Assumptions C08_source_split_off_windows_tail_long.
Print Assumptions C08_repair_in_place_defect8.
