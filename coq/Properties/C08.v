(* C08 — Vector types behave like std Vec on every operation sequence.
   The modelled operations compute the std list functions and panic exactly on the out-of-range
   arguments.  PARTIAL: capacity clauses (capacity >= len and >= promise, no reallocation within
   the promise, fixed vectors never reallocate, unlimited ZST capacity) and the operations not
   modelled (splice, map, into_flattened, shrink*, into_* conversions) are checked on the
   implementation against std::vec::Vec in lock-step only. *)
From Coq Require Import List Arith.
From BS Require Import Colls CollsProofs.
Import ListNotations.

Theorem C08_truncate_spec : forall dp l n, final (op_truncate dp l n) = firstn n l.
Proof. exact truncate_spec. Qed.

Theorem C08_remove_spec : forall l i x, nth_error l i = Some x ->
  op_remove l i = mkOutcome (firstn i l ++ skipn (S i) l) [x] [] false 0.
Proof. exact remove_spec. Qed.

Theorem C08_remove_panics_iff : forall l i, unwound (op_remove l i) = true <-> length l <= i.
Proof. exact remove_panics_iff. Qed.

Theorem C08_insert_spec : forall l i x, i <= length l ->
  op_insert l i x = mkOutcome (firstn i l ++ x :: skipn i l) [] [] false 0.
Proof. exact insert_spec. Qed.

Theorem C08_retain_is_filter :
  forall (g : nat -> nat -> bool) dp l, (forall x, dp x = false) ->
  final (op_retain (fun k x => Ret (g k x)) dp l) = filter_k g 0 l /\
  unwound (op_retain (fun k x => Ret (g k x)) dp l) = false.
Proof. exact retain_is_filter. Qed.

Theorem C08_dedup_is_std :
  forall (g : nat -> nat -> nat -> bool) dp x r, (forall y, dp y = false) ->
  final (op_dedup_by (fun k a p => Ret (g k a p)) dp (x :: r)) = x :: dedup_ref g 0 x r.
Proof. exact dedup_is_std. Qed.

Theorem C08_drain_spec : forall dp l a b, a <= b <= length l ->
  final (op_drain dp l a b (b - a) 0 DrainDrop) = firstn a l ++ skipn b l /\
  yielded (op_drain dp l a b (b - a) 0 DrainDrop) = firstn (b - a) (skipn a l).
Proof. exact drain_spec. Qed.

Theorem C08_extract_if_spec :
  forall (g : nat -> nat -> bool) rest k want kept ys, length rest < want ->
  extract_go (fun k x => Ret (g k x)) k want kept rest ys =
  mkOutcome (kept ++ filter_k (fun k x => negb (g k x)) k rest) (ys ++ filter_k g k rest) [] false (k + length rest).
Proof. exact extract_go_spec. Qed.

Theorem C08_split_off_panics_iff : forall l a b,
  unwound (op_split_off l a b) = true <-> (b < a \/ length l < b).
Proof. exact split_off_panics_iff. Qed.

Theorem C08_splice_spec : forall dp l a b repl take, a <= b <= length l ->
  final (op_splice dp l a b repl take) = firstn a l ++ repl ++ skipn b l.
Proof. exact splice_spec. Qed.
Theorem C08_into_iter_leaves_nothing : forall dp l kf kb, final (op_into_iter dp l kf kb) = [].
Proof. exact into_iter_leaves_nothing. Qed.

Print Assumptions C08_truncate_spec.
Print Assumptions C08_remove_spec.
Print Assumptions C08_remove_panics_iff.
Print Assumptions C08_insert_spec.
Print Assumptions C08_retain_is_filter.
Print Assumptions C08_dedup_is_std.
Print Assumptions C08_drain_spec.
Print Assumptions C08_extract_if_spec.
Print Assumptions C08_split_off_panics_iff.
Print Assumptions C08_splice_spec.
Print Assumptions C08_into_iter_leaves_nothing.
