(* C13 — Reclaiming the newest allocation works; opt-out settings are honoured.
   All clauses are stated over the arena model: same address after reclaiming, in-place growth of
   the newest block (upwards), opt-outs, non-last blocks untouched, invariant kept. *)
From Coq Require Import ZArith List Bool.
From BS Require Import Word BumpSpec ChunkSpec Arena ArenaInv ArenaStats ArenaMisc ArenaMem ArenaMem2 ArenaExt ArenaInv2 ArenaAlloc LibRefine AllocRefine.
From BS.gen Require AllocSites.
From BS.gen Require LibArith.
Import ListNotations.
Open Scope Z_scope.

Theorem C13_dealloc_then_alloc_same_address_up :
  forall c m ch p size align,
  cfg_ok c -> up c = true -> chunk_ok c ch -> valid_min_align m -> valid_layout size align ->
  (m | p) -> (align | p) -> (m | size) -> content_start c ch <= p -> p + size = cpos ch ->
  chunk_alloc c m (set_pos ch (align_posZ true m p)) size align = Some (p, ch).
Proof. exact dealloc_then_alloc_same_address_up. Qed.

Theorem C13_dealloc_optout_keeps_stats :
  forall c s h ws b r,
  (has_wrapper WDealloc ws = true \/ deallocates c = false) ->
  let s' := fst (step c s (ODealloc h ws b) r) in
  chunks s' = chunks s /\ cur s' = cur s /\ arena_stats c s' = arena_stats c s.
Proof. exact dealloc_optout_keeps_stats. Qed.

Theorem C13_nonlast_dealloc_keeps_everything :
  forall c s h ws b blk r,
  find_block (tick s) b = Some blk ->
  is_last c (remove_block (tick s) b) (bptr blk) (bsize blk) = false ->
  let s' := fst (step c s (ODealloc h ws b) r) in
  chunks s' = chunks s /\ cur s' = cur s /\ forall a, mem s' a = mem s a.
Proof. exact nonlast_dealloc_keeps_everything. Qed.

Theorem C13_without_shrink_fit_keeps_state :
  forall c s p osz oal nsz nal r,
  divides nal p = true -> fst (ws_shrink c s p osz oal nsz nal r) = s.
Proof. exact without_shrink_fit_keeps_state. Qed.

Theorem C13_no_shrink_setting_fit_keeps_state :
  forall c s p osz oal nsz nal r,
  shrinks c = false -> divides nal p = true -> fst (raw_shrink c s p osz oal nsz nal r) = s.
Proof. exact no_shrink_setting_fit_keeps_state. Qed.

(* a reclaiming deallocate keeps the invariant: no other block is disturbed *)
Theorem C13_dealloc_keeps_invariant :
  forall c s0 h ws b r, cfg_ok c -> inv c s0 -> inv c (fst (step c s0 (ODealloc h ws b) r)).
Proof. exact step_inv_dealloc. Qed.

(* growing the newest allocation in an upward arena with enough room returns the same address,
   without copying and without asking the base allocator *)
Theorem C13_grow_newest_in_place_up :
  forall c s0 h ws b nsize nalign zeroed r blk ch,
  up c = true -> find_block (tick s0) b = Some blk -> is_top (tick s0) h = true ->
  is_last c (tick s0) (bptr blk) (bsize blk) = true -> divides nalign (bptr blk) = true ->
  cur_chunk (tick s0) = Some ch -> nsize <= content_end c ch - bptr blk ->
  exists id, o_res (snd (step c s0 (OGrow h ws b nsize nalign zeroed) r)) = RBlock id (bptr blk) nsize /\
             o_events (snd (step c s0 (OGrow h ws b nsize nalign zeroed) r)) = [].
Proof. exact grow_newest_in_place_up_step. Qed.

(* reclaiming the newest block re-aligns the position with `align_pos` of the CURRENT src/lib.rs
   (regenerated on every run): it computes the model's Arena.align_posZ *)
Theorem C13_realign_is_the_code :
  forall upb m pos,
  valid_min_align m -> 0 <= pos -> pos + m - 1 < W ->
  LibArith.align_pos upb m pos = Ok (align_posZ upb m pos).
Proof. exact align_pos_refines. Qed.

(* "the allocated byte count decreases only through reclaiming the most recent allocation, leaving a
   scope, or a reset": every other operation — allocate, grow in place or by moving, fill,
   checkpoint, statistics, reserve, entering and leaving an aligned region, prepare / write /
   commit of a prepared slice, claim and unclaim — leaves it at least as large, from every state that satisfies the
   invariant, whatever the base allocator answers *)
Theorem C13_growing_step_never_decreases_allocated :
  forall c s0 o r i,
  cfg_ok c -> inv c s0 -> cur s0 = Cur i -> growing o -> op_ok2 c s0 o -> op_resp_ok2 c s0 o r ->
  alloc_bytes c s0 <= alloc_bytes c (fst (step c s0 o r)).
Proof. exact growing_step_never_decreases_allocated. Qed.

Theorem C13_raw_alloc_never_decreases :
  forall c s i size align r s' res,
  cfg_ok c -> ginv c s -> valid_layout size align -> resp_ok c s size align r -> cur s = Cur i ->
  raw_alloc c s size align r = (s', res) -> alloc_bytes c s <= alloc_bytes c s'.
Proof. exact raw_alloc_never_decreases. Qed.

(* "with SHRINKS=false / WithoutShrink a shrink never decreases it": through the wrapper or with the
   setting off, a shrink leaves the arena alone or allocates a new block and copies *)
Theorem C13_optout_shrink_never_decreases_allocated :
  forall c s0 o r i,
  cfg_ok c -> inv c s0 -> cur s0 = Cur i -> shrink_opted_out c o -> op_ok2 c s0 o -> op_resp_ok2 c s0 o r ->
  alloc_bytes c s0 <= alloc_bytes c (fst (step c s0 o r)).
Proof. exact optout_shrink_never_decreases_allocated. Qed.

(* "shrinking any other block reclaims nothing": not the newest block, alignment already satisfied *)
Theorem C13_nonlast_fit_shrink_keeps_state :
  forall c s ptr osize oalign nsize nalign r,
  divides nalign ptr = true -> is_last c s ptr osize = false ->
  raw_shrink c s ptr osize oalign nsize nalign r = (s, inl (mkRO ptr osize false)).
Proof. exact nonlast_fit_shrink_keeps_state. Qed.

(* the position arithmetic of the CURRENT allocator_impl.rs / set_pos_addr_and_align (cut out by tools/allocsites.py, translated into gen/AllocSites.v on every run) is the arena model's (AllocRefine.v) *)
Theorem C13_source_is_last_is_the_models :
  forall ptr size pos, 0 <= ptr -> 0 <= size -> ptr + size < W ->
  AllocSites.is_last_up ptr size pos = Ok (ptr + size =? pos) /\
  AllocSites.is_last_down ptr pos = Ok (ptr =? pos).
Proof. exact is_last_refines. Qed.

Theorem C13_source_dealloc_position_is_the_models :
  forall upb m ptr size, valid_min_align m -> 0 <= ptr -> 0 <= size -> ptr + size + m - 1 < W ->
  (AllocSites.dealloc_up_target ptr = Ok ptr /\ AllocSites.dealloc_down_target ptr size = Ok (ptr + size)) /\
  AllocSites.set_pos_and_align_addr upb m (if upb then ptr else ptr + size)
  = Ok (align_posZ upb m (if upb then ptr else ptr + size)).
Proof. exact dealloc_target_refines. Qed.

Theorem C13_source_shrink_up_is_the_models :
  forall ptr nsize m, valid_min_align m -> 0 <= ptr -> 0 <= nsize -> ptr + nsize + m - 1 < W ->
  AllocSites.shrink_up_end ptr nsize = Ok (ptr + nsize) /\
  AllocSites.shrink_up_new_pos (ptr + nsize) m = Ok (up_alignZ (ptr + nsize) m).
Proof. exact shrink_up_refines. Qed.

Theorem C13_source_shrink_down_is_the_models :
  forall ptr osize nsize nalign m,
  valid_min_align m -> pow2 nalign -> nalign < W -> 0 <= ptr -> 0 <= nsize <= osize -> ptr + osize < W ->
  let new_addr := down_alignZ (Z.max (ptr + osize - nsize) 0) (Z.max nalign m) in
  AllocSites.shrink_down_old_end ptr osize = Ok (ptr + osize) /\
  AllocSites.shrink_down_new_addr (ptr + osize) nsize nalign m = Ok new_addr /\
  AllocSites.shrink_down_copy_src_end ptr nsize = Ok (ptr + nsize) /\
  AllocSites.shrink_down_overlaps (ptr + nsize) new_addr = Ok (new_addr <? ptr + nsize).
Proof. exact shrink_down_refines. Qed.

Theorem C13_source_align_fits_is_the_models :
  forall ptr a, pow2 a -> 0 <= ptr -> AllocSites.is_aligned_to ptr a = Ok (divides a ptr).
Proof. exact is_aligned_to_refines. Qed.

(* the typed twin of shrink - BumpScope's shrink_slice, "adapted from Allocator::shrink" - computes, for old_len / new_len
   elements of size es and alignment ea, exactly the terms of the Allocator path (sizes len * es, alignment ea): the
   typed fast path and the generic layout path agree and reclaim the same bytes (cut out of
   traits/bump_allocator_typed.rs and translated on every run) *)
Theorem C13_source_typed_shrink_is_the_models :
  forall ptr old_len new_len es ea m pos,
  valid_min_align m -> pow2 ea -> ea < W -> 0 <= ptr -> 0 <= es -> 0 <= new_len <= old_len ->
  ptr + old_len * es + m - 1 < W -> old_len * es < W ->
  let osize := old_len * es in let nsize := new_len * es in
  let new_addr := down_alignZ (Z.max (ptr + osize - nsize) 0) (Z.max ea m) in
  AllocSites.typed_shrink_old_size old_len es = Ok osize /\
  AllocSites.typed_shrink_new_size new_len es = Ok nsize /\
  AllocSites.typed_is_last_up ptr osize pos = Ok (ptr + osize =? pos) /\
  AllocSites.typed_is_last_down ptr pos = Ok (ptr =? pos) /\
  AllocSites.typed_shrink_up_end ptr nsize = Ok (ptr + nsize) /\
  AllocSites.typed_shrink_up_new_pos (ptr + nsize) m = Ok (up_alignZ (ptr + nsize) m) /\
  AllocSites.typed_shrink_down_old_end ptr osize = Ok (ptr + osize) /\
  AllocSites.typed_shrink_down_new_addr (ptr + osize) nsize ea m = Ok new_addr /\
  AllocSites.typed_shrink_down_new_end ptr nsize = Ok (ptr + nsize) /\
  AllocSites.typed_shrink_down_overlaps (ptr + nsize) new_addr = Ok (new_addr <? ptr + nsize).
Proof. exact typed_shrink_refines. Qed.

Print Assumptions C13_dealloc_then_alloc_same_address_up.
Print Assumptions C13_grow_newest_in_place_up.
Print Assumptions C13_dealloc_optout_keeps_stats.
Print Assumptions C13_nonlast_dealloc_keeps_everything.
Print Assumptions C13_without_shrink_fit_keeps_state.
Print Assumptions C13_no_shrink_setting_fit_keeps_state.
Print Assumptions C13_dealloc_keeps_invariant.
Print Assumptions C13_realign_is_the_code.
Print Assumptions C13_growing_step_never_decreases_allocated.
Print Assumptions C13_raw_alloc_never_decreases.
Print Assumptions C13_optout_shrink_never_decreases_allocated.
Print Assumptions C13_nonlast_fit_shrink_keeps_state.
Print Assumptions C13_source_is_last_is_the_models.
Print Assumptions C13_source_dealloc_position_is_the_models.
Print Assumptions C13_source_shrink_up_is_the_models.
Print Assumptions C13_source_shrink_down_is_the_models.
Print Assumptions C13_source_align_fits_is_the_models.
Print Assumptions C13_source_typed_shrink_is_the_models.
