(* C06 — Every value stored in the arena is dropped exactly once.
   For EVERY callback oracle (a panic at any invocation) and any panicking Drop, each element is
   afterwards in exactly one place: still owned by the collection, handed to the caller / a new
   owner, or dropped by the operation.  PARTIAL: the modelled algorithms are truncate, clear, pop,
   remove, swap_remove, insert, push, retain (PanicGuard), dedup_by (FillGapOnDrop), drain
   (consumed from both ends; dropped / keep_rest / leaked), extract_if (early drop), split_off,
   extend-with-clones, into_iter (consumed from both ends, then dropped), splice (partially consumed,
   then dropped), map_in_place (closure panicking at any call), append, and the growth by a
   producer that may panic at any call (extend_from_slice_clone / extend_from_within_clone,
   extend from an iterator, resize_with, resize), the consuming map and dedup_by_key; extend with
   lying size hints, partition, the allocation helpers and collections of zero-sized
   elements are covered by implementation-side birth / drop counters; the two zero-sized branches
   that were defective (Drain::drop, alloc_slice_fill) are modelled in both versions. *)
From Coq Require Import List Permutation.
From BS Require Import Colls CollsProofs Parts PartsProofs.
From BS.gen Require FixFacts.
Import ListNotations.

Theorem C06_conserved_implies_exactly_once :
  forall o input, conserved o input -> NoDup input -> NoDup (final o ++ yielded o ++ dropped o).
Proof. exact conserved_nodup. Qed.

Theorem C06_truncate : forall dp l n, conserved (op_truncate dp l n) l.
Proof. exact truncate_conserved. Qed.
Theorem C06_pop : forall l, conserved (op_pop l) l.
Proof. exact pop_conserved. Qed.
Theorem C06_remove : forall l i, conserved (op_remove l i) l.
Proof. exact remove_conserved. Qed.
Theorem C06_swap_remove : forall l i, conserved (op_swap_remove l i) l.
Proof. exact swap_remove_conserved. Qed.
Theorem C06_insert : forall l i x, conserved (op_insert l i x) (l ++ [x]).
Proof. exact insert_conserved. Qed.
Theorem C06_retain : forall f dp l, conserved (op_retain f dp l) l.
Proof. exact retain_conserved. Qed.
Theorem C06_dedup_by : forall f dp l, conserved (op_dedup_by f dp l) l.
Proof. exact dedup_conserved. Qed.
Theorem C06_extract_if : forall f l want, conserved (op_extract_if f l want) l.
Proof. exact extract_if_conserved. Qed.
Theorem C06_drain : forall dp l a b kf kb e, e <> DrainForget -> conserved (op_drain dp l a b kf kb e) l.
Proof. exact drain_conserved. Qed.
Theorem C06_drain_leaked_never_twice :
  forall dp l a b kf kb, NoDup l ->
  let o := op_drain dp l a b kf kb DrainForget in
  NoDup (final o ++ yielded o ++ dropped o) /\ incl (final o ++ yielded o ++ dropped o) l.
Proof. exact drain_forget_no_double. Qed.
Theorem C06_split_off : forall l a b, conserved (op_split_off l a b) l.
Proof. exact split_off_conserved. Qed.
Theorem C06_into_iter : forall dp l kf kb, conserved (op_into_iter dp l kf kb) l.
Proof. exact into_iter_conserved. Qed.
Theorem C06_splice : forall dp l a b repl take, conserved (op_splice dp l a b repl take) (l ++ repl).
Proof. exact splice_conserved. Qed.
Theorem C06_map_in_place : forall l k, conserved (op_map_in_place l k) l.
Proof. exact map_in_place_conserved. Qed.
Theorem C06_append : forall l other, conserved (op_append l other) (l ++ other).
Proof. exact append_conserved. Qed.

Theorem C06_mirrored : forall o input, conserved o input -> conserved (mirror o) input.
Proof. exact mirror_conserved. Qed.

(* zero-sized element types take branches of their own in two places; both were genuine defects of
   the pinned commit (repaired in /repo).  The model has both versions: the repaired one conserves,
   the pinned one is refuted by a computed witness. *)
Theorem C06_zst_drain_conserved : forall dp l a b kf kb, conserved (op_drain_zst true dp l a b kf kb) l.
Proof. exact drain_zst_conserved. Qed.

Theorem C06_zst_drain_pinned_refuted :
  exists l a b kf kb, ~ conserved (op_drain_zst false (fun _ => false) l a b kf kb) l /\
                      dropped (op_drain_zst false (fun _ => false) l a b kf kb) = [0; 1; 0; 1].
Proof. exact drain_zst_pinned_refuted. Qed.

Theorem C06_zst_fill_conserved : forall cl ids v,
  exists done, Permutation (final (op_fill_zst true cl ids v) ++ yielded (op_fill_zst true cl ids v) ++ dropped (op_fill_zst true cl ids v)) (done ++ [v]) /\
               exists rest, ids = done ++ rest /\ (unwound (op_fill_zst true cl ids v) = false -> rest = []).
Proof. exact fill_zst_conserved. Qed.

Theorem C06_zst_fill_pinned_refuted :
  exists cl ids v, unwound (op_fill_zst false cl ids v) = true /\
    final (op_fill_zst false cl ids v) ++ yielded (op_fill_zst false cl ids v) ++ dropped (op_fill_zst false cl ids v) = [v] /\
    dropped (op_fill_zst true cl ids v) = [0; 1; v].
Proof. exact fill_zst_pinned_refuted. Qed.

(* growth by a producer (extend_from_slice_clone / extend_from_within_clone, extend / from_iter,
   resize_with, resize) and the consuming map: the k-th production or closure call may panic; the
   vector then holds its old elements and exactly the productions that completed, nothing else
   came into existence and nothing was dropped twice or lost *)
Theorem C06_extend_clones : forall cl l ids,
  exists made rest, ids = made ++ rest /\ conserved (op_extend_clones cl l ids) (l ++ made) /\
    final (op_extend_clones cl l ids) = l ++ made /\
    (unwound (op_extend_clones cl l ids) = false -> rest = []).
Proof. exact extend_clones_conserved. Qed.
Theorem C06_extend_iter : forall nx l ids,
  exists made rest, ids = made ++ rest /\ conserved (op_extend_iter nx l ids) (l ++ made) /\
    final (op_extend_iter nx l ids) = l ++ made /\
    (unwound (op_extend_iter nx l ids) = false -> rest = []).
Proof. exact extend_iter_conserved. Qed.
Theorem C06_resize_with : forall f dp l new_len ids,
  exists made rest, firstn (new_len - length l) ids = made ++ rest /\
    conserved (op_resize_with f dp l new_len ids) (l ++ made) /\
    (unwound (op_resize_with f dp l new_len ids) = false -> rest = []).
Proof. exact resize_with_conserved. Qed.
Theorem C06_resize : forall cl dp l new_len ids v,
  exists made rest, firstn (new_len - length l - 1) ids = made ++ rest /\
    conserved (op_resize cl dp l new_len ids v) (l ++ made ++ [v]) /\
    (unwound (op_resize cl dp l new_len ids v) = false -> length l < new_len -> rest = []).
Proof. exact resize_conserved. Qed.
Theorem C06_map : forall l k, conserved (op_map l k) l.
Proof. exact map_conserved. Qed.
Theorem C06_map_all_or_nothing : forall l k,
  (unwound (op_map l k) = false -> final (op_map l k) = l /\ dropped (op_map l k) = []) /\
  (unwound (op_map l k) = true -> final (op_map l k) = [] /\ dropped (op_map l k) = l).
Proof. exact map_keeps_all_or_nothing. Qed.
Theorem C06_dedup_by_key : forall key dp l, conserved (op_dedup_by_key key dp l) l.
Proof. exact dedup_by_key_conserved. Qed.

(* partition (partition_in_place: the find / rfind / swap loop of the code, then split_at): never panics and hands
   every element to exactly one of the two parts - nothing lost, nothing duplicated, whatever the predicate answers *)
Theorem C06_partition_conserves :
  forall (A : Type) (p : A -> bool) (l : list A),
  let r := op_partition p l in
  pr_panic r = false /\ Permutation l (pr_first r ++ pr_second r).
Proof.
  intros A p l. pose proof (op_partition_spec p l) as H. cbv zeta in H |- *.
  destruct H as (H1 & H2 & _). split; assumption.
Qed.

(* the repair of a genuine defect recorded in known_findings.json is still in place in the CURRENT source (tools/fixsites.py ->
   gen/FixFacts.v, read out on every run): a `fixed:` entry suppresses nothing, and its syntactic return breaks this obligation *)
Theorem C06_repair_in_place_defect5 : FixFacts.defect5_zst_slice_fill_goes_through_the_initializer = true.
Proof. vm_compute. reflexivity. Qed.

Theorem C06_repair_in_place_defect6 : FixFacts.defect6_zst_drain_drop_forgets_the_taken_iterator = true.
Proof. vm_compute. reflexivity. Qed.

Print Assumptions C06_conserved_implies_exactly_once.
Print Assumptions C06_truncate.
Print Assumptions C06_pop.
Print Assumptions C06_remove.
Print Assumptions C06_swap_remove.
Print Assumptions C06_insert.
Print Assumptions C06_retain.
Print Assumptions C06_dedup_by.
Print Assumptions C06_extract_if.
Print Assumptions C06_drain.
Print Assumptions C06_drain_leaked_never_twice.
Print Assumptions C06_split_off.
Print Assumptions C06_mirrored.
Print Assumptions C06_into_iter.
Print Assumptions C06_splice.
Print Assumptions C06_map_in_place.
Print Assumptions C06_append.
Print Assumptions C06_zst_drain_conserved.
Print Assumptions C06_zst_drain_pinned_refuted.
Print Assumptions C06_zst_fill_conserved.
Print Assumptions C06_zst_fill_pinned_refuted.
Print Assumptions C06_extend_clones.
Print Assumptions C06_extend_iter.
Print Assumptions C06_resize_with.
Print Assumptions C06_resize.
Print Assumptions C06_map.
Print Assumptions C06_map_all_or_nothing.
Print Assumptions C06_dedup_by_key.
Print Assumptions C06_partition_conserves.
Print Assumptions C06_repair_in_place_defect5.
Print Assumptions C06_repair_in_place_defect6.
