(* C17 — All allocation entry points are interchangeable.
   PARTIAL: hint independence (typed fast paths vs generic layout path) is a corollary of the
   C11 refinement over the regenerated code, and the trait-object commit equals the typed one;
   try_ vs panicking twins and the forwarding layers (forward_methods!, the impls of the allocator
   traits for references, trait objects, WithoutDealloc, WithoutShrink) are checked statically:
   tools/c17.py regenerates, from the current source, the table of all X / try_X pairs (bodies as
   normalised token lists) and of all functions of the forwarding containers; TwinSpec.v states
   the rules (twins equal up to what the error behaviour may introduce; a forward calls the
   function of its own name with its own parameters in order), and the two theorems below decide
   them for the regenerated tables.  The correspondence runs execute the same histories through
   these entry points against one model function. *)
From Coq Require Import ZArith List.
From BS Require Import Word BumpSpec BumpRefine ChunkSpec Arena ArenaInv ArenaExt AllocRefine.
From BS.gen Require AllocSites.
From BS.gen Require Bumping Twins.
From BS Require Import TwinSpec.
From Coq Require Import String.
Import ListNotations.
Open Scope Z_scope.

Theorem C17_hints_do_not_matter_up :
  forall start end_ m size align ac sc mu ac' sc' mu',
  valid_min_align m -> valid_layout size align -> valid_up start end_ m ->
  (mu = true -> (align | size)) -> (mu' = true -> (align | size)) ->
  Bumping.bump_up (Bumping.mkBumpProps start end_ m (mkLayout size align) ac sc mu) =
  Bumping.bump_up (Bumping.mkBumpProps start end_ m (mkLayout size align) ac' sc' mu').
Proof. exact hints_do_not_matter_up. Qed.

Theorem C17_hints_do_not_matter_down :
  forall start end_ m size align ac sc mu ac' sc' mu',
  valid_min_align m -> valid_layout size align -> valid_down start end_ m ->
  (mu = true -> (align | size)) -> (mu' = true -> (align | size)) ->
  Bumping.bump_down (Bumping.mkBumpProps start end_ m (mkLayout size align) ac sc mu) =
  Bumping.bump_down (Bumping.mkBumpProps start end_ m (mkLayout size align) ac' sc' mu').
Proof. exact hints_do_not_matter_down. Qed.

Theorem C17_dyn_commit_equals_typed :
  forall c s h es ea ptr len cap rev r,
  valid_min_align (malign s) -> pow2 ea -> (ea | ptr) -> (ea | es) ->
  step c s (OCommit h es ea ptr len cap rev true) r = step c s (OCommit h es ea ptr len cap rev false) r.
Proof. exact dyn_commit_equals_typed. Qed.

Theorem C17_dyn_commit_position_equals_typed :
  forall c m ea x, valid_min_align m -> pow2 ea -> (ea | x) ->
  commit_pos c m ea true x = commit_pos c m ea false x.
Proof. exact commit_pos_dyn_eq. Qed.

(* every X / try_X pair of the CURRENT source has the same body up to the error behaviour *)
Theorem C17_twins_table_ok : Twins_ok Twins.twins = true.
Proof. vm_compute. reflexivity. Qed.

(* every function of a forwarding container of the CURRENT source forwards to the function of its
   own name with its own parameters in their order (or is one of the listed exceptions) *)
Theorem C17_forwarding_table_ok : Forwards_ok Twins.forwards = true.
Proof. vm_compute. reflexivity. Qed.

(* what a passing table means *)
Theorem C17_twins_ok_meaning :
  forall T, Twins_ok T = true ->
  forall r, In r T -> toks_eq T (tw_plain r) (tw_try r) = true /\ tw_pp r = tw_pt r.
Proof. exact Twins_ok_spec. Qed.

Theorem C17_forwards_ok_meaning :
  forall F, Forwards_ok F = true ->
  forall f path callee args wrapped, In f F -> fw_kind f = Forward path callee args wrapped ->
  (callee = fw_name f \/ (path = "for_trait_object::"%string /\ callee = strip_try (fw_name f))) /\
  (wrapped = true -> path = "for_trait_object::"%string) /\
  ((exists ps r as_, fw_params f = "self"%string :: ps /\ args = r :: as_ /\ In r receivers /\ as_ = ps) \/ args = fw_params f).
Proof. exact Forwards_ok_spec. Qed.

(* the tables are not empty *)
Theorem C17_tables_are_populated :
  (200 <= List.length Twins.twins)%nat /\ (150 <= List.length Twins.forwards)%nat.
Proof. vm_compute. split; repeat constructor. Qed.

(* the typed twin of shrink - BumpScope's shrink_slice, "adapted from Allocator::shrink" - computes, for old_len / new_len
   elements of size es and alignment ea, exactly the terms of the Allocator path (sizes len * es, alignment ea): the
   typed fast path and the generic layout path agree and reclaim the same bytes (cut out of
   traits/bump_allocator_typed.rs and translated on every run) *)
Theorem C17_source_typed_shrink_is_the_models :
  forall ptr old_len new_len es ea m pos,
  valid_min_align m -> pow2 ea -> ea < W -> 0 <= ptr -> 0 <= es -> 0 <= new_len <= old_len ->
  ptr + old_len * es + m - 1 < W -> old_len * es < W ->
  let osize := old_len * es in let nsize := new_len * es in
  let new_addr := down_alignZ (Z.max (ptr + osize - nsize) 0) (Z.max ea m) in
  AllocSites.typed_shrink_old_size old_len es = Ok osize /\
  AllocSites.typed_shrink_new_size new_len es = Ok nsize /\
  AllocSites.typed_is_last_up ptr osize pos = Ok (ptr + osize =? pos) /\
  AllocSites.typed_is_last_down ptr pos = Ok (ptr =? pos) /\
  AllocSites.typed_shrink_up_end ptr nsize = Ok (ptr + nsize) /\
  AllocSites.typed_shrink_up_new_pos (ptr + nsize) m = Ok (up_alignZ (ptr + nsize) m) /\
  AllocSites.typed_shrink_down_old_end ptr osize = Ok (ptr + osize) /\
  AllocSites.typed_shrink_down_new_addr (ptr + osize) nsize ea m = Ok new_addr /\
  AllocSites.typed_shrink_down_new_end ptr nsize = Ok (ptr + nsize) /\
  AllocSites.typed_shrink_down_overlaps (ptr + nsize) new_addr = Ok (new_addr <? ptr + nsize).
Proof. exact typed_shrink_refines. Qed.

Print Assumptions C17_hints_do_not_matter_up.
Print Assumptions C17_hints_do_not_matter_down.
Print Assumptions C17_dyn_commit_equals_typed.
Print Assumptions C17_dyn_commit_position_equals_typed.
Print Assumptions C17_twins_table_ok.
Print Assumptions C17_forwarding_table_ok.
Print Assumptions C17_twins_ok_meaning.
Print Assumptions C17_forwards_ok_meaning.
Print Assumptions C17_tables_are_populated.
Print Assumptions C17_source_typed_shrink_is_the_models.
