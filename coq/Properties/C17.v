(* C17 — All allocation entry points are interchangeable.
   PARTIAL: hint independence (typed fast paths vs generic layout path) is a corollary of the
   C11 refinement over the regenerated code, and the trait-object commit equals the typed one;
   try_ vs panicking twins and Bump vs BumpScope vs references share one generic function in the
   source (ErrorBehavior / forward_methods!) and are tied by the correspondence runs, which
   execute the same histories through all of these entry points against one model function. *)
From Coq Require Import ZArith List.
From BS Require Import Word BumpSpec BumpRefine ChunkSpec Arena ArenaInv ArenaExt.
From BS.gen Require Bumping.
Import ListNotations.
Open Scope Z_scope.

Theorem C17_hints_do_not_matter_up :
  forall start end_ m size align ac sc mu ac' sc' mu',
  valid_min_align m -> valid_layout size align -> valid_up start end_ m ->
  (mu = true -> (align | size)) -> (mu' = true -> (align | size)) ->
  Bumping.bump_up (Bumping.mkBumpProps start end_ m (mkLayout size align) ac sc mu) =
  Bumping.bump_up (Bumping.mkBumpProps start end_ m (mkLayout size align) ac' sc' mu').
Proof. exact hints_do_not_matter_up. Qed.

Theorem C17_hints_do_not_matter_down :
  forall start end_ m size align ac sc mu ac' sc' mu',
  valid_min_align m -> valid_layout size align -> valid_down start end_ m ->
  (mu = true -> (align | size)) -> (mu' = true -> (align | size)) ->
  Bumping.bump_down (Bumping.mkBumpProps start end_ m (mkLayout size align) ac sc mu) =
  Bumping.bump_down (Bumping.mkBumpProps start end_ m (mkLayout size align) ac' sc' mu').
Proof. exact hints_do_not_matter_down. Qed.

Theorem C17_dyn_commit_equals_typed :
  forall c s h es ea ptr len cap rev r,
  valid_min_align (malign s) -> pow2 ea -> (ea | ptr) -> (ea | es) ->
  step c s (OCommit h es ea ptr len cap rev true) r = step c s (OCommit h es ea ptr len cap rev false) r.
Proof. exact dyn_commit_equals_typed. Qed.

Theorem C17_dyn_commit_position_equals_typed :
  forall c m ea x, valid_min_align m -> pow2 ea -> (ea | x) ->
  commit_pos c m ea true x = commit_pos c m ea false x.
Proof. exact commit_pos_dyn_eq. Qed.

Print Assumptions C17_hints_do_not_matter_up.
Print Assumptions C17_hints_do_not_matter_down.
Print Assumptions C17_dyn_commit_equals_typed.
Print Assumptions C17_dyn_commit_position_equals_typed.
