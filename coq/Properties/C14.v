(* C14 — A claimed allocator is inert until the claim ends, then resumes. *)
From Coq Require Import ZArith List.
From BS Require Import Word BumpSpec ChunkSpec Arena ArenaInv ArenaExt.
From BS.gen Require ClaimFacts.
Import ListNotations.
Open Scope Z_scope.

Theorem C14_claimed_requests_fail :
  forall c s h r, h <> depth s ->
  (forall ws size align z, step c s (OAlloc h ws size align z) r = (tick s, mkOut (RErr ErrClaimed) [] false)) /\
  (forall n, step c s (OReserve h n) r = (tick s, mkOut (RErr ErrClaimed) [] false)) /\
  (forall mu size align, step c s (OTryErr h mu size align) r = (tick s, mkOut (RErr ErrClaimed) [] false)) /\
  (forall es ea cap rev, step c s (OPrepare h es ea cap rev) r = (tick s, mkOut (RErr ErrClaimed) [] false)).
Proof. exact claimed_requests_fail. Qed.

Theorem C14_claimed_grow_fails :
  forall c s h ws b blk nsize nalign z r,
  h <> depth s -> find_block (tick s) b = Some blk ->
  step c s (OGrow h ws b nsize nalign z) r = (tick s, mkOut (RErr ErrClaimed) [] false).
Proof. exact claimed_grow_fails. Qed.

Theorem C14_claimed_dealloc_noop :
  forall c s h ws b r, h <> depth s ->
  let s' := fst (step c s (ODealloc h ws b) r) in
  chunks s' = chunks s /\ cur s' = cur s /\ (forall a, mem s' a = mem s a) /\ depth s' = depth s.
Proof. exact claimed_dealloc_noop. Qed.

Theorem C14_claimed_stats_zero :
  forall c s h r, h <> depth s ->
  o_res (snd (step c s (OStats h) r)) = RStats (mkStats 0 0 0 0 0) true.
Proof. exact claimed_stats_zero. Qed.

Theorem C14_second_claim_panics :
  forall c s h r, h <> depth s -> step c s (OClaim h) r = (tick s, mkOut RPanic [] false).
Proof. exact second_claim_panics. Qed.

Theorem C14_claim_unclaim_only_move_the_handle :
  forall c s r,
  let s1 := fst (step c s (OClaim (depth s)) r) in
  let s2 := fst (step c s OUnclaim r) in
  (chunks s1 = chunks s /\ cur s1 = cur s /\ live s1 = live s /\ (forall a, mem s1 a = mem s a) /\ depth s1 = S (depth s)) /\
  (chunks s2 = chunks s /\ cur s2 = cur s /\ live s2 = live s /\ (forall a, mem s2 a = mem s a) /\ depth s2 = pred (depth s)).
Proof. exact claim_unclaim_only_move_the_handle. Qed.

(* whatever happens through the guard (nested scopes, chunk growth, nested claims) keeps the
   invariant: blocks allocated before the claim and through the guard stay live and intact *)
Theorem C14_invariant_through_claims :
  forall c ops s, cfg_ok c -> inv c s -> run_ok c s ops -> inv c (run c s ops).
Proof. exact run_inv_partial. Qed.

(* "its deallocate and shrink do nothing": a shrink through a claimed handle leaves chunks, positions
   and memory alone; a block that already satisfies the new alignment comes back, anything else fails *)
Theorem C14_claimed_shrink_noop :
  forall c s h ws b nsize nalign r, h <> depth s ->
  let s' := fst (step c s (OShrink h ws b nsize nalign) r) in
  chunks s' = chunks s /\ cur s' = cur s /\ (forall a, mem s' a = mem s a) /\ depth s' = depth s /\
  forall blk, find_block (tick s) b = Some blk ->
    o_res (snd (step c s (OShrink h ws b nsize nalign) r)) =
      (if divides nalign (bptr blk)
       then RBlock (nextid (tick s)) (bptr blk) (if has_wrapper WShrink ws then nsize else bsize blk)
       else RErr ErrClaimed).
Proof. exact claimed_shrink_noop. Qed.

(* the shapes behind claiming in the CURRENT source, read out on every run (gen/ClaimFacts.v): claim swaps the CLAIMED dummy into
   the original handle whatever it held (a second claim panics first); reclaim writes the claimant's chunk pointer back
   unconditionally and the guard's drop calls it; a handle is claimed / unallocated exactly when its header pointer is
   one of the two dummies, and as_non_dummy is None for both; reserve refuses a claimed handle before anything else -
   the steps of the model's OClaim / OUnclaim and the ErrClaimed answers *)
Theorem C14_source_claim_shapes_are_the_models : ClaimFacts.claim_shapes_ok = true.
Proof. vm_compute. reflexivity. Qed.

Print Assumptions C14_claimed_requests_fail.
Print Assumptions C14_claimed_grow_fails.
Print Assumptions C14_claimed_dealloc_noop.
Print Assumptions C14_claimed_stats_zero.
Print Assumptions C14_second_claim_panics.
Print Assumptions C14_claim_unclaim_only_move_the_handle.
Print Assumptions C14_invariant_through_claims.
Print Assumptions C14_claimed_shrink_noop.
Print Assumptions C14_source_claim_shapes_are_the_models.
