(* C03 — Leaving a scope restores the allocator exactly; earlier data survives.
   Restoration of chunk, position and allocated count, "no release", survival of earlier data
   (via C01's invariant and C02's frame), `replay_needs_no_chunk` and the convergence of a reset()
   loop (`reset_loop_converges`, `loop_quiet_forever`) are proved over the model. *)
From Coq Require Import ZArith List.
From Coq Require Import Permutation List.
From BS Require Import Word BumpSpec ChunkSpec Arena ArenaInv ArenaStats ArenaMisc ArenaExt ArenaInv2 ArenaReplay ArenaSizes ArenaLoop ArenaLinks.
From BS.gen Require AlignFacts.
Import ListNotations.
Open Scope Z_scope.

Theorem C03_checkpoint_records_position :
  forall c s r,
  match o_res (snd (step c s (OCheckpoint (depth s)) r)) with
  | RCheckpoint cp => cp_state cp = cur s /\
                      (forall ch, cur_chunk s = Some ch -> cp_addr cp = cpos ch)
  | _ => False
  end.
Proof. exact checkpoint_records_position. Qed.

Theorem C03_reset_to_restores :
  forall c s h cp j ch r,
  cp_state cp = Cur j -> nth_error (chunks s) j = Some ch ->
  let s' := fst (step c s (OResetTo h cp) r) in
  cur s' = Cur j /\ nth_error (chunks s') j = Some (set_pos ch (cp_addr cp)) /\
  length (chunks s') = length (chunks s) /\
  (forall k, k <> j -> nth_error (chunks s') k = nth_error (chunks s) k) /\
  o_events (snd (step c s (OResetTo h cp) r)) = [].
Proof. exact reset_to_restores. Qed.

Theorem C03_allocated_restored :
  forall c s1 s2 j ch1 ch2,
  cur s1 = Cur j -> cur s2 = Cur j ->
  nth_error (chunks s1) j = Some ch1 -> nth_error (chunks s2) j = Some ch2 ->
  same_geom ch1 ch2 -> cpos ch1 = cpos ch2 ->
  Forall2 same_geom (firstn j (chunks s1)) (firstn j (chunks s2)) ->
  st_allocated (arena_stats c s1) = st_allocated (arena_stats c s2).
Proof. exact allocated_depends_on_prefix. Qed.

(* data allocated before the checkpoint survives: the state after reset_to satisfies the
   invariant with exactly the older blocks live *)
Theorem C03_reset_to_keeps_invariant :
  forall c s0 h cp r, cfg_ok c -> inv c s0 -> cp_valid c s0 cp ->
  inv c (fst (step c s0 (OResetTo h cp) r)).
Proof. exact step_inv_reset_to. Qed.

Theorem C03_reset_to_start_releases_none :
  forall c s r, o_events (snd (step c s OResetToStart r)) = [].
Proof. exact reset_to_start_releases_none. Qed.

(* the Err path of alloc_try_with(_mut): allocate (or prepare), then rewind to where the operation
   started; every earlier block is still live, valid, aligned and disjoint afterwards *)
Theorem C03_try_with_err_keeps_invariant :
  forall c s0 h mutable size align r,
  cfg_ok c -> inv c s0 -> valid_layout size align -> resp_ok c s0 size align r ->
  inv c (fst (step c s0 (OTryErr h mutable size align) r)).
Proof. exact step_inv_try_err. Qed.

(* leaving scoped_aligned with a LOWER alignment inside: alignment back + reset to the guard's
   checkpoint restore the invariant under the outer alignment *)
Theorem C03_scoped_aligned_exit_keeps_invariant :
  forall c s0 r r' h cp inner outer rest,
  cfg_ok c -> inv c s0 -> aligns s0 = inner :: outer :: rest -> valid_min_align outer ->
  cp_valid c (fst (step c s0 (OAlignPop false) r)) cp ->
  inv c (fst (step c (fst (step c s0 (OAlignPop false) r)) (OResetTo h cp) r')).
Proof. exact scoped_aligned_exit_inv. Qed.

(* repeating a workload of allocations after the rewind needs no new memory: the same addresses
   come back and the base allocator is not asked for anything (it refuses every request here) *)
Theorem C03_replay_needs_no_chunk :
  forall c s j ch w rs Afin outs,
  cur s = Cur j -> nth_error (chunks s) j = Some ch ->
  allocs c s w rs = (Afin, outs) -> Forall is_inl outs ->
  let B := do_reset_to c Afin (mkCp (Cur j) (cpos ch) (epoch s)) in
  exists Bfin, allocs c B w [] = (Bfin, outs) /\ ledger Bfin = ledger B.
Proof. exact replay_needs_no_chunk. Qed.

(* a fixed workload run in a `reset()` loop: however many rounds are run and whatever (legal) blocks
   the base allocator hands out, the number of rounds in which the arena obtains a chunk is bounded
   by a number that depends only on the workload and the chunk the loop started with *)
Theorem C03_reset_loop_converges :
  forall c w rss s ch,
  cfg_ok c -> Forall (fun l => valid_layout (fst l) (snd l)) w -> loop_state c s ch ->
  rounds_ok c w s rss ->
  16 * Z.of_nat (snd (rounds c w s rss)) <= Z.max 0 (need w + hs c - csize ch + 15).
Proof. exact reset_loop_converges. Qed.

(* and once the surviving chunk has room for the workload, no round ever makes a request again: no
   chunk is obtained, the ledger of base-allocator events stays as it is, and the arena is back in
   the same loop state after every round — whatever the base allocator would have answered *)
Theorem C03_loop_quiet_forever :
  forall c w rss s ch,
  cfg_ok c -> Forall (fun l => valid_layout (fst l) (snd l)) w -> loop_state c s ch ->
  need w <= capacity c ch ->
  let '(sf, n) := rounds c w s rss in
  n = 0%nat /\ ledger sf = ledger s /\ loop_state c sf ch.
Proof. exact loop_quiet_forever. Qed.

(* one round: the arena is in a loop state again, the surviving chunk is never smaller, and at
   least 16 bytes larger when the round obtained a chunk *)
Theorem C03_round_progress :
  forall c w rs s ch r,
  cfg_ok c -> Forall (fun l => valid_layout (fst l) (snd l)) w -> loop_state c s ch -> allocs_ok c s w rs ->
  let s1 := fst (allocs c s w rs) in
  let s2 := fst (step c s1 OReset r) in
  exists ch2, loop_state c s2 ch2 /\ aligns s2 = aligns s /\ csize ch <= csize ch2 /\
    ((length (chunks s) < length (chunks s1))%nat -> csize ch + 16 <= csize ch2).
Proof. exact round_progress. Qed.

(* a loop that starts from any allocated arena is in a loop state after its first round *)
Theorem C03_first_round_reaches_loop_state :
  forall c w rs s j r,
  cfg_ok c -> Forall (fun l => valid_layout (fst l) (snd l)) w -> allocs_ok c s w rs ->
  ginv c s -> incr (sizes s) -> live s = [] -> cur s = Cur j ->
  exists ch, loop_state c (fst (step c (fst (allocs c s w rs)) OReset r)) ch.
Proof. exact first_round_reaches_loop_state. Qed.

(* reset_to_start walks back to the first chunk (ArenaLinks.v; `while let Some(prev) = chunk.prev()`, shape checked against
   the source); stepping back once instead ends at the wrong chunk whenever the current chunk is the third or later *)
Theorem C03_reset_to_start_reaches_the_first_chunk :
  forall n i, (i < n)%nat -> run_reset_to_start true (ArenaLinks.fresh n) i = WOk 0%nat.
Proof. exact reset_to_start_reaches_the_first_chunk. Qed.

Theorem C03_one_step_back_is_not_the_start :
  forall n i, (2 <= i)%nat -> run_reset_to_start false (ArenaLinks.fresh n) i = WOk (i - 1)%nat /\ (i - 1 <> 0)%nat.
Proof. exact one_step_back_is_not_the_start. Qed.

(* scoped_aligned takes its scope guard - the checkpoint it returns to - BEFORE it aligns the position (gen/AlignFacts.v,
   read out of the current source on every run): leaving the region restores the position of the entry exactly *)
Theorem C03_source_scoped_aligned_checkpoints_before_aligning :
  AlignFacts.scoped_aligned_takes_its_checkpoint_before_aligning = true.
Proof. vm_compute. reflexivity. Qed.

Print Assumptions C03_checkpoint_records_position.
Print Assumptions C03_reset_loop_converges.
Print Assumptions C03_loop_quiet_forever.
Print Assumptions C03_round_progress.
Print Assumptions C03_first_round_reaches_loop_state.
Print Assumptions C03_replay_needs_no_chunk.
Print Assumptions C03_try_with_err_keeps_invariant.
Print Assumptions C03_scoped_aligned_exit_keeps_invariant.
Print Assumptions C03_reset_to_restores.
Print Assumptions C03_allocated_restored.
Print Assumptions C03_reset_to_keeps_invariant.
Print Assumptions C03_reset_to_start_releases_none.
Print Assumptions C03_reset_to_start_reaches_the_first_chunk.
Print Assumptions C03_one_step_back_is_not_the_start.
Print Assumptions C03_source_scoped_aligned_checkpoints_before_aligning.
