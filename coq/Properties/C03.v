(* C03 — Leaving a scope restores the allocator exactly; earlier data survives.
   PARTIAL: restoration of chunk, position and allocated count, "no release", and survival of
   earlier data (via C01's invariant and C02's frame) are proved; `replay_needs_no_chunk` and
   `reset_loop_converges` are not yet proved and rest on the correspondence check. *)
From Coq Require Import ZArith List.
From BS Require Import Word BumpSpec ChunkSpec Arena ArenaInv ArenaStats ArenaMisc ArenaExt ArenaInv2 ArenaReplay.
Import ListNotations.
Open Scope Z_scope.

Theorem C03_checkpoint_records_position :
  forall c s r,
  match o_res (snd (step c s (OCheckpoint (depth s)) r)) with
  | RCheckpoint cp => cp_state cp = cur s /\
                      (forall ch, cur_chunk s = Some ch -> cp_addr cp = cpos ch)
  | _ => False
  end.
Proof. exact checkpoint_records_position. Qed.

Theorem C03_reset_to_restores :
  forall c s h cp j ch r,
  cp_state cp = Cur j -> nth_error (chunks s) j = Some ch ->
  let s' := fst (step c s (OResetTo h cp) r) in
  cur s' = Cur j /\ nth_error (chunks s') j = Some (set_pos ch (cp_addr cp)) /\
  length (chunks s') = length (chunks s) /\
  (forall k, k <> j -> nth_error (chunks s') k = nth_error (chunks s) k) /\
  o_events (snd (step c s (OResetTo h cp) r)) = [].
Proof. exact reset_to_restores. Qed.

Theorem C03_allocated_restored :
  forall c s1 s2 j ch1 ch2,
  cur s1 = Cur j -> cur s2 = Cur j ->
  nth_error (chunks s1) j = Some ch1 -> nth_error (chunks s2) j = Some ch2 ->
  same_geom ch1 ch2 -> cpos ch1 = cpos ch2 ->
  Forall2 same_geom (firstn j (chunks s1)) (firstn j (chunks s2)) ->
  st_allocated (arena_stats c s1) = st_allocated (arena_stats c s2).
Proof. exact allocated_depends_on_prefix. Qed.

(* data allocated before the checkpoint survives: the state after reset_to satisfies the
   invariant with exactly the older blocks live *)
Theorem C03_reset_to_keeps_invariant :
  forall c s0 h cp r, cfg_ok c -> inv c s0 -> cp_valid c s0 cp ->
  inv c (fst (step c s0 (OResetTo h cp) r)).
Proof. exact step_inv_reset_to. Qed.

Theorem C03_reset_to_start_releases_none :
  forall c s r, o_events (snd (step c s OResetToStart r)) = [].
Proof. exact reset_to_start_releases_none. Qed.

(* the Err path of alloc_try_with(_mut): allocate (or prepare), then rewind to where the operation
   started; every earlier block is still live, valid, aligned and disjoint afterwards *)
Theorem C03_try_with_err_keeps_invariant :
  forall c s0 h mutable size align r,
  cfg_ok c -> inv c s0 -> valid_layout size align -> resp_ok c s0 size align r ->
  inv c (fst (step c s0 (OTryErr h mutable size align) r)).
Proof. exact step_inv_try_err. Qed.

(* leaving scoped_aligned with a LOWER alignment inside: alignment back + reset to the guard's
   checkpoint restore the invariant under the outer alignment *)
Theorem C03_scoped_aligned_exit_keeps_invariant :
  forall c s0 r r' h cp inner outer rest,
  cfg_ok c -> inv c s0 -> aligns s0 = inner :: outer :: rest -> valid_min_align outer ->
  cp_valid c (fst (step c s0 (OAlignPop false) r)) cp ->
  inv c (fst (step c (fst (step c s0 (OAlignPop false) r)) (OResetTo h cp) r')).
Proof. exact scoped_aligned_exit_inv. Qed.

(* repeating a workload of allocations after the rewind needs no new memory: the same addresses
   come back and the base allocator is not asked for anything (it refuses every request here) *)
Theorem C03_replay_needs_no_chunk :
  forall c s j ch w rs Afin outs,
  cur s = Cur j -> nth_error (chunks s) j = Some ch ->
  allocs c s w rs = (Afin, outs) -> Forall is_inl outs ->
  let B := do_reset_to c Afin (mkCp (Cur j) (cpos ch) (epoch s)) in
  exists Bfin, allocs c B w [] = (Bfin, outs) /\ ledger Bfin = ledger B.
Proof. exact replay_needs_no_chunk. Qed.

Print Assumptions C03_checkpoint_records_position.
Print Assumptions C03_replay_needs_no_chunk.
Print Assumptions C03_try_with_err_keeps_invariant.
Print Assumptions C03_scoped_aligned_exit_keeps_invariant.
Print Assumptions C03_reset_to_restores.
Print Assumptions C03_allocated_restored.
Print Assumptions C03_reset_to_keeps_invariant.
Print Assumptions C03_reset_to_start_releases_none.
