(* C12 — A fresh chunk always fits the request that caused it; sizes never wrap.
   Only pinned statements, `exact`, and Print Assumptions. *)
From Coq Require Import ZArith List.
From BS Require Import Word BumpSpec ChunkSpec ChunkRefine Arena AllocRefine ArenaReserve.
From BS.gen Require AllocSites.
From BS.gen Require Import SizeCfg.
Open Scope Z_scope.

(* the code generated from the current size_config.rs computes the policy; overflow -> None *)
Theorem C12_calc_hint_refines :
  forall up hs ha size align,
  hdr_ok hs ha -> valid_layout size align ->
  calc_hint_from_capacity (mkcfg up hs ha) (mkLayout size align) =
  Ok (let h := spec_hint up hs ha size align in if h <? W then Some h else None).
Proof. exact calc_hint_refines. Qed.

Theorem C12_calc_size_refines :
  forall up hs ha hint,
  hdr_ok hs ha -> 0 <= hint < W ->
  calc_size_from_hint (mkcfg up hs ha) hint =
  Ok (if spec_size0 hs ha hint <? W then Some (spec_size_from_hint up hs ha hint) else None).
Proof. exact calc_size_refines. Qed.

Theorem C12_align_size_refines :
  forall up hs ha size,
  pow2 ha -> 16 <= ha -> ha < W -> 0 <= size < W ->
  align_size (mkcfg up hs ha) size = Ok (spec_align_size up ha size).
Proof. exact g_align_size_ok. Qed.

(* a computed size is the mathematical value: multiple of 16 (and of the header alignment
   downwards), covers the header, at least the hint less 16; never wrapped *)
Theorem C12_size_never_wraps :
  forall up hs ha hint n,
  hdr_ok hs ha -> 0 <= hint < W ->
  calc_size_from_hint (mkcfg up hs ha) hint = Ok (Some n) ->
  n = spec_size_from_hint up hs ha hint /\ 0 < n < W /\ (16 | n) /\ (up = false -> (ha | n)) /\
  hint - 16 <= n /\ hs <= n.
Proof. exact calc_size_never_wraps. Qed.

Theorem C12_next_ge_double_less_16 :
  forall up hs ha, hdr_ok hs ha -> forall prev hint,
  2 * prev <= hint -> 2 * prev - 16 <= spec_size_from_hint up hs ha hint.
Proof. exact next_ge_double_less_16. Qed.

Theorem C12_align_size_between :
  forall up hs ha, hdr_ok hs ha -> forall n g,
  (16 | n) -> (up = false -> (ha | n)) -> n <= g ->
  let u := spec_align_size up ha g in
  n <= u /\ u <= g /\ (16 | u) /\ (up = false -> (ha | u)).
Proof. exact align_size_between. Qed.

(* the unreachable_unchecked of in_another_chunk is unreachable *)
Theorem C12_fresh_chunk_fits :
  forall up hs ha size align m h hint n g b,
  hdr_ok hs ha -> valid_layout size align -> valid_min_align m ->
  calc_hint_from_capacity (mkcfg up hs ha) (mkLayout size align) = Ok (Some h) ->
  h <= hint < W ->
  calc_size_from_hint (mkcfg up hs ha) hint = Ok (Some n) ->
  n <= g -> (ha | b) ->
  let u := spec_align_size up ha g in
  (up = true -> spec_up (b + hs) (b + u) m size align <> None /\
                spec_prep_up (b + hs) (b + u) size align <> None) /\
  (up = false -> spec_down b (b + u - hs) m size align <> None /\
                 ((align | size) -> spec_prep_down b (b + u - hs) size align <> None)).
Proof. exact fresh_chunk_fits_gen. Qed.

(* how a new chunk's size hint is composed in the CURRENT source (NonDummyChunk::grow_size / append_for in raw_bump.rs,
   ChunkSizeHint::max / calc_size in chunk/size.rs; cut out and translated on every run): twice the previous chunk's
   SIZE (an overflowing doubling is an error), the maximum with the required hint, then with the minimum chunk size -
   exactly the hint the arena model hands to calc_size_from_hint (Arena.new_chunk_size) *)
Theorem C12_source_grow_size_is_the_models :
  forall ps, AllocSites.grow_size_hint ps = Ok (if W <=? 2 * ps then None else Some (2 * ps)).
Proof. exact grow_size_hint_refines. Qed.

Theorem C12_source_hint_composition_is_the_models :
  forall req grown minimum,
  AllocSites.hint_max req grown = Ok (Z.max req grown) /\
  AllocSites.calc_size_hint (Z.max req grown) minimum = Ok (Z.max (Z.max req grown) minimum).
Proof. exact hint_composition_refines. Qed.

Theorem C12_model_chunk_size_in_those_terms :
  forall c ps size align,
  new_chunk_size c (Some ps) size align =
  (let req := spec_hint (up c) (hs c) (ha c) size align in
   if W <=? req then None else
   if W <=? 2 * ps then None else
   let hint := Z.max (Z.max req (2 * ps)) (min_chunk c) in
   if W <=? spec_size0 (hs c) (ha c) hint then None else
   let n := spec_size_from_hint (up c) (hs c) (ha c) hint in
   if IMAX - (ha c - 1) <? n then None else Some n).
Proof. exact model_new_chunk_size. Qed.

(* reserve: the walk over the chunk list as the code writes it (checked_sub of what the current chunk has left, then of
   every later chunk's capacity; the shape of the loop is checked against the source by tools/allocsites.py) asks for
   a new chunk exactly when the request exceeds the sum, and then for exactly the difference - the closed form the
   arena model uses *)
Theorem C12_reserve_walk_closed_form :
  forall n remaining_cur caps,
  0 <= n -> 0 <= remaining_cur -> Forall (fun x => 0 <= x) caps ->
  reserve_walk n remaining_cur caps =
  let avail := remaining_cur + sumZ caps in
  if n <=? avail then None else Some (n - avail).
Proof. exact reserve_walk_closed_form. Qed.

Print Assumptions C12_calc_hint_refines.
Print Assumptions C12_calc_size_refines.
Print Assumptions C12_align_size_refines.
Print Assumptions C12_size_never_wraps.
Print Assumptions C12_next_ge_double_less_16.
Print Assumptions C12_align_size_between.
Print Assumptions C12_fresh_chunk_fits.
Print Assumptions C12_source_grow_size_is_the_models.
Print Assumptions C12_source_hint_composition_is_the_models.
Print Assumptions C12_model_chunk_size_in_those_terms.
Print Assumptions C12_reserve_walk_closed_form.
