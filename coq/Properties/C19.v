(* C19 — A BumpPool hands every arena to one user at a time.
   Model: coq/Pool.v — the mutex makes get* / guard drop atomic, so an execution of any number of
   threads is a list of actions (a schedule); theorems quantify over ALL schedules.
   PARTIAL: what the model cannot exhibit — data races, memory ordering, the soundness of
   `unsafe impl Send` and of std's Mutex — is trusted; that each arena behaves as a single Bump
   (allocations live until reset) is C01-C03; the real threads of the harness are checked by
   monitors (exclusivity, survival, created <= peak, ledger), not replayed on the model. *)
From Coq Require Import List Arith Bool.
From BS Require Import Pool PoolProofs.
From BS.gen Require PoolFacts.
Import ListNotations.

Theorem C19_invariant_in_every_reachable_state : forall xs, inv (run init xs).
Proof. exact reachable_inv. Qed.

Theorem C19_no_two_live_guards_share_an_arena :
  forall xs g1 g2 a, let s := run init xs in
  In (g1, a) (held s) -> In (g2, a) (held s) -> g1 = g2.
Proof. exact exclusive. Qed.

Theorem C19_held_arena_is_neither_idle_nor_leaked :
  forall xs g a, let s := run init xs in In (g, a) (held s) -> ~ In a (idle s) /\ ~ In a (leaked s).
Proof. exact held_not_idle. Qed.

Theorem C19_get_reuses_an_idle_arena :
  forall s g ok a rest,
  gone s = false -> lookup g (held s) = None -> idle s = a :: rest ->
  snd (step s (Get g ok)) = OArena a false /\ created (fst (step s (Get g ok))) = created s.
Proof. exact get_reuses_idle. Qed.

Theorem C19_created_never_exceeds_peak_of_live_guards :
  forall xs, let s := run init xs in gone s = false -> created s <= peak s.
Proof. exact created_le_peak. Qed.

Theorem C19_peak_is_a_number_of_simultaneously_live_guards :
  forall xs, exists k, k <= length xs /\ live (run init (firstn k xs)) = peak (run init xs).
Proof. exact peak_witnessed. Qed.

Theorem C19_allocations_survive_any_schedule_without_rewind :
  forall xs s ab, forallb (fun x => negb (rewinds x)) xs = true -> In ab (blocks s) -> In ab (blocks (run s xs)).
Proof. exact allocations_survive_schedule. Qed.

Theorem C19_rewinding_needs_exclusive_access :
  forall s x, rewinds x = true -> held s <> [] -> step s x = (s, OReject).
Proof. exact rewind_needs_no_guard. Qed.

Theorem C19_pool_reset_rewinds_every_idle_arena :
  forall s, gone s = false -> held s = [] ->
  let s' := fst (step s Reset) in
  idle s' = idle s /\ created s' = created s /\ forall a b, In (a, b) (blocks s') -> In a (leaked s).
Proof. exact pool_reset_rewinds_all. Qed.

Theorem C19_pool_drop_releases_each_idle_arena_once :
  forall xs, let s := run init xs in gone s = false -> held s = [] ->
  let s' := fst (step s PoolDrop) in
  released s' = idle s /\ NoDup (released s') /\ (forall a, In a (leaked s) -> ~ In a (released s')).
Proof. exact pool_drop_releases_each_idle_arena_once. Qed.

(* the shapes of the CURRENT src/bump_pool.rs that the pool model relies on, read out on every run (gen/PoolFacts.v): every
   get form pops an idle arena if there is one and creates one only otherwise - it never inspects or drops the arena
   it popped; the guard's drop pushes its arena back unconditionally; lock() and bumps() ignore mutex poisoning;
   reset / reset_to_start visit every arena *)
Theorem C19_source_pool_shapes_are_the_models :
  PoolFacts.pool_shapes_ok = true.
Proof. vm_compute. reflexivity. Qed.

Print Assumptions C19_invariant_in_every_reachable_state.
Print Assumptions C19_no_two_live_guards_share_an_arena.
Print Assumptions C19_held_arena_is_neither_idle_nor_leaked.
Print Assumptions C19_get_reuses_an_idle_arena.
Print Assumptions C19_created_never_exceeds_peak_of_live_guards.
Print Assumptions C19_peak_is_a_number_of_simultaneously_live_guards.
Print Assumptions C19_allocations_survive_any_schedule_without_rewind.
Print Assumptions C19_rewinding_needs_exclusive_access.
Print Assumptions C19_pool_reset_rewinds_every_idle_arena.
Print Assumptions C19_pool_drop_releases_each_idle_arena_once.
Print Assumptions C19_source_pool_shapes_are_the_models.
