(* C10 — Arena bookkeeping and reported statistics are always coherent. *)
From Coq Require Import ZArith List.
From BS Require Import Word BumpSpec ChunkSpec Arena ArenaInv ArenaStats ArenaExt ArenaInv2 ArenaSizes ArenaHeader ArenaAny AllocRefine StatsSpec.
From BS.gen Require FixFacts.
From BS.gen Require StatsRules.
From BS.gen Require AllocSites.
Import ListNotations.
Open Scope Z_scope.

Theorem C10_stats_identities :
  forall c, cfg_ok c -> forall s, ginv c s ->
  let st := arena_stats c s in
  st_allocated st + st_remaining st = st_capacity st /\
  st_capacity st <= st_size st /\
  0 <= st_allocated st /\ 0 <= st_remaining st /\
  (st_count st = match cur s with Cur _ => Z.of_nat (length (chunks s)) | _ => 0 end).
Proof. exact stats_identities. Qed.

Theorem C10_position_and_geometry :
  forall c s, ginv c s ->
  (forall ch, In ch (chunks s) ->
     content_start c ch <= cpos ch <= content_end c ch /\ (16 | csize ch) /\
     hs c <= csize ch /\ csize ch <= cgranted ch /\ creq ch <= csize ch /\
     (up c = false -> (ha c | csize ch))) /\
  (forall ch, cur_chunk s = Some ch -> (malign s | cpos ch)).
Proof. exact position_and_geometry. Qed.

Theorem C10_dummy_reports_zero :
  forall c s, (forall i, cur s <> Cur i) -> arena_stats c s = mkStats 0 0 0 0 0.
Proof. exact dummy_reports_zero. Qed.

(* the geometric invariant holds in every reachable state (the older statement over the
   operations proved first is kept; C10_reachable is the full one) *)
Theorem C10_reachable_partial :
  forall c ops s, cfg_ok c -> inv c s -> run_ok c s ops -> ginv c (run c s ops).
Proof. intros c ops s Hc Hi Hr. exact (proj1 (run_inv_partial c ops s Hc Hi Hr)). Qed.

Theorem C10_reachable :
  forall c xs s, cfg_ok c -> inv c s -> hok c s xs -> ginv c (hrun c s xs).
Proof. intros c xs s Hc Hi Hr. exact (proj1 (run_inv c xs s Hc Hi Hr)). Qed.

(* the chunk list, read in order, has strictly growing chunk sizes in every reachable state *)
Theorem C10_chunks_strictly_grow :
  forall c xs s i a b,
  cfg_ok c -> incr (sizes s) -> hok c s xs ->
  nth_error (chunks (hrun c s xs)) i = Some a -> nth_error (chunks (hrun c s xs)) (S i) = Some b ->
  csize a < csize b.
Proof. exact chunks_strictly_grow. Qed.

Theorem C10_fresh_arena_qualifies :
  forall c s, cfg_ok c -> ginv c s -> (length (chunks s) <= 1)%nat -> incr (sizes s).
Proof. exact incr_fresh. Qed.

(* the chunk header: inside the granted block, aligned, disjoint from the content range, and no live
   block overlaps the header of any chunk (ArenaHeader.v) *)
Theorem C10_header_inside_granted_block :
  forall c ch, cfg_ok c -> chunk_geom c ch ->
  (cbase ch <= header_start c ch /\ header_start c ch + hs c <= cbase ch + cgranted ch) /\
  (ha c | header_start c ch) /\
  (header_start c ch + hs c <= content_start c ch \/ content_end c ch <= header_start c ch).
Proof.
  intros c ch Hc Hg. split; [apply header_inside_granted; assumption|].
  split; [apply header_aligned; assumption | apply header_disjoint_from_content].
Qed.

Theorem C10_live_block_misses_every_header :
  forall c s b k ch, cfg_ok c -> inv c s -> In b (live s) -> nth_error (chunks s) k = Some ch ->
  disjoint_rng (bptr b) (bsize b) (header_start c ch) (hs c).
Proof. exact live_block_misses_every_header. Qed.

(* "The type-erased statistics report the same numbers and ranges as the typed statistics": an AnyChunk computes
   everything from the header address, the header's end and pos fields and the header size it was given; with the
   header size of the allocator the chunk came from that is exactly the typed view (ArenaAny.v); with the 32 bytes
   the pinned commit assumed for every allocator it is not (defect 2, computed witness) *)
Theorem C10_any_view_is_the_typed_view :
  forall c, cfg_ok c -> forall ch, chunk_geom c ch ->
  let x := header_of c ch in
  any_chunk_start x = cbase ch /\ any_chunk_end (hs c) x = cbase ch + csize ch /\
  any_content_start (hs c) x = content_start c ch /\ any_content_end (hs c) x = content_end c ch /\
  any_size (hs c) x = csize ch /\ any_capacity (hs c) x = capacity c ch /\
  any_allocated (hs c) x = allocated_in c ch /\ any_remaining (hs c) x = remaining_in c ch /\
  h_pos x = cpos ch.
Proof. exact any_view_is_the_typed_view. Qed.

Theorem C10_any_direction_is_the_typed_one :
  forall c, cfg_ok c -> forall ch, chunk_geom c ch -> any_up (header_of c ch) = up c.
Proof. exact any_direction_is_the_typed_one. Qed.

Theorem C10_any_view_pinned_refuted :
  let c := mkCfg true false true true 512 48 16 true in
  let ch := mkChunk 65536 512 512 512 (65536 + 48 + 4) in
  any_capacity (hs c) (header_of c ch) = capacity c ch /\
  any_capacity 32 (header_of c ch) <> capacity c ch /\
  any_allocated 32 (header_of c ch) = 20 /\ allocated_in c ch = 4.
Proof. exact any_view_pinned_refuted. Qed.

(* how a new chunk's size hint is composed in the CURRENT source (NonDummyChunk::grow_size / append_for in raw_bump.rs,
   ChunkSizeHint::max / calc_size in chunk/size.rs; cut out and translated on every run): twice the previous chunk's
   SIZE (an overflowing doubling is an error), the maximum with the required hint, then with the minimum chunk size -
   exactly the hint the arena model hands to calc_size_from_hint (Arena.new_chunk_size) *)
Theorem C10_source_grow_size_is_the_models :
  forall ps, AllocSites.grow_size_hint ps = Ok (if W <=? 2 * ps then None else Some (2 * ps)).
Proof. exact grow_size_hint_refines. Qed.

Theorem C10_source_hint_composition_is_the_models :
  forall req grown minimum,
  AllocSites.hint_max req grown = Ok (Z.max req grown) /\
  AllocSites.calc_size_hint (Z.max req grown) minimum = Ok (Z.max (Z.max req grown) minimum).
Proof. exact hint_composition_refines. Qed.

Theorem C10_model_chunk_size_in_those_terms :
  forall c ps size align,
  new_chunk_size c (Some ps) size align =
  (let req := spec_hint (up c) (hs c) (ha c) size align in
   if W <=? req then None else
   if W <=? 2 * ps then None else
   let hint := Z.max (Z.max req (2 * ps)) (min_chunk c) in
   if W <=? spec_size0 (hs c) (ha c) hint then None else
   let n := spec_size_from_hint (up c) (hs c) (ha c) hint in
   if IMAX - (ha c - 1) <? n then None else Some n).
Proof. exact model_new_chunk_size. Qed.

(* the header NonDummyChunk::new writes in the CURRENT source (header address, initial position, end field; cut out of
   raw_bump.rs and translated on every run) is the header the model and the type-erased view assume *)
Theorem C10_source_new_chunk_header_is_the_models :
  forall c ch, cfg_ok c -> chunk_geom c ch ->
  if up c then
    AllocSites.new_chunk_up_header (cbase ch) = Ok (h_addr (header_of c ch)) /\
    AllocSites.new_chunk_up_pos (cbase ch) (hs c) = Ok (fresh_pos c ch) /\
    AllocSites.new_chunk_up_end (cbase ch) (csize ch) = Ok (h_end (header_of c ch))
  else
    AllocSites.new_chunk_down_header (cbase ch) (csize ch) (hs c) = Ok (h_addr (header_of c ch)) /\
    AllocSites.new_chunk_down_pos (h_addr (header_of c ch)) = Ok (fresh_pos c ch) /\
    AllocSites.new_chunk_down_end (cbase ch) = Ok (h_end (header_of c ch)).
Proof. exact new_chunk_header_refines. Qed.

(* the summing rules of the statistics, read out of the CURRENT src/stats.rs and src/stats/any.rs on every run
   (gen/StatsRules.v): a term of the current chunk, a term per earlier chunk, a term per later chunk.  The tables of
   both views pass rules_ok, the iterators start at the first / last chunk, and a table that passes computes
   Arena.arena_stats in every state (StatsSpec.v) - so typed and type-erased totals are the model's and each other's *)
Theorem C10_source_statistics_rules_are_the_models :
  rules_ok StatsRules.typed_rules = true /\ rules_ok StatsRules.any_rules = true /\
  StatsRules.typed_small_to_big_starts_at_the_first_chunk = true /\ StatsRules.typed_big_to_small_starts_at_the_last_chunk = true /\
  StatsRules.any_small_to_big_starts_at_the_first_chunk = true /\ StatsRules.any_big_to_small_starts_at_the_last_chunk = true.
Proof. vm_compute. repeat split; reflexivity. Qed.

Theorem C10_rules_that_pass_compute_the_models_statistics :
  forall c s i ch rs r,
  cur s = Cur i -> nth_error (chunks s) i = Some ch -> forallb rule_ok rs = true -> In r rs ->
  eval_rule c r (firstn i (chunks s)) ch (skipn (S i) (chunks s)) =
  let st := arena_stats c s in
  match r_name r with
  | Scount => st_count st | Ssize => st_size st | Scapacity => st_capacity st
  | Sallocated => st_allocated st | Sremaining => st_remaining st
  end.
Proof. exact rules_compute_arena_stats. Qed.

(* the repair of a genuine defect recorded in known_findings.json is still in place in the CURRENT source (tools/fixsites.py ->
   gen/FixFacts.v, read out on every run): a `fixed:` entry suppresses nothing, and its syntactic return breaks this obligation *)
Theorem C10_repair_in_place_defect2 : FixFacts.defect2_any_chunk_carries_the_header_size_of_its_allocator = true.
Proof. vm_compute. reflexivity. Qed.

Print Assumptions C10_stats_identities.
Print Assumptions C10_reachable.
Print Assumptions C10_chunks_strictly_grow.
Print Assumptions C10_fresh_arena_qualifies.
Print Assumptions C10_position_and_geometry.
Print Assumptions C10_dummy_reports_zero.
Print Assumptions C10_reachable_partial.
Print Assumptions C10_header_inside_granted_block.
Print Assumptions C10_live_block_misses_every_header.
Print Assumptions C10_any_view_is_the_typed_view.
Print Assumptions C10_any_direction_is_the_typed_one.
Print Assumptions C10_any_view_pinned_refuted.
Print Assumptions C10_source_grow_size_is_the_models.
Print Assumptions C10_source_hint_composition_is_the_models.
Print Assumptions C10_model_chunk_size_in_those_terms.
Print Assumptions C10_source_new_chunk_header_is_the_models.
Print Assumptions C10_source_statistics_rules_are_the_models.
Print Assumptions C10_rules_that_pass_compute_the_models_statistics.
Print Assumptions C10_repair_in_place_defect2.
