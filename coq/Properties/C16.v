(* C16 — Splitting and merging owned slices partitions them exactly.
   The rotate-in-place code of split_off equals the specification for every range; the parts
   partition the original.  PARTIAL: split_at/first/last, partition, merge, into_flattened and
   the independence of the parts (growing / dropping one never changes the other) are checked on
   the implementation (capacities add up, capacity >= len, sibling contents re-read after
   follow-up operations) but not proved. *)
From Coq Require Import List Arith.
From BS Require Import Colls CollsProofs.
Import ListNotations.

Theorem C16_split_off_code_spec : forall (A : Type) (l : list A) a b, a <= b <= length l ->
  split_off_code l a b = (firstn a l ++ skipn b l, firstn (b - a) (skipn a l)).
Proof. exact @split_off_code_spec. Qed.

Theorem C16_split_off_partition : forall l a b, conserved (op_split_off l a b) l.
Proof. exact split_off_conserved. Qed.

Theorem C16_split_off_rejects_bad_ranges : forall l a b,
  unwound (op_split_off l a b) = true <-> (b < a \/ length l < b).
Proof. exact split_off_panics_iff. Qed.

Print Assumptions C16_split_off_code_spec.
Print Assumptions C16_split_off_partition.
Print Assumptions C16_split_off_rejects_bad_ranges.
