(* C16 — Splitting and merging owned slices partitions them exactly.
   The rotate-in-place code of split_off equals the specification for every range; the parts
   partition the original.  split_at, split_first / split_last (and their split_off_ twins),
   merge and partition (partition_in_place + split_at) are modelled in Parts.v as windows
   (offset, length) of one buffer and proved to divide a slice exactly (PartsProofs.v).
   How split_off divides the BUFFER of a vector (SplitCap.v): each part gets a window (offset,
   length, capacity) of the old buffer; the windows hold exactly the two parts, lie inside the
   buffer, do not overlap, their capacities add up to the old capacity, and the spare capacity
   goes to the window at the end of the buffer - replayed from the trace (`win=` field).
   PARTIAL: into_flattened, split_at_spare and the independence of the parts under follow-up
   operations (growing / dropping one never changes the other) are checked on the
   implementation (sibling contents re-read after follow-up operations, std in lock-step) but
   not proved. *)
From Coq Require Import List Arith Permutation.
From Coq Require Import ZArith.
From BS Require Import Colls CollsProofs Parts PartsProofs SplitCap SplitCapProofs SplitRefine.
From BS Require Word.
From BS.gen Require SplitSites SplitFacts PartsFacts.
Import ListNotations.

Theorem C16_split_off_code_spec : forall (A : Type) (l : list A) a b, a <= b <= length l ->
  split_off_code l a b = (firstn a l ++ skipn b l, firstn (b - a) (skipn a l)).
Proof. exact @split_off_code_spec. Qed.

Theorem C16_split_off_partition : forall l a b, conserved (op_split_off l a b) l.
Proof. exact split_off_conserved. Qed.

Theorem C16_split_off_rejects_bad_ranges : forall l a b,
  unwound (op_split_off l a b) = true <-> (b < a \/ length l < b).
Proof. exact split_off_panics_iff. Qed.

(* split_at: panics iff the index is beyond the length; otherwise the two windows are the prefix
   and the suffix, adjacent, disjoint, inside the original, lengths adding up *)
Theorem C16_split_at_panics_iff : forall p mid, split_at p mid = None <-> plen p < mid.
Proof. exact split_at_panics_iff. Qed.

Theorem C16_split_at_spec : forall (A : Type) (buf : list A) p mid a b,
  split_at p mid = Some (a, b) ->
  view buf a = firstn mid (view buf p) /\ view buf b = skipn mid (view buf p) /\
  view buf a ++ view buf b = view buf p /\
  plen a + plen b = plen p /\ poff a = poff p /\ poff b = poff a + plen a /\
  pdisjoint a b /\ (in_buf buf p -> in_buf buf a /\ in_buf buf b).
Proof. exact @split_at_spec. Qed.

Theorem C16_split_first_spec : forall (A : Type) (buf : list A) p i r,
  split_first p = Some (i, r) ->
  view buf (mkPart i 1) ++ view buf r = view buf p /\ plen r + 1 = plen p /\
  pdisjoint (mkPart i 1) r /\ (in_buf buf p -> in_buf buf (mkPart i 1) /\ in_buf buf r).
Proof. exact @split_first_spec. Qed.

Theorem C16_split_last_spec : forall (A : Type) (buf : list A) p i r,
  split_last p = Some (i, r) ->
  view buf r ++ view buf (mkPart i 1) = view buf p /\ plen r + 1 = plen p /\
  pdisjoint r (mkPart i 1) /\ (in_buf buf p -> in_buf buf (mkPart i 1) /\ in_buf buf r).
Proof. exact @split_last_spec. Qed.

Theorem C16_split_first_none_iff : forall p, split_first p = None <-> plen p = 0.
Proof. exact split_first_none_iff. Qed.
Theorem C16_split_last_none_iff : forall p, split_last p = None <-> plen p = 0.
Proof. exact split_last_none_iff. Qed.

(* merge accepts exactly a window followed by its right neighbour, and then returns both, in order *)
Theorem C16_merge_accepts_iff : forall a b, (exists m, merge a b = Some m) <-> poff a + plen a = poff b.
Proof. exact merge_accepts_iff. Qed.

Theorem C16_merge_spec : forall (A : Type) (buf : list A) a b m,
  in_buf buf a -> merge a b = Some m ->
  view buf m = view buf a ++ view buf b /\ plen m = plen a + plen b /\ poff m = poff a.
Proof. exact @merge_spec. Qed.

Theorem C16_merge_restores_split : forall p mid a b, split_at p mid = Some (a, b) -> merge a b = Some p.
Proof. exact merge_split_at. Qed.

Theorem C16_merge_rejects_swapped_halves : forall p mid a b,
  split_at p mid = Some (a, b) -> 0 < plen p -> merge b a = None.
Proof. exact merge_split_at_swapped. Qed.

Theorem C16_merge_of_three_windows : forall (A : Type) (l : list A) i j x y,
  i <= j -> j <= length l -> x <= 2 -> y <= 2 ->
  0 < plen (three l i j x) -> 0 < plen (three l i j y) ->
  (pr_panic (op_merge l i j x y) = false <-> y = x + 1 \/ (x = 0 /\ y = 2 /\ i = j)).
Proof. exact @op_merge_spec. Qed.

(* partition: the find / rfind / swap loop of partition_in_place leaves a permutation with the
   elements that satisfy the predicate first, and returns their number; partition never panics
   and its two parts are exactly those elements and the others *)
Theorem C16_partition_in_place_spec : forall (A : Type) (p : A -> bool) (l : list A),
  let '(m, k) := partition_in_place p l in
  Permutation l m /\ sorted_by p m k /\ k = length (filter p l).
Proof. exact @partition_in_place_spec. Qed.

Theorem C16_partition_spec : forall (A : Type) (p : A -> bool) (l : list A),
  let r := op_partition p l in
  pr_panic r = false /\ Permutation l (pr_first r ++ pr_second r) /\
  Forall (fun x => p x = true) (pr_first r) /\ Forall (fun x => p x = false) (pr_second r) /\
  length (pr_first r) = length (filter p l).
Proof. exact @op_partition_spec. Qed.

(* ---- the buffer windows of split_off (FixedBumpVec::split_off, wrapped by BumpVec::split_off) *)
Theorem C16_split_off_windows_hold_the_parts : forall (A : Type) (l : list A) cap a b, a <= b <= length l ->
  split_off_code l a b =
  (wview (split_off_buffer l a b) (fst (split_off_windows (length l) cap a b)),
   wview (split_off_buffer l a b) (snd (split_off_windows (length l) cap a b))).
Proof. exact @split_off_windows_hold_the_parts. Qed.

Theorem C16_split_off_windows_spec : forall (A : Type) (l : list A) cap a b, a <= b <= length l ->
  wview (split_off_buffer l a b) (fst (split_off_windows (length l) cap a b)) = firstn a l ++ skipn b l /\
  wview (split_off_buffer l a b) (snd (split_off_windows (length l) cap a b)) = firstn (b - a) (skipn a l).
Proof. exact @split_off_windows_spec. Qed.

Theorem C16_split_off_windows_tile : forall len cap a b, a <= b <= len -> len <= cap ->
  let k := fst (split_off_windows len cap a b) in
  let o := snd (split_off_windows len cap a b) in
  wlen k <= wcap k /\ wlen o <= wcap o /\
  wcap k + wcap o = cap /\ wlen k + wlen o = len /\ wlen o = b - a /\
  woff k + wcap k <= cap /\ woff o + wcap o <= cap /\
  (woff k + wcap k <= woff o \/ woff o + wcap o <= woff k).
Proof. exact split_off_windows_tile. Qed.

Theorem C16_split_off_spare_goes_to_the_end : forall len cap a b, a <= b <= len -> len <= cap ->
  let k := fst (split_off_windows len cap a b) in
  let o := snd (split_off_windows len cap a b) in
  (wcap k - wlen k) + (wcap o - wlen o) = cap - len /\
  (woff k < woff o -> wcap k = wlen k /\ woff o + wcap o = cap) /\
  (woff o < woff k -> wcap o = wlen o /\ woff k + wcap k = cap).
Proof. exact split_off_spare_goes_to_the_end. Qed.

(* split_at_spare: the initialised part and the spare capacity tile the buffer; into_flattened keeps element
   count and order (element (i, j) becomes element i * n + j) and scales the window by n *)
Theorem C16_spare_windows_tile :
  forall len cap, len <= cap ->
  let '(i, s) := spare_windows len cap in
  woff i = 0 /\ wlen i = len /\ woff s = woff i + wlen i /\ wlen s = 0 /\
  wcap i + wcap s = cap /\ woff s + wcap s = cap.
Proof. exact spare_windows_tile. Qed.

Theorem C16_flatten_keeps_count_and_order :
  forall (A : Type) (l : list (list A)) n,
  Forall (fun x => length x = n) l ->
  length (flatten_list l) = length l * n /\
  (forall i j x, nth_error l i = Some x -> j < n -> nth_error (flatten_list l) (i * n + j) = nth_error x j).
Proof. exact @flatten_keeps_count_and_order. Qed.

Theorem C16_flatten_window_scales :
  forall w n, wlen w <= wcap w ->
  let f := flatten_window w n in
  wlen f = wlen w * n /\ wcap f = wcap w * n /\ woff f = woff w * n /\ wlen f <= wcap f.
Proof. exact flatten_window_scales. Qed.

(* the window arithmetic of the CURRENT FixedBumpVec::split_off (BumpVec::split_off wraps it), cut out branch by branch and
   translated on every run (gen/SplitSites.v, gen/SplitFacts.v): in the two interior branches - the ones that rotate - the
   offsets, lengths and capacities of both parts, the side `self` keeps and the rotation are SplitCap.split_off_windows
   (SplitRefine.v; the two boundary branches likewise: split_off_tail_refines, split_off_front_refines) *)
Theorem C16_source_split_off_windows_head_short :
  forall (len cap a b : nat),
  (0 < a)%nat -> (a < b)%nat -> (b < len)%nat -> (len <= cap)%nat -> (a < len - b)%nat ->
  let '(keep, off) := split_off_windows len cap a b in
  SplitFacts.so_headshort_self_keeps_lhs = false /\ SplitFacts.so_headshort_rotation_ok = true /\ SplitFacts.so_interior_defs_ok = true /\
  woff off = 0%nat /\ SplitSites.so_headshort_lhs_len (Z.of_nat a) (Z.of_nat b) = Word.Ok (Z.of_nat (wlen off)) /\
  SplitSites.so_headshort_lhs_cap (Z.of_nat a) (Z.of_nat b) = Word.Ok (Z.of_nat (wcap off)) /\
  SplitSites.so_headshort_rhs_off (Z.of_nat a) (Z.of_nat b) = Word.Ok (Z.of_nat (woff keep)) /\
  SplitSites.so_headshort_rhs_len (Z.of_nat a) (Z.of_nat b) (Z.of_nat len) = Word.Ok (Z.of_nat (wlen keep)) /\
  SplitSites.so_headshort_rhs_cap (Z.of_nat a) (Z.of_nat b) (Z.of_nat cap) = Word.Ok (Z.of_nat (wcap keep)).
Proof. exact split_off_headshort_refines. Qed.

Theorem C16_source_split_off_windows_tail_long :
  forall (len cap a b : nat),
  (0 < a)%nat -> (a < b)%nat -> (b < len)%nat -> (len <= cap)%nat -> (len - b <= a)%nat ->
  let '(keep, off) := split_off_windows len cap a b in
  SplitFacts.so_taillong_self_keeps_lhs = true /\ SplitFacts.so_taillong_rotation_ok = true /\
  woff keep = 0%nat /\ SplitSites.so_taillong_lhs_len (Z.of_nat a) (Z.of_nat b) (Z.of_nat len) = Word.Ok (Z.of_nat (wlen keep)) /\
  SplitSites.so_taillong_lhs_cap (Z.of_nat a) (Z.of_nat b) (Z.of_nat len) = Word.Ok (Z.of_nat (wcap keep)) /\
  SplitSites.so_taillong_rhs_off (Z.of_nat a) (Z.of_nat b) (Z.of_nat len) = Word.Ok (Z.of_nat (woff off)) /\
  SplitSites.so_taillong_rhs_len (Z.of_nat a) (Z.of_nat b) = Word.Ok (Z.of_nat (wlen off)) /\
  SplitSites.so_taillong_rhs_cap (Z.of_nat a) (Z.of_nat b) (Z.of_nat len) (Z.of_nat cap) = Word.Ok (Z.of_nat (wcap off)).
Proof. exact split_off_taillong_refines. Qed.

(* the shapes of the CURRENT BumpBox<[T]>::split_at / split_first / split_last / merge that Parts.v transcribes, read out on
   every run (gen/PartsFacts.v): split_at panics exactly when the index exceeds the length and returns prefix and
   suffix; split_first / split_last return the element and the rest; merge of sized elements requires the second part
   to begin where the first ends and returns the left start with both lengths *)
Theorem C16_source_parts_shapes_are_the_models : PartsFacts.parts_shapes_ok = true.
Proof. vm_compute. reflexivity. Qed.

Print Assumptions C16_split_off_code_spec.
Print Assumptions C16_split_at_panics_iff.
Print Assumptions C16_split_at_spec.
Print Assumptions C16_split_first_spec.
Print Assumptions C16_split_last_spec.
Print Assumptions C16_split_first_none_iff.
Print Assumptions C16_split_last_none_iff.
Print Assumptions C16_merge_accepts_iff.
Print Assumptions C16_merge_spec.
Print Assumptions C16_merge_restores_split.
Print Assumptions C16_merge_rejects_swapped_halves.
Print Assumptions C16_merge_of_three_windows.
Print Assumptions C16_partition_in_place_spec.
Print Assumptions C16_partition_spec.
Print Assumptions C16_split_off_partition.
Print Assumptions C16_split_off_rejects_bad_ranges.
Print Assumptions C16_split_off_windows_hold_the_parts.
Print Assumptions C16_split_off_windows_spec.
Print Assumptions C16_split_off_windows_tile.
Print Assumptions C16_split_off_spare_goes_to_the_end.
Print Assumptions C16_spare_windows_tile.
Print Assumptions C16_flatten_keeps_count_and_order.
Print Assumptions C16_flatten_window_scales.
Print Assumptions C16_source_split_off_windows_head_short.
Print Assumptions C16_source_split_off_windows_tail_long.
Print Assumptions C16_source_parts_shapes_are_the_models.
