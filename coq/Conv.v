(* Conv.v — the settings a Bump / BumpScope type carries, as far as conversions compare them.
   The conversion checks themselves (the const-assert blocks of the four RawBump::ensure_..._settings
   functions) are regenerated from the source into gen/Tables.v. *)
From Coq Require Import Bool Arith.

Record settings := mkSettings {
  s_up : bool;              (* UP *)
  s_min_align : nat;        (* MIN_ALIGN *)
  s_claimable : bool;       (* CLAIMABLE *)
  s_guaranteed : bool       (* GUARANTEED_ALLOCATED *)
}.
