(* Conv.v — the settings a Bump / BumpScope type carries, as far as conversions compare them.
   The conversion checks themselves (the const-assert blocks of the four RawBump::ensure_..._settings
   functions) are regenerated from the source into gen/Tables.v. *)
From Coq Require Import Bool Arith.

Record settings := mkSettings {
  s_up : bool;              (* UP *)
  s_min_align : nat;        (* MIN_ALIGN *)
  s_claimable : bool;       (* CLAIMABLE *)
  s_guaranteed : bool       (* GUARANTEED_ALLOCATED *)
}.

(* ---------------------------------------------------------------- run-time checks of the conversions
   (RawBump::ensure_satisfies_settings / ensure_scope_satisfies_settings; the borrow variants have
   compile-time checks only).  MODEL of the decision; the effect on the position of a conversion
   that does not panic is the entry of an aligned region (Arena.OAlignPush). *)
Inductive astate := AUnallocated | AAllocated | AClaimed.
Inductive conv := ByValue | ScopeByValue | Borrow | BorrowMut.

Definition conversion_panics (k : conv) (news : settings) (st : astate) : bool :=
  match k with
  | ByValue =>
    (negb (s_claimable news) && match st with AClaimed => true | _ => false end)
    || (s_guaranteed news && match st with AUnallocated => true | _ => false end)
  | ScopeByValue => negb (s_claimable news) && match st with AClaimed => true | _ => false end
  | Borrow | BorrowMut => false
  end.

(* what the target type requires of the arena *)
Definition requires_unclaimed (news : settings) : bool := negb (s_claimable news).
Definition requires_allocated (news : settings) : bool := s_guaranteed news.

(* C18: a by-value conversion panics exactly when a requirement of the target type is not met *)
Theorem by_value_conversion_panics_iff news st :
  conversion_panics ByValue news st = true <->
  (requires_unclaimed news = true /\ st = AClaimed) \/ (requires_allocated news = true /\ st = AUnallocated).
Proof.
  unfold conversion_panics, requires_unclaimed, requires_allocated.
  destruct (s_claimable news), (s_guaranteed news), st; cbn; split; intros H;
    try discriminate; try reflexivity; try (left; split; reflexivity); try (right; split; reflexivity);
    destruct H as [[H1 H2]|[H1 H2]]; discriminate.
Qed.

(* a scope held by value is never unallocated: only the claim matters *)
Theorem scope_conversion_panics_iff news st :
  conversion_panics ScopeByValue news st = true <-> (requires_unclaimed news = true /\ st = AClaimed).
Proof.
  unfold conversion_panics, requires_unclaimed.
  destruct (s_claimable news), st; cbn; split; intros H; try discriminate; try (split; reflexivity); destruct H; discriminate.
Qed.

Theorem borrow_conversions_never_panic news st :
  conversion_panics Borrow news st = false /\ conversion_panics BorrowMut news st = false.
Proof. split; reflexivity. Qed.
