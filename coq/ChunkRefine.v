(* ChunkRefine.v — the code generated from the CURRENT src/chunk/size_config.rs computes the
   size policy of ChunkSpec.v; overflow is reported as None, never as Ovf or a wrapped value. *)
From Coq Require Import ZArith Lia Bool ZifyBool.
From BS Require Import Word BumpSpec ChunkSpec.
From BS.gen Require Import SizeCfg.
Open Scope Z_scope.

Definition mkcfg (up : bool) (hs ha : Z) : ChunkSizeConfig :=
  {| csc_up := up; csc_assumed_malloc_overhead_layout := mkLayout 16 8;
     csc_chunk_header_layout := mkLayout hs ha |}.

Lemma W_div a : pow2 a -> a < W -> (a | W).
Proof. intros Ha Hlt. apply pow2_divide; [assumption|exists 64; split; [lia|reflexivity]|lia]. Qed.

Lemma up_align_overflow x a : pow2 a -> a < W -> W <= x + a - 1 -> W <= up_alignZ x a.
Proof.
  intros Ha HaW Hov. pose proof (pow2_pos _ Ha). unfold up_alignZ.
  apply down_align_max; [assumption|apply W_div; assumption|assumption].
Qed.

(* ---------- generated helpers ---------- *)
Lemma g_max_ok a b : max a b = Ok (Z.max a b).
Proof. unfold max. cbn [run]. destruct (Z.ltb_spec b a); f_equal; lia. Qed.

Lemma g_down_align_ok x a :
  pow2 a -> a < W -> 0 <= x < W -> down_align x a = Ok (down_alignZ x a).
Proof.
  intros Ha HaW Hx. pose proof (pow2_pos _ Ha). unfold down_align.
  rewrite sub_ok by lia. cbn [bindc run]. rewrite and_not_mask by (try assumption; lia).
  reflexivity.
Qed.

Lemma g_up_align_ok x a :
  pow2 a -> a < W -> 0 <= x < W ->
  up_align x a = Ok (if x + a - 1 <? W then Some (up_alignZ x a) else None).
Proof.
  intros Ha HaW Hx. pose proof (pow2_pos _ Ha). unfold up_align.
  rewrite sub_ok by lia. cbn [bindc]. unfold checked_add.
  replace (x + (a - 1)) with (x + a - 1) by lia.
  destruct (Z.ltb_spec (x + a - 1) W); cbn [bindc run try_opt]; [|reflexivity].
  rewrite and_not_mask by (try assumption; lia). reflexivity.
Qed.

Lemma g_offset_add_layout_ok off s a :
  pow2 a -> a < W -> 0 <= off < W -> 0 <= s ->
  offset_add_layout off (mkLayout s a) =
  Ok (if (off + a - 1 <? W) && (up_alignZ off a + s <? W) then Some (up_alignZ off a + s) else None).
Proof.
  intros Ha HaW Hoff Hs. unfold offset_add_layout. cbn [lsize lalign].
  rewrite g_up_align_ok by assumption. cbn [call bindc].
  destruct (Z.ltb_spec (off + a - 1) W); cbn [try_opt bindc run andb]; [|reflexivity].
  unfold checked_add. destruct (Z.ltb_spec (up_alignZ off a + s) W); reflexivity.
Qed.

Lemma g_align_size_ok up hs ha size :
  pow2 ha -> 16 <= ha -> ha < W -> 0 <= size < W ->
  align_size (mkcfg up hs ha) size = Ok (spec_align_size up ha size).
Proof.
  intros Hha H16 HhaW Hsz. unfold align_size, mkcfg, spec_align_size, size_align.
  cbn [csc_up csc_chunk_header_layout lalign]. unfold MIN_CHUNK_ALIGN.
  destruct up; cbn [bindc].
  - rewrite g_down_align_ok by (try apply pow2_16; lia). reflexivity.
  - rewrite g_max_ok. cbn [call bindc].
    rewrite g_down_align_ok by (try (apply pow2_max; [apply pow2_16|assumption]); lia). reflexivity.
Qed.

Ltac cx_side := first [ assumption | lia | apply pow2_16 ].
Ltac cx_step :=
  first
    [ progress cbn [bindc run call try_opt lsize lalign andb orb]
    | rewrite add_ok by lia
    | rewrite sub_ok by lia
    | rewrite g_max_ok
    | rewrite g_offset_add_layout_ok by cx_side
    | rewrite g_up_align_ok by cx_side
    | rewrite g_align_size_ok by cx_side
    | progress unfold checked_add, nonzero_new, sat_sub ].
Ltac cx_split :=
  match goal with
  | |- context [if ?c then _ else _] => destruct c eqn:?
  | |- context [match ?c with Some _ => _ | None => _ end] => destruct c eqn:?
  end.

(* ================= calc_hint_from_capacity ================= *)
Theorem calc_hint_refines up hs ha size align :
  hdr_ok hs ha -> valid_layout size align ->
  calc_hint_from_capacity (mkcfg up hs ha) (mkLayout size align) =
  Ok (let h := spec_hint up hs ha size align in if h <? W then Some h else None).
Proof.
  intros (Hha2 & Hha16 & Hhab & Hdiv & Hhs32 & Hhsb) (Ha2 & Hs0 & Hsl).
  pose proof W_val as HW. pose proof IMAX_val as HI.
  pose proof (pow2_pos _ Ha2) as Hap. assert (HhaW : ha < W) by lia.
  assert (Hp8 : pow2 8) by (exists 3; split; [lia|reflexivity]).
  assert (E0 : up_alignZ 0 8 = 0) by (apply up_align_id; [lia|apply Z.divide_0_r]).
  assert (E16 : up_alignZ 16 ha = ha).
  { unfold up_alignZ. replace (16 + ha - 1) with (15 + 1 * ha) by lia.
    unfold down_alignZ. rewrite Z.mod_add by lia. rewrite Z.mod_small by lia. lia. }
  cbv zeta. unfold spec_hint, spec_hint_bytes, OVH.
  remember (size + Z.max (align - ha) 0) as bytes eqn:Eb.
  remember (up_alignZ (16 + bytes) ha) as r eqn:Er.
  assert (Hr1 : 16 + bytes <= r) by (subst r; apply up_align_ge; lia).
  assert (Hr2 : W <= 16 + bytes + ha - 1 -> W <= r) by (subst r; apply up_align_overflow; assumption).
  unfold calc_hint_from_capacity, calc_hint_from_capacity_bytes, mkcfg.
  cbn [csc_up csc_assumed_malloc_overhead_layout csc_chunk_header_layout lsize lalign].
  unfold MIN_CHUNK_ALIGN.
  replace (size + sat_sub align ha) with bytes by (unfold sat_sub; lia).
  destruct up.
  - repeat first [ cx_step | progress change (0 + 16) with 16 | progress change (0 + 8 - 1) with 7 | rewrite E0 | rewrite E16 | rewrite <- Eb | cx_split ].
    all: first [ reflexivity | exfalso; lia | (f_equal; f_equal; lia) | discriminate
               | (match goal with H : Some _ = Some _ |- _ => injection H as <- end; first [reflexivity | exfalso; lia | (f_equal; f_equal; lia)])
               | (repeat match goal with H : Some _ = Some _ |- _ => injection H as <- end; first [reflexivity | exfalso; lia | (f_equal; f_equal; lia)]) ].
  - repeat first [ cx_step | progress change (0 + 16) with 16 | progress change (0 + 8 - 1) with 7 | rewrite E0 | rewrite E16 | rewrite <- Eb | rewrite <- Er | cx_split ].
    all: first [ reflexivity | exfalso; lia | (f_equal; f_equal; lia) | discriminate
               | (repeat match goal with H : Some _ = Some _ |- _ => injection H as <- end; first [reflexivity | exfalso; lia | (f_equal; f_equal; lia)]) ].
Qed.

(* ================= calc_size_from_hint ================= *)
Theorem calc_size_refines up hs ha hint :
  hdr_ok hs ha -> 0 <= hint < W ->
  calc_size_from_hint (mkcfg up hs ha) hint =
  Ok (if spec_size0 hs ha hint <? W then Some (spec_size_from_hint up hs ha hint) else None).
Proof.
  intros Hh Hhint. pose proof Hh as (Hha2 & Hha16 & Hhab & Hdiv & Hhs32 & Hhsb).
  pose proof W_val as HW. assert (HhaW : ha < W) by lia.
  assert (Hp8 : pow2 8) by (exists 3; split; [lia|reflexivity]).
  assert (E0 : up_alignZ 0 8 = 0) by (apply up_align_id; [lia|apply Z.divide_0_r]).
  assert (E16 : up_alignZ 16 ha = ha).
  { unfold up_alignZ. replace (16 + ha - 1) with (15 + 1 * ha) by lia.
    unfold down_alignZ. rewrite Z.mod_add by lia. rewrite Z.mod_small by lia. lia. }
  pose proof (size_from_hint_facts up hs ha Hh hint) as (Hn16 & Hnha & Hnge & Hnhs & Hnbig).
  pose proof (size0_facts hs ha Hh hint) as (Hs0ge & Hs016 & Hs0ha).
  unfold spec_size_from_hint in *. unfold spec_size0 in *. unfold PAGE, OVH in *.
  remember (Z.max 4096 ha) as step eqn:Es.
  assert (Hst2 : pow2 step).
  { subst step. apply pow2_max; [exists 12; split; [lia|reflexivity]|assumption]. }
  assert (HstW : step < W) by lia.
  remember (Z.max hint (ha + hs)) as h eqn:Eh.
  assert (Hh48 : 48 <= h < W) by lia.
  remember (up_alignZ h step) as ua eqn:Eua.
  assert (Hua1 : h <= ua) by (subst ua; apply up_align_ge; lia).
  assert (Hua2 : W <= h + step - 1 -> W <= ua) by (subst ua; apply up_align_overflow; assumption).
  assert (Hua3 : ua < h + step) by (subst ua; apply up_align_lt; lia).
  assert (Hnp : h < step -> next_pow2Z h < W).
  { intros Hlt. pose proof (next_pow2_lt h ltac:(lia)). lia. }
  unfold calc_size_from_hint, mkcfg.
  cbn [csc_up csc_assumed_malloc_overhead_layout csc_chunk_header_layout lsize lalign].
  unfold MIN_CHUNK_ALIGN, ASSUMED_PAGE_SIZE.
  fold (mkcfg up hs ha).
  repeat first [ cx_step | progress change (0 + 16) with 16 | progress change (0 + 8 - 1) with 7
               | rewrite E0 | rewrite E16 | rewrite <- Es | rewrite <- Eh
               | rewrite (Z.max_comm ha 4096) | rewrite (Z.max_comm (ha + hs) hint)   (* either operand order in the source *)
               | cx_split ].
  all: try (unfold checked_next_pow2 in *; fold (next_pow2Z h) in *).
  all: repeat match goal with H : Some _ = Some _ |- _ => injection H as <- end.
  all: repeat first [ cx_step | rewrite <- Eua | cx_split ].
  all: repeat match goal with H : Some _ = Some _ |- _ => injection H as <- end.
  all: try rewrite <- Eua in *.
  all: first [ reflexivity | exfalso; lia | discriminate | (f_equal; f_equal; lia) ].
Qed.

(* ================= end to end over the generated code ================= *)
(* Whatever the generated size computations return for a layout is enough for that layout:
   for every hint at least as large as the computed one (minimum chunk size, doubling),
   every granted size and every suitably aligned base address, the fresh chunk's free
   range admits the request, in all four bump computations. *)
Theorem fresh_chunk_fits_gen up hs ha size align m h hint n g b :
  hdr_ok hs ha -> valid_layout size align -> valid_min_align m ->
  calc_hint_from_capacity (mkcfg up hs ha) (mkLayout size align) = Ok (Some h) ->
  h <= hint < W ->
  calc_size_from_hint (mkcfg up hs ha) hint = Ok (Some n) ->
  n <= g -> (ha | b) ->
  let u := spec_align_size up ha g in
  (up = true -> spec_up (b + hs) (b + u) m size align <> None /\
                spec_prep_up (b + hs) (b + u) size align <> None) /\
  (up = false -> spec_down b (b + u - hs) m size align <> None /\
                 ((align | size) -> spec_prep_down b (b + u - hs) size align <> None)).
Proof.
  intros Hh Hl Hm Eh Hhint En Hg Hb. cbv zeta.
  rewrite calc_hint_refines in Eh by assumption. cbv zeta in Eh.
  destruct (Z.ltb_spec (spec_hint up hs ha size align) W); [|discriminate].
  injection Eh as <-.
  assert (Hh0 : 0 <= spec_hint up hs ha size align).
  { destruct Hh as (_ & ? & _ & _ & ? & _). destruct Hl as (Ha2 & ? & _).
    unfold spec_hint, spec_hint_bytes, OVH. destruct up; [lia|].
    pose proof (up_align_ge (16 + (size + Z.max (align - ha) 0)) ha ltac:(lia)). lia. }
  rewrite calc_size_refines in En by (try assumption; lia).
  destruct (Z.ltb_spec (spec_size0 hs ha hint) W); [|discriminate].
  injection En as <-.
  pose proof (fresh_chunk_fits up hs ha Hh size align m Hl Hm hint g b ltac:(lia) Hg Hb) as [Hu Hd].
  split; intros Hup.
  - split; [apply Hu; assumption|]. eapply spec_prep_up_fits. apply Hu; assumption.
  - split; [apply Hd; assumption|]. intros Hmul.
    apply (spec_prep_down_fits _ _ m); try assumption. apply Hd; assumption.
Qed.

(* overflow is reported, never wrapped: a result is only ever the mathematical value *)
Corollary calc_size_never_wraps up hs ha hint n :
  hdr_ok hs ha -> 0 <= hint < W ->
  calc_size_from_hint (mkcfg up hs ha) hint = Ok (Some n) ->
  n = spec_size_from_hint up hs ha hint /\ 0 < n < W /\ (16 | n) /\ (up = false -> (ha | n)) /\
  hint - 16 <= n /\ hs <= n.
Proof.
  intros Hh Hhint En. rewrite calc_size_refines in En by assumption.
  destruct (Z.ltb_spec (spec_size0 hs ha hint) W) as [Hlt|]; [|discriminate].
  injection En as <-.
  pose proof (size_from_hint_facts up hs ha Hh hint) as (H16 & Hha & Hge & Hhs & _).
  pose proof (size0_facts hs ha Hh hint) as (Hs0 & _ & _).
  destruct Hh as (Hp & H16' & _ & _ & H32 & _).
  repeat split; try assumption; try lia.
  unfold spec_size_from_hint in *. destruct (up || (ha <=? 16)); [|lia].
  unfold spec_align_size, OVH.
  pose proof (down_align_le (spec_size0 hs ha hint - 16) (size_align up ha)
               (pow2_pos _ (size_align_pow2 up ha Hp))). lia.
Qed.
