(* CollsProofs.v — C06 (every element is dropped / handed out / kept exactly once, for EVERY
   oracle: a panic at any callback invocation, any panicking Drop) and C08 (the operations
   compute the std::vec::Vec list functions) over the model of Colls.v. *)
From Coq Require Import List Arith Bool Lia Permutation.
From BS Require Import Colls.
Import ListNotations.

(* every input element (and every element created by the operation) ends up in exactly one of:
   still owned by the collection, handed to the caller, dropped by the operation *)
Definition conserved (o : outcome) (input : list nat) : Prop :=
  Permutation (final o ++ yielded o ++ dropped o) input.

Lemma conserved_nodup o input : conserved o input -> NoDup input -> NoDup (final o ++ yielded o ++ dropped o).
Proof. intros H Hn. eapply Permutation_NoDup; [symmetry; exact H|exact Hn]. Qed.

Lemma skipn_skipn {A} (n m : nat) (l : list A) : skipn n (skipn m l) = skipn (n + m) l.
Proof.
  revert l; induction m as [|m IH]; intros l; [rewrite Nat.add_0_r; reflexivity|].
  destruct l as [|a l]; [rewrite !skipn_nil; reflexivity|].
  rewrite Nat.add_succ_r. cbn [skipn]. apply IH.
Qed.

Lemma NoDup_app_l {A} (l1 l2 : list A) : NoDup (l1 ++ l2) -> NoDup l1.
Proof.
  induction l1 as [|a l1 IH]; intros H; [constructor|]. inversion H as [|x xs Hn Hd]; subst.
  constructor; [intros Hin; apply Hn; apply in_or_app; left; exact Hin|apply IH; exact Hd].
Qed.

Lemma firstn_skipn_perm {A} (l : list A) n : Permutation (firstn n l ++ skipn n l) l.
Proof. rewrite firstn_skipn. reflexivity. Qed.

(* multiset reasoning: permutations of ++ / :: / rev combinations by counting occurrences *)
Lemma cons_as_app {A} (x : A) l : x :: l = [x] ++ l. Proof. reflexivity. Qed.
Ltac perm :=
  apply (Permutation_count_occ Nat.eq_dec); intros ?z;
  repeat match goal with |- context [?x :: ?l] =>
    lazymatch l with [] => fail | _ => rewrite (cons_as_app x l) end end;
  repeat rewrite ?count_occ_app, ?count_occ_rev;
  cbn [count_occ];
  try lia.

(* ---------------------------------------------------------------- simple operations *)
Theorem truncate_conserved dp l n : conserved (op_truncate dp l n) l.
Proof.
  unfold op_truncate, conserved. destruct (length l <=? n); cbn [final yielded dropped drop_all].
  - rewrite !app_nil_r. reflexivity.
  - cbn. rewrite firstn_skipn. reflexivity.
Qed.

Theorem truncate_spec dp l n : final (op_truncate dp l n) = firstn n l.
Proof.
  unfold op_truncate. destruct (Nat.leb_spec (length l) n); cbn [final drop_all]; [|reflexivity].
  symmetry. apply firstn_all2. exact H.
Qed.

Theorem pop_conserved l : conserved (op_pop l) l.
Proof.
  unfold op_pop, conserved. destruct (rev l) as [|x r] eqn:E; cbn [final yielded dropped].
  - rewrite !app_nil_r. reflexivity.
  - rewrite app_nil_r. assert (l = rev r ++ [x]) by (rewrite <- (rev_involutive l), E; reflexivity).
    subst l. reflexivity.
Qed.

Lemma nth_split {A} (l : list A) i x : nth_error l i = Some x -> l = firstn i l ++ x :: skipn (S i) l.
Proof.
  revert i; induction l as [|a l IH]; intros [|i] E; cbn in *; try discriminate.
  - injection E as ->. reflexivity.
  - f_equal. apply IH. exact E.
Qed.

Theorem remove_conserved l i : conserved (op_remove l i) l.
Proof.
  unfold op_remove, conserved. destruct (nth_error l i) as [x|] eqn:E; cbn [final yielded dropped].
  - rewrite (nth_split l i x E) at 3. perm.
  - rewrite !app_nil_r. reflexivity.
Qed.

Theorem remove_spec l i x : nth_error l i = Some x ->
  op_remove l i = mkOutcome (firstn i l ++ skipn (S i) l) [x] [] false 0.
Proof. intros E. unfold op_remove. rewrite E. reflexivity. Qed.

Theorem remove_panics_iff l i : unwound (op_remove l i) = true <-> length l <= i.
Proof.
  unfold op_remove. destruct (nth_error l i) eqn:E; cbn [unwound].
  - split; [discriminate|]. intros H. apply nth_error_None in H. congruence.
  - split; [intros _; apply nth_error_None; exact E|reflexivity].
Qed.

Lemma removelast_rev_cons {A} (l : list A) x r : rev l = x :: r -> l = rev r ++ [x] /\ removelast l = rev r.
Proof.
  intros E. assert (l = rev r ++ [x]) by (rewrite <- (rev_involutive l), E; reflexivity).
  split; [exact H|]. subst l. apply removelast_last.
Qed.

Theorem swap_remove_conserved l i : conserved (op_swap_remove l i) l.
Proof.
  unfold op_swap_remove, conserved. destruct (nth_error l i) as [x|] eqn:E.
  2:{ cbn [final yielded dropped]. rewrite !app_nil_r. reflexivity. }
  destruct (rev l) as [|lastx r] eqn:Er.
  { cbn [final yielded dropped]. rewrite !app_nil_r. reflexivity. }
  destruct (removelast_rev_cons l lastx r Er) as [Hl Hrl]. rewrite Hrl.
  destruct (Nat.eqb_spec (S i) (length l)) as [Hlast|Hnl]; cbn [final yielded dropped]; rewrite app_nil_r.
  - (* removing the last element *)
    assert (x = lastx).
    { rewrite Hl in E. rewrite nth_error_app2 in E by (rewrite Hl, app_length in Hlast; cbn in Hlast; lia).
      rewrite Hl, app_length in Hlast. cbn in Hlast. replace (i - length (rev r)) with 0 in E by lia. cbn in E. congruence. }
    subst x. rewrite Hl. reflexivity.
  - assert (Hi : i < length (rev r)).
    { apply nth_error_Some_lt in E || idtac. assert (i < length l) by (apply nth_error_Some; congruence).
      rewrite Hl, app_length in H. cbn in H. rewrite Hl, app_length in Hnl. cbn in Hnl. lia. }
    assert (Ex : nth_error (rev r) i = Some x) by (rewrite Hl in E; rewrite nth_error_app1 in E by exact Hi; exact E).
    rewrite Hl. set (m := rev r) in *.
    (* m = firstn i m ++ x :: skipn (S i) m *)
    assert (Hm : Permutation (firstn i m ++ lastx :: skipn (S i) m ++ [x]) (m ++ [lastx])).
    { clear - Ex. revert i Ex. induction m as [|a m IH]; intros [|i] Ex; cbn in *; try discriminate.
      - injection Ex as ->. rewrite Permutation_app_comm. cbn. rewrite perm_swap. constructor.
        apply Permutation_cons_append.
      - constructor. apply IH. exact Ex. }
    rewrite <- app_assoc. cbn [app]. exact Hm.
Qed.

Theorem insert_conserved l i x : conserved (op_insert l i x) (l ++ [x]).
Proof.
  unfold op_insert, conserved. destruct (length l <? i); cbn [final yielded dropped].
  - reflexivity.
  - rewrite <- (firstn_skipn i l) at 3. perm.
Qed.

Theorem insert_spec l i x : i <= length l ->
  op_insert l i x = mkOutcome (firstn i l ++ x :: skipn i l) [] [] false 0.
Proof. intros H. unfold op_insert. destruct (Nat.ltb_spec (length l) i); [lia|reflexivity]. Qed.

(* ---------------------------------------------------------------- retain *)
Lemma retain_go_conserved f dp : forall rest k kept dr,
  Permutation (final (retain_go f dp k kept rest dr) ++ yielded (retain_go f dp k kept rest dr) ++
               dropped (retain_go f dp k kept rest dr)) (kept ++ rest ++ dr).
Proof.
  induction rest as [|x r IH]; intros k kept dr; cbn [retain_go].
  - cbn. reflexivity.
  - destruct (f k x) as [[|]|].
    + rewrite IH. perm.
    + destruct (dp x).
      * cbn [final yielded dropped]. perm.
      * rewrite IH. perm.
    + cbn [final yielded dropped]. perm.
Qed.

Theorem retain_conserved f dp l : conserved (op_retain f dp l) l.
Proof. unfold conserved, op_retain. rewrite retain_go_conserved. cbn. rewrite app_nil_r. reflexivity. Qed.

(* without a panic retain is filter (C08), and it drops exactly the rejected elements in order *)
Lemma retain_go_spec (g : nat -> nat -> bool) dp : forall rest k kept dr,
  (forall x, dp x = false) ->
  retain_go (fun k x => Ret (g k x)) dp k kept rest dr =
  mkOutcome (kept ++ filter_k g k rest) [] (dr ++ filter_k (fun k x => negb (g k x)) k rest) false (k + length rest).
Proof.
  induction rest as [|x r IH]; intros k kept dr Hdp; cbn [retain_go filter_k length].
  - rewrite !app_nil_r, Nat.add_0_r. reflexivity.
  - destruct (g k x) eqn:E; cbn [negb].
    + rewrite IH by exact Hdp. rewrite <- app_assoc. cbn. f_equal. lia.
    + rewrite Hdp. rewrite IH by exact Hdp. rewrite <- app_assoc. cbn. f_equal. lia.
Qed.

Theorem retain_is_filter (g : nat -> nat -> bool) dp l :
  (forall x, dp x = false) ->
  final (op_retain (fun k x => Ret (g k x)) dp l) = filter_k g 0 l /\
  unwound (op_retain (fun k x => Ret (g k x)) dp l) = false.
Proof. intros H. unfold op_retain. rewrite retain_go_spec by exact H. split; reflexivity. Qed.

(* ---------------------------------------------------------------- dedup_by *)
Lemma dedup_go_conserved f dp : forall rest k kept prev dr,
  Permutation (final (dedup_go f dp k kept prev rest dr) ++ yielded (dedup_go f dp k kept prev rest dr) ++
               dropped (dedup_go f dp k kept prev rest dr)) (kept ++ rest ++ dr).
Proof.
  induction rest as [|x r IH]; intros k kept prev dr; cbn [dedup_go].
  - cbn. reflexivity.
  - destruct (f k x prev) as [[|]|].
    + destruct (dp x).
      * cbn [final yielded dropped]. perm.
      * rewrite IH. perm.
    + rewrite IH. perm.
    + cbn [final yielded dropped]. perm.
Qed.

Theorem dedup_conserved f dp l : conserved (op_dedup_by f dp l) l.
Proof.
  unfold conserved, op_dedup_by. destruct l as [|x r]; [reflexivity|].
  rewrite dedup_go_conserved. cbn. rewrite app_nil_r. reflexivity.
Qed.

Lemma dedup_go_spec (g : nat -> nat -> nat -> bool) dp : forall rest k kept prev dr,
  (forall x, dp x = false) ->
  final (dedup_go (fun k x p => Ret (g k x p)) dp k kept prev rest dr) = kept ++ dedup_ref g k prev rest /\
  unwound (dedup_go (fun k x p => Ret (g k x p)) dp k kept prev rest dr) = false.
Proof.
  induction rest as [|x r IH]; intros k kept prev dr Hdp; cbn [dedup_go dedup_ref].
  - rewrite app_nil_r. split; reflexivity.
  - destruct (g k x prev).
    + rewrite Hdp. apply IH. exact Hdp.
    + destruct (IH (S k) (kept ++ [x]) x dr Hdp) as [A B]. rewrite A, B, <- app_assoc. split; reflexivity.
Qed.

Theorem dedup_is_std (g : nat -> nat -> nat -> bool) dp x r :
  (forall y, dp y = false) ->
  final (op_dedup_by (fun k a p => Ret (g k a p)) dp (x :: r)) = x :: dedup_ref g 0 x r.
Proof. intros H. unfold op_dedup_by. destruct (dedup_go_spec g dp r 0 [x] x [] H) as [A _]. exact A. Qed.

(* ---------------------------------------------------------------- extract_if *)
Lemma extract_go_conserved f : forall rest k want kept ys,
  Permutation (final (extract_go f k want kept rest ys) ++ yielded (extract_go f k want kept rest ys) ++
               dropped (extract_go f k want kept rest ys)) (kept ++ rest ++ ys).
Proof.
  induction rest as [|x r IH]; intros k want kept ys; destruct want as [|w]; cbn [extract_go].
  - cbn [final yielded dropped]. perm.
  - cbn [final yielded dropped]. perm.
  - cbn [final yielded dropped]. perm.
  - destruct (f k x) as [[|]|].
    + rewrite IH. perm.
    + rewrite IH. perm.
    + cbn [final yielded dropped]. perm.
Qed.

Theorem extract_if_conserved f l want : conserved (op_extract_if f l want) l.
Proof. unfold conserved, op_extract_if. rewrite extract_go_conserved. cbn. rewrite app_nil_r. reflexivity. Qed.

(* run to the end without a panic: extracted = filter, kept = filter (not) — std's extract_if *)
Lemma extract_go_spec (g : nat -> nat -> bool) : forall rest k want kept ys,
  length rest < want ->
  extract_go (fun k x => Ret (g k x)) k want kept rest ys =
  mkOutcome (kept ++ filter_k (fun k x => negb (g k x)) k rest) (ys ++ filter_k g k rest) [] false (k + length rest).
Proof.
  induction rest as [|x r IH]; intros k want kept ys Hw; destruct want as [|w]; cbn [extract_go filter_k length] in *; try lia.
  - rewrite !app_nil_r, Nat.add_0_r. reflexivity.
  - destruct (g k x); cbn [negb].
    + rewrite IH by lia. rewrite <- app_assoc. cbn. f_equal. lia.
    + rewrite IH by lia. rewrite <- app_assoc. cbn. f_equal. lia.
Qed.

(* ---------------------------------------------------------------- drain *)
Lemma lastn_spec {A} (l : list A) n : n <= length l -> firstn (length l - n) l ++ lastn n l = l.
Proof. intros H. unfold lastn. apply firstn_skipn. Qed.

Theorem drain_conserved dp l a b kf kb e :
  e <> DrainForget -> conserved (op_drain dp l a b kf kb e) l.
Proof.
  intros He. unfold op_drain, conserved.
  destruct ((b <? a) || (length l <? b)) eqn:Eg; [cbn; rewrite !app_nil_r; reflexivity|].
  apply orb_false_iff in Eg. destruct Eg as [E1 E2]. apply Nat.ltb_ge in E1, E2.
  set (rng := firstn (b - a) (skipn a l)).
  assert (Hrl : length rng = b - a).
  { unfold rng. rewrite firstn_length, skipn_length. lia. }
  set (kf' := Nat.min kf (length rng)). set (kb' := Nat.min kb (length rng - kf')).
  assert (Hl : l = firstn a l ++ rng ++ skipn b l).
  { unfold rng. rewrite <- (firstn_skipn a l) at 1. f_equal.
    rewrite <- (firstn_skipn (b - a) (skipn a l)) at 1. f_equal. rewrite skipn_skipn. f_equal. lia. }
  (* the range splits into front ++ mid ++ back *)
  assert (Hr : rng = firstn kf' rng ++ firstn (length rng - kf' - kb') (skipn kf' rng) ++ lastn kb' rng).
  { rewrite <- (firstn_skipn kf' rng) at 1. f_equal.
    set (q := skipn kf' rng). assert (Hq : length q = length rng - kf') by (unfold q; rewrite skipn_length; lia).
    assert (Hkb : kb' <= length q) by (unfold kb'; lia).
    unfold lastn. rewrite <- (firstn_skipn (length q - kb') q) at 1.
    replace (length rng - kf' - kb') with (length q - kb') by lia. f_equal.
    (* skipn over rng vs q *)
    unfold q at 2. rewrite skipn_skipn. f_equal. unfold kf', kb' in *. lia. }
  set (head := firstn a l) in *. set (tail := skipn b l) in *.
  set (front := firstn kf' rng) in *. set (mid := firstn (length rng - kf' - kb') (skipn kf' rng)) in *.
  set (back := lastn kb' rng) in *. clearbody head tail front mid back.
  destruct e; [| |congruence]; cbn [final yielded dropped drop_all]; rewrite Hl; clearbody rng; subst rng; perm.
Qed.

(* a leaked Drain (mem::forget) never drops anything twice: what is kept and handed out are
   distinct input elements (the rest is leaked, which the property allows) *)
Theorem drain_forget_no_double dp l a b kf kb :
  NoDup l ->
  let o := op_drain dp l a b kf kb DrainForget in
  NoDup (final o ++ yielded o ++ dropped o) /\ incl (final o ++ yielded o ++ dropped o) l.
Proof.
  intros Hn. cbv zeta.
  pose proof (drain_conserved dp l a b kf kb DrainKeepRest ltac:(discriminate)) as Hc.
  unfold conserved, op_drain in *.
  destruct ((b <? a) || (length l <? b)); cbn [final yielded dropped] in *.
  - rewrite !app_nil_r in *. split; [exact Hn|apply incl_refl].
  - rewrite app_nil_r in *.
    set (head := firstn a l) in *. set (rng := firstn (b - a) (skipn a l)) in *.
    set (kf' := Nat.min kf (length rng)) in *. set (kb' := Nat.min kb (length rng - kf')) in *.
    set (ys := firstn kf' rng ++ rev (lastn kb' rng)) in *.
    set (mid := firstn (length rng - kf' - kb') (skipn kf' rng)) in *.
    assert (Hp : Permutation ((head ++ ys) ++ (mid ++ skipn b l)) l).
    { eapply Permutation_trans; [|exact Hc]. perm. }
    pose proof (Permutation_NoDup (Permutation_sym Hp) Hn) as Hnd.
    apply NoDup_app_l in Hnd. split; [exact Hnd|].
    intros x Hx. eapply Permutation_in; [exact Hp|]. apply in_or_app. left. exact Hx.
Qed.

Theorem drain_spec dp l a b : a <= b <= length l ->
  final (op_drain dp l a b (b - a) 0 DrainDrop) = firstn a l ++ skipn b l /\
  yielded (op_drain dp l a b (b - a) 0 DrainDrop) = firstn (b - a) (skipn a l).
Proof.
  intros [H1 H2]. unfold op_drain.
  destruct (Nat.ltb_spec b a); [lia|]. destruct (Nat.ltb_spec (length l) b); [lia|]. cbn [orb].
  set (rng := firstn (b - a) (skipn a l)).
  assert (Hrl : length rng = b - a) by (unfold rng; rewrite firstn_length, skipn_length; lia).
  replace (Nat.min (b - a) (length rng)) with (length rng) by lia.
  replace (Nat.min 0 (length rng - length rng)) with 0 by lia.
  cbn [drop_all final yielded]. split; [reflexivity|].
  unfold lastn. rewrite Nat.sub_0_r, skipn_all. cbn [rev]. rewrite app_nil_r. apply firstn_all.
Qed.

Theorem drain_panics_iff dp l a b kf kb e :
  unwound (op_drain dp l a b kf kb e) = true -> e = DrainDrop \/ (b < a \/ length l < b).
Proof.
  unfold op_drain. destruct (Nat.ltb_spec b a); [right; left; exact H|].
  destruct (Nat.ltb_spec (length l) b); [right; right; exact H0|]. cbn [orb].
  destruct e; cbn; [left; reflexivity|discriminate|discriminate].
Qed.

(* ---------------------------------------------------------------- split_off (C16) *)
(* the rotate-in-place code computes: kept = elements outside the range, in order;
   split off = the range, in order *)
Lemma firstn_app_exact {A} (x y : list A) n : n = length x -> firstn n (x ++ y) = x.
Proof. intros ->. rewrite firstn_app, Nat.sub_diag, firstn_all. cbn. apply app_nil_r. Qed.

Lemma skipn_app_exact {A} (x y : list A) n : n = length x -> skipn n (x ++ y) = y.
Proof. intros ->. rewrite skipn_app, Nat.sub_diag, skipn_all. reflexivity. Qed.

Lemma rotate_left_app {A} (x y : list A) n : n = length x -> rotate_left (x ++ y) n = y ++ x.
Proof. intros H. unfold rotate_left. rewrite skipn_app_exact, firstn_app_exact by exact H. reflexivity. Qed.

Theorem split_off_code_spec {A} (l : list A) a b : a <= b <= length l ->
  split_off_code l a b = (firstn a l ++ skipn b l, firstn (b - a) (skipn a l)).
Proof.
  intros [H1 H2]. unfold split_off_code.
  destruct (Nat.eqb_spec b (length l)) as [->|Hb].
  { rewrite skipn_all, app_nil_r. f_equal. rewrite firstn_all2; [reflexivity|]. rewrite skipn_length. lia. }
  destruct (Nat.eqb_spec a 0) as [->|Ha].
  { cbn [firstn app skipn]. rewrite Nat.sub_0_r. reflexivity. }
  destruct (Nat.eqb_spec a b) as [->|Hab].
  { rewrite Nat.sub_diag. cbn [firstn]. rewrite firstn_skipn. reflexivity. }
  assert (Hsplit : l = firstn a l ++ firstn (b - a) (skipn a l) ++ skipn b l).
  { rewrite <- (firstn_skipn a l) at 1. f_equal.
    rewrite <- (firstn_skipn (b - a) (skipn a l)) at 1. f_equal. rewrite skipn_skipn. f_equal. lia. }
  set (h := firstn a l) in *. set (r := firstn (b - a) (skipn a l)) in *. set (t := skipn b l) in *.
  assert (Lh : length h = a) by (unfold h; rewrite firstn_length; lia).
  assert (Lr : length r = b - a) by (unfold r; rewrite firstn_length, skipn_length; lia).
  assert (Lt : length t = length l - b) by (unfold t; rewrite skipn_length; reflexivity).
  assert (Fb : firstn b l = h ++ r).
  { rewrite Hsplit. rewrite app_assoc. apply firstn_app_exact. rewrite app_length. lia. }
  assert (Sa : skipn a l = r ++ t).
  { rewrite Hsplit. apply skipn_app_exact. lia. }
  clearbody h r t.
  destruct (a <? length l - b).
  - unfold rotate_right. rewrite Fb.
    rewrite (rotate_left_app h r) by (rewrite app_length; lia).
    rewrite <- app_assoc. rewrite skipn_app_exact, firstn_app_exact by lia. reflexivity.
  - rewrite Sa. rewrite (rotate_left_app r t) by lia.
    rewrite app_assoc. rewrite firstn_app_exact, skipn_app_exact by (rewrite app_length; lia). reflexivity.
Qed.

Theorem split_off_conserved l a b : conserved (op_split_off l a b) l.
Proof.
  unfold op_split_off, conserved.
  destruct ((b <? a) || (length l <? b)) eqn:Eg; [cbn; rewrite !app_nil_r; reflexivity|].
  apply orb_false_iff in Eg. destruct Eg as [E1 E2]. apply Nat.ltb_ge in E1, E2.
  rewrite split_off_code_spec by lia. cbn [final yielded dropped].
  assert (Hsplit : l = firstn a l ++ firstn (b - a) (skipn a l) ++ skipn b l).
  { rewrite <- (firstn_skipn a l) at 1. f_equal.
    rewrite <- (firstn_skipn (b - a) (skipn a l)) at 1. f_equal. rewrite skipn_skipn. f_equal. lia. }
  rewrite Hsplit at 4. perm.
Qed.

Theorem split_off_panics_iff l a b : unwound (op_split_off l a b) = true <-> (b < a \/ length l < b).
Proof.
  unfold op_split_off. destruct (Nat.ltb_spec b a); destruct (Nat.ltb_spec (length l) b); cbn [orb unwound];
    try (split; [intros _; lia|reflexivity]).
  destruct (split_off_code l a b). cbn. split; [discriminate|lia].
Qed.

(* ---------------------------------------------------------------- extend with clones *)
Lemma extend_go_conserved cl : forall ids k acc,
  exists made, final (extend_go cl k acc ids) = acc ++ made /\ exists rest, ids = made ++ rest /\
    (unwound (extend_go cl k acc ids) = false -> rest = []).
Proof.
  induction ids as [|x r IH]; intros k acc; cbn [extend_go].
  - exists []. rewrite app_nil_r. split; [reflexivity|]. exists []. split; [reflexivity|auto].
  - destruct (cl k).
    + exists []. cbn. rewrite app_nil_r. split; [reflexivity|]. exists (x :: r). split; [reflexivity|discriminate].
    + destruct (IH (S k) (acc ++ [x])) as (made & Hf & rest & Hr & Hu).
      exists (x :: made). rewrite Hf, <- app_assoc. split; [reflexivity|]. exists rest. split; [rewrite Hr; reflexivity|exact Hu].
Qed.


Lemma extend_go_shape cl : forall ids k acc,
  yielded (extend_go cl k acc ids) = [] /\ dropped (extend_go cl k acc ids) = [].
Proof.
  induction ids as [|x r IH]; intros k acc; cbn [extend_go].
  - split; reflexivity.
  - destruct (cl k); [split; reflexivity|apply IH].
Qed.

Lemma extend_go_quiet : forall ids k acc,
  extend_go (fun _ => false) k acc ids = mkOutcome (acc ++ ids) [] [] false (k + length ids).
Proof.
  induction ids as [|x r IH]; intros k acc; cbn [extend_go].
  - rewrite app_nil_r, Nat.add_0_r. reflexivity.
  - rewrite IH, <- app_assoc. cbn [length app]. f_equal. lia.
Qed.

(* a producer-driven growth conserves: the vector holds its old elements and exactly the
   productions that completed, nothing is dropped or handed out *)
Theorem extend_clones_conserved cl l ids :
  exists made rest, ids = made ++ rest /\ conserved (op_extend_clones cl l ids) (l ++ made) /\
    final (op_extend_clones cl l ids) = l ++ made /\
    (unwound (op_extend_clones cl l ids) = false -> rest = []).
Proof.
  unfold op_extend_clones, conserved.
  destruct (extend_go_conserved cl ids 0 l) as (made & Hf & rest & Hr & Hu).
  destruct (extend_go_shape cl ids 0 l) as (Hy & Hd).
  exists made, rest. rewrite Hy, Hd, Hf, !app_nil_r. repeat split; auto.
Qed.

Theorem extend_iter_conserved nx l ids :
  exists made rest, ids = made ++ rest /\ conserved (op_extend_iter nx l ids) (l ++ made) /\
    final (op_extend_iter nx l ids) = l ++ made /\
    (unwound (op_extend_iter nx l ids) = false -> rest = []).
Proof. exact (extend_clones_conserved nx l ids). Qed.

Theorem extend_is_std l ids : final (op_extend_iter (fun _ => false) l ids) = l ++ ids /\
  unwound (op_extend_iter (fun _ => false) l ids) = false.
Proof. unfold op_extend_iter. rewrite extend_go_quiet. split; reflexivity. Qed.

Theorem resize_with_conserved f dp l new_len ids :
  exists made rest, firstn (new_len - length l) ids = made ++ rest /\
    conserved (op_resize_with f dp l new_len ids) (l ++ made) /\
    (unwound (op_resize_with f dp l new_len ids) = false -> rest = []).
Proof.
  unfold op_resize_with. destruct (Nat.leb_spec new_len (length l)) as [Hle|Hgt].
  - exists [], []. replace (new_len - length l) with 0 by lia.
    split; [reflexivity|]. split; [rewrite app_nil_r; apply truncate_conserved|auto].
  - destruct (extend_clones_conserved f l (firstn (new_len - length l) ids)) as (made & rest & Hr & Hc & _ & Hu).
    exists made, rest. repeat split; assumption.
Qed.

Theorem resize_with_is_std dp l new_len ids : new_len - length l <= length ids ->
  let o := op_resize_with (fun _ => false) dp l new_len ids in
  final o = firstn new_len l ++ firstn (new_len - length l) ids /\ length (final o) = new_len.
Proof.
  intros Hn. unfold op_resize_with. destruct (Nat.leb_spec new_len (length l)) as [Hle|Hgt]; cbv zeta.
  - rewrite truncate_spec. replace (new_len - length l) with 0 by lia. cbn [firstn]. rewrite app_nil_r.
    split; [reflexivity|]. rewrite firstn_length. lia.
  - rewrite extend_go_quiet. cbn [final]. rewrite (@firstn_all2 _ new_len l) by lia. split; [reflexivity|].
    rewrite app_length, firstn_length. lia.
Qed.

Theorem resize_conserved cl dp l new_len ids v :
  exists made rest, firstn (new_len - length l - 1) ids = made ++ rest /\
    conserved (op_resize cl dp l new_len ids v) (l ++ made ++ [v]) /\
    (unwound (op_resize cl dp l new_len ids v) = false -> length l < new_len -> rest = []).
Proof.
  unfold op_resize. destruct (Nat.leb_spec new_len (length l)) as [Hle|Hgt].
  - exists [], []. replace (new_len - length l - 1) with 0 by lia. split; [reflexivity|]. split; [|intros _ H; lia].
    pose proof (truncate_conserved dp l new_len) as Hc. unfold conserved in *. cbn [final yielded dropped app] in *.
    cbn [yielded] in Hc.
    assert (Hy : yielded (op_truncate dp l new_len) = []).
    { unfold op_truncate. destruct (length l <=? new_len); [reflexivity|]. cbn. reflexivity. }
    rewrite Hy in Hc. cbn [app] in Hc. rewrite app_assoc. apply Permutation_app_tail. exact Hc.
  - set (ids' := firstn (new_len - length l - 1) ids).
    destruct (extend_go_conserved cl ids' 0 l) as (made & Hf & rest & Hr & Hu).
    destruct (extend_go_shape cl ids' 0 l) as (Hy & Hd).
    exists made, rest. split; [exact Hr|].
    destruct (unwound (extend_go cl 0 l ids')) eqn:Hw; unfold conserved; cbn [final yielded dropped unwound app].
    + rewrite Hf. split; [|discriminate]. rewrite <- app_assoc. reflexivity.
    + rewrite Hf. split; [|intros _ _; apply Hu; reflexivity]. rewrite app_nil_r, <- app_assoc. reflexivity.
Qed.

Theorem resize_is_std dp l new_len ids v : new_len - length l - 1 <= length ids ->
  let o := op_resize (fun _ => false) dp l new_len ids v in
  (length l < new_len -> final o = l ++ firstn (new_len - length l - 1) ids ++ [v] /\ dropped o = []) /\
  (new_len <= length l -> final o = firstn new_len l) /\ length (final o) = new_len.
Proof.
  intros Hn. unfold op_resize. destruct (Nat.leb_spec new_len (length l)) as [Hle|Hgt]; cbv zeta.
  - cbn [final]. rewrite truncate_spec. split; [intros H; lia|]. split; [reflexivity|]. rewrite firstn_length. lia.
  - rewrite extend_go_quiet. cbn [unwound final dropped]. split; [intros _; rewrite <- app_assoc; split; reflexivity|].
    split; [intros H; lia|]. rewrite !app_length, firstn_length. cbn [length]. lia.
Qed.

Theorem map_conserved l k : conserved (op_map l k) l.
Proof.
  unfold op_map, conserved. destruct k as [k|]; [destruct (k <? length l)|]; cbn; rewrite ?app_nil_r; reflexivity.
Qed.

Theorem map_keeps_all_or_nothing l k :
  (unwound (op_map l k) = false -> final (op_map l k) = l /\ dropped (op_map l k) = []) /\
  (unwound (op_map l k) = true -> final (op_map l k) = [] /\ dropped (op_map l k) = l).
Proof.
  unfold op_map. destruct k as [k|]; [destruct (k <? length l)|]; cbn; split; intros H; try discriminate; split; reflexivity.
Qed.

Theorem dedup_by_key_conserved key dp l : conserved (op_dedup_by_key key dp l) l.
Proof. apply dedup_conserved. Qed.

(* with a key function that never panics this is std's dedup_by_key: an element goes when its key
   equals the key of the last element kept *)
Theorem dedup_by_key_is_std (kf : nat -> nat) dp x r :
  (forall y, dp y = false) ->
  final (op_dedup_by_key (fun _ e => Some (kf e)) dp (x :: r)) =
  x :: dedup_ref (fun _ e prev => kf e =? kf prev) 0 x r.
Proof.
  intros H. unfold op_dedup_by_key.
  exact (dedup_is_std (fun _ e prev => kf e =? kf prev) dp x r H).
Qed.

(* ---------------------------------------------------------------- into_iter / splice / map_in_place / append *)
Theorem into_iter_conserved dp l kf kb : conserved (op_into_iter dp l kf kb) l.
Proof. unfold op_into_iter. apply drain_conserved. discriminate. Qed.

Theorem into_iter_leaves_nothing dp l kf kb : final (op_into_iter dp l kf kb) = [].
Proof.
  unfold op_into_iter, op_drain. replace ((length l <? 0) || (length l <? length l)) with false
    by (symmetry; apply orb_false_iff; split; apply Nat.ltb_ge; lia).
  cbn [firstn skipn app]. destruct (drop_all dp _). cbn. rewrite skipn_all. reflexivity.
Qed.

Theorem splice_conserved dp l a b repl take : conserved (op_splice dp l a b repl take) (l ++ repl).
Proof.
  unfold op_splice, conserved.
  destruct ((b <? a) || (length l <? b)) eqn:Eg; [cbn [final yielded dropped app]; reflexivity|].
  apply orb_false_iff in Eg. destruct Eg as [E1 E2]. apply Nat.ltb_ge in E1, E2.
  cbn [drop_all final yielded dropped].
  set (rng := firstn (b - a) (skipn a l)). set (t := Nat.min take (length rng)).
  assert (Hsplit : l = firstn a l ++ rng ++ skipn b l).
  { unfold rng. rewrite <- (firstn_skipn a l) at 1. f_equal.
    rewrite <- (firstn_skipn (b - a) (skipn a l)) at 1. f_equal. rewrite skipn_skipn. f_equal. lia. }
  assert (Hr : rng = firstn t rng ++ skipn t rng) by (symmetry; apply firstn_skipn).
  assert (C1 : forall z, count_occ Nat.eq_dec l z =
             count_occ Nat.eq_dec (firstn a l) z + count_occ Nat.eq_dec rng z + count_occ Nat.eq_dec (skipn b l) z).
  { intros z. rewrite Hsplit at 1. rewrite !count_occ_app. lia. }
  assert (C2 : forall z, count_occ Nat.eq_dec rng z =
             count_occ Nat.eq_dec (firstn t rng) z + count_occ Nat.eq_dec (skipn t rng) z).
  { intros z. rewrite Hr at 1. rewrite count_occ_app. lia. }
  apply (Permutation_count_occ Nat.eq_dec). intros z. rewrite !count_occ_app, (C1 z), (C2 z). lia.
Qed.

Theorem splice_spec dp l a b repl take : a <= b <= length l ->
  final (op_splice dp l a b repl take) = firstn a l ++ repl ++ skipn b l.
Proof.
  intros H. unfold op_splice.
  replace ((b <? a) || (length l <? b)) with false by (symmetry; apply orb_false_iff; split; apply Nat.ltb_ge; lia).
  cbn [drop_all]. reflexivity.
Qed.

Theorem map_in_place_conserved l k : conserved (op_map_in_place l k) l.
Proof.
  unfold op_map_in_place, conserved. destruct k as [k|]; [destruct (k <? length l)|]; cbn; rewrite ?app_nil_r; reflexivity.
Qed.

Theorem append_conserved l other : conserved (op_append l other) (l ++ other).
Proof. unfold op_append, conserved. cbn. rewrite !app_nil_r. reflexivity. Qed.

(* mirroring keeps conservation (MutBumpVecRev) *)
Theorem mirror_conserved o input : conserved o input -> conserved (mirror o) input.
Proof.
  unfold conserved, mirror. cbn [final yielded dropped]. intros H. rewrite <- H. perm.
Qed.

(* non-vacuity: a retain whose predicate panics on the third call, with a panicking Drop nowhere *)
Example retain_example :
  op_retain (fun k x => if k =? 2 then Panic else Ret (Nat.even x)) (fun _ => false) [10; 11; 12; 13] =
  mkOutcome [10; 12; 13] [] [11] true 3.
Proof. reflexivity. Qed.

(* ---------------------------------------------------------------- zero-sized element types *)
Theorem drain_zst_conserved dp l a b kf kb : conserved (op_drain_zst true dp l a b kf kb) l.
Proof. unfold op_drain_zst. apply drain_conserved. discriminate. Qed.

(* the pinned code dropped elements twice: three elements, drain(0..2) dropped unused *)
Theorem drain_zst_pinned_refuted :
  exists l a b kf kb, ~ conserved (op_drain_zst false (fun _ => false) l a b kf kb) l /\
                      dropped (op_drain_zst false (fun _ => false) l a b kf kb) = [0; 1; 0; 1].
Proof.
  exists [0; 1; 2], 0, 2, 0, 0. split; [|vm_compute; reflexivity].
  intros H. apply Permutation_length in H. vm_compute in H. discriminate.
Qed.

Lemma fill_go_spec cl : forall ids k made,
  let '(m, p, _) := fill_go cl k made ids in
  exists done rest, m = made ++ done /\ ids = done ++ rest /\ (p = false -> rest = []).
Proof.
  induction ids as [|x r IH]; intros k made; cbn [fill_go].
  - exists [], []. rewrite app_nil_r. repeat split; reflexivity.
  - destruct (cl k).
    + exists [], (x :: r). rewrite app_nil_r. split; [reflexivity|]. split; [reflexivity|discriminate].
    + specialize (IH (S k) (made ++ [x])). destruct (fill_go cl (S k) (made ++ [x]) r) as [[m p] k'].
      destruct IH as (done & rest & E1 & E2 & E3). exists (x :: done), rest.
      split; [rewrite E1, <- app_assoc; reflexivity|]. split; [cbn; f_equal; exact E2|exact E3].
Qed.

(* repaired alloc_slice_fill of a zero-sized type: every element that came into existence — the
   clones made before a panic and the value — is kept or dropped exactly once *)
Theorem fill_zst_conserved cl ids v :
  exists done, Permutation (final (op_fill_zst true cl ids v) ++ yielded (op_fill_zst true cl ids v) ++ dropped (op_fill_zst true cl ids v)) (done ++ [v]) /\
               exists rest, ids = done ++ rest /\ (unwound (op_fill_zst true cl ids v) = false -> rest = []).
Proof.
  unfold op_fill_zst. pose proof (fill_go_spec cl ids 0 []) as H. destruct (fill_go cl 0 [] ids) as [[m p] k].
  destruct H as (done & rest & E1 & E2 & E3). cbn [app] in E1. subst m. exists done.
  destruct p; cbn [final yielded dropped unwound app]; rewrite ?app_nil_r; (split; [apply Permutation_refl|]); exists rest; split; try exact E2; try discriminate.
  intros _. apply E3. reflexivity.
Qed.

(* the pinned code lost the clones made before the panic: 3 clones wanted, the third panics *)
Theorem fill_zst_pinned_refuted :
  exists cl ids v, unwound (op_fill_zst false cl ids v) = true /\
    final (op_fill_zst false cl ids v) ++ yielded (op_fill_zst false cl ids v) ++ dropped (op_fill_zst false cl ids v) = [v] /\
    dropped (op_fill_zst true cl ids v) = [0; 1; v].
Proof. exists (fun k => Nat.eqb k 2), [0; 1; 2], 9. vm_compute. repeat split; reflexivity. Qed.
