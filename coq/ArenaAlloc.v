(* ArenaAlloc.v — C13: the allocated byte count never decreases through an allocation, a
   prepare / fill / commit, or an in-place growth; it can only go down through reclaiming the
   newest block, leaving a scope, or a reset (the operations that are NOT covered here). *)
From Coq Require Import ZArith List Lia Bool.
From BS Require Import Word BumpSpec ChunkSpec Arena ArenaInv ArenaStats ArenaExt ArenaInv2 ArenaReplay ArenaFill.
Import ListNotations.
Open Scope Z_scope.

Definition alloc_bytes (c : cfg) (s : arena) : Z := st_allocated (arena_stats c s).

Lemma capacity_geomt c a b : geomt a = geomt b -> capacity c a = capacity c b.
Proof.
  unfold geomt, capacity, content_end, content_start. intros H. injection H as -> -> _ _. reflexivity.
Qed.

Lemma chunk_ok_bounds c ch : chunk_ok c ch -> 0 <= allocated_in c ch <= capacity c ch.
Proof. intros [_ H]. unfold allocated_in, capacity. destruct (up c); lia. Qed.

Lemma sumZ_firstn_nonneg (l : list Z) : Forall (fun x => 0 <= x) l -> forall j, 0 <= sumZ (firstn j l).
Proof.
  induction 1 as [|x t Hx Ht IH]; intros j; [rewrite firstn_nil; cbn; lia|].
  destruct j as [|j]; [cbn; lia|]. specialize (IH j). unfold sumZ in *. cbn [firstn fold_right]. lia.
Qed.

Lemma sumZ_firstn_le (l : list Z) : Forall (fun x => 0 <= x) l ->
  forall i j, (i <= j)%nat -> sumZ (firstn i l) <= sumZ (firstn j l).
Proof.
  induction 1 as [|x t Hx Ht IH]; intros i j Hij; [rewrite !firstn_nil; lia|].
  destruct i as [|i], j as [|j]; try lia.
  - pose proof (sumZ_firstn_nonneg t Ht j) as Hn. unfold sumZ in *. cbn [firstn fold_right]. lia.
  - assert (Hle : (i <= j)%nat) by lia. specialize (IH i j Hle). unfold sumZ in *. cbn [firstn fold_right]. lia.
Qed.

Lemma sumZ_firstn_S (l : list Z) i x : nth_error l i = Some x -> sumZ (firstn (S i) l) = sumZ (firstn i l) + x.
Proof.
  revert i. induction l as [|y t IH]; intros [|i] H; cbn in H; try discriminate.
  - injection H as ->. cbn. lia.
  - specialize (IH i H). unfold sumZ in *. cbn [firstn fold_right] in *. lia.
Qed.

Lemma nth_error_firstn_lt {A} (l : list A) : forall n i, (i < n)%nat -> nth_error (firstn n l) i = nth_error l i.
Proof.
  induction l as [|x t IH]; intros [|n] [|i] H; cbn; try reflexivity; try lia. apply IH. lia.
Qed.

Lemma nth_error_ext_firstn {A} (a b : list A) : forall i, (forall k, (k < i)%nat -> nth_error a k = nth_error b k) -> firstn i a = firstn i b.
Proof.
  revert b. induction a as [|x a IH]; intros b i H.
  - destruct i as [|i]; [rewrite !firstn_O; reflexivity|]. destruct b as [|y b]; [reflexivity|]. specialize (H 0%nat ltac:(lia)). discriminate.
  - destruct i as [|i]; [reflexivity|]. destruct b as [|y b]; [specialize (H 0%nat ltac:(lia)); discriminate|].
    pose proof (H 0%nat ltac:(lia)) as H0. cbn in H0. injection H0 as ->. cbn [firstn]. f_equal. apply IH. intros k Hk. apply (H (S k)). lia.
Qed.

Lemma alloc_bytes_cur c s i ch : cur s = Cur i -> nth_error (chunks s) i = Some ch ->
  alloc_bytes c s = allocated_in c ch + sumZ (firstn i (map (capacity c) (chunks s))).
Proof.
  intros Ec En. unfold alloc_bytes, arena_stats, cur_chunk, chunks_before. rewrite Ec, En. cbn [st_allocated].
  rewrite firstn_map. reflexivity.
Qed.

(* the general step: the current chunk does not move backwards, the geometry of the old chunks is
   kept, and IF the same chunk is still current its allocated part has not shrunk *)
Lemma alloc_bytes_mono c s s' i :
  Forall (chunk_ok c) (chunks s) -> Forall (chunk_ok c) (chunks s') ->
  cur s = Cur i -> (i < length (chunks s))%nat -> mono i s s' ->
  (forall chi chi', cur s' = Cur i -> nth_error (chunks s) i = Some chi -> nth_error (chunks s') i = Some chi' ->
     allocated_in c chi <= allocated_in c chi') ->
  alloc_bytes c s <= alloc_bytes c s'.
Proof.
  intros Hok Hok' Ec Hi ([t Et] & _ & Hpre & (j & Ec' & Hij & Hj)) Hsame.
  destruct (nth_error (chunks s) i) as [chi|] eqn:Eni; [|apply nth_error_None in Eni; lia].
  destruct (nth_error (chunks s') j) as [chj|] eqn:Enj; [|apply nth_error_None in Enj; lia].
  rewrite (alloc_bytes_cur c s i chi Ec Eni), (alloc_bytes_cur c s' j chj Ec' Enj).
  pose proof (chunk_ok_bounds c chi (Forall_nth_error _ _ _ _ Hok Eni)) as Bi.
  pose proof (chunk_ok_bounds c chj (Forall_nth_error _ _ _ _ Hok' Enj)) as Bj.
  (* capacities of the old indices are the same in both lists *)
  assert (Hcap : firstn (length (chunks s)) (map (capacity c) (chunks s')) = map (capacity c) (chunks s)).
  { assert (E : map (capacity c) (chunks s') = map (capacity c) (chunks s) ++ map (fun g => let '(b, sz, _, _) := g in if up c then sz - hs c else sz - hs c) t).
    { assert (Hc : forall l, map (capacity c) l = map (fun g => let '(b, sz, _, _) := g in if up c then sz - hs c else sz - hs c) (geoms l)).
      { intros l. unfold geoms. rewrite map_map. apply map_ext. intros ch. unfold geomt, capacity, content_end, content_start. destruct (up c); lia. }
      rewrite (Hc (chunks s')), Et, map_app, <- Hc. reflexivity. }
    rewrite E, firstn_app, map_length, Nat.sub_diag, firstn_O, app_nil_r. apply firstn_all2. rewrite map_length. lia. }
  assert (Hnn : Forall (fun x => 0 <= x) (map (capacity c) (chunks s'))).
  { apply Forall_forall. intros x Hx. apply in_map_iff in Hx. destruct Hx as (ch & <- & Hin).
    pose proof (chunk_ok_bounds c ch (proj1 (Forall_forall _ _) Hok' ch Hin)). lia. }
  assert (Hfi : firstn i (map (capacity c) (chunks s')) = firstn i (map (capacity c) (chunks s))).
  { rewrite <- Hcap, firstn_firstn. f_equal. lia. }
  destruct (Nat.eq_dec j i) as [->|Hne].
  - rewrite Hfi. specialize (Hsame chi chj Ec' eq_refl Enj). lia.
  - (* a later chunk is current: the whole old current chunk counts as allocated *)
    assert (Hcapi : nth_error (map (capacity c) (chunks s')) i = Some (capacity c chi)).
    { assert (Hx : nth_error (firstn (length (chunks s)) (map (capacity c) (chunks s'))) i = Some (capacity c chi)).
      { rewrite Hcap. rewrite nth_error_map, Eni. reflexivity. }
      rewrite nth_error_firstn_lt in Hx by lia. exact Hx. }
    pose proof (sumZ_firstn_S _ _ _ Hcapi) as HS.
    pose proof (sumZ_firstn_le _ Hnn (S i) j ltac:(lia)) as Hle.
    rewrite Hfi in HS. lia.
Qed.

(* the walk over later chunks leaves every chunk up to the starting one as it is *)
Lemma walk_next_prefix {R} c (f : chunk -> option (R * chunk)) :
  forall fuel cs i cs' j res, walk_next c f cs i fuel = (cs', j, res) ->
  (i <= j)%nat /\ (forall k, (k <= i)%nat -> nth_error cs' k = nth_error cs k) /\ (res <> None -> (i < j)%nat).
Proof.
  induction fuel as [|fuel IH]; intros cs i cs' j res H.
  - cbn in H. injection H as <- <- <-. split; [lia|]. split; [reflexivity|congruence].
  - cbn [walk_next] in H. destruct (nth_error cs (S i)) as [ch|] eqn:En.
    2:{ injection H as <- <- <-. split; [lia|]. split; [reflexivity|congruence]. }
    destruct (f (reset_chunk c ch)) as [[p ch1]|] eqn:Ef.
    + injection H as <- <- <-. split; [lia|]. split; [|intros _; lia]. intros k Hk. apply nth_error_set_nth_neq. lia.
    + destruct (IH _ _ _ _ _ H) as (Hij & Hpre & Hres). split; [lia|]. split; [|intros Hr; specialize (Hres Hr); lia].
      intros k Hk. rewrite (Hpre k ltac:(lia)). apply nth_error_set_nth_neq. lia.
Qed.

Lemma walk_next_length {R} c (f : chunk -> option (R * chunk)) :
  forall fuel cs i cs' j res, walk_next c f cs i fuel = (cs', j, res) -> length cs' = length cs.
Proof.
  induction fuel as [|fuel IH]; intros cs i cs' j res H.
  - cbn in H. injection H as <- _ _. reflexivity.
  - cbn [walk_next] in H. destruct (nth_error cs (S i)) as [ch|]; [|injection H as <- _ _; reflexivity].
    destruct (f (reset_chunk c ch)) as [[p ch1]|].
    + injection H as <- _ _. apply set_nth_length.
    + rewrite (IH _ _ _ _ _ H). apply set_nth_length.
Qed.

(* the slow path never touches the chunk that was current: if that chunk is still current
   afterwards, it is unchanged *)
Lemma in_another_chunk_same_chunk {R} c s i size align (f : chunk -> option (R * chunk)) r s' res :
  (i < length (chunks s))%nat -> in_another_chunk c s (Cur i) size align f r = (s', res) ->
  cur s' = Cur i -> nth_error (chunks s') i = nth_error (chunks s) i.
Proof.
  intros Hi H Ec'. unfold in_another_chunk in H.
  destruct (walk_next c f (chunks s) i (length (chunks s))) as [[cs j] wres] eqn:Ew.
  destruct (walk_next_prefix c f _ _ _ _ _ _ Ew) as (Hij & Hpre & Hres).
  pose proof (walk_next_length c f _ _ _ _ _ _ Ew) as Hlen.
  destruct wres as [p|].
  - injection H as <- _. cbn [chunks upd_cur upd_chunks]. apply Hpre. lia.
  - set (s0 := upd_cur (upd_chunks s cs) (Cur j)) in *.
    destruct (grow_arena c s0 size align r) as [s1 [e|]] eqn:Eg.
    + injection H as <- _. cbn [chunks upd_cur].
      unfold grow_arena in Eg. destruct (new_chunk_size c _ size align) as [n|]; [|injection Eg as <- _; cbn [chunks upd_cur upd_chunks s0]; apply Hpre; lia].
      destruct r as [[addr g]|]; [discriminate|]. injection Eg as <- _. cbn [chunks upd_cur upd_chunks log_event s0]. apply Hpre. lia.
    + (* a chunk was appended and is current: its index is not i *)
      exfalso. unfold grow_arena in Eg. destruct (new_chunk_size c _ size align) as [n|]; [|discriminate].
      destruct r as [[addr g]|]; [|discriminate]. injection Eg as <-.
      cbn [cur chunks upd_cur upd_chunks log_event s0] in H. rewrite nth_error_app_last in H.
      destruct (f (make_chunk c n addr g)) as [[p ch1]|]; injection H as <- _; cbn [cur upd_chunks upd_cur log_event] in Ec'; injection Ec' as Ex; lia.
Qed.

(* the same, from weaker facts: the chunks below the old current one are kept, the old current
   chunk keeps its capacity, the current chunk does not move backwards *)
Lemma alloc_bytes_mono_prefix c s s' i j chi chi' :
  Forall (chunk_ok c) (chunks s') -> chunk_ok c chi ->
  cur s = Cur i -> nth_error (chunks s) i = Some chi ->
  (forall k, (k < i)%nat -> nth_error (chunks s') k = nth_error (chunks s) k) ->
  nth_error (chunks s') i = Some chi' -> capacity c chi' = capacity c chi ->
  cur s' = Cur j -> (i <= j < length (chunks s'))%nat ->
  (j = i -> allocated_in c chi <= allocated_in c chi') ->
  alloc_bytes c s <= alloc_bytes c s'.
Proof.
  intros Hok' Hoki Ec Eni Hpre Eni' Hcap Ec' Hj Hsame.
  destruct (nth_error (chunks s') j) as [chj|] eqn:Enj; [|apply nth_error_None in Enj; lia].
  rewrite (alloc_bytes_cur c s i chi Ec Eni), (alloc_bytes_cur c s' j chj Ec' Enj).
  pose proof (chunk_ok_bounds c chi Hoki) as Bi.
  pose proof (chunk_ok_bounds c chj (Forall_nth_error _ _ _ _ Hok' Enj)) as Bj.
  assert (Hnn : Forall (fun x => 0 <= x) (map (capacity c) (chunks s'))).
  { apply Forall_forall. intros x Hx. apply in_map_iff in Hx. destruct Hx as (ch & <- & Hin).
    pose proof (chunk_ok_bounds c ch (proj1 (Forall_forall _ _) Hok' ch Hin)). lia. }
  assert (Hfi : firstn i (map (capacity c) (chunks s')) = firstn i (map (capacity c) (chunks s))).
  { rewrite !firstn_map. f_equal. apply nth_error_ext_firstn. intros k Hk. apply Hpre. exact Hk. }
  destruct (Nat.eq_dec j i) as [->|Hne].
  - rewrite Hfi. rewrite Eni' in Enj. injection Enj as <-. specialize (Hsame eq_refl). lia.
  - assert (Hcapi : nth_error (map (capacity c) (chunks s')) i = Some (capacity c chi)) by (rewrite nth_error_map, Eni'; cbn; congruence).
    pose proof (sumZ_firstn_S _ _ _ Hcapi) as HS.
    pose proof (sumZ_firstn_le _ Hnn (S i) j ltac:(lia)) as Hle.
    rewrite Hfi in HS. lia.
Qed.

Lemma capacity_same_geom c a b : same_geom a b -> capacity c b = capacity c a.
Proof. intros (E1 & E2 & _). unfold capacity, content_end, content_start. rewrite E1, E2. reflexivity. Qed.

(* an allocation inside a chunk moves the position forward *)
Lemma chunk_alloc_advances c m ch size align p ch1 :
  0 <= size -> 0 < align -> 0 < m ->
  chunk_alloc c m ch size align = Some (p, ch1) -> allocated_in c ch <= allocated_in c ch1.
Proof.
  intros Hs Ha Hm H. unfold chunk_alloc in H. unfold allocated_in. destruct (up c) eqn:Eup.
  - unfold spec_up in H. destruct ((cpos ch <=? content_end c ch) && (up_alignZ (cpos ch) align + size <=? content_end c ch)); [|discriminate].
    injection H as _ <-. cbn [cpos set_pos]. unfold content_start. rewrite Eup. cbn [cbase set_pos].
    pose proof (up_align_ge (cpos ch) align Ha). pose proof (up_align_ge (up_alignZ (cpos ch) align + size) m Hm). lia.
  - unfold spec_down in H. destruct ((content_start c ch <=? cpos ch) && (content_start c ch <=? down_alignZ (cpos ch - size) (Z.max align m))); [|discriminate].
    injection H as _ <-. cbn [cpos set_pos]. unfold content_end. rewrite Eup. cbn [cbase csize set_pos].
    pose proof (down_align_le (cpos ch - size) (Z.max align m) ltac:(lia)). lia.
Qed.

Theorem raw_alloc_never_decreases c s i size align r s' res :
  cfg_ok c -> ginv c s -> valid_layout size align -> resp_ok c s size align r -> cur s = Cur i ->
  raw_alloc c s size align r = (s', res) -> alloc_bytes c s <= alloc_bytes c s'.
Proof.
  intros Hc Hg Hl Hr Ec H. pose proof Hg as (Hok & _ & Hm & Hcur). rewrite Ec in Hcur. destruct Hcur as (chi & Eni & _).
  pose proof (nth_error_some_lt _ _ _ Eni) as Hi.
  destruct (raw_alloc_post c s size align r s' res Hc Hg Hl Hr H) as (_ & Hg' & _).
  destruct (raw_alloc_prefix c s i chi size align r s' res false Hc Hg Hl Ec Eni H) as (Hpre & (chi' & Eni' & Hsg) & (j & Ec' & Hij)).
  pose proof Hg' as (Hok' & _ & _ & Hcur'). rewrite Ec' in Hcur'. destruct Hcur' as (chj & Enj & _).
  apply (alloc_bytes_mono_prefix c s s' i j chi chi' Hok' (Forall_nth_error _ _ _ _ Hok Eni) Ec Eni Hpre Eni' (capacity_same_geom c _ _ Hsg) Ec').
  - split; [exact Hij|eapply nth_error_some_lt; exact Enj].
  - intros ->. destruct Hl as (Ha2 & Hs0 & _). pose proof (pow2_pos _ Ha2) as Hap. pose proof (min_align_pos _ Hm) as Hmp.
    unfold raw_alloc in H. rewrite Ec, Eni in H.
    destruct (chunk_alloc c (malign s) chi size align) as [[p ch1]|] eqn:Ef.
    + injection H as <- _. cbn [chunks upd_chunks] in Eni'. rewrite nth_error_set_nth_eq in Eni' by exact Hi. injection Eni' as <-.
      exact (chunk_alloc_advances c (malign s) chi size align p ch1 Hs0 Hap Hmp Ef).
    + pose proof (in_another_chunk_same_chunk c s i size align _ r s' res Hi H Ec') as E. rewrite Eni, Eni' in E. injection E as ->. lia.
Qed.

(* ---------------------------------------------------------------- a relation that composes *)
(* `adv c i s s'`: seen from chunk i (the current one of s), the arena only advanced *)
Definition adv (c : cfg) (i : nat) (s s' : arena) : Prop :=
  (forall k, (k < i)%nat -> nth_error (chunks s') k = nth_error (chunks s) k) /\
  (exists chi chi', nth_error (chunks s) i = Some chi /\ nth_error (chunks s') i = Some chi' /\ same_geom chi chi' /\
     (cur s' = Cur i -> allocated_in c chi <= allocated_in c chi')) /\
  (exists j, cur s' = Cur j /\ (i <= j)%nat).

Lemma adv_same c i s s' chi :
  nth_error (chunks s) i = Some chi -> chunks s' = chunks s -> cur s' = Cur i -> adv c i s s'.
Proof.
  intros En Ech Ec. split; [intros k _; rewrite Ech; reflexivity|]. split.
  - exists chi, chi. rewrite Ech. split; [exact En|]. split; [exact En|]. split; [apply same_geom_refl|lia].
  - exists i. split; [exact Ec|lia].
Qed.

Lemma same_geom_trans a b d : same_geom a b -> same_geom b d -> same_geom a d.
Proof. unfold same_geom. intuition congruence. Qed.

Lemma adv_trans c i j s s1 s2 :
  adv c i s s1 -> cur s1 = Cur j -> adv c j s1 s2 -> adv c i s s2.
Proof.
  intros (P1 & (a & a1 & Ea & Ea1 & G1 & S1) & (j1 & Ej1 & L1)) Ej (P2 & (b & b2 & Eb & Eb2 & G2 & S2) & (j2 & Ej2 & L2)).
  assert (j1 = j) by congruence. subst j1.
  split; [intros k Hk; rewrite (P2 k ltac:(lia)); apply P1; exact Hk|]. split.
  - destruct (Nat.eq_dec j i) as [->|Hne].
    + rewrite Ea1 in Eb. injection Eb as <-. exists a, b2. split; [exact Ea|]. split; [exact Eb2|]. split; [eapply same_geom_trans; eassumption|].
      intros E. specialize (S1 Ej). specialize (S2 E). lia.
    + exists a, a1. split; [exact Ea|]. split; [rewrite (P2 i ltac:(lia)); exact Ea1|]. split; [exact G1|].
      intros E. exfalso. rewrite Ej2 in E. injection E as ->. lia.
  - exists j2. split; [exact Ej2|lia].
Qed.

Lemma adv_alloc_bytes c i s s' :
  ginv c s -> ginv c s' -> cur s = Cur i -> adv c i s s' -> alloc_bytes c s <= alloc_bytes c s'.
Proof.
  intros (Hok & _) (Hok' & _ & _ & Hcur') Ec (P & (chi & chi' & Ea & Ea' & G & S) & (j & Ej & L)).
  rewrite Ej in Hcur'. destruct Hcur' as (chj & Enj & _).
  apply (alloc_bytes_mono_prefix c s s' i j chi chi' Hok' (Forall_nth_error _ _ _ _ Hok Ea) Ec Ea P Ea' (capacity_same_geom c _ _ G) Ej).
  - split; [exact L|eapply nth_error_some_lt; exact Enj].
  - intros ->. apply S. exact Ej.
Qed.

(* moving the position of the current chunk forward *)
Lemma adv_set_cur_pos c s i ch p :
  cur s = Cur i -> nth_error (chunks s) i = Some ch ->
  (if up c then cpos ch <= p else p <= cpos ch) -> adv c i s (set_cur_pos s p).
Proof.
  intros Ec En Hp. destruct (set_cur_pos_fields s i ch p Ec En) as (E1 & E2 & _).
  pose proof (nth_error_some_lt _ _ _ En) as Hi.
  split; [intros k Hk; rewrite E1; apply nth_error_set_nth_neq; lia|]. split.
  - exists ch, (set_pos ch p). split; [exact En|]. split; [rewrite E1; apply nth_error_set_nth_eq; exact Hi|].
    split; [repeat split|]. intros _. unfold allocated_in, content_start, content_end. cbn [cpos cbase csize set_pos]. destruct (up c); lia.
  - exists i. split; [rewrite E2; exact Ec|lia].
Qed.

(* the slow path *)
Lemma adv_in_another_chunk {R} c s i (f : chunk -> option (R * chunk)) size align r s1 res :
  cfg_ok c -> ginv c s -> cur s = Cur i ->
  (forall ch p ch1, chunk_ok c ch -> (malign s | cpos ch) -> f ch = Some (p, ch1) ->
     chunk_ok c ch1 /\ same_geom ch ch1 /\ (malign s | cpos ch1) /\ True) ->
  in_another_chunk c s (Cur i) size align f r = (s1, res) -> adv c i s s1.
Proof.
  intros Hc Hg Ec Hf H. destruct (in_another_chunk_prefix c s i f size align r s1 res Hc Hg Ec Hf H) as (P & J).
  pose proof Hg as (_ & _ & _ & Hcur). rewrite Ec in Hcur. destruct Hcur as (chi & Eni & _).
  split; [intros k Hk; apply P; lia|]. split; [|exact J].
  exists chi, chi. split; [exact Eni|]. split; [rewrite (P i (le_n _)); exact Eni|]. split; [apply same_geom_refl|lia].
Qed.

Lemma adv_raw_alloc c s i size align r s' res :
  cfg_ok c -> ginv c s -> valid_layout size align -> cur s = Cur i ->
  raw_alloc c s size align r = (s', res) -> adv c i s s'.
Proof.
  intros Hc Hg Hl Ec H. pose proof Hg as (Hok & _ & Hm & Hcur). rewrite Ec in Hcur. destruct Hcur as (chi & Eni & Hmpi).
  pose proof (nth_error_some_lt _ _ _ Eni) as Hi.
  assert (Hf : forall ch p ch1, chunk_ok c ch -> (malign s | cpos ch) -> chunk_alloc c (malign s) ch size align = Some (p, ch1) ->
            chunk_ok c ch1 /\ same_geom ch ch1 /\ (malign s | cpos ch1) /\ True).
  { intros ch p ch1 Hcok Hcm Hfe. destruct (chunk_alloc_geom c _ ch size align p ch1 Hc Hcok Hm Hcm Hl Hfe) as (A & B & C & _). split; [exact A|]. split; [exact B|]. split; [exact C|exact I]. }
  unfold raw_alloc in H. rewrite Ec, Eni in H.
  destruct (chunk_alloc c (malign s) chi size align) as [[p ch1]|] eqn:Ef.
  - injection H as <- _. cbn [chunks cur upd_chunks].
    destruct (Hf _ _ _ (Forall_nth_error _ _ _ _ Hok Eni) Hmpi Ef) as (_ & G & _).
    destruct Hl as (Ha2 & Hs0 & _). pose proof (pow2_pos _ Ha2) as Hap. pose proof (min_align_pos _ Hm) as Hmp.
    split; [intros k Hk; apply nth_error_set_nth_neq; lia|]. split.
    + exists chi, ch1. split; [exact Eni|]. split; [apply nth_error_set_nth_eq; exact Hi|]. split; [exact G|].
      intros _. exact (chunk_alloc_advances c (malign s) chi size align p ch1 Hs0 Hap Hmp Ef).
    + exists i. split; [exact Ec|lia].
  - exact (adv_in_another_chunk c s i _ size align r s' res Hc Hg Ec Hf H).
Qed.

Lemma adv_ext c i s s1 s2 : chunks s2 = chunks s1 -> cur s2 = cur s1 -> adv c i s s1 -> adv c i s s2.
Proof. intros E1 E2 (P & Q & J). unfold adv. rewrite E1, E2. split; [exact P|]. split; [exact Q|exact J]. Qed.

Lemma adv_raw_alloc_slow c s i size align r s' res :
  cfg_ok c -> ginv c s -> valid_layout size align -> cur s = Cur i ->
  raw_alloc_slow c s size align r = (s', res) -> adv c i s s'.
Proof.
  intros Hc Hg Hl Ec H. pose proof Hg as (_ & _ & Hm & _). unfold raw_alloc_slow in H. rewrite Ec in H.
  apply (adv_in_another_chunk c s i (fun ch => chunk_alloc c (malign s) ch size align) size align r s' res Hc Hg Ec); [|exact H].
  intros ch p ch1 Hcok Hcm Hfe. destruct (chunk_alloc_geom c _ ch size align p ch1 Hc Hcok Hm Hcm Hl Hfe) as (A & B & C & _).
  split; [exact A|]. split; [exact B|]. split; [exact C|exact I].
Qed.

(* grow / grow_zeroed of a block, in place or moved *)
Lemma adv_raw_grow c s i ptr osize oalign nsize nalign r s' res :
  cfg_ok c -> ginv c s -> valid_layout nsize nalign -> 0 <= osize <= nsize -> cur s = Cur i ->
  raw_grow c s ptr osize oalign nsize nalign r = (s', res) -> adv c i s s'.
Proof.
  intros Hc Hg Hl Hsz Ec H. pose proof Hg as (Hok & _ & Hm & Hcur). rewrite Ec in Hcur. destruct Hcur as (chi & Eni & _).
  pose proof (min_align_pos _ Hm) as Hmp.
  assert (Ecc : cur_chunk s = Some chi) by (unfold cur_chunk; rewrite Ec; exact Eni).
  assert (Hmoved : forall x s1 res1,
            (match x with
             | (s1, inl np) => let '(s2, ub) := copy_block s1 ptr np osize true in (s2, inl (mkRO np nsize ub))
             | (s1, inr e) => (s1, inr e)
             end) = (s', res) -> x = (s1, res1) -> adv c i s s1 -> adv c i s s').
  { intros [sx [np|e]] s1 res1 Hx Ex A; injection Ex as -> _.
    - unfold copy_block in Hx. injection Hx as <- _. eapply adv_ext; [| |exact A]; reflexivity.
    - injection Hx as <- _. exact A. }
  unfold raw_grow in H. rewrite Ecc in H. unfold is_last in H. rewrite Ecc in H.
  destruct (up c) eqn:Eup.
  - destruct ((ptr + osize =? cpos chi) && divides nalign ptr) eqn:Elast.
    + apply andb_prop in Elast. destruct Elast as [El _]. apply Z.eqb_eq in El.
      destruct (nsize <=? content_end c chi - ptr).
      * injection H as <- _. apply (adv_set_cur_pos c s i chi _ Ec Eni). rewrite Eup.
        pose proof (up_align_ge (ptr + nsize) (malign s) Hmp). lia.
      * destruct (raw_alloc_slow c s nsize nalign r) as [s1 res1] eqn:Ea.
        exact (Hmoved (s1, res1) s1 res1 H eq_refl (adv_raw_alloc_slow c s i nsize nalign r s1 res1 Hc Hg Hl Ec Ea)).
    + destruct (raw_alloc c s nsize nalign r) as [s1 res1] eqn:Ea.
      exact (Hmoved (s1, res1) s1 res1 H eq_refl (adv_raw_alloc c s i nsize nalign r s1 res1 Hc Hg Hl Ec Ea)).
  - destruct (ptr =? cpos chi) eqn:Elast.
    + apply Z.eqb_eq in Elast.
      set (new_addr := down_alignZ (Z.max (ptr - (nsize - osize)) 0) (Z.max nalign (malign s))) in *.
      destruct (content_start c chi <=? new_addr).
      * unfold copy_block in H. injection H as <- _.
        apply (adv_ext c i s (set_cur_pos s new_addr)).
        -- unfold set_cur_pos. cbn [cur upd_mem chunks]. rewrite Ec, Eni. reflexivity.
        -- unfold set_cur_pos. cbn [cur upd_mem chunks]. rewrite Ec, Eni. reflexivity.
        -- apply (adv_set_cur_pos c s i chi _ Ec Eni). rewrite Eup.
           pose proof (down_align_le (Z.max (ptr - (nsize - osize)) 0) (Z.max nalign (malign s)) ltac:(lia)) as Hd. fold new_addr in Hd.
           pose proof (Forall_nth_error _ _ _ _ Hok Eni) as [Hgeo Hpos].
           pose proof (geom_bounds c Hc chi Hgeo) as (H0 & _). lia.
      * destruct (raw_alloc_slow c s nsize nalign r) as [s1 res1] eqn:Ea.
        exact (Hmoved (s1, res1) s1 res1 H eq_refl (adv_raw_alloc_slow c s i nsize nalign r s1 res1 Hc Hg Hl Ec Ea)).
    + destruct (raw_alloc c s nsize nalign r) as [s1 res1] eqn:Ea.
      exact (Hmoved (s1, res1) s1 res1 H eq_refl (adv_raw_alloc c s i nsize nalign r s1 res1 Hc Hg Hl Ec Ea)).
Qed.

(* ---------------------------------------------------------------- operations *)
(* the operations that are not a reclaim of the newest block, a shrink, a scope exit or a reset *)
Definition growing (o : op) : Prop :=
  match o with
  | OAlloc _ _ _ _ _ | OGrow _ _ _ _ _ _ | OFill _ _ | OCheckpoint _ | OStats _
  | OPrepare _ _ _ _ _ | OWriteRaw _ _ _ | OCommit _ _ _ _ _ _ _ _ | OAlignPush _ _ | OAlignPop _ | OReserve _ _
  | OClaim _ | OUnclaim => True
  | _ => False
  end.

Lemma adv_add_block c i s s1 p sz al : adv c i s s1 -> adv c i s (fst (add_block s1 p sz al)).
Proof. intros A. eapply adv_ext; [| |exact A]; reflexivity. Qed.

Theorem step_adv c s0 o r i :
  cfg_ok c -> inv c s0 -> cur s0 = Cur i -> growing o -> op_ok2 c s0 o -> adv c i s0 (fst (step c s0 o r)).
Proof.
  intros Hc Hinv Ec Hgr Hok. pose proof Hinv as (Hg & Hblk & _). pose proof Hg as (Hokc & _ & Hm & Hcur).
  rewrite Ec in Hcur. destruct Hcur as (chi & Eni & Hmpi).
  assert (Hsame : forall s1, chunks s1 = chunks s0 -> cur s1 = cur s0 -> adv c i s0 s1).
  { intros s1 E1 E2. apply (adv_same c i s0 s1 chi Eni E1). rewrite E2. exact Ec. }
  assert (Hgt : ginv c (tick s0)) by (apply inv_tick in Hinv; exact (proj1 Hinv)).
  assert (Ect : cur (tick s0) = Cur i) by exact Ec.
  assert (Enit : nth_error (chunks (tick s0)) i = Some chi) by exact Eni.
  destruct o; try destruct Hgr; cbn [step]; set (s := tick s0) in *.
  - (* OAlloc *)
    destruct (negb (is_top s h)); [apply Hsame; reflexivity|].
    cbn [op_ok2 op_ok] in Hok.
    destruct (raw_alloc c s size align r) as [s1 [p|e]] eqn:Ea;
      pose proof (adv_raw_alloc c s i size align r s1 _ Hc Hgt Hok Ect Ea) as A.
    + destruct (add_block (if zeroed then zero_fill s1 p size else s1) p size align) as [s3 id] eqn:Eadd. cbn [fst].
      assert (E3 : s3 = fst (add_block (if zeroed then zero_fill s1 p size else s1) p size align)) by (rewrite Eadd; reflexivity).
      rewrite E3. eapply adv_ext; [| |exact A]; destruct zeroed; reflexivity.
    + exact A.
  - (* OGrow *)
    destruct (find_block s b) as [blk|] eqn:Efb; [|apply Hsame; reflexivity].
    destruct (negb (is_top s h)); [apply Hsame; reflexivity|].
    cbn [op_ok2 op_ok] in Hok. destruct Hok as [Hl Hsz]. specialize (Hsz blk Efb).
    destruct (find_block_spec s b blk Efb) as [Hin _].
    assert (H0 : 0 <= bsize blk) by (rewrite Forall_forall in Hblk; destruct (Hblk blk Hin) as (B0 & _); exact B0).
    destruct (raw_grow c s (bptr blk) (bsize blk) (balign blk) nsize nalign r) as [s1 [ro|e]] eqn:Eg;
      pose proof (adv_raw_grow c s i _ _ _ _ _ r s1 _ Hc Hgt Hl (conj H0 Hsz) Ect Eg) as A.
    + match goal with |- context [add_block ?a ?b0 ?c0 ?d] => destruct (add_block a b0 c0 d) as [s3 id] eqn:Eadd end. cbn [fst].
      match type of Eadd with add_block ?a ?b0 ?c0 ?d = _ => assert (E3 : s3 = fst (add_block a b0 c0 d)) by (rewrite Eadd; reflexivity) end.
      rewrite E3. eapply adv_ext; [| |exact A]; destruct zeroed; reflexivity.
    + exact A.
  - (* OFill *)
    destruct (find_block s b); apply Hsame; reflexivity.
  - (* OCheckpoint *) apply Hsame; reflexivity.
  - (* OReserve: chunks may be appended behind the last one, the current chunk pointer stays *)
    destruct (negb (is_top s h)); [apply Hsame; reflexivity|].
    rewrite Ect, Enit.
    match goal with |- context [if ?b then _ else _] => destruct b end; [apply Hsame; reflexivity|].
    match goal with |- context [if ?b then _ else _] => destruct b end; [apply Hsame; reflexivity|].
    match goal with |- context [grow_arena c s ?a ?b ?r0] => destruct (grow_arena c s a b r0) as [s1 oe] eqn:Eg end.
    assert (A : adv c i s0 (upd_cur s1 (Cur i))).
    { unfold grow_arena in Eg. destruct (new_chunk_size c _ _ 1) as [n0|]; [|injection Eg as <- _; apply Hsame; [reflexivity|exact (eq_sym Ec)]].
      destruct r as [[addr g]|]; injection Eg as <- _.
      - pose proof (nth_error_some_lt _ _ _ Eni) as Hi.
        split; [intros k Hk; cbn [chunks upd_cur upd_chunks log_event]; apply nth_error_app1; change (chunks s) with (chunks s0); lia|]. split.
        + exists chi, chi. split; [exact Eni|]. split; [cbn [chunks upd_cur upd_chunks log_event]; rewrite nth_error_app1 by (change (chunks s) with (chunks s0); lia); exact Eni|].
          split; [apply same_geom_refl|lia].
        + exists i. split; [reflexivity|lia].
      - apply Hsame; [reflexivity|exact (eq_sym Ec)]. }
    destruct oe; exact A.
  - (* OStats *) destruct (is_top s h); apply Hsame; reflexivity.
  - (* OAlignPush *)
    cbn [op_ok2] in Hok. pose proof (min_align_pos _ Hok) as Hnp.
    assert (Ecc : cur_chunk s = Some chi) by (unfold cur_chunk; rewrite Ect; exact Eni).
    destruct (malign s <? n).
    + rewrite Ecc. eapply adv_ext; [| |apply (adv_set_cur_pos c s i chi (align_posZ (up c) n (cpos chi)) Ect Eni)]; try reflexivity.
      unfold align_posZ. destruct (up c).
      * apply up_align_ge. exact Hnp.
      * apply down_align_le. exact Hnp.
    + apply Hsame; reflexivity.
  - (* OAlignPop: leaving an aligned region re-aligns forward *)
    cbn [op_ok2] in Hok. destruct (aligns s) as [|inner [|outer rest]] eqn:Ea; try (apply Hsame; reflexivity).
    change (aligns s0) with (aligns s) in Hok. rewrite Ea in Hok. destruct Hok as [Hv _]. pose proof (min_align_pos _ Hv) as Hop.
    destruct (realign && (inner <? outer)); [|apply Hsame; reflexivity].
    assert (Ecc : cur_chunk (upd_aligns s (outer :: rest)) = Some chi) by (unfold cur_chunk; cbn [cur upd_aligns chunks]; rewrite Ect; exact Eni).
    rewrite Ecc. cbn [fst].
    apply (adv_ext c i s0 (set_cur_pos s (align_posZ (up c) outer (cpos chi)))).
    + unfold set_cur_pos. cbn [cur upd_aligns chunks]. rewrite Ect, Enit. reflexivity.
    + unfold set_cur_pos. cbn [cur upd_aligns chunks]. rewrite Ect, Enit. reflexivity.
    + apply (adv_set_cur_pos c s i chi _ Ect Eni). unfold align_posZ. destruct (up c); [apply up_align_ge|apply down_align_le]; exact Hop.
  - (* OPrepare *)
    destruct (negb (is_top s h)); [apply Hsame; reflexivity|].
    destruct (IMAX <? es * cap + (ea - 1)); [apply Hsame; reflexivity|].
    destruct (raw_prepare_range c s (es * cap) ea r) as [s1 res] eqn:Ep.
    destruct (prepare_keeps_positions c s i (es * cap) ea r s1 res Hc Hgt Ect Ep) as (P1 & P2).
    assert (A : adv c i s0 s1).
    { split; [intros k Hk; apply P1; lia|]. split; [|exact P2].
      exists chi, chi. split; [exact Eni|]. split; [rewrite (P1 i (le_n _)); exact Eni|]. split; [apply same_geom_refl|lia]. }
    destruct res as [[st en]|e]; exact A.
  - (* OWriteRaw *) apply Hsame; reflexivity.
  - (* OCommit *)
    cbn [op_ok2] in Hok. destruct Hok as (Hes & Hlen & Hea & _ & _ & (i' & ch' & Ec' & En' & Hrange)).
    assert (i' = i) by congruence. subst i'. assert (ch' = chi) by congruence. subst ch'.
    assert (Hb : 0 <= len * es) by nia.
    pose proof (fun x => commit_pos_bounds c (malign s) ea dyn x Hm) as Hcp.
    assert (Hfin : forall s2 p sz al, adv c i s0 s2 -> adv c i s0 (fst (let '(s3, id) := add_block s2 p sz al in (s3, mkOut (RBlock id p sz) (new_events s s3) false)))).
    { intros s2 p sz al A. destruct (add_block s2 p sz al) as [s3 id] eqn:Eadd. cbn [fst].
      assert (E3 : s3 = fst (add_block s2 p sz al)) by (rewrite Eadd; reflexivity). rewrite E3. apply adv_add_block. exact A. }
    destruct rev, (up c) eqn:Eup; cbn [fst].
    + apply Hfin. eapply adv_ext; [| |apply (adv_set_cur_pos c s i chi (commit_pos c (malign s) ea dyn (ptr - cap * es + len * es)) Ect Eni)].
      * unfold set_cur_pos. cbn [cur upd_mem chunks]. rewrite Ect, Enit. reflexivity.
      * unfold set_cur_pos. cbn [cur upd_mem chunks]. rewrite Ect, Enit. reflexivity.
      * rewrite Eup. pose proof (Hcp (ptr - cap * es + len * es)) as Hx. cbv beta iota in Hx. lia.
    + apply Hfin. apply (adv_set_cur_pos c s i chi _ Ect Eni). rewrite Eup. pose proof (Hcp (ptr - len * es)) as Hx. cbv beta iota in Hx. lia.
    + apply Hfin. apply (adv_set_cur_pos c s i chi _ Ect Eni). rewrite Eup. pose proof (Hcp (ptr + len * es)) as Hx. cbv beta iota in Hx. lia.
    + apply Hfin. eapply adv_ext; [| |apply (adv_set_cur_pos c s i chi (commit_pos c (malign s) ea dyn (ptr + cap * es - len * es)) Ect Eni)].
      * unfold set_cur_pos. cbn [cur upd_mem chunks]. rewrite Ect, Enit. reflexivity.
      * unfold set_cur_pos. cbn [cur upd_mem chunks]. rewrite Ect, Enit. reflexivity.
      * rewrite Eup. pose proof (Hcp (ptr + cap * es - len * es)) as Hx. cbv beta iota in Hx. lia.
  - (* OClaim *) destruct (is_top s h); apply Hsame; reflexivity.
  - (* OUnclaim *) apply Hsame; reflexivity.
Qed.

(* C13: none of these operations lets the allocated byte count go down *)
Theorem growing_step_never_decreases_allocated c s0 o r i :
  cfg_ok c -> inv c s0 -> cur s0 = Cur i -> growing o -> op_ok2 c s0 o -> op_resp_ok2 c s0 o r ->
  alloc_bytes c s0 <= alloc_bytes c (fst (step c s0 o r)).
Proof.
  intros Hc Hinv Ec Hgr Hok Hr.
  pose proof (step_inv c s0 o r Hc Hinv Hok Hr) as (Hg' & _).
  apply (adv_alloc_bytes c i s0 _ (proj1 Hinv) Hg' Ec). apply step_adv; assumption.
Qed.

(* ---------------------------------------------------------------- shrink under an opt-out
   "with SHRINKS=false / WithoutShrink a shrink never decreases it": a shrink through the
   WithoutShrink wrapper, or with the SHRINKS setting off, either leaves the arena as it is (the
   block already satisfies the new alignment) or allocates a new block and copies; the allocated
   byte count never goes down *)
Lemma adv_moved c i s s' (ptr nsize len : Z) (x : arena * (Z + err)) res :
  (match x with
   | (s1, inl np) => let '(s2, ub) := copy_block s1 ptr np len true in (s2, inl (mkRO np nsize ub))
   | (s1, inr e) => (s1, inr e)
   end) = (s', res) -> adv c i s (fst x) -> adv c i s s'.
Proof.
  destruct x as [sx [np|e]]; cbn [fst]; intros Hx A.
  - unfold copy_block in Hx. injection Hx as <- _. eapply adv_ext; [| |exact A]; reflexivity.
  - injection Hx as <- _. exact A.
Qed.

Lemma adv_ws_shrink c s i chi ptr osize oalign nsize nalign r s' res :
  cfg_ok c -> ginv c s -> valid_layout nsize nalign -> cur s = Cur i -> nth_error (chunks s) i = Some chi ->
  ws_shrink c s ptr osize oalign nsize nalign r = (s', res) -> adv c i s s'.
Proof.
  intros Hc Hg Hl Ec Eni H. unfold ws_shrink in H.
  destruct (divides nalign ptr).
  - injection H as <- _. apply (adv_same c i s s chi Eni); [reflexivity|exact Ec].
  - destruct (raw_alloc c s nsize nalign r) as [s1 res1] eqn:Ea.
    pose proof (adv_raw_alloc c s i nsize nalign r s1 res1 Hc Hg Hl Ec Ea) as A.
    destruct res1 as [np|e].
    + destruct (copy_block s1 ptr np (if fix_without_shrink c then nsize else osize) true) as [s2 ub] eqn:Ecb.
      injection H as <- _. unfold copy_block in Ecb. injection Ecb as <- _.
      eapply adv_ext; [| |exact A]; reflexivity.
    + injection H as <- _. exact A.
Qed.

Lemma adv_raw_shrink_setting_off c s i chi ptr osize oalign nsize nalign r s' res :
  cfg_ok c -> ginv c s -> valid_layout nsize nalign -> cur s = Cur i -> nth_error (chunks s) i = Some chi ->
  shrinks c = false ->
  raw_shrink c s ptr osize oalign nsize nalign r = (s', res) -> adv c i s s'.
Proof.
  intros Hc Hg Hl Ec Eni Hs H. unfold raw_shrink in H. rewrite Hs in H. cbn [andb negb orb] in H.
  destruct (negb (divides nalign ptr)).
  - destruct (raw_alloc c s nsize nalign r) as [s1 res1] eqn:Ea.
    pose proof (adv_raw_alloc c s i nsize nalign r s1 res1 Hc Hg Hl Ec Ea) as A.
    exact (adv_moved c i s s' ptr nsize nsize (s1, res1) res H A).
  - injection H as <- _. apply (adv_same c i s s chi Eni); [reflexivity|exact Ec].
Qed.

Definition shrink_opted_out (c : cfg) (o : op) : Prop :=
  match o with
  | OShrink _ ws _ _ _ => has_wrapper WShrink ws = true \/ shrinks c = false
  | _ => False
  end.

Theorem optout_shrink_adv c s0 o r i :
  cfg_ok c -> inv c s0 -> cur s0 = Cur i -> shrink_opted_out c o -> op_ok2 c s0 o -> adv c i s0 (fst (step c s0 o r)).
Proof.
  intros Hc Hinv Ec Hopt Hok. pose proof Hinv as (Hg & Hblk & _). pose proof Hg as (Hokc & _ & Hm & Hcur).
  rewrite Ec in Hcur. destruct Hcur as (chi & Eni & Hmpi).
  assert (Hsame : forall s1, chunks s1 = chunks s0 -> cur s1 = cur s0 -> adv c i s0 s1).
  { intros s1 E1 E2. apply (adv_same c i s0 s1 chi Eni E1). rewrite E2. exact Ec. }
  assert (Hgt : ginv c (tick s0)) by (apply inv_tick in Hinv; exact (proj1 Hinv)).
  assert (Ect : cur (tick s0) = Cur i) by exact Ec.
  assert (Enit : nth_error (chunks (tick s0)) i = Some chi) by exact Eni.
  destruct o; try (cbn [shrink_opted_out] in Hopt; contradiction); cbn [step]; set (s := tick s0) in *.
  cbn [shrink_opted_out] in Hopt. cbn [op_ok2 op_ok] in Hok. destruct Hok as [Hl _].
  destruct (find_block s b) as [blk|] eqn:Efb; [|apply Hsame; reflexivity].
  match goal with |- context [if ?g then _ else _] => destruct g end.
  { destruct (divides nalign (bptr blk)); [|apply Hsame; reflexivity].
    match goal with |- context [add_block ?a ?b0 ?c0 ?d] => destruct (add_block a b0 c0 d) as [s3 id] eqn:Eadd end. cbn [fst].
    match type of Eadd with add_block ?a ?b0 ?c0 ?d = _ => assert (E3 : s3 = fst (add_block a b0 c0 d)) by (rewrite Eadd; reflexivity) end.
    rewrite E3. apply Hsame; reflexivity. }
  assert (A : forall s1 res1, (if has_wrapper WShrink ws then ws_shrink else raw_shrink) c s (bptr blk) (bsize blk) (balign blk) nsize nalign r = (s1, res1) -> adv c i s0 s1).
  { intros s1 res1 Eg. destruct (has_wrapper WShrink ws) eqn:Ew.
    - exact (adv_ws_shrink c s i chi _ _ _ _ _ r s1 res1 Hc Hgt Hl Ect Enit Eg).
    - destruct Hopt as [Hx|Hs]; [discriminate|].
      exact (adv_raw_shrink_setting_off c s i chi _ _ _ _ _ r s1 res1 Hc Hgt Hl Ect Enit Hs Eg). }
  destruct ((if has_wrapper WShrink ws then ws_shrink else raw_shrink) c s (bptr blk) (bsize blk) (balign blk) nsize nalign r) as [s1 [ro|e]] eqn:Eg.
  - specialize (A s1 _ eq_refl).
    match goal with |- context [add_block ?a ?b0 ?c0 ?d] => destruct (add_block a b0 c0 d) as [s3 id] eqn:Eadd end. cbn [fst].
    match type of Eadd with add_block ?a ?b0 ?c0 ?d = _ => assert (E3 : s3 = fst (add_block a b0 c0 d)) by (rewrite Eadd; reflexivity) end.
    rewrite E3. eapply adv_ext; [| |exact A]; reflexivity.
  - exact (A s1 _ eq_refl).
Qed.

Theorem optout_shrink_never_decreases_allocated c s0 o r i :
  cfg_ok c -> inv c s0 -> cur s0 = Cur i -> shrink_opted_out c o -> op_ok2 c s0 o -> op_resp_ok2 c s0 o r ->
  alloc_bytes c s0 <= alloc_bytes c (fst (step c s0 o r)).
Proof.
  intros Hc Hinv Ec Hopt Hok Hr.
  pose proof (step_inv c s0 o r Hc Hinv Hok Hr) as (Hg' & _).
  apply (adv_alloc_bytes c i s0 _ (proj1 Hinv) Hg' Ec). apply optout_shrink_adv; assumption.
Qed.

(* "shrinking any other block reclaims nothing": a shrink of a block that is not the newest one, to
   an alignment it already satisfies, leaves the whole arena as it is and returns the same block *)
Theorem nonlast_fit_shrink_keeps_state c s ptr osize oalign nsize nalign r :
  divides nalign ptr = true -> is_last c s ptr osize = false ->
  raw_shrink c s ptr osize oalign nsize nalign r = (s, inl (mkRO ptr osize false)).
Proof.
  intros Hd Hl. unfold raw_shrink. rewrite Hd, Hl. cbn [negb]. rewrite orb_true_r. reflexivity.
Qed.

(* non-vacuity: allocations that outgrow a chunk, and a grow in place *)
Module AllocExample.
  Definition c0 : cfg := mkCfg true false true true 512 32 16 true.
  Definition s0 : arena := fst (init_with_size c0 1 512 (Some (65536, 512))).
  Definition s1 := fst (step c0 s0 (OAlloc 0 [] 100 4 false) None).
  Definition s2 := fst (step c0 s1 (OGrow 0 [] 0 200 4 false) None).
  Definition s3 := fst (step c0 s2 (OAlloc 0 [] 400 8 false) (Some (131072, 1024))).
  Example bytes : map (alloc_bytes c0) [s0; s1; s2; s3] = [0; 100; 200; 880].
  Proof. vm_compute. reflexivity. Qed.
End AllocExample.
