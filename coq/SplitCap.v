(* SplitCap.v — C16: how `split_off` divides the BUFFER of a vector, not only its elements.
   FixedBumpVec::split_off (src/fixed_bump_vec.rs; BumpVec::split_off wraps it) rotates the
   elements so that the range to split off lies at one end of the initialised part, then cuts the
   buffer there: each part gets a window (offset, length, capacity) of the original buffer.
   `split_off_code` of Colls.v is the element-level transcription; this file adds the windows and
   proves that they hold exactly the parts, tile the buffer, and that the spare capacity goes to
   the window that ends at the end of the buffer. *)
From Coq Require Import List Arith Bool Lia.
From BS Require Import Colls CollsProofs.
Import ListNotations.

Record vwin := mkVwin { woff : nat; wlen : nat; wcap : nat }.

(* the initialised part of the buffer after the rotation the code performs *)
Definition split_off_buffer {A} (l : list A) (a b : nat) : list A :=
  let len := length l in
  if b =? len then l
  else if a =? 0 then l
  else if a =? b then l
  else if a <? len - b then rotate_right (firstn b l) (b - a) ++ skipn b l
  else firstn a l ++ rotate_left (skipn a l) (b - a).

(* (window self keeps, window of the split-off vector); the empty split of the middle returns a
   fresh empty vector without a buffer *)
Definition split_off_windows (len cap a b : nat) : vwin * vwin :=
  if b =? len then (mkVwin 0 a a, mkVwin a (len - a) (cap - a))
  else if a =? 0 then (mkVwin b (len - b) (cap - b), mkVwin 0 b b)
  else if a =? b then (mkVwin 0 len cap, mkVwin 0 0 0)
  else
    let range_len := b - a in
    let remaining := len - range_len in
    if a <? len - b then (mkVwin range_len remaining (cap - range_len), mkVwin 0 range_len range_len)
    else (mkVwin 0 remaining remaining, mkVwin remaining range_len (cap - remaining)).

Definition wview {A} (buf : list A) (w : vwin) : list A := firstn (wlen w) (skipn (woff w) buf).

(* ---------------------------------------------------------------- split_at_spare / into_flattened *)
(* split_at_spare(_mut): the initialised part and the spare capacity of one buffer *)
Definition spare_windows (len cap : nat) : vwin * vwin :=
  (mkVwin 0 len len, mkVwin len 0 (cap - len)).

(* into_flattened of a vector of [T; n]: the same buffer counted in elements of T *)
Definition flatten_window (w : vwin) (n : nat) : vwin := mkVwin (woff w * n) (wlen w * n) (wcap w * n).
Definition flatten_list {A} (l : list (list A)) : list A := concat l.
