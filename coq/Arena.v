(* Arena.v — executable model of the bump arena (MODEL ONLY, no proofs).
   Hand-written from src/raw_bump.rs, src/allocator_impl.rs, src/without_dealloc.rs,
   src/bump_scope_guard.rs, src/bump_claim_guard.rs, src/chunk/size.rs, src/stats.rs.
   It computes with the specification functions of BumpSpec.v / ChunkSpec.v; that the current
   source computes those is C11's / C12's obligation.  Tied to the code by the arena
   correspondence check (harness/src/bin/arena.rs + driver `arena`). *)
From Coq Require Import ZArith List Bool Lia.
From BS Require Import Word BumpSpec ChunkSpec.
Import ListNotations.
Open Scope Z_scope.

(* ---------------------------------------------------------------- configuration *)
Record cfg := mkCfg {
  up : bool;               (* bump direction *)
  guaranteed : bool;       (* GUARANTEED_ALLOCATED *)
  deallocates : bool;      (* DEALLOCATES *)
  shrinks : bool;          (* SHRINKS *)
  min_chunk : Z;           (* MINIMUM_CHUNK_SIZE *)
  hs : Z;                  (* size_of::<ChunkHeader<A>>() *)
  ha : Z;                  (* align_of::<ChunkHeader<A>>() *)
  fix_without_shrink : bool  (* false = WithoutShrink::shrink copies old_layout.size() (pinned commit) *)
}.

(* ---------------------------------------------------------------- chunks *)
Record chunk := mkChunk {
  cbase : Z;       (* address of the block granted by the base allocator *)
  csize : Z;       (* usable size = align_size(granted) *)
  creq : Z;        (* requested size *)
  cgranted : Z;    (* granted size *)
  cpos : Z         (* bump position *)
}.

Definition content_start (c : cfg) (ch : chunk) : Z := if up c then cbase ch + hs c else cbase ch.
Definition content_end (c : cfg) (ch : chunk) : Z :=
  if up c then cbase ch + csize ch else cbase ch + csize ch - hs c.
Definition fresh_pos (c : cfg) (ch : chunk) : Z := if up c then content_start c ch else content_end c ch.
Definition capacity (c : cfg) (ch : chunk) : Z := content_end c ch - content_start c ch.
Definition allocated_in (c : cfg) (ch : chunk) : Z :=
  if up c then cpos ch - content_start c ch else content_end c ch - cpos ch.
Definition remaining_in (c : cfg) (ch : chunk) : Z :=
  if up c then content_end c ch - cpos ch else cpos ch - content_start c ch.
Definition set_pos (ch : chunk) (p : Z) : chunk :=
  mkChunk (cbase ch) (csize ch) (creq ch) (cgranted ch) p.
Definition reset_chunk (c : cfg) (ch : chunk) : chunk := set_pos ch (fresh_pos c ch).

(* what a handle's chunk pointer is *)
Inductive hstate := Cur (i : nat) | Unalloc | Claimed.

Record block := mkBlock { bid : nat; bptr : Z; bsize : Z; balign : Z; born : nat }.

Inductive event :=
| EvAlloc (size align : Z) (resp : option (Z * Z))   (* request; Some (addr, granted) | refused *)
| EvDealloc (addr size align : Z).

Record checkpoint := mkCp { cp_state : hstate; cp_addr : Z; cp_epoch : nat }.

Definition memory := Z -> Z.

Record arena := mkArena {
  chunks : list chunk;         (* small -> big, index = position in the linked list *)
  cur : hstate;                (* chunk pointer of the innermost (active) handle *)
  depth : nat;                 (* number of outstanding claim guards *)
  aligns : list Z;             (* minimum alignment in force, innermost first (never empty) *)
  mem : memory;
  live : list block;           (* GHOST: blocks the contract says are live *)
  ledger : list event;         (* GHOST: every base-allocator call, newest first *)
  epoch : nat;                 (* GHOST: operation counter *)
  nextid : nat                 (* GHOST: next block id *)
}.

Definition malign (s : arena) : Z := hd 1 (aligns s).

Definition upd_chunks (s : arena) (cs : list chunk) : arena :=
  mkArena cs (cur s) (depth s) (aligns s) (mem s) (live s) (ledger s) (epoch s) (nextid s).
Definition upd_cur (s : arena) (h : hstate) : arena :=
  mkArena (chunks s) h (depth s) (aligns s) (mem s) (live s) (ledger s) (epoch s) (nextid s).
Definition upd_mem (s : arena) (m : memory) : arena :=
  mkArena (chunks s) (cur s) (depth s) (aligns s) m (live s) (ledger s) (epoch s) (nextid s).
Definition upd_live (s : arena) (l : list block) : arena :=
  mkArena (chunks s) (cur s) (depth s) (aligns s) (mem s) l (ledger s) (epoch s) (nextid s).
Definition log_event (s : arena) (e : event) : arena :=
  mkArena (chunks s) (cur s) (depth s) (aligns s) (mem s) (live s) (e :: ledger s) (epoch s) (nextid s).
Definition upd_depth (s : arena) (d : nat) : arena :=
  mkArena (chunks s) (cur s) d (aligns s) (mem s) (live s) (ledger s) (epoch s) (nextid s).
Definition upd_aligns (s : arena) (a : list Z) : arena :=
  mkArena (chunks s) (cur s) (depth s) a (mem s) (live s) (ledger s) (epoch s) (nextid s).
Definition tick (s : arena) : arena :=
  mkArena (chunks s) (cur s) (depth s) (aligns s) (mem s) (live s) (ledger s) (S (epoch s)) (nextid s).
Definition bump_id (s : arena) : arena :=
  mkArena (chunks s) (cur s) (depth s) (aligns s) (mem s) (live s) (ledger s) (epoch s) (S (nextid s)).

Fixpoint set_nth {A} (l : list A) (i : nat) (x : A) : list A :=
  match l, i with
  | [], _ => []
  | _ :: t, O => x :: t
  | h :: t, S j => h :: set_nth t j x
  end.

Definition cur_chunk (s : arena) : option chunk :=
  match cur s with Cur i => nth_error (chunks s) i | _ => None end.

(* ---------------------------------------------------------------- memory *)
Definition mem_write (m : memory) (a v : Z) : memory := fun x => if x =? a then v else m x.
Definition mem_fill (m : memory) (start len : Z) (f : Z -> Z) : memory :=
  fun x => if (start <=? x) && (x <? start + len) then f (x - start) else m x.
(* memmove: reads are from the old memory *)
Definition mem_copy (m : memory) (src dst len : Z) : memory :=
  fun x => if (dst <=? x) && (x <? dst + len) then m (src + (x - dst)) else m x.
Definition ranges_overlap (a la b lb : Z) : bool :=
  (0 <? la) && (0 <? lb) && (a <? b + lb) && (b <? a + la).
Definition pattern (seed i : Z) : Z := (seed * 31 + i * 7 + 1) mod 251 + 1.

(* ---------------------------------------------------------------- allocation in one chunk *)
(* RawChunk::alloc on a non-dummy chunk: (pointer, chunk with the new position) *)
Definition chunk_alloc (c : cfg) (m : Z) (ch : chunk) (size align : Z) : option (Z * chunk) :=
  if up c then
    match spec_up (cpos ch) (content_end c ch) m size align with
    | Some (p, np) => Some (p, set_pos ch np)
    | None => None
    end
  else
    match spec_down (content_start c ch) (cpos ch) m size align with
    | Some p => Some (p, set_pos ch p)
    | None => None
    end.

(* RawChunk::prepare_allocation_range: the range, position untouched *)
Definition chunk_prepare (c : cfg) (ch : chunk) (size align : Z) : option (Z * Z) :=
  if up c then spec_prep_up (cpos ch) (content_end c ch) size align
  else spec_prep_down (content_start c ch) (cpos ch) size align.

(* ---------------------------------------------------------------- chunk creation *)
Inductive err := ErrOverflow | ErrAlloc | ErrClaimed.

(* ChunkSizeHint::for_capacity(layout) max grown, calc_size, ChunkSize::layout *)
Definition new_chunk_size (c : cfg) (prev_size : option Z) (size align : Z) : option Z :=
  let req := spec_hint (up c) (hs c) (ha c) size align in
  if W <=? req then None else
  let grown := match prev_size with Some ps => 2 * ps | None => 0 end in
  if W <=? grown then None else
  let hint := Z.max (Z.max req grown) (min_chunk c) in
  if W <=? spec_size0 (hs c) (ha c) hint then None else
  let n := spec_size_from_hint (up c) (hs c) (ha c) hint in
  if IMAX - (ha c - 1) <? n then None else Some n.

(* with_size(from_hint(size)) *)
Definition hint_chunk_size (c : cfg) (hint0 : Z) : option Z :=
  let hint := Z.max hint0 (min_chunk c) in
  if W <=? spec_size0 (hs c) (ha c) hint then None else
  let n := spec_size_from_hint (up c) (hs c) (ha c) hint in
  if IMAX - (ha c - 1) <? n then None else Some n.

(* NonDummyChunk::new once the base allocator answered *)
Definition make_chunk (c : cfg) (n addr granted : Z) : chunk :=
  let u := spec_align_size (up c) (ha c) granted in
  let ch := mkChunk addr u n granted 0 in
  set_pos ch (fresh_pos c ch).

(* answer of the base allocator to the (at most one) request an operation makes *)
Definition resp := option (Z * Z).

(* append a chunk for `layout` behind the last chunk (append_for), or create the first one *)
Definition grow_arena (c : cfg) (s : arena) (size align : Z) (r : resp) : arena * option err :=
  let prev := match rev (chunks s) with last :: _ => Some (csize last) | [] => None end in
  match new_chunk_size c prev size align with
  | None => (s, Some ErrOverflow)
  | Some n =>
    let s1 := log_event s (EvAlloc n (ha c) r) in
    match r with
    | None => (s1, Some ErrAlloc)
    | Some (addr, granted) =>
      let ch := make_chunk c n addr granted in
      let cs := chunks s1 ++ [ch] in
      (upd_cur (upd_chunks s1 cs) (Cur (length (chunks s1))), None)
    end
  end.

(* ---------------------------------------------------------------- the allocation slow path *)
(* walk the chunks after index i: reset each, make it current, try `f` on it *)
Fixpoint walk_next {R} (c : cfg) (f : chunk -> option (R * chunk)) (cs : list chunk) (i : nat)
         (fuel : nat) : list chunk * nat * option R :=
  match fuel with
  | O => (cs, i, None)
  | S fuel' =>
    match nth_error cs (S i) with
    | None => (cs, i, None)
    | Some ch =>
      let ch0 := reset_chunk c ch in
      match f ch0 with
      | Some (r, ch1) => (set_nth cs (S i) ch1, S i, Some r)
      | None => walk_next c f (set_nth cs (S i) ch0) (S i) fuel'
      end
    end
  end.

(* RawBump::in_another_chunk.  `f` is alloc / prepare on a chunk; returns the result. *)
Definition in_another_chunk {R} (c : cfg) (s : arena) (h : hstate) (size align : Z)
           (f : chunk -> option (R * chunk)) (r : resp) : arena * (R + err) :=
  match h with
  | Claimed => (s, inr ErrClaimed)
  | Unalloc =>
    match grow_arena c s size align r with
    | (s1, Some e) => (s1, inr e)
    | (s1, None) =>
      match cur s1 with
      | Cur j =>
        match nth_error (chunks s1) j with
        | Some ch =>
          match f ch with
          | Some (res, ch1) => (upd_chunks s1 (set_nth (chunks s1) j ch1), inl res)
          | None => (s1, inr ErrOverflow)   (* unreachable: fresh_chunk_fits *)
          end
        | None => (s1, inr ErrOverflow)
        end
      | _ => (s1, inr ErrOverflow)
      end
    end
  | Cur i =>
    match walk_next c f (chunks s) i (length (chunks s)) with
    | (cs, j, Some res) => (upd_cur (upd_chunks s cs) (Cur j), inl res)
    | (cs, j, None) =>
      let s0 := upd_cur (upd_chunks s cs) (Cur j) in
      match grow_arena c s0 size align r with
      | (s1, Some e) => (upd_cur s1 (Cur i), inr e)   (* the original chunk stays current *)
      | (s1, None) =>
        match cur s1 with
        | Cur k =>
          match nth_error (chunks s1) k with
          | Some ch =>
            match f ch with
            | Some (res, ch1) => (upd_chunks s1 (set_nth (chunks s1) k ch1), inl res)
            | None => (s1, inr ErrOverflow)   (* unreachable: fresh_chunk_fits *)
            end
          | None => (s1, inr ErrOverflow)
          end
        | _ => (s1, inr ErrOverflow)
        end
      end
    end
  end.

(* RawBump::alloc: fast path in the current chunk, else the slow path *)
Definition raw_alloc (c : cfg) (s : arena) (size align : Z) (r : resp) : arena * (Z + err) :=
  let m := malign s in
  let f := fun ch => chunk_alloc c m ch size align in
  match cur s with
  | Cur i =>
    match nth_error (chunks s) i with
    | Some ch =>
      match f ch with
      | Some (p, ch1) => (upd_chunks s (set_nth (chunks s) i ch1), inl p)
      | None => in_another_chunk c s (cur s) size align f r
      end
    | None => (s, inr ErrOverflow)
    end
  | h => in_another_chunk c s h size align f r
  end.

(* RawBump::prepare_sized_allocation: like alloc, but the position of the chunk is not moved *)
Definition chunk_prepare_sized (c : cfg) (m : Z) (ch : chunk) (size align : Z) : option (Z * chunk) :=
  match chunk_alloc c m ch size align with
  | Some (p, _) => Some (p, ch)
  | None => None
  end.

Definition raw_prepare (c : cfg) (s : arena) (size align : Z) (r : resp) : arena * (Z + err) :=
  let m := malign s in
  let f := fun ch => chunk_prepare_sized c m ch size align in
  match cur s with
  | Cur i =>
    match nth_error (chunks s) i with
    | Some ch =>
      match f ch with
      | Some (p, _) => (s, inl p)
      | None => in_another_chunk c s (cur s) size align f r
      end
    | None => (s, inr ErrOverflow)
    end
  | h => in_another_chunk c s h size align f r
  end.

(* alloc_in_another_chunk called directly (grow / shrink slow paths) *)
Definition raw_alloc_slow (c : cfg) (s : arena) (size align : Z) (r : resp) : arena * (Z + err) :=
  let m := malign s in
  in_another_chunk c s (cur s) size align (fun ch => chunk_alloc c m ch size align) r.

(* ---------------------------------------------------------------- allocator_impl.rs *)
Definition is_last (c : cfg) (s : arena) (ptr size : Z) : bool :=
  match cur_chunk s with
  | Some ch => if up c then ptr + size =? cpos ch else ptr =? cpos ch
  | None => false
  end.

Definition set_cur_pos (s : arena) (p : Z) : arena :=
  match cur s with
  | Cur i =>
    match nth_error (chunks s) i with
    | Some ch => upd_chunks s (set_nth (chunks s) i (set_pos ch p))
    | None => s
    end
  | _ => s
  end.

Definition align_posZ (upb : bool) (m pos : Z) : Z :=
  if upb then up_alignZ pos m else down_alignZ pos m.

(* deallocate_assume_last *)
Definition dealloc_assume_last (c : cfg) (s : arena) (ptr size : Z) : arena :=
  if negb (deallocates c) then s
  else if up c then set_cur_pos s (align_posZ true (malign s) ptr)
  else set_cur_pos s (align_posZ false (malign s) (ptr + size)).

Definition raw_dealloc (c : cfg) (s : arena) (ptr size : Z) : arena :=
  if negb (deallocates c) then s
  else if is_last c s ptr size then dealloc_assume_last c s ptr size else s.

Definition divides (a x : Z) : bool := x mod a =? 0.

(* result of a reallocation: new pointer, size the caller may use; `ub` = an overlapping
   copy_nonoverlapping happened *)
Record realloc_out := mkRO { ro_ptr : Z; ro_size : Z; ro_ub : bool }.

Definition copy_block (s : arena) (src dst len : Z) (nonoverlapping : bool) : arena * bool :=
  (upd_mem s (mem_copy (mem s) src dst len),
   nonoverlapping && ranges_overlap src len dst len).

Definition raw_grow (c : cfg) (s : arena) (ptr osize oalign nsize nalign : Z) (r : resp)
  : arena * (realloc_out + err) :=
  let m := malign s in
  let moved (x : arena * (Z + err)) :=
    match x with
    | (s1, inl np) => let '(s2, ub) := copy_block s1 ptr np osize true in (s2, inl (mkRO np nsize ub))
    | (s1, inr e) => (s1, inr e)
    end in
  if up c then
    if is_last c s ptr osize && divides nalign ptr then
      match cur_chunk s with
      | Some ch =>
        let remaining := content_end c ch - ptr in
        if nsize <=? remaining then
          (set_cur_pos s (up_alignZ (ptr + nsize) m), inl (mkRO ptr nsize false))
        else moved (raw_alloc_slow c s nsize nalign r)
      | None => (s, inr ErrOverflow)
      end
    else moved (raw_alloc c s nsize nalign r)
  else
    if is_last c s ptr osize then
      match cur_chunk s with
      | Some ch =>
        let additional := nsize - osize in
        let new_addr := down_alignZ (Z.max (ptr - additional) 0) (Z.max nalign m) in
        if content_start c ch <=? new_addr then
          let nonover := new_addr + nsize <? ptr in
          let '(s1, ub) := copy_block s ptr new_addr osize nonover in
          (set_cur_pos s1 new_addr, inl (mkRO new_addr nsize ub))
        else moved (raw_alloc_slow c s nsize nalign r)
      | None => (s, inr ErrOverflow)
      end
    else moved (raw_alloc c s nsize nalign r).

Definition raw_shrink (c : cfg) (s : arena) (ptr osize oalign nsize nalign : Z) (r : resp)
  : arena * (realloc_out + err) :=
  let m := malign s in
  if negb (divides nalign ptr) then
    (* shrink_unfit *)
    if shrinks c && is_last c s ptr osize then
      match cur_chunk s with
      | Some ch0 =>
        let old_pos := cpos ch0 in
        let s1 := dealloc_assume_last c s ptr osize in
        match cur_chunk s1 with
        | Some ch =>
          match chunk_alloc c m ch nsize nalign with
          | Some (np, ch1) =>
            let s2 := match cur s1 with Cur i => upd_chunks s1 (set_nth (chunks s1) i ch1) | _ => s1 end in
            let overlaps := if up c then np <? ptr + nsize else ptr <? np + nsize in
            let '(s3, ub) := copy_block s2 ptr np nsize (negb overlaps) in
            (s3, inl (mkRO np nsize ub))
          | None =>
            let s2 := set_cur_pos s1 old_pos in
            match raw_alloc_slow c s2 nsize nalign r with
            | (s3, inl np) => let '(s4, ub) := copy_block s3 ptr np nsize true in (s4, inl (mkRO np nsize ub))
            | (s3, inr e) => (s3, inr e)
            end
          end
        | None => (s, inr ErrOverflow)
        end
      | None => (s, inr ErrOverflow)
      end
    else
      match raw_alloc c s nsize nalign r with
      | (s1, inl np) => let '(s2, ub) := copy_block s1 ptr np nsize true in (s2, inl (mkRO np nsize ub))
      | (s1, inr e) => (s1, inr e)
      end
  else if negb (shrinks c) || negb (is_last c s ptr osize) then
    (s, inl (mkRO ptr osize false))
  else if up c then
    (set_cur_pos s (up_alignZ (ptr + nsize) m), inl (mkRO ptr nsize false))
  else
    let new_addr := down_alignZ (Z.max (ptr + osize - nsize) 0) (Z.max nalign m) in
    let overlaps := new_addr <? ptr + nsize in
    let '(s1, ub) := copy_block s ptr new_addr nsize (negb overlaps) in
    (set_cur_pos s1 new_addr, inl (mkRO new_addr nsize ub)).

(* ---------------------------------------------------------------- wrappers *)
(* the wrapper stack an Allocator call goes through, outermost first *)
Inductive wrapper := WDealloc | WShrink.

Fixpoint has_wrapper (w : wrapper) (ws : list wrapper) : bool :=
  match ws with
  | [] => false
  | WDealloc :: t => match w with WDealloc => true | _ => has_wrapper w t end
  | WShrink :: t => match w with WShrink => true | _ => has_wrapper w t end
  end.

(* WithoutShrink::shrink *)
Definition ws_shrink (c : cfg) (s : arena) (ptr osize oalign nsize nalign : Z) (r : resp)
  : arena * (realloc_out + err) :=
  if divides nalign ptr then (s, inl (mkRO ptr nsize false))
  else
    match raw_alloc c s nsize nalign r with
    | (s1, inl np) =>
      let len := if fix_without_shrink c then nsize else osize in
      let '(s2, ub) := copy_block s1 ptr np len true in (s2, inl (mkRO np nsize ub))
    | (s1, inr e) => (s1, inr e)
    end.

(* ---------------------------------------------------------------- operations *)
Inductive op :=
| OAlloc (h : nat) (ws : list wrapper) (size align : Z) (zeroed : bool)
| ODealloc (h : nat) (ws : list wrapper) (b : nat)
| OGrow (h : nat) (ws : list wrapper) (b : nat) (nsize nalign : Z) (zeroed : bool)
| OShrink (h : nat) (ws : list wrapper) (b : nat) (nsize nalign : Z)
| OFill (b : nat) (seed : Z)
| OCheckpoint (h : nat)
| OResetTo (h : nat) (cp : checkpoint)
| OReset
| OResetToStart
| OReserve (h : nat) (n : Z)
| OTryErr (h : nat) (mutable : bool) (size align : Z)   (* alloc_try_with(_mut) whose closure returns Err *)
| OStats (h : nat)                                      (* statistics as seen through handle h *)
| OAlignPush (h : nat) (n : Z)                          (* aligned::<n> / scoped_aligned::<n> entry (after its checkpoint) *)
| OAlignPop (realign : bool)                            (* leaving it; realign = the BumpAlignGuard of `aligned` *)
| OPrepare (h : nat) (es ea cap : Z) (rev : bool)       (* (try_)prepare_slice_allocation(_rev)::<T>(cap) *)
| OWriteRaw (addr len seed : Z)                         (* the owner of a prepared region fills part of it *)
| OCommit (h : nat) (es ea ptr len cap : Z) (rev dyn : bool)  (* allocate_prepared_slice(_rev) *)
| OClaim (h : nat)
| OUnclaim
| ODrop.

Record stats := mkStats { st_count : Z; st_size : Z; st_capacity : Z; st_allocated : Z; st_remaining : Z }.

Inductive result :=
| RBlock (id : nat) (ptr size : Z)     (* a block was returned (id = its ghost id) *)
| RErr (e : err)
| RUnit
| RCheckpoint (cp : checkpoint)
| RStats (st : stats) (claimed : bool)
| RRange (ptr cap : Z)                  (* a prepared slice: pointer (end pointer for rev) and capacity *)
| RPanic.                               (* unwinding panic (second claim) *)

Record out := mkOut { o_res : result; o_events : list event; o_ub : bool }.

Definition find_block (s : arena) (id : nat) : option block :=
  find (fun b => Nat.eqb (bid b) id) (live s).
Definition remove_block (s : arena) (id : nat) : arena :=
  upd_live s (filter (fun b => negb (Nat.eqb (bid b) id)) (live s)).
Definition add_block (s : arena) (ptr size align : Z) : arena * nat :=
  let id := nextid s in
  (bump_id (upd_live s (mkBlock id ptr size align (epoch s) :: live s)), id).

(* Splitting an owned block in two (BumpBox::split_at, split_off, ...) is not an operation of the
   arena: no allocator method runs.  Only the bookkeeping of who owns which bytes changes: block
   `b` is replaced by its first `mid` bytes and the rest, each a live block of its own (the second
   one with the alignment `ralign` its owner will quote when it deallocates / grows / shrinks it).
   Both inherit the scope the original was born in. *)
Definition split_block (s : arena) (b : nat) (mid ralign : Z) : arena :=
  match find_block s b with
  | None => s
  | Some blk =>
    let s1 := remove_block s b in
    let id := nextid s1 in
    bump_id (bump_id (upd_live s1
      (mkBlock (S id) (bptr blk + mid) (bsize blk - mid) ralign (born blk) ::
       mkBlock id (bptr blk) mid (balign blk) (born blk) :: live s1)))
  end.

(* events logged by a step = new prefix of the ledger *)
Definition new_events (before after : arena) : list event :=
  rev (firstn (length (ledger after) - length (ledger before)) (ledger after)).

Definition is_top (s : arena) (h : nat) : bool := Nat.eqb h (depth s).

(* Stats *)
Definition chunks_before (s : arena) : list chunk :=
  match cur s with Cur i => firstn i (chunks s) | _ => [] end.
Definition chunks_after (s : arena) : list chunk :=
  match cur s with Cur i => skipn (S i) (chunks s) | _ => [] end.
Definition sumZ (l : list Z) : Z := fold_right Z.add 0 l.


Definition arena_stats (c : cfg) (s : arena) : stats :=
  match cur_chunk s with
  | None => mkStats 0 0 0 0 0
  | Some ch =>
    mkStats (Z.of_nat (length (chunks s)))
            (sumZ (map csize (chunks s)))
            (sumZ (map (capacity c) (chunks s)))
            (allocated_in c ch + sumZ (map (capacity c) (chunks_before s)))
            (remaining_in c ch + sumZ (map (capacity c) (chunks_after s)))
  end.

(* deallocate chunk: ledger entry with the layout NonDummyChunk::layout() *)
Definition dealloc_event (c : cfg) (ch : chunk) : event := EvDealloc (cbase ch) (csize ch) (ha c).

Definition drop_events (c : cfg) (s : arena) : list event :=
  match cur s with
  | Cur i =>
    match nth_error (chunks s) i with
    | Some ch =>
      map (dealloc_event c) (rev (firstn i (chunks s)))          (* for_each_prev: nearest first *)
      ++ map (dealloc_event c) (skipn (S i) (chunks s))          (* for_each_next *)
      ++ [dealloc_event c ch]
    | None => []
    end
  | _ => []
  end.

Definition reset_events (c : cfg) (s : arena) : list event :=
  match cur s with
  | Cur i =>
    map (dealloc_event c) (rev (firstn i (chunks s)))
    ++ map (dealloc_event c) (removelast (skipn i (chunks s)))
  | _ => []
  end.

Definition log_events (s : arena) (es : list event) : arena :=
  fold_left log_event es s.

Definition zero_fill (s : arena) (start len : Z) : arena :=
  upd_mem s (mem_fill (mem s) start len (fun _ => 0)).

(* prepare_slice_allocation: the largest aligned range of the (possibly new) current chunk *)
Definition raw_prepare_range (c : cfg) (s : arena) (size align : Z) (r : resp) : arena * ((Z * Z) + err) :=
  let f := fun ch => match chunk_prepare c ch size align with Some rng => Some (rng, ch) | None => None end in
  match cur s with
  | Cur i =>
    match nth_error (chunks s) i with
    | Some ch =>
      match f ch with
      | Some (rng, _) => (s, inl rng)
      | None => in_another_chunk c s (cur s) size align f r
      end
    | None => (s, inr ErrOverflow)
    end
  | h => in_another_chunk c s h size align f r
  end.

(* set_pos_addr_and_align_from (typed) / set_pos_addr_and_align (dyn) *)
Definition commit_pos (c : cfg) (m ea : Z) (dyn : bool) (x : Z) : Z :=
  if dyn || (ea <? m) then align_posZ (up c) m x else x.

(* RawBump::reset_to *)
Definition do_reset_to (c : cfg) (s1 : arena) (cp : checkpoint) : arena :=
  match cp_state cp with
  | Cur j =>
    match nth_error (chunks s1) j with
    | Some ch => upd_cur (upd_chunks s1 (set_nth (chunks s1) j (set_pos ch (cp_addr cp)))) (Cur j)
    | None => s1
    end
  | Unalloc =>
    (* reset_to_start *)
    match cur s1 with
    | Cur _ =>
      match chunks s1 with
      | ch :: rest => upd_cur (upd_chunks s1 (reset_chunk c ch :: rest)) (Cur 0)
      | [] => s1
      end
    | _ => s1
    end
  | Claimed => s1
  end.

(* one operation.  `r` = the base allocator's answer to the (at most one) request made. *)
Definition step (c : cfg) (s0 : arena) (o : op) (r : resp) : arena * out :=
  let s := tick s0 in
  let finish (s1 : arena) (res : result) (ub : bool) := (s1, mkOut res (new_events s s1) ub) in
  match o with
  | OAlloc h ws size align zeroed =>
    if negb (is_top s h) then finish s (RErr ErrClaimed) false else
    match raw_alloc c s size align r with
    | (s1, inl p) =>
      let s2 := if zeroed then zero_fill s1 p size else s1 in
      let '(s3, id) := add_block s2 p size align in
      finish s3 (RBlock id p size) false
    | (s1, inr e) => finish s1 (RErr e) false
    end
  | ODealloc h ws b =>
    match find_block s b with
    | None => finish s RUnit false
    | Some blk =>
      let s1 := remove_block s b in
      if negb (is_top s h) || has_wrapper WDealloc ws then finish s1 RUnit false
      else finish (raw_dealloc c s1 (bptr blk) (bsize blk)) RUnit false
    end
  | OGrow h ws b nsize nalign zeroed =>
    match find_block s b with
    | None => finish s RUnit false
    | Some blk =>
      if negb (is_top s h) then finish s (RErr ErrClaimed) false else
      match raw_grow c s (bptr blk) (bsize blk) (balign blk) nsize nalign r with
      | (s1, inl ro) =>
        let s2 := if zeroed then zero_fill s1 (ro_ptr ro + bsize blk) (nsize - bsize blk) else s1 in
        let '(s3, id) := add_block (remove_block s2 b) (ro_ptr ro) (ro_size ro) nalign in
        finish s3 (RBlock id (ro_ptr ro) (ro_size ro)) (ro_ub ro)
      | (s1, inr e) => finish s1 (RErr e) false
      end
    end
  | OShrink h ws b nsize nalign =>
    match find_block s b with
    | None => finish s RUnit false
    | Some blk =>
      let go := if has_wrapper WShrink ws then ws_shrink else raw_shrink in
      if negb (is_top s h) && negb (has_wrapper WShrink ws && divides nalign (bptr blk))
      then
        (* claimed handle: a fitting shrink returns the block unchanged, an unfit one fails *)
        if divides nalign (bptr blk) then
          let '(s3, id) := add_block (remove_block s b) (bptr blk) (bsize blk) nalign in
          finish s3 (RBlock id (bptr blk) (bsize blk)) false
        else finish s (RErr ErrClaimed) false
      else
      match go c s (bptr blk) (bsize blk) (balign blk) nsize nalign r with
      | (s1, inl ro) =>
        let '(s3, id) := add_block (remove_block s1 b) (ro_ptr ro) (ro_size ro) nalign in
        finish s3 (RBlock id (ro_ptr ro) (ro_size ro)) (ro_ub ro)
      | (s1, inr e) => finish s1 (RErr e) false
      end
    end
  | OFill b seed =>
    match find_block s b with
    | None => finish s RUnit false
    | Some blk => finish (upd_mem s (mem_fill (mem s) (bptr blk) (bsize blk) (pattern seed))) RUnit false
    end
  | OCheckpoint h =>
    let st := if is_top s h then cur s else Claimed in
    let addr := match (if is_top s h then cur_chunk s else None) with Some ch => cpos ch | None => 0 end in
    finish s (RCheckpoint (mkCp st addr (epoch s))) false
  | OResetTo h cp =>
    let s1 := upd_live s (filter (fun b => Nat.leb (born b) (cp_epoch cp)) (live s)) in
    finish (do_reset_to c s1 cp) RUnit false
  | OTryErr h mutable size align =>
    if negb (is_top s h) then finish s (RErr ErrClaimed) false else
    let cp := mkCp (cur s) (match cur_chunk s with Some ch => cpos ch | None => 0 end) (epoch s) in
    match (if mutable then raw_prepare c s size align r else raw_alloc c s size align r) with
    | (s1, inl _) => finish (do_reset_to c s1 cp) RUnit false
    | (s1, inr e) => finish s1 (RErr e) false
    end
  | OReset =>
    let s1 := upd_live s [] in
    match cur s1 with
    | Cur _ =>
      match rev (chunks s1) with
      | last :: _ =>
        let s2 := log_events s1 (reset_events c s1) in
        finish (upd_cur (upd_chunks s2 [reset_chunk c last]) (Cur 0)) RUnit false
      | [] => finish s1 RUnit false
      end
    | _ => finish s1 RUnit false
    end
  | OResetToStart =>
    let s1 := upd_live s [] in
    match cur s1 with
    | Cur _ =>
      match chunks s1 with
      | ch :: rest => finish (upd_cur (upd_chunks s1 (reset_chunk c ch :: rest)) (Cur 0)) RUnit false
      | [] => finish s1 RUnit false
      end
    | _ => finish s1 RUnit false
    end
  | OReserve h n =>
    if negb (is_top s h) then finish s (RErr ErrClaimed) false else
    match cur s with
    | Claimed => finish s (RErr ErrClaimed) false
    | Unalloc =>
      if IMAX <? n then finish s (RErr ErrOverflow) false else
      match grow_arena c s n 1 r with
      | (s1, Some e) => finish s1 (RErr e) false
      | (s1, None) => finish s1 RUnit false
      end
    | Cur i =>
      match nth_error (chunks s) i with
      | None => finish s RUnit false
      | Some ch =>
        let avail := remaining_in c ch + sumZ (map (capacity c) (chunks_after s)) in
        if n <=? avail then finish s RUnit false
        else
          let rest := n - avail in
          if IMAX <? rest then finish s (RErr ErrOverflow) false else
          (* append_for behind the last chunk; the current chunk pointer is NOT moved *)
          match grow_arena c s rest 1 r with
          | (s1, Some e) => finish (upd_cur s1 (cur s)) (RErr e) false
          | (s1, None) => finish (upd_cur s1 (cur s)) RUnit false
          end
      end
    end
  | OClaim h =>
    if is_top s h then finish (upd_depth s (S (depth s))) RUnit false
    else finish s RPanic false
  | OUnclaim =>
    finish (upd_depth s (pred (depth s))) RUnit false
  | OStats h =>
    if is_top s h then finish s (RStats (arena_stats c s) false) false
    else finish s (RStats (mkStats 0 0 0 0 0) true) false
  | OAlignPush h n =>
    let m := malign s in
    let s1 := if (m <? n) then match cur_chunk s with Some ch => set_cur_pos s (align_posZ (up c) n (cpos ch)) | None => s end else s in
    finish (upd_aligns s1 (n :: aligns s1)) RUnit false
  | OAlignPop realign =>
    match aligns s with
    | inner :: outer :: rest =>
      let s1 := upd_aligns s (outer :: rest) in
      if realign && (inner <? outer) then
        match cur_chunk s1 with
        | Some ch => finish (set_cur_pos s1 (align_posZ (up c) outer (cpos ch))) RUnit false
        | None => finish s1 RUnit false
        end
      else finish s1 RUnit false
    | _ => finish s RUnit false
    end
  | OPrepare h es ea cap rev =>
    if negb (is_top s h) then finish s (RErr ErrClaimed) false else
    if IMAX <? es * cap + (ea - 1) then finish s (RErr ErrOverflow) false else
    match raw_prepare_range c s (es * cap) ea r with
    | (s1, inl (st, en)) =>
      let cap' := (en - st) / es in
      let ptr := if rev then (if up c then st + cap' * es else en)
                 else (if up c then st else en - cap' * es) in
      finish s1 (RRange ptr cap') false
    | (s1, inr e) => finish s1 (RErr e) false
    end
  | OWriteRaw addr len seed =>
    finish (upd_mem s (mem_fill (mem s) addr len (pattern seed))) RUnit false
  | OCommit h es ea ptr len cap rev dyn =>
    let m := malign s in
    let bytes := len * es in
    if rev then
      if up c then
        let dst := ptr - cap * es in
        let src := ptr - bytes in
        let s1 := upd_mem s (mem_copy (mem s) src dst bytes) in
        let s2 := set_cur_pos s1 (commit_pos c m ea dyn (dst + bytes)) in
        let '(s3, id) := add_block s2 dst bytes ea in
        finish s3 (RBlock id dst bytes) false
      else
        let dst := ptr - bytes in
        let s2 := set_cur_pos s (commit_pos c m ea dyn dst) in
        let '(s3, id) := add_block s2 dst bytes ea in
        finish s3 (RBlock id dst bytes) false
    else
      if up c then
        let s2 := set_cur_pos s (commit_pos c m ea dyn (ptr + bytes)) in
        let '(s3, id) := add_block s2 ptr bytes ea in
        finish s3 (RBlock id ptr bytes) false
      else
        let dst := ptr + cap * es - bytes in
        let s1 := upd_mem s (mem_copy (mem s) ptr dst bytes) in
        let s2 := set_cur_pos s1 (commit_pos c m ea dyn dst) in
        let '(s3, id) := add_block s2 dst bytes ea in
        finish s3 (RBlock id dst bytes) false
  | ODrop =>
    let s1 := upd_live s [] in
    if Nat.eqb (depth s1) 0 then
      let s2 := log_events s1 (drop_events c s1) in
      finish (upd_cur (upd_chunks s2 []) Unalloc) RUnit false
    else finish s1 RUnit false
  end.

(* ---------------------------------------------------------------- initial states *)
Definition empty_arena (m : Z) (h : hstate) : arena :=
  mkArena [] h 0 [m] (fun _ => 0) [] [] 0 0.

(* Bump::unallocated() *)
Definition init_unallocated (m : Z) : arena := empty_arena m Unalloc.

(* Bump::try_with_size_in / try_new_in: one request, may fail *)
Definition init_with_size (c : cfg) (m : Z) (hint : Z) (r : resp) : arena * option err :=
  let s := empty_arena m Unalloc in
  match hint_chunk_size c hint with
  | None => (s, Some ErrOverflow)
  | Some n =>
    let s1 := log_event s (EvAlloc n (ha c) r) in
    match r with
    | None => (s1, Some ErrAlloc)
    | Some (addr, granted) => (upd_cur (upd_chunks s1 [make_chunk c n addr granted]) (Cur 0), None)
    end
  end.

(* Bump::try_with_capacity_in *)
Definition init_with_capacity (c : cfg) (m : Z) (size align : Z) (r : resp) : arena * option err :=
  let s := empty_arena m Unalloc in
  match grow_arena c s size align r with
  | (s1, e) => (s1, e)
  end.
