(* PoolProofs.v — theorems about the BumpPool model, for ALL schedules. *)
From Coq Require Import List Arith Bool Lia Permutation.
From BS Require Import Pool.
Import ListNotations.

Definition arenas (s : pool) : list nat := idle s ++ map snd (held s) ++ leaked s.

Record inv (s : pool) : Prop := mkInv {
  I_nodup : NoDup (arenas s ++ released s);
  I_range : forall a, In a (arenas s ++ released s) <-> a < created s;
  I_guards : NoDup (map fst (held s));
  I_count : created s = length (idle s) + live s + length (released s);
  I_rel : gone s = false -> released s = [];
  I_peak : live s <= peak s /\ created s <= peak s + length (released s) + 0 * 0;
  I_gone : gone s = true -> idle s = [] /\ held s = [];
  I_blocks : forall a b, In (a, b) (blocks s) -> In a (arenas s) /\ b < nextb s
}.

Lemma lookup_split g l a :
  lookup g l = Some a -> Permutation l ((g, a) :: remove_guard g l) /\ In (g, a) l.
Proof.
  induction l as [|[g' a'] t IH]; cbn; [discriminate|].
  destruct (Nat.eqb_spec g g') as [->|Hne].
  - intros H. injection H as ->. split; [reflexivity|left; reflexivity].
  - intros H. destruct (IH H) as [P I]. split; [|right; exact I].
    rewrite perm_swap. apply perm_skip. exact P.
Qed.

Lemma lookup_none g l : lookup g l = None -> ~ In g (map fst l).
Proof.
  induction l as [|[g' a'] t IH]; cbn; [tauto|].
  destruct (Nat.eqb_spec g g') as [->|Hne]; [discriminate|]. intros H [E|I]; [congruence|exact (IH H I)].
Qed.

Lemma remove_guard_length g l a : lookup g l = Some a -> length l = S (length (remove_guard g l)).
Proof. intros H. destruct (lookup_split g l a H) as [P _]. rewrite (Permutation_length P). reflexivity. Qed.

Theorem inv_init : inv init.
Proof.
  constructor; cbn; try (constructor; fail); try tauto; try lia.
  all: try (intros a; split; [tauto|lia]).
  all: try (intros _; split; reflexivity).
Qed.

(* moving one arena between the three places keeps the set of arenas *)
Lemma perm_arenas_get (a : nat) rest (h : list (nat * nat)) l :
  Permutation ((a :: rest) ++ map snd h ++ l) (rest ++ (a :: map snd h) ++ l).
Proof. cbn. apply Permutation_middle. Qed.

Ltac pnorm := unfold live, arenas; cbn [idle held leaked created peak blocks nextb released gone map snd fst app length]; rewrite ?app_nil_r.

Theorem step_inv s x : inv s -> inv (fst (step s x)).
Proof.
  intros Hinv. pose proof Hinv as [N R G C Rel P Gn B]. unfold step. destruct (gone s) eqn:Eg; [exact Hinv|].
  specialize (Rel eq_refl). unfold arenas, live in *. rewrite Rel in *. rewrite ?app_nil_r in *. cbn [length] in C, P.
  destruct x as [g ok|g|g|g| | |].
  - (* Get *)
    destruct (lookup g (held s)) as [a0|] eqn:El; [exact Hinv|].
    pose proof (lookup_none _ _ El) as Hng.
    destruct (idle s) as [|a rest] eqn:Ei.
    + destruct ok; [|exact Hinv].
      cbn [fst]. constructor; pnorm.
      * constructor; [|exact N]. intros Hin. apply R in Hin. lia.
      * intros a. cbn. rewrite R. lia.
      * constructor; assumption.
      * cbn in C. lia.
      * reflexivity.
      * cbn in C. lia.
      * discriminate.
      * intros a b Hin. destruct (B a b Hin) as [H1 H2]. split; [right; exact H1|exact H2].
    + cbn [fst]. constructor; pnorm.
      * eapply Permutation_NoDup; [apply perm_arenas_get|exact N].
      * intros a'. rewrite <- R. split; intros H; eapply Permutation_in; try exact H;
          [apply Permutation_sym|]; apply perm_arenas_get.
      * constructor; assumption.
      * cbn in C. lia.
      * reflexivity.
      * cbn in C. lia.
      * discriminate.
      * intros a' b Hin. destruct (B a' b Hin) as [H1 H2]. split; [|exact H2].
        eapply Permutation_in; [apply perm_arenas_get|exact H1].
  - (* DropG *)
    destruct (lookup g (held s)) as [a|] eqn:El; [|exact Hinv].
    destruct (lookup_split _ _ _ El) as [Ph _]. pose proof (remove_guard_length _ _ _ El) as Hl.
    assert (PA : Permutation (idle s ++ map snd (held s) ++ leaked s)
                             ((a :: idle s) ++ map snd (remove_guard g (held s)) ++ leaked s)).
    { rewrite (Permutation_map snd Ph). cbn. symmetry. apply Permutation_middle. }
    cbn [fst]. constructor; pnorm.
    + eapply Permutation_NoDup; [exact PA|exact N].
    + intros a'. rewrite <- R. split; intros H; eapply Permutation_in; try exact H; [symmetry|]; exact PA.
    + pose proof (Permutation_map fst Ph) as Pf. eapply Permutation_NoDup in G; [|exact Pf]. inversion G; assumption.
    + cbn [length]. lia.
    + reflexivity.
    + lia.
    + discriminate.
    + intros a' b Hin. destruct (B a' b Hin) as [H1 H2]. split; [|exact H2]. eapply Permutation_in; [exact PA|exact H1].
  - (* Forget *)
    destruct (lookup g (held s)) as [a|] eqn:El; [|exact Hinv].
    destruct (lookup_split _ _ _ El) as [Ph _]. pose proof (remove_guard_length _ _ _ El) as Hl.
    assert (PA : Permutation (idle s ++ map snd (held s) ++ leaked s)
                             (idle s ++ map snd (remove_guard g (held s)) ++ a :: leaked s)).
    { rewrite (Permutation_map snd Ph). cbn. apply Permutation_app_head. apply Permutation_middle. }
    cbn [fst]. constructor; pnorm.
    + eapply Permutation_NoDup; [exact PA|exact N].
    + intros a'. rewrite <- R. split; intros H; eapply Permutation_in; try exact H; [symmetry|]; exact PA.
    + pose proof (Permutation_map fst Ph) as Pf. eapply Permutation_NoDup in G; [|exact Pf]. inversion G; assumption.
    + cbn [length]. lia.
    + reflexivity.
    + cbn [length]. lia.
    + discriminate.
    + intros a' b Hin. destruct (B a' b Hin) as [H1 H2]. split; [|exact H2]. eapply Permutation_in; [exact PA|exact H1].
  - (* Alloc *)
    destruct (lookup g (held s)) as [a|] eqn:El; [|exact Hinv].
    destruct (lookup_split _ _ _ El) as [_ Hin].
    cbn [fst]. constructor; pnorm; auto; try discriminate.
    intros a' b [E|Hb].
    + injection E as <- <-. split; [|lia]. apply in_or_app. right. apply in_or_app. left.
      apply (in_map snd) in Hin. exact Hin.
    + destruct (B a' b Hb). split; [assumption|lia].
  - (* Reset *)
    destruct (held s) eqn:Eh; [|exact Hinv].
    cbn [fst]. constructor; pnorm; auto; try discriminate.
    intros a b Hin. apply filter_In in Hin. destruct Hin as [Hin _]. exact (B a b Hin).
  - (* ResetToStart *)
    destruct (held s) eqn:Eh; [|exact Hinv].
    cbn [fst]. constructor; pnorm; auto; try discriminate.
    intros a b Hin. apply filter_In in Hin. destruct Hin as [Hin _]. exact (B a b Hin).
  - (* PoolDrop *)
    destruct (held s) eqn:Eh; [|exact Hinv].
    cbn [map app] in *.
    cbn [fst]. constructor; pnorm.
    + eapply Permutation_NoDup; [apply Permutation_app_comm|exact N].
    + intros a. rewrite <- R. split; intros H; (eapply Permutation_in; [apply Permutation_app_comm|exact H]).
    + constructor.
    + cbn [length] in C. lia.
    + discriminate.
    + cbn [length] in *. lia.
    + intros _. split; reflexivity.
    + intros a b Hin. apply filter_In in Hin. destruct Hin as [Hin Hl]. split; [|exact (proj2 (B a b Hin))].
      apply existsb_exists in Hl. destruct Hl as (x & Hx & E). apply Nat.eqb_eq in E. cbn in E. subst x. exact Hx.
Qed.

(* every state any number of threads can reach *)
Theorem run_inv xs : forall s, inv s -> inv (run s xs).
Proof. induction xs as [|x xs IH]; intros s H; [exact H|]. cbn. apply IH. apply step_inv. exact H. Qed.

Corollary reachable_inv xs : inv (run init xs).
Proof. apply run_inv. apply inv_init. Qed.

Lemma NoDup_app_remove_r {A} (l l' : list A) : NoDup (l ++ l') -> NoDup l.
Proof. induction l as [|x t IH]; cbn; [constructor|]. intros H. inversion H; subst. constructor; [|auto]. intros Hi. apply H2. apply in_or_app. left. exact Hi. Qed.
Lemma NoDup_app_remove_l {A} (l l' : list A) : NoDup (l ++ l') -> NoDup l'.
Proof. induction l as [|x t IH]; cbn; [auto|]. intros H. inversion H; auto. Qed.
Lemma NoDup_app_disjoint {A} (l l' : list A) x : NoDup (l ++ l') -> In x l -> In x l' -> False.
Proof.
  induction l as [|y t IH]; cbn; [tauto|]. intros H [->|Hi] Hi'.
  - inversion H; subst. apply H2. apply in_or_app. right. exact Hi'.
  - inversion H; subst. exact (IH H3 Hi Hi').
Qed.

(* ---------------------------------------------------------------- the clauses of the property *)
(* no two live guards refer to the same arena; a held arena is not idle *)
Theorem exclusive xs g1 g2 a :
  let s := run init xs in
  In (g1, a) (held s) -> In (g2, a) (held s) -> g1 = g2.
Proof.
  intros s H1 H2. pose proof (reachable_inv xs) as [N _ G _ _ _ _ _]. fold s in N, G.
  unfold arenas in N. apply NoDup_app_remove_r in N. apply NoDup_app_remove_l in N. apply NoDup_app_remove_r in N.
  (* (g, a) pairs with distinct a and distinct g *)
  revert H1 H2 N G. generalize (held s) as l. induction l as [|[g' a'] t IH]; cbn; [tauto|].
  intros [E1|I1] [E2|I2] N G.
  - congruence.
  - injection E1 as -> ->. exfalso. inversion N as [|? ? Hn _]; subst. apply Hn. apply (in_map snd) in I2. exact I2.
  - injection E2 as -> ->. exfalso. inversion N as [|? ? Hn _]; subst. apply Hn. apply (in_map snd) in I1. exact I1.
  - inversion N; inversion G; subst. apply IH; assumption.
Qed.

Theorem held_not_idle xs g a :
  let s := run init xs in In (g, a) (held s) -> ~ In a (idle s) /\ ~ In a (leaked s).
Proof.
  intros s H. pose proof (reachable_inv xs) as [N _ _ _ _ _ _ _]. fold s in N.
  unfold arenas in N. apply NoDup_app_remove_r in N.
  apply (in_map snd) in H. cbn in H.
  split; intros Hi.
  - apply (NoDup_app_disjoint _ _ a N); [exact Hi|apply in_or_app; left; exact H].
  - apply NoDup_app_remove_l in N. apply (NoDup_app_disjoint _ _ a N); assumption.
Qed.

(* an idle arena is reused before a new one is created: a get only creates when none is idle,
   and then the number ever created does not exceed the peak number of simultaneously live guards *)
Theorem get_reuses_idle s g ok a rest :
  gone s = false -> lookup g (held s) = None -> idle s = a :: rest ->
  snd (step s (Get g ok)) = OArena a false /\ created (fst (step s (Get g ok))) = created s.
Proof. intros Hg Hl Hi. unfold step. rewrite Hg, Hl, Hi. split; reflexivity. Qed.

Theorem created_le_peak xs : let s := run init xs in gone s = false -> created s <= peak s.
Proof.
  intros s Hg. pose proof (reachable_inv xs) as [_ _ _ _ Rel P _ _]. fold s in Rel, P.
  rewrite (Rel Hg) in P. cbn in P. lia.
Qed.

Theorem live_le_peak xs : let s := run init xs in live s <= peak s.
Proof. intros s. pose proof (reachable_inv xs) as [_ _ _ _ _ P _ _]. exact (proj1 P). Qed.

(* the peak really is a number of guards that were alive at the same time *)
Theorem peak_witnessed xs : exists k, k <= length xs /\ live (run init (firstn k xs)) = peak (run init xs).
Proof.
  assert (Gen : forall xs s, (exists k, k <= length xs /\ live (run s (firstn k xs)) = peak (run s xs)) \/ peak (run s xs) = peak s).
  { clear xs. induction xs as [|x xs IH]; intros s; [right; reflexivity|].
    cbn [run fold_left]. fold (run (fst (step s x)) xs).
    destruct (IH (fst (step s x))) as [(k & Hk & E)|E].
    - left. exists (S k). split; [cbn; lia|]. cbn [firstn run fold_left]. exact E.
    - rewrite E.
      assert (Hp : peak (fst (step s x)) = peak s \/ peak (fst (step s x)) = live (fst (step s x))).
      { unfold step. destruct (gone s); [left; reflexivity|].
        destruct x as [g ok|g|g|g| | |]; try (destruct (lookup g (held s)); cbn; auto; fail);
          try (destruct (held s); cbn; auto; fail).
        destruct (lookup g (held s)); [left; reflexivity|].
        destruct (idle s); [destruct ok; [|left; reflexivity]|]; cbn [fst peak live held leaked];
          match goal with |- context [Nat.max ?a ?b] => destruct (Nat.max_spec a b) as [[_ ->]|[_ ->]] end; auto. }
      destruct Hp as [Hp|Hp]; [right; exact Hp|].
      left. exists 1. split; [cbn; lia|]. cbn [firstn run fold_left]. symmetry. exact Hp. }
  destruct (Gen xs init) as [H|H]; [exact H|].
  exists 0. split; [lia|]. cbn. rewrite H. reflexivity.
Qed.

(* everything allocated through a guard stays intact across get / guard drop / forget / further
   allocation by ANY thread: only reset, reset_to_start or drop of the pool end it *)
Definition rewinds (x : act) : bool := match x with Reset | ResetToStart | PoolDrop => true | _ => false end.

Theorem allocations_survive s x ab :
  rewinds x = false -> In ab (blocks s) -> In ab (blocks (fst (step s x))).
Proof.
  intros Hx Hin. unfold step. destruct (gone s); [exact Hin|].
  destruct x as [g ok|g|g|g| | |]; try discriminate.
  - destruct (lookup g (held s)); [exact Hin|]. destruct (idle s); [destruct ok|]; exact Hin.
  - destruct (lookup g (held s)); exact Hin.
  - destruct (lookup g (held s)); exact Hin.
  - destruct (lookup g (held s)); [right|]; exact Hin.
Qed.

Theorem allocations_survive_schedule xs : forall s ab,
  forallb (fun x => negb (rewinds x)) xs = true -> In ab (blocks s) -> In ab (blocks (run s xs)).
Proof.
  induction xs as [|x xs IH]; intros s ab Hall Hin; [exact Hin|].
  cbn in Hall. apply andb_prop in Hall. destruct Hall as [Hx Hxs]. cbn. apply IH; [exact Hxs|].
  apply allocations_survive; [destruct (rewinds x); [discriminate|reflexivity]|exact Hin].
Qed.

(* reset / reset_to_start / drop of the pool need exclusive access: with a live guard they are
   not steps a safe program can take *)
Theorem rewind_needs_no_guard s x : rewinds x = true -> held s <> [] -> step s x = (s, OReject).
Proof.
  intros Hx Hh. unfold step. destruct (gone s); [reflexivity|].
  destruct x; try discriminate; destruct (held s); congruence.
Qed.

(* they act on every idle arena: afterwards only the allocations of leaked arenas remain; reset
   keeps every arena, drop releases each idle arena exactly once *)
Theorem pool_reset_rewinds_all s :
  gone s = false -> held s = [] ->
  let s' := fst (step s Reset) in
  idle s' = idle s /\ created s' = created s /\
  forall a b, In (a, b) (blocks s') -> In a (leaked s).
Proof.
  intros Hg Hh. unfold step. rewrite Hg, Hh. cbn. split; [reflexivity|]. split; [reflexivity|].
  intros a b Hin. apply filter_In in Hin. destruct Hin as [_ Hl].
  apply existsb_exists in Hl. destruct Hl as (x & Hx & E). apply Nat.eqb_eq in E. cbn in E. subst x. exact Hx.
Qed.

Theorem pool_drop_releases_each_idle_arena_once xs :
  let s := run init xs in gone s = false -> held s = [] ->
  let s' := fst (step s PoolDrop) in
  released s' = idle s /\ NoDup (released s') /\ (forall a, In a (leaked s) -> ~ In a (released s')).
Proof.
  intros s Hg Hh s'. pose proof (reachable_inv xs) as [N _ _ _ Rel _ _ _]. fold s in N, Rel.
  specialize (Rel Hg). unfold s', step. rewrite Hg, Hh. cbn [fst released]. rewrite Rel, app_nil_r.
  unfold arenas in N. rewrite Rel, app_nil_r, Hh in N. cbn in N.
  split; [reflexivity|]. split; [apply NoDup_app_remove_r in N; exact N|].
  intros a Hl Hi. exact (NoDup_app_disjoint _ _ a N Hi Hl).
Qed.

(* non-vacuity: three guards on two threads' worth of interleaving, one forgotten, a failed creation *)
Example pool_example :
  let s := run init [Get 1 true; Get 2 true; Alloc 1; DropG 1; Get 3 true; Get 4 false; Forget 2; Alloc 3; DropG 3] in
  created s = 2 /\ peak s = 2 /\ idle s = [0] /\ leaked s = [1] /\ blocks s = [(0, 1); (0, 0)].
Proof. vm_compute. repeat split; reflexivity. Qed.
