(* RegionsProofs.v — soundness of the region discipline of Regions.v. *)
From Coq Require Import List Arith Bool Lia.
From BS Require Import Regions.
Import ListNotations.

Lemma all_producers_complete p : In p all_producers.
Proof. destruct p; cbn; tauto. Qed.
Lemma all_rewinders_complete w : In w all_rewinders.
Proof. destruct w; cbn; tauto. Qed.

Lemma tables_ok_facts T : Tables_ok T = true ->
  (forall p, lclass_eqb (cls T p) LTied = true) /\ (forall w, rcv T w = RMut) /\
  scoped_closure_higher_ranked T = true /\ scope_guard_borrows_mut T = true.
Proof.
  unfold Tables_ok. intros H. apply andb_prop in H. destruct H as [H H4]. apply andb_prop in H. destruct H as [H H3].
  apply andb_prop in H. destruct H as [H1 H2]. rewrite forallb_forall in H1, H2.
  split; [intros p; apply H1; apply all_producers_complete|]. split; [|split; assumption].
  intros w. specialize (H2 w (all_rewinders_complete w)). destruct (rcv T w); [discriminate|reflexivity].
Qed.

(* the static environment that corresponds to a dynamic one when every path is tied *)
Definition abs_env (e : list (nat * (nat * nat))) : list (nat * (nat * bool)) :=
  map (fun b => (fst b, (fst (snd b), true))) e.

Lemma sfind_abs x e : sfind x (abs_env e) = option_map (fun v => (fst v, true)) (find x e).
Proof.
  induction e as [|[y [l ep]] t IH]; [reflexivity|]. cbn. destruct (x =? y); [reflexivity|exact IH].
Qed.

Lemma loans_ok_spec l rest : forall e seen y ly,
  loans_ok seen l e rest = true -> sfind y e = Some (ly, true) -> ~ In y seen -> l <= ly -> uses y rest = false.
Proof.
  induction e as [|[x [lx tied]] t IH]; intros seen y ly H Hf Hn Hl; [discriminate|].
  cbn [loans_ok] in H. apply andb_prop in H. destruct H as [H1 H2]. cbn [sfind] in Hf.
  destruct (Nat.eqb_spec y x) as [->|Hne].
  - injection Hf as -> ->.
    destruct (existsb (Nat.eqb x) seen) eqn:Ex.
    { exfalso. apply existsb_exists in Ex. destruct Ex as (z & Hz & E). apply Nat.eqb_eq in E. subst z. exact (Hn Hz). }
    cbn [andb] in H1. replace (l <=? ly) with true in H1 by (symmetry; apply Nat.leb_le; exact Hl).
    cbn [andb] in H1. destruct (uses x rest); [discriminate|reflexivity].
  - apply (IH (x :: seen) y ly H2 Hf); [|exact Hl]. intros [E|Hi]; [congruence|exact (Hn Hi)].
Qed.

Definition Inv (d : dstate) (rest : list cmd) : Prop :=
  forall x, stale d x = true -> uses x rest = false.

Lemma stale_bump d l x :
  stale (mkD (depth d) (bump_epoch (epochs d) l) (env d)) x = true ->
  stale d x = true \/ exists e, find x (env d) = Some (l, e).
Proof.
  unfold stale. cbn [env epochs]. destruct (find x (env d)) as [[lx e]|]; [|discriminate].
  unfold bump_epoch. destruct (Nat.eqb_spec lx l) as [->|Hne]; [intros _; right; eexists; reflexivity|].
  intros H. left. exact H.
Qed.

Theorem check_sound T : Tables_ok T = true ->
  forall p d, Inv d p -> check T (mkS (depth d) (abs_env (env d))) p = true -> dexec d p = false.
Proof.
  intros HT. destruct (tables_ok_facts T HT) as (Hcls & Hrcv & Hhr & Hsg).
  induction p as [|c r IH]; intros d HI Hc; [reflexivity|].
  destruct c as [x pr|x| | |w]; cbn [check dexec dstep] in *.
  - (* Alloc *)
    rewrite Hcls in Hc. cbn [orb].
    apply (IH (mkD (depth d) (epochs d) ((x, (depth d, epochs d (depth d))) :: env d))); [|exact Hc].
    intros y Hy. unfold stale in Hy. cbn [env epochs find] in Hy.
    destruct (Nat.eq_dec y x) as [E|Hne].
    + subst y. rewrite Nat.eqb_refl in Hy. cbn in Hy. rewrite Nat.eqb_refl in Hy. discriminate.
    + apply Nat.eqb_neq in Hne. rewrite Hne in Hy.
      specialize (HI y). unfold stale in HI. cbn [uses] in HI. rewrite Hne in HI. apply HI. exact Hy.
  - (* Use *)
    assert (Hs : stale d x = false).
    { destruct (stale d x) eqn:E; [|reflexivity]. specialize (HI x E). cbn [uses] in HI. rewrite Nat.eqb_refl in HI. discriminate. }
    rewrite Hs. cbn [orb]. apply IH; [|exact Hc].
    intros y Hy. specialize (HI y Hy). cbn [uses] in HI. apply orb_false_iff in HI. tauto.
  - (* Enter *)
    cbn [orb]. apply (IH (mkD (S (depth d)) (epochs d) (env d))); [|exact Hc].
    intros y Hy. exact (HI y Hy).
  - (* Exit *)
    destruct (depth d) as [|k] eqn:Ed.
    + cbn [orb]. replace d with (mkD (depth d) (epochs d) (env d)) in IH at 1 by (destruct d; reflexivity).
      apply IH; [intros y Hy; exact (HI y Hy)|]. rewrite Ed in *. exact Hc.
    + cbn [orb]. rewrite Hhr, Hsg in Hc. cbn [andb] in Hc. apply andb_prop in Hc. destruct Hc as [Hl Hc].
      apply (IH (mkD k (bump_epoch (epochs d) (S k)) (env d))); [|exact Hc].
      intros y Hy.
      assert (Hy' : stale (mkD (depth d) (bump_epoch (epochs d) (S k)) (env d)) y = true) by exact Hy.
      destruct (stale_bump d (S k) y Hy') as [Hold|[e Hf]]; [exact (HI y Hold)|].
      apply (loans_ok_spec (S k) r (abs_env (env d)) [] y (S k) Hl); [rewrite sfind_abs, Hf; reflexivity|tauto|lia].
  - (* Rewind *)
    cbn [orb]. rewrite Hrcv in Hc. apply andb_prop in Hc. destruct Hc as [Hl Hc].
    apply (IH (mkD (depth d) (bump_epoch (epochs d) (depth d)) (env d))); [|exact Hc].
    intros y Hy. destruct (stale_bump d (depth d) y Hy) as [Hold|[e Hf]]; [exact (HI y Hold)|].
    apply (loans_ok_spec (depth d) r (abs_env (env d)) [] y (depth d) Hl); [rewrite sfind_abs, Hf; reflexivity|tauto|lia].
Qed.

(* every program the static check accepts, at any nesting depth, never uses a value after the
   memory it points to may have been handed out again *)
Theorem region_discipline_sound T p :
  Tables_ok T = true -> check T sinit p = true -> dexec dinit p = false.
Proof.
  intros HT Hc. apply (check_sound T HT p dinit); [|exact Hc]. intros x Hx. discriminate.
Qed.

(* and the converse direction that makes the tables matter: with ONE path whose lifetime is free
   (or one rewinding operation through a shared reference), an accepted program does use a value
   after reuse — the escape program of that table row *)
Definition with_cls (T : tables) (p0 : producer) : tables :=
  mkTables (fun p => if lclass_eqb LTied LTied && match p, p0 with
                        | PBump, PBump | PScope, PScope | PTraitRefBump, PTraitRefBump | PTraitMutBump, PTraitMutBump
                        | PTraitScope, PTraitScope | PTraitWrapped, PTraitWrapped | PGuardScope, PGuardScope
                        | PPoolGuard, PPoolGuard | PClaim, PClaim | PCollection, PCollection => true | _, _ => false end
                     then LFree else cls T p)
           (rcv T) (scoped_closure_higher_ranked T) (scope_guard_borrows_mut T).

Theorem free_lifetime_admits_escape T p0 :
  let T' := with_cls T p0 in
  let prog := [Alloc 0 p0; Rewind WReset; Use 0] in
  check T' sinit prog = true /\ dexec dinit prog = true.
Proof. destruct p0; cbn; destruct (rcv T WReset); split; reflexivity. Qed.

Theorem shared_rewinder_admits_escape T w0 p :
  rcv T w0 = RShared ->
  let prog := [Alloc 0 p; Rewind w0; Use 0] in
  check T sinit prog = true /\ dexec dinit prog = true.
Proof. intros H. cbn. rewrite H. split; reflexivity. Qed.

(* non-vacuity: a nested program that is accepted, and one that is rejected *)
Definition T_good : tables := mkTables (fun _ => LTied) (fun _ => RMut) true true.
Example accepted_example :
  Tables_ok T_good = true /\
  check T_good sinit [Alloc 0 PBump; Enter; Alloc 1 PScope; Use 1; Use 0; Enter; Alloc 2 PGuardScope; Use 2; Exit; Use 1; Exit; Use 0; Rewind WReset; Alloc 0 PBump; Use 0] = true.
Proof. split; reflexivity. Qed.
Example rejected_examples :
  check T_good sinit [Enter; Alloc 1 PScope; Exit; Use 1] = false /\
  check T_good sinit [Alloc 0 PTraitMutBump; Rewind WReset; Use 0] = false /\
  check T_good sinit [Enter; Alloc 1 PGuardScope; Rewind WSecondScope; Use 1] = false.
Proof. repeat split; reflexivity. Qed.
