(* SplitCapProofs.v — C16: the windows of split_off hold exactly the two parts, tile the buffer,
   and the spare capacity stays with the window at the end of the buffer. *)
From Coq Require Import List Arith Bool Lia.
From BS Require Import Colls CollsProofs SplitCap.
Import ListNotations.

Lemma rotate_left_length {A} (l : list A) n : length (rotate_left l n) = length l.
Proof. unfold rotate_left. rewrite app_length, skipn_length, firstn_length. lia. Qed.

Lemma split_off_buffer_length {A} (l : list A) a b : a <= b <= length l ->
  length (split_off_buffer l a b) = length l.
Proof.
  intros [H1 H2]. unfold split_off_buffer.
  destruct (b =? length l); [reflexivity|].
  destruct (a =? 0); [reflexivity|].
  destruct (a =? b); [reflexivity|].
  destruct (a <? length l - b).
  - unfold rotate_right. rewrite app_length, rotate_left_length, firstn_length, skipn_length. lia.
  - rewrite app_length, rotate_left_length, firstn_length, skipn_length. lia.
Qed.

(* the elements each vector holds afterwards are exactly what lies in its window *)
Theorem split_off_windows_hold_the_parts {A} (l : list A) cap a b : a <= b <= length l ->
  split_off_code l a b =
  (wview (split_off_buffer l a b) (fst (split_off_windows (length l) cap a b)),
   wview (split_off_buffer l a b) (snd (split_off_windows (length l) cap a b))).
Proof.
  intros [H1 H2].
  pose proof (split_off_buffer_length l a b (conj H1 H2)) as HL.
  unfold split_off_code, split_off_windows, wview in *. unfold split_off_buffer in *.
  destruct (Nat.eqb_spec b (length l)) as [Hb|Hb].
  { cbn [fst snd woff wlen wcap skipn]. f_equal.
    symmetry. apply firstn_all2. rewrite skipn_length. lia. }
  destruct (Nat.eqb_spec a 0) as [Ha|Ha].
  { cbn [fst snd woff wlen wcap skipn]. f_equal.
    symmetry. apply firstn_all2. rewrite skipn_length. lia. }
  destruct (Nat.eqb_spec a b) as [Hab|Hab].
  { cbn [fst snd woff wlen wcap skipn firstn]. f_equal. rewrite firstn_all. reflexivity. }
  destruct (a <? length l - b) eqn:Hlt; cbv zeta; cbn [fst snd woff wlen wcap skipn].
  - f_equal. symmetry. apply firstn_all2. rewrite skipn_length, HL. lia.
  - f_equal. symmetry. apply firstn_all2. rewrite skipn_length, HL. lia.
Qed.

(* the two windows are inside the buffer, do not overlap, every window is large enough for its
   elements, and nothing of the capacity or of the elements is lost *)
Theorem split_off_windows_tile len cap a b : a <= b <= len -> len <= cap ->
  let k := fst (split_off_windows len cap a b) in
  let o := snd (split_off_windows len cap a b) in
  wlen k <= wcap k /\ wlen o <= wcap o /\
  wcap k + wcap o = cap /\ wlen k + wlen o = len /\ wlen o = b - a /\
  woff k + wcap k <= cap /\ woff o + wcap o <= cap /\
  (woff k + wcap k <= woff o \/ woff o + wcap o <= woff k).
Proof.
  intros [H1 H2] H3. unfold split_off_windows.
  destruct (Nat.eqb_spec b len) as [Hb|Hb]; [cbn [fst snd woff wlen wcap]; lia|].
  destruct (Nat.eqb_spec a 0) as [Ha|Ha]; [cbn [fst snd woff wlen wcap]; lia|].
  destruct (Nat.eqb_spec a b) as [Hab|Hab]; [cbn [fst snd woff wlen wcap]; lia|].
  destruct (Nat.ltb_spec a (len - b)) as [Hlt|Hge]; cbv zeta; cbn [fst snd woff wlen wcap]; lia.
Qed.

(* the window that lies first in the buffer is exactly full; the spare capacity (cap - len) belongs
   to the window that ends at the end of the buffer *)
Theorem split_off_spare_goes_to_the_end len cap a b : a <= b <= len -> len <= cap ->
  let k := fst (split_off_windows len cap a b) in
  let o := snd (split_off_windows len cap a b) in
  (wcap k - wlen k) + (wcap o - wlen o) = cap - len /\
  (woff k < woff o -> wcap k = wlen k /\ woff o + wcap o = cap) /\
  (woff o < woff k -> wcap o = wlen o /\ woff k + wcap k = cap).
Proof.
  intros [H1 H2] H3. unfold split_off_windows.
  destruct (Nat.eqb_spec b len) as [Hb|Hb]; [cbn [fst snd woff wlen wcap]; lia|].
  destruct (Nat.eqb_spec a 0) as [Ha|Ha]; [cbn [fst snd woff wlen wcap]; lia|].
  destruct (Nat.eqb_spec a b) as [Hab|Hab]; [cbn [fst snd woff wlen wcap]; lia|].
  destruct (Nat.ltb_spec a (len - b)) as [Hlt|Hge]; cbv zeta; cbn [fst snd woff wlen wcap]; lia.
Qed.

(* with the list-level specification: self keeps the elements outside the range in order, the
   split-off vector the range, each inside its own window *)
Corollary split_off_windows_spec {A} (l : list A) cap a b : a <= b <= length l ->
  wview (split_off_buffer l a b) (fst (split_off_windows (length l) cap a b)) = firstn a l ++ skipn b l /\
  wview (split_off_buffer l a b) (snd (split_off_windows (length l) cap a b)) = firstn (b - a) (skipn a l).
Proof.
  intros H. pose proof (split_off_windows_hold_the_parts l cap a b H) as E.
  rewrite (split_off_code_spec l a b H) in E. inversion E. split; reflexivity.
Qed.

Module SplitCapExample.
  (* a vector of 6 elements and capacity 10, the range 1..3 split off: head (1) < tail (3), the range is
     rotated to the front; self keeps [0;3;4;5] in the window (2, 4, 8), the other vector gets [1;2] in (0, 2, 2) *)
  Example windows : split_off_windows 6 10 1 3 = (mkVwin 2 4 8, mkVwin 0 2 2).
  Proof. reflexivity. Qed.
  Example parts : split_off_code [0;1;2;3;4;5] 1 3 = ([0;3;4;5], [1;2]) /\ split_off_buffer [0;1;2;3;4;5] 1 3 = [1;2;0;3;4;5].
  Proof. split; reflexivity. Qed.
End SplitCapExample.

(* ---------------------------------------------------------------- split_at_spare / into_flattened *)
Theorem spare_windows_tile len cap : len <= cap ->
  let '(i, s) := spare_windows len cap in
  woff i = 0 /\ wlen i = len /\ woff s = woff i + wlen i /\ wlen s = 0 /\
  wcap i + wcap s = cap /\ woff s + wcap s = cap.
Proof. intros H. unfold spare_windows. cbn. lia. Qed.

Lemma concat_length_uniform {A} (l : list (list A)) n :
  Forall (fun x => length x = n) l -> length (concat l) = length l * n.
Proof.
  induction l as [|x xs IH]; intros H; [reflexivity|].
  inversion H as [|? ? Hx Hxs]; subst. cbn [concat length]. rewrite app_length, IH by assumption. lia.
Qed.

(* element (i, j) of the nested vector is element i * n + j of the flattened one: count and order kept *)
Lemma concat_nth_uniform {A} (l : list (list A)) n i j x :
  Forall (fun x => length x = n) l -> nth_error l i = Some x -> j < n ->
  nth_error (concat l) (i * n + j) = nth_error x j.
Proof.
  revert i. induction l as [|y ys IH]; intros i H Hi Hj; [destruct i; discriminate|].
  inversion H as [|? ? Hy Hys]; subst. destruct i as [|i].
  - cbn in Hi. injection Hi as <-. cbn [concat Nat.mul Nat.add]. rewrite nth_error_app1 by lia. reflexivity.
  - cbn in Hi. cbn [concat]. rewrite nth_error_app2 by lia.
    replace (S i * length y + j - length y) with (i * length y + j) by lia. apply IH; assumption.
Qed.

Theorem flatten_keeps_count_and_order {A} (l : list (list A)) n :
  Forall (fun x => length x = n) l ->
  length (flatten_list l) = length l * n /\
  (forall i j x, nth_error l i = Some x -> j < n -> nth_error (flatten_list l) (i * n + j) = nth_error x j).
Proof.
  intros H. split; [apply concat_length_uniform; exact H|].
  intros i j x Hi Hj. apply concat_nth_uniform; assumption.
Qed.

(* the window of the flattened vector: same bytes, lengths and capacities times n, still inside *)
Theorem flatten_window_scales w n :
  wlen w <= wcap w ->
  let f := flatten_window w n in
  wlen f = wlen w * n /\ wcap f = wcap w * n /\ woff f = woff w * n /\ wlen f <= wcap f.
Proof. intros H. unfold flatten_window. cbn. repeat split; try reflexivity. nia. Qed.
