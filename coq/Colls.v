(* Colls.v — executable model of the slot-level collection algorithms (MODEL ONLY).
   Hand-written from src/bump_box.rs (impl BumpBox<[T]>: truncate, pop, remove, swap_remove,
   retain + PanicGuard, dedup_by + FillGapOnDrop, split_off), src/owned_slice/{drain,extract_if}.rs,
   src/fixed_bump_vec.rs (insert, push, append, resize/extend_with via SetLenOnDrop).  BumpVec, FixedBumpVec
   and MutBumpVec forward to these; MutBumpVecRev mirrors them.

   Elements are identities (nat).  The state of an algorithm is kept at the level the code keeps
   it: a prefix of elements already placed (`kept`, the slots below the write cursor), the
   elements not yet looked at (`rest`, the slots from the read cursor), with the moved-from /
   dropped slots in between not represented — they are exactly what the panic guards skip.
   A user callback is an oracle indexed by its invocation number; it may panic.  An element's
   Drop may panic too. *)
From Coq Require Import List Arith Bool.
Import ListNotations.

Inductive ans := Ret (b : bool) | Panic.

(* the k-th invocation of the callback, on these element identities *)
Definition pred1 := nat -> nat -> ans.
Definition pred2 := nat -> nat -> nat -> ans.
(* does Drop of this element panic? *)
Definition dpan := nat -> bool.

Record outcome := mkOutcome {
  final : list nat;     (* elements the collection still owns, in order *)
  yielded : list nat;   (* moved out to the caller (or into a new owner), in order *)
  dropped : list nat;   (* drop_in_place'd by the operation, in order *)
  unwound : bool;       (* the operation ended by unwinding *)
  calls : nat           (* callback invocations made *)
}.

(* dropping a slice drops every element, also when one of the drops panics *)
Definition drop_all (dp : dpan) (l : list nat) : list nat * bool := (l, existsb dp l).

(* ---------------------------------------------------------------- simple operations *)
Definition op_truncate (dp : dpan) (l : list nat) (n : nat) : outcome :=
  if length l <=? n then mkOutcome l [] [] false 0
  else let '(d, p) := drop_all dp (skipn n l) in mkOutcome (firstn n l) [] d p 0.

Definition op_clear (dp : dpan) (l : list nat) : outcome := op_truncate dp l 0.

Definition op_pop (l : list nat) : outcome :=
  match rev l with
  | [] => mkOutcome l [] [] false 0
  | x :: r => mkOutcome (rev r) [x] [] false 0
  end.

(* remove: panics (no change) when out of range *)
Definition op_remove (l : list nat) (i : nat) : outcome :=
  match nth_error l i with
  | None => mkOutcome l [] [] true 0
  | Some x => mkOutcome (firstn i l ++ skipn (S i) l) [x] [] false 0
  end.

Definition op_swap_remove (l : list nat) (i : nat) : outcome :=
  match nth_error l i, rev l with
  | Some x, lastx :: _ =>
    let without_last := removelast l in
    if S i =? length l then mkOutcome without_last [x] [] false 0
    else mkOutcome (firstn i without_last ++ lastx :: skipn (S i) without_last) [x] [] false 0
  | _, _ => mkOutcome l [] [] true 0
  end.

(* insert: panics (the new element is dropped by the unwinding caller frame: reported in
   `dropped`) when the index is out of range *)
Definition op_insert (l : list nat) (i x : nat) : outcome :=
  if length l <? i then mkOutcome l [] [x] true 0
  else mkOutcome (firstn i l ++ x :: skipn i l) [] [] false 0.

Definition op_push (l : list nat) (x : nat) : outcome := mkOutcome (l ++ [x]) [] [] false 0.

(* ---------------------------------------------------------------- retain *)
Fixpoint retain_go (f : pred1) (dp : dpan) (k : nat) (kept rest dr : list nat) : outcome :=
  match rest with
  | [] => mkOutcome kept [] dr false k
  | x :: r =>
    match f k x with
    | Panic => mkOutcome (kept ++ x :: r) [] dr true (S k)       (* guard: unchecked tail shifted back *)
    | Ret true => retain_go f dp (S k) (kept ++ [x]) r dr
    | Ret false =>
      if dp x then mkOutcome (kept ++ r) [] (dr ++ [x]) true (S k)   (* read was advanced before the drop *)
      else retain_go f dp (S k) kept r (dr ++ [x])
    end
  end.

Definition op_retain (f : pred1) (dp : dpan) (l : list nat) : outcome := retain_go f dp 0 [] l [].

(* ---------------------------------------------------------------- dedup_by *)
(* same_bucket k current previous; `prev` is the last kept element *)
Fixpoint dedup_go (f : pred2) (dp : dpan) (k : nat) (kept : list nat) (prev : nat) (rest dr : list nat) : outcome :=
  match rest with
  | [] => mkOutcome kept [] dr false k
  | x :: r =>
    match f k x prev with
    | Panic => mkOutcome (kept ++ x :: r) [] dr true (S k)
    | Ret true =>
      if dp x then mkOutcome (kept ++ r) [] (dr ++ [x]) true (S k)
      else dedup_go f dp (S k) kept prev r (dr ++ [x])
    | Ret false => dedup_go f dp (S k) (kept ++ [x]) x r dr
    end
  end.

Definition op_dedup_by (f : pred2) (dp : dpan) (l : list nat) : outcome :=
  match l with
  | [] => mkOutcome l [] [] false 0
  | x :: r => dedup_go f dp 0 [x] x r []
  end.

(* ---------------------------------------------------------------- drain *)
Inductive drain_end := DrainDrop | DrainKeepRest | DrainForget.

Definition lastn {A} (n : nat) (l : list A) : list A := skipn (length l - n) l.

(* drain(a..b); the caller pulls kf elements from the front, then kb from the back, then ends *)
Definition op_drain (dp : dpan) (l : list nat) (a b kf kb : nat) (e : drain_end) : outcome :=
  if (b <? a) || (length l <? b) then mkOutcome l [] [] true 0
  else
    let head := firstn a l in
    let rng := firstn (b - a) (skipn a l) in
    let tail := skipn b l in
    let kf' := Nat.min kf (length rng) in
    let kb' := Nat.min kb (length rng - kf') in
    let front := firstn kf' rng in
    let back := rev (lastn kb' rng) in
    let mid := firstn (length rng - kf' - kb') (skipn kf' rng) in
    match e with
    | DrainDrop => let '(d, p) := drop_all dp mid in mkOutcome (head ++ tail) (front ++ back) d p 0
    | DrainKeepRest => mkOutcome (head ++ mid ++ tail) (front ++ back) [] false 0
    | DrainForget => mkOutcome head (front ++ back) [] false 0      (* leak: mid and tail are never dropped *)
    end.

(* ---------------------------------------------------------------- extract_if *)
(* pulls until `want` elements were extracted (or the end), then the iterator is dropped *)
Fixpoint extract_go (f : pred1) (k want : nat) (kept rest ys : list nat) : outcome :=
  match want with
  | O => mkOutcome (kept ++ rest) ys [] false k
  | S w =>
    match rest with
    | [] => mkOutcome kept ys [] false k
    | x :: r =>
      match f k x with
      | Panic => mkOutcome (kept ++ x :: r) ys [] true (S k)    (* index is advanced after the call *)
      | Ret true => extract_go f (S k) w kept r (ys ++ [x])
      | Ret false => extract_go f (S k) (S w) (kept ++ [x]) r ys
      end
    end
  end.

(* `want` counts extractions; `None`-terminated iteration = want > length *)
Definition op_extract_if (f : pred1) (l : list nat) (want : nat) : outcome :=
  extract_go f 0 want [] l [].

(* ---------------------------------------------------------------- split_off (rotate in place) *)
Definition rotate_left {A} (l : list A) (n : nat) : list A := skipn n l ++ firstn n l.
Definition rotate_right {A} (l : list A) (n : nat) : list A := rotate_left l (length l - n).

(* the code: returns (what self keeps, the split-off box) *)
Definition split_off_code {A} (l : list A) (a b : nat) : list A * list A :=
  let len := length l in
  if b =? len then (firstn a l, skipn a l)
  else if a =? 0 then (skipn b l, firstn b l)
  else if a =? b then (l, [])
  else
    let head_len := a in
    let tail_len := len - b in
    let range_len := b - a in
    let remaining_len := len - range_len in
    if head_len <? tail_len then
      (* rotate [..b) right by range_len: the range comes first *)
      let l' := rotate_right (firstn b l) range_len ++ skipn b l in
      (skipn range_len l', firstn range_len l')
    else
      (* rotate [a..) left by range_len: the range goes last *)
      let l' := firstn a l ++ rotate_left (skipn a l) range_len in
      (firstn remaining_len l', skipn remaining_len l').

Definition op_split_off (l : list nat) (a b : nat) : outcome :=
  if (b <? a) || (length l <? b) then mkOutcome l [] [] true 0
  else let '(keep, off) := split_off_code l a b in mkOutcome keep off [] false 0.

(* ---------------------------------------------------------------- extend with clones (resize / extend_with) *)
(* n clones of a value are appended one by one; clone k may panic; SetLenOnDrop keeps what was
   written; ids of the new elements are given *)
Fixpoint extend_go (cl : nat -> bool) (k : nat) (acc : list nat) (ids : list nat) : outcome :=
  match ids with
  | [] => mkOutcome acc [] [] false k
  | x :: r => if cl k then mkOutcome acc [] [] true (S k) else extend_go cl (S k) (acc ++ [x]) r
  end.

Definition op_extend_clones (cl : nat -> bool) (l : list nat) (ids : list nat) : outcome :=
  extend_go cl 0 l ids.


(* ---------------------------------------------------------------- growth by a producer
   extend_from_slice_clone / extend_from_within_clone (above), resize_with, extend / from_iter and
   resize all write one produced element after the other and count it in `len` at once
   (push_unchecked, SetLenOnDrop): when the k-th production - Clone::clone, the closure,
   Iterator::next - panics, what was produced before stays in the vector.  `ids` are the
   identities the productions would get, in order. *)

(* resize_with(new_len, f): truncate, or new_len - len calls of f *)
Definition op_resize_with (f : nat -> bool) (dp : dpan) (l : list nat) (new_len : nat) (ids : list nat) : outcome :=
  if new_len <=? length l then op_truncate dp l new_len
  else extend_go f 0 l (firstn (new_len - length l) ids).

(* resize(new_len, v): truncate and drop v, or new_len - len - 1 clones of v and then v itself
   (extend_with_unchecked); a panicking clone leaves the clones made so far, v is dropped by unwinding *)
Definition op_resize (cl : nat -> bool) (dp : dpan) (l : list nat) (new_len : nat) (ids : list nat) (v : nat) : outcome :=
  if new_len <=? length l then
    let o := op_truncate dp l new_len in mkOutcome (final o) [] (dropped o ++ [v]) (unwound o) 0
  else
    let o := extend_go cl 0 l (firstn (new_len - length l - 1) ids) in
    if unwound o then mkOutcome (final o) [] [v] true (calls o)
    else mkOutcome (final o ++ [v]) [] [] false (calls o).

(* extend(iterator) / from_iter_in: the iterator's k-th `next` may panic *)
Definition op_extend_iter (nx : nat -> bool) (l : list nat) (ids : list nat) : outcome := extend_go nx 0 l ids.

(* map (consuming, BumpVec only): in place when the target type fits, through into_iter and a new
   vector otherwise; either way a closure that panics at its k-th call leaves nothing behind *)
Definition op_map (l : list nat) (panic_at : option nat) : outcome :=
  match panic_at with
  | Some k => if k <? length l then mkOutcome [] [] l true (S k) else mkOutcome l [] [] false (length l)
  | None => mkOutcome l [] [] false (length l)
  end.

(* dedup_by_key(key) = dedup_by(|a, b| key(a) == key(b)): two key calls per comparison, the
   current element first; either may panic.  `key k x` = the value of the k-th call, None = panic *)
Definition key_pred (key : nat -> nat -> option nat) : pred2 := fun k x prev =>
  match key (2 * k) x with
  | None => Panic
  | Some a => match key (2 * k + 1) prev with None => Panic | Some b => Ret (a =? b) end
  end.
Definition op_dedup_by_key (key : nat -> nat -> option nat) (dp : dpan) (l : list nat) : outcome :=
  op_dedup_by (key_pred key) dp l.

(* ---------------------------------------------------------------- zero-sized element types
   Two operations have a branch of their own for zero-sized element types.  `fixed = false` is the
   code of the pinned commit (both were genuine defects, repaired in /repo; see known_findings). *)

(* owned_slice::Drain::drop, T::IS_ZST: the not yet yielded elements of the drained range are
   dropped by truncating the slice.  Pinned code: the owned IntoIter that had been taken out of the
   Drain went out of scope afterwards and dropped them once more. *)
Definition op_drain_zst (fixed : bool) (dp : dpan) (l : list nat) (a b kf kb : nat) : outcome :=
  let o := op_drain dp l a b kf kb DrainDrop in
  if fixed then o else mkOutcome (final o) (yielded o) (dropped o ++ dropped o) (unwound o) (calls o).

(* BumpBox::zst_slice_fill(len, value) = alloc_slice_fill of a zero-sized type: len - 1 clones, then
   the value itself; `ids` = identities of the clones in order, `v` = the value; clone k may panic.
   Repaired code: through the slice initializer, whose guard drops what was made so far.
   Pinned code: every clone was mem::forget-ed as it was made: on a panic they are lost. *)
Fixpoint fill_go (cl : nat -> bool) (k : nat) (made : list nat) (ids : list nat) : list nat * bool * nat :=
  match ids with
  | [] => (made, false, k)
  | x :: r => if cl k then (made, true, S k) else fill_go cl (S k) (made ++ [x]) r
  end.

Definition op_fill_zst (fixed : bool) (cl : nat -> bool) (ids : list nat) (v : nat) : outcome :=
  let '(made, panicked, k) := fill_go cl 0 [] ids in
  if panicked then
    (* the value is dropped by unwinding; the clones: by the guard (repaired) or never (pinned) *)
    if fixed then mkOutcome [] [] (made ++ [v]) true k else mkOutcome [] [] [v] true k
  else mkOutcome (made ++ [v]) [] [] false k.

(* ---------------------------------------------------------------- into_iter / splice / map_in_place / append *)
(* into_iter consumed from both ends, then dropped: a drain of everything *)
Definition op_into_iter (dp : dpan) (l : list nat) (kf kb : nat) : outcome :=
  op_drain dp l 0 (length l) kf kb DrainDrop.

(* splice(a..b, repl): `take` removed elements are pulled, the Splice is dropped (the remaining
   removed elements are dropped, the replacement moves in).  Input = l ++ repl. *)
Definition op_splice (dp : dpan) (l : list nat) (a b : nat) (repl : list nat) (take : nat) : outcome :=
  if (b <? a) || (length l <? b) then mkOutcome l [] repl true 0
  else
    let rng := firstn (b - a) (skipn a l) in
    let t := Nat.min take (length rng) in
    let '(d, p) := drop_all dp (skipn t rng) in
    mkOutcome (firstn a l ++ repl ++ skipn b l) (firstn t rng) d p 0.

(* map_in_place: the closure may panic at its k-th call; then every element has been dropped
   (mapped ones by the guard, the one inside the closure by unwinding, the rest by the guard) *)
Definition op_map_in_place (l : list nat) (panic_at : option nat) : outcome :=
  match panic_at with
  | Some k => if k <? length l then mkOutcome [] [] l true (S k) else mkOutcome l [] [] false (length l)
  | None => mkOutcome l [] [] false (length l)
  end.

(* append(other): the elements move, nothing is dropped.  Input = l ++ other. *)
Definition op_append (l other : list nat) : outcome := mkOutcome (l ++ other) [] [] false 0.

(* ---------------------------------------------------------------- mirrored (MutBumpVecRev) *)
Definition mirror (o : outcome) : outcome :=
  mkOutcome (rev (final o)) (yielded o) (dropped o) (unwound o) (calls o).

(* ---------------------------------------------------------------- reference list functions (std Vec) *)
Fixpoint filter_k (f : nat -> nat -> bool) (k : nat) (l : list nat) : list nat :=
  match l with
  | [] => []
  | x :: r => if f k x then x :: filter_k f (S k) r else filter_k f (S k) r
  end.

Fixpoint dedup_ref (f : nat -> nat -> nat -> bool) (k : nat) (prev : nat) (l : list nat) : list nat :=
  match l with
  | [] => []
  | x :: r => if f k x prev then dedup_ref f (S k) prev r else x :: dedup_ref f (S k) x r
  end.
