(* ArenaReplay.v — C03: repeating a workload after leaving its scope needs no new memory.
   A workload of allocations that succeeded once is run again after the arena was rewound to the
   checkpoint taken before it: every allocation returns the same address, and the base allocator
   is not asked for anything — even if it would refuse every request. *)
From Coq Require Import ZArith List Lia Bool.
From BS Require Import Word BumpSpec ChunkSpec Arena ArenaInv.
Import ListNotations.
Open Scope Z_scope.

Definition geomt (ch : chunk) : Z * Z * Z * Z := (cbase ch, csize ch, creq ch, cgranted ch).
Definition geoms (cs : list chunk) : list (Z * Z * Z * Z) := map geomt cs.

Lemma chunk_eq a b : geomt a = geomt b -> cpos a = cpos b -> a = b.
Proof. destruct a, b. unfold geomt. cbn. intros H ->. injection H as -> -> -> ->. reflexivity. Qed.

Lemma reset_chunk_geom c a b : geomt a = geomt b -> reset_chunk c a = reset_chunk c b.
Proof.
  intros H. apply chunk_eq.
  - unfold reset_chunk, set_pos, geomt in *. cbn. exact H.
  - unfold reset_chunk, set_pos, fresh_pos, content_start, content_end, geomt in *. cbn.
    injection H as -> -> _ _. reflexivity.
Qed.

Lemma geomt_reset c ch : geomt (reset_chunk c ch) = geomt ch.
Proof. reflexivity. Qed.

Definition agree (i : nat) (A B : list chunk) : Prop := forall k, (k <= i)%nat -> nth_error B k = nth_error A k.

(* A's geometry list is a prefix of B's *)
Definition gprefix (A B : list chunk) : Prop := exists t, geoms B = geoms A ++ t.

Lemma gprefix_nth A B k a : gprefix A B -> nth_error A k = Some a -> exists b, nth_error B k = Some b /\ geomt b = geomt a.
Proof.
  intros [t Ht] Ha. assert (Hg : nth_error (geoms B) k = Some (geomt a)).
  { rewrite Ht. rewrite nth_error_app1 by (unfold geoms; rewrite map_length; apply nth_error_Some; congruence).
    unfold geoms. rewrite nth_error_map, Ha. reflexivity. }
  unfold geoms in Hg. rewrite nth_error_map in Hg. destruct (nth_error B k) as [b|]; [|discriminate].
  exists b. split; [reflexivity|]. cbn in Hg. congruence.
Qed.

Lemma geoms_set_nth l i ch x : nth_error l i = Some ch -> geomt x = geomt ch -> geoms (set_nth l i x) = geoms l.
Proof.
  revert i. induction l as [|y t IH]; intros [|i] H E; cbn in *; try discriminate.
  - injection H as ->. rewrite E. reflexivity.
  - f_equal. apply IH; assumption.
Qed.

Lemma gprefix_set_nth A B i a b x y :
  gprefix A B -> nth_error A i = Some a -> nth_error B i = Some b -> geomt x = geomt a -> geomt y = geomt b ->
  gprefix (set_nth A i x) (set_nth B i y).
Proof.
  intros [t Ht] Ha Hb Ex Ey. exists t. rewrite (geoms_set_nth A i a x Ha Ex), (geoms_set_nth B i b y Hb Ey). exact Ht.
Qed.

Lemma agree_set_nth i A B x :
  agree i A B -> (S i < length A)%nat -> (S i < length B)%nat -> agree (S i) (set_nth A (S i) x) (set_nth B (S i) x).
Proof.
  intros Hag HA HB k Hk. destruct (Nat.eq_dec k (S i)) as [->|Hne].
  - rewrite !nth_error_set_nth_eq by assumption. reflexivity.
  - rewrite !nth_error_set_nth_neq by congruence. apply Hag. lia.
Qed.

Section Walk.
  Context {R : Type} (c : cfg) (f : chunk -> option (R * chunk)).
  Hypothesis Hf : forall ch x ch1, f ch = Some (x, ch1) -> geomt ch1 = geomt ch.

  Lemma length_set_nth {A} (l : list A) i x : length (set_nth l i x) = length l.
  Proof. revert i. induction l as [|y t IH]; intros [|i]; cbn; try reflexivity. f_equal. apply IH. Qed.

  (* A finds a chunk: B, which has at least A's chunks with the same geometry, finds the same one *)
  Lemma walk_sim_found : forall fuel csA csB i csA' j x,
    agree i csA csB -> gprefix csA csB ->
    walk_next c f csA i fuel = (csA', j, Some x) ->
    forall fuelB, (fuel <= fuelB)%nat ->
    exists csB', walk_next c f csB i fuelB = (csB', j, Some x) /\ agree j csA' csB' /\
                 gprefix csA' csB' /\ geoms csA' = geoms csA /\ geoms csB' = geoms csB /\ (i < j)%nat.
  Proof.
    induction fuel as [|fuel IH]; intros csA csB i csA' j x Hag Hgp H fuelB Hfu; cbn [walk_next] in H; [discriminate|].
    destruct (nth_error csA (S i)) as [chA|] eqn:EnA; [|discriminate].
    destruct (gprefix_nth csA csB (S i) chA Hgp EnA) as (chB & EnB & Eg).
    destruct fuelB as [|fuelB]; [lia|]. cbn [walk_next]. rewrite EnB.
    rewrite (reset_chunk_geom c chB chA Eg).
    pose proof (nth_error_some_lt _ _ _ EnA) as HlA. pose proof (nth_error_some_lt _ _ _ EnB) as HlB.
    destruct (f (reset_chunk c chA)) as [[y ch1]|] eqn:Ef.
    - injection H as <- <- <-. eexists. split; [reflexivity|].
      pose proof (Hf _ _ _ Ef) as E1. rewrite geomt_reset in E1.
      split; [apply agree_set_nth; assumption|]. split.
      + eapply gprefix_set_nth; try eassumption. congruence.
      + split; [apply (geoms_set_nth csA (S i) chA ch1 EnA E1)|]. split; [apply (geoms_set_nth csB (S i) chB ch1 EnB); congruence|lia].
    - assert (Hag' : agree (S i) (set_nth csA (S i) (reset_chunk c chA)) (set_nth csB (S i) (reset_chunk c chA)))
        by (apply agree_set_nth; assumption).
      assert (Hgp' : gprefix (set_nth csA (S i) (reset_chunk c chA)) (set_nth csB (S i) (reset_chunk c chA))).
      { eapply gprefix_set_nth; try eassumption; [apply geomt_reset|rewrite geomt_reset; congruence]. }
      destruct (IH _ _ _ _ _ _ Hag' Hgp' H fuelB ltac:(lia)) as (csB' & HwB & Hagj & Hgpj & EgA & EgB & Hij).
      exists csB'. split; [exact HwB|]. split; [exact Hagj|]. split; [exact Hgpj|].
      split; [rewrite EgA; apply (geoms_set_nth csA (S i) chA _ EnA); apply geomt_reset|].
      split; [rewrite EgB; apply (geoms_set_nth csB (S i) chB _ EnB); rewrite geomt_reset; congruence|lia].
  Qed.

  (* A runs out of chunks: B is then in the corresponding position, with the rest of its walk ahead *)
  Lemma walk_sim_none : forall fuel csA csB i csA' j,
    agree i csA csB -> gprefix csA csB -> (i < length csA)%nat -> (length csA - S i <= fuel)%nat ->
    walk_next c f csA i fuel = (csA', j, None) ->
    j = (length csA - 1)%nat /\ length csA' = length csA /\ geoms csA' = geoms csA /\
    forall fuelB, exists csB1,
      walk_next c f csB i (fuelB + (j - i)) = walk_next c f csB1 j fuelB /\
      agree j csA' csB1 /\ gprefix csA' csB1 /\ geoms csB1 = geoms csB.
  Proof.
    induction fuel as [|fuel IH]; intros csA csB i csA' j Hag Hgp Hi Hfu H; cbn [walk_next] in H.
    - injection H as <- <-. assert (i = length csA - 1)%nat by lia. subst i.
      split; [reflexivity|]. split; [reflexivity|]. split; [reflexivity|].
      intros fuelB. exists csB. rewrite Nat.sub_diag, Nat.add_0_r. split; [reflexivity|]. split; [exact Hag|]. split; [exact Hgp|reflexivity].
    - destruct (nth_error csA (S i)) as [chA|] eqn:EnA.
      + destruct (gprefix_nth csA csB (S i) chA Hgp EnA) as (chB & EnB & Eg).
        pose proof (nth_error_some_lt _ _ _ EnA) as HlA. pose proof (nth_error_some_lt _ _ _ EnB) as HlB.
        destruct (f (reset_chunk c chA)) as [[y ch1]|] eqn:Ef; [discriminate|].
        assert (Hag' : agree (S i) (set_nth csA (S i) (reset_chunk c chA)) (set_nth csB (S i) (reset_chunk c chA)))
          by (apply agree_set_nth; assumption).
        assert (Hgp' : gprefix (set_nth csA (S i) (reset_chunk c chA)) (set_nth csB (S i) (reset_chunk c chA))).
        { eapply gprefix_set_nth; try eassumption; [apply geomt_reset|rewrite geomt_reset; congruence]. }
        destruct (IH _ _ _ _ _ Hag' Hgp' ltac:(rewrite length_set_nth; lia) ltac:(rewrite length_set_nth; lia) H)
          as (Ej & El & Eg' & Hrest).
        rewrite length_set_nth in Ej, El.
        split; [exact Ej|]. split; [exact El|].
        split; [rewrite Eg'; apply (geoms_set_nth csA (S i) chA _ EnA); apply geomt_reset|].
        intros fuelB. destruct (Hrest fuelB) as (csB1 & Hw & Hagj & Hgpj & EgB).
        exists csB1. split.
        * replace (fuelB + (j - i))%nat with (S (fuelB + (j - S i)))%nat by lia. cbn [walk_next]. rewrite EnB.
          rewrite (reset_chunk_geom c chB chA Eg), Ef. exact Hw.
        * split; [exact Hagj|]. split; [exact Hgpj|].
          rewrite EgB. apply (geoms_set_nth csB (S i) chB _ EnB). rewrite geomt_reset. congruence.
      + injection H as <- <-. apply nth_error_None in EnA. assert (i = length csA - 1)%nat by lia. subst i.
        split; [reflexivity|]. split; [reflexivity|]. split; [reflexivity|].
        intros fuelB. exists csB. rewrite Nat.sub_diag, Nat.add_0_r. split; [reflexivity|]. split; [exact Hag|]. split; [exact Hgp|reflexivity].
  Qed.
End Walk.

Lemma walk_found_lt {R} c (f : chunk -> option (R * chunk)) : forall fuel l i cs j x,
  walk_next c f l i fuel = (cs, j, Some x) -> (j < length cs)%nat.
Proof.
  induction fuel as [|fuel IH]; intros l i cs j x H; cbn [walk_next] in H; [discriminate|].
  destruct (nth_error l (S i)) as [a|] eqn:En; [|discriminate].
  destruct (f (reset_chunk c a)) as [[y c1]|].
  - injection H as <- <- _. rewrite length_set_nth. eapply nth_error_some_lt; exact En.
  - exact (IH _ _ _ _ _ H).
Qed.

(* ---------------------------------------------------------------- one allocation *)
Definition sim (G : list (Z * Z * Z * Z)) (j : nat) (A B : arena) : Prop :=
  cur A = Cur j /\ cur B = Cur j /\ aligns A = aligns B /\ (j < length (chunks A))%nat /\
  agree j (chunks A) (chunks B) /\
  (exists t, G = geoms (chunks A) ++ t) /\ (exists t, geoms (chunks B) = G ++ t).

Lemma sim_gprefix G j A B : sim G j A B -> gprefix (chunks A) (chunks B).
Proof. intros (_ & _ & _ & _ & _ & [t1 E1] & [t2 E2]). exists (t1 ++ t2). rewrite E2, E1, app_assoc. reflexivity. Qed.

Lemma chunk_alloc_geomt c m ch size align p ch1 : chunk_alloc c m ch size align = Some (p, ch1) -> geomt ch1 = geomt ch.
Proof.
  unfold chunk_alloc. destruct (up c).
  - destruct (spec_up _ _ _ _ _) as [[q np]|]; [|discriminate]. intros H. injection H as _ <-. reflexivity.
  - destruct (spec_down _ _ _ _ _) as [q|]; [|discriminate]. intros H. injection H as _ <-. reflexivity.
Qed.

Lemma agree_set_nth_same j A B x : agree j A B -> agree j (set_nth A j x) (set_nth B j x).
Proof.
  intros Hag k Hk. pose proof (Hag k Hk) as E.
  destruct (Nat.eq_dec k j) as [->|Hne].
  - destruct (nth_error A j) as [a|] eqn:Ea.
    + pose proof (nth_error_some_lt _ _ _ Ea). assert (Eb : nth_error B j = Some a) by exact E. pose proof (nth_error_some_lt _ _ _ Eb).
      rewrite !nth_error_set_nth_eq by assumption. reflexivity.
    + assert (Eb : nth_error B j = None) by exact E.
      apply nth_error_None in Ea, Eb.
      rewrite (proj2 (nth_error_None (set_nth A j x) j)) by (rewrite length_set_nth; exact Ea).
      rewrite (proj2 (nth_error_None (set_nth B j x) j)) by (rewrite length_set_nth; exact Eb). reflexivity.
  - rewrite !nth_error_set_nth_neq by congruence. exact E.
Qed.

Lemma geoms_length cs : length (geoms cs) = length cs.
Proof. apply map_length. Qed.

Lemma raw_alloc_sim c G j A B size align r A' p :
  raw_alloc c A size align r = (A', inl p) ->
  (exists t, G = geoms (chunks A') ++ t) ->
  sim G j A B ->
  exists j' B', raw_alloc c B size align None = (B', inl p) /\ ledger B' = ledger B /\ sim G j' A' B'.
Proof.
  intros H HG' Hsim. pose proof (sim_gprefix _ _ _ _ Hsim) as Hgp.
  destruct Hsim as (EcA & EcB & Eal & Hj & Hag & [tA EA] & [tB EB]).
  assert (Em : malign B = malign A) by (unfold malign; rewrite Eal; reflexivity).
  destruct (nth_error (chunks A) j) as [ch|] eqn:EnA; [|apply nth_error_None in EnA; lia].
  assert (EnB : nth_error (chunks B) j = Some ch) by (rewrite (Hag j (le_n j)); exact EnA).
  assert (Hf : forall ch0 x ch1, chunk_alloc c (malign A) ch0 size align = Some (x, ch1) -> geomt ch1 = geomt ch0)
    by (intros; eapply chunk_alloc_geomt; eassumption).
  unfold raw_alloc in *. rewrite EcA, EnA in H. rewrite EcB, EnB, Em.
  destruct (chunk_alloc c (malign A) ch size align) as [[p' ch1]|] eqn:Ef.
  - (* fast path *)
    injection H as <- <-. exists j. eexists. split; [reflexivity|]. split; [reflexivity|].
    pose proof (Hf _ _ _ Ef) as E1.
    unfold sim. cbn [cur chunks aligns upd_chunks]. split; [exact EcA|]. split; [exact EcB|]. split; [exact Eal|].
    split; [rewrite length_set_nth; exact Hj|]. split; [apply agree_set_nth_same; exact Hag|].
    split.
    + exists tA. rewrite (geoms_set_nth _ _ _ _ EnA E1). exact EA.
    + exists tB. rewrite (geoms_set_nth _ _ _ _ EnB E1). exact EB.
  - (* slow path *)
    unfold in_another_chunk in *.
    destruct (walk_next c (fun ch0 => chunk_alloc c (malign A) ch0 size align) (chunks A) j (length (chunks A))) as [[cs jw] wres] eqn:Ew.
    assert (HlenAB : (length (chunks A) <= length (chunks B))%nat).
    { destruct Hgp as [t Ht]. apply (f_equal (@length _)) in Ht. rewrite app_length, !geoms_length in Ht. lia. }
    destruct wres as [x|].
    + injection H as <- <-.
      destruct (walk_sim_found c _ Hf _ _ _ _ _ _ _ Hag Hgp Ew (length (chunks B)) HlenAB)
        as (csB' & HwB & Hagj & Hgpj & EgA & EgB & Hij).
      rewrite HwB. exists jw. eexists. split; [reflexivity|]. split; [reflexivity|].
      unfold sim. cbn [cur chunks aligns upd_cur upd_chunks].
      split; [reflexivity|]. split; [reflexivity|]. split; [exact Eal|].
      assert (Hlcs : length cs = length (chunks A)).
      { apply (f_equal (@length _)) in EgA. rewrite !geoms_length in EgA. exact EgA. }
      (* jw indexes a chunk of cs: the found chunk *)
      pose proof (walk_found_lt c _ _ _ _ _ _ _ Ew) as Hjw.
      split; [exact Hjw|]. split; [exact Hagj|]. split; [exists tA; rewrite EgA; exact EA|exists tB; rewrite EgB; exact EB].
    + (* A appended a chunk *)
      set (s0 := upd_cur (upd_chunks A cs) (Cur jw)) in *.
      unfold grow_arena in H.
      destruct (new_chunk_size c _ size align) as [n|]; [|discriminate].
      destruct r as [[addr g]|]; [|discriminate].
      cbn [cur chunks upd_cur upd_chunks log_event s0] in H. rewrite nth_error_app_last in H.
      set (mk := make_chunk c n addr g) in *.
      destruct (chunk_alloc c (malign A) mk size align) as [[p' ch1]|] eqn:Efm; [|discriminate].
      injection H as <- <-.
      destruct (walk_sim_none c _ (length (chunks A)) (chunks A) (chunks B) j cs jw Hag Hgp Hj (Nat.le_sub_l _ _) Ew) as (Ejw & Hlcs & EgA & Hrest).
      (* chunks A' = cs ++ [ch1] *)
      assert (EA' : set_nth (cs ++ [mk]) (length cs) ch1 = cs ++ [ch1]).
      { clear. induction cs as [|y t IH]; [reflexivity|]. cbn. f_equal. exact IH. }
      cbn [chunks upd_chunks upd_cur log_event] in HG'. rewrite EA' in HG'.
      pose proof (Hf _ _ _ Efm) as E1.
      (* B has a chunk at index L with the geometry of mk *)
      set (L := length cs) in *.
      assert (HjwL : S jw = L) by (unfold L; lia).
      destruct (Hrest (length (chunks B) - (jw - j))%nat) as (csB1 & Hw & Hagj & Hgpj & EgB1).
      replace (length (chunks B) - (jw - j) + (jw - j))%nat with (length (chunks B)) in Hw by lia.
      assert (HBL : exists chB, nth_error csB1 L = Some chB /\ geomt chB = geomt mk).
      { destruct HG' as [t Ht]. unfold geoms in Ht. rewrite map_app in Ht. cbn [map] in Ht.
        assert (Hn : nth_error (geoms csB1) L = Some (geomt ch1)).
        { rewrite EgB1, EB, Ht. rewrite <- !app_assoc. rewrite nth_error_app2 by (rewrite map_length; unfold L; lia).
          rewrite map_length. fold L. rewrite Nat.sub_diag. reflexivity. }
        unfold geoms in Hn. rewrite nth_error_map in Hn. destruct (nth_error csB1 L) as [chB|]; [|discriminate].
        exists chB. split; [reflexivity|]. cbn in Hn. congruence. }
      destruct HBL as (chB & EnBL & EgBL).
      pose proof (nth_error_some_lt _ _ _ EnBL) as HLlt.
      assert (HlB1 : length csB1 = length (chunks B)).
      { apply (f_equal (@length _)) in EgB1. rewrite !geoms_length in EgB1. exact EgB1. }
      assert (Hreset : reset_chunk c chB = mk).
      { unfold mk, make_chunk. cbv zeta.
        match goal with |- _ = set_pos ?c0 (fresh_pos c ?c0) => change (set_pos c0 (fresh_pos c c0)) with (reset_chunk c c0); apply reset_chunk_geom end.
        rewrite EgBL. reflexivity. }
      rewrite Hw.
      destruct (length (chunks B) - (jw - j))%nat as [|fb] eqn:Efb; [lia|].
      cbn [walk_next]. rewrite HjwL, EnBL, Hreset, Efm.
      exists L. eexists. split; [reflexivity|]. split; [reflexivity|].
      unfold sim. cbn [cur chunks aligns upd_cur upd_chunks log_event]. rewrite EA'.
      split; [reflexivity|]. split; [reflexivity|]. split; [exact Eal|].
      split; [rewrite app_length; cbn; unfold L; lia|]. split.
      * intros k Hk. destruct (Nat.eq_dec k L) as [->|Hne].
        -- rewrite nth_error_set_nth_eq by exact HLlt. unfold L. rewrite nth_error_app_last. reflexivity.
        -- rewrite nth_error_set_nth_neq by congruence. rewrite nth_error_app1 by (fold L; lia). apply Hagj. lia.
      * split; [exact HG'|]. exists tB. rewrite (geoms_set_nth _ _ _ _ EnBL); [rewrite EgB1; exact EB|congruence].
Qed.

(* ---------------------------------------------------------------- monotone facts about raw_alloc *)
Lemma walk_next_facts {R} c (f : chunk -> option (R * chunk)) :
  (forall ch x ch1, f ch = Some (x, ch1) -> geomt ch1 = geomt ch) ->
  forall fuel cs i cs' j res, walk_next c f cs i fuel = (cs', j, res) ->
  geoms cs' = geoms cs /\ (i <= j)%nat /\ (forall k, (k <= i)%nat -> nth_error cs' k = nth_error cs k) /\
  ((i < length cs)%nat -> (j < length cs')%nat).
Proof.
  intros Hf. induction fuel as [|fuel IH]; intros cs i cs' j res H; cbn [walk_next] in H.
  - injection H as <- <- _. repeat split; auto.
  - destruct (nth_error cs (S i)) as [ch|] eqn:En; [|injection H as <- <- _; repeat split; auto].
    pose proof (nth_error_some_lt _ _ _ En) as Hlt.
    destruct (f (reset_chunk c ch)) as [[x ch1]|] eqn:Ef.
    + injection H as <- <- _. pose proof (Hf _ _ _ Ef) as E1. rewrite geomt_reset in E1.
      split; [apply (geoms_set_nth cs (S i) ch ch1 En E1)|]. split; [lia|]. split.
      * intros k Hk. apply nth_error_set_nth_neq. lia.
      * intros _. rewrite length_set_nth. exact Hlt.
    + destruct (IH _ _ _ _ _ H) as (G1 & G2 & G3 & G4).
      split; [rewrite G1; apply (geoms_set_nth cs (S i) ch _ En); apply geomt_reset|]. split; [lia|]. split.
      * intros k Hk. rewrite G3 by lia. apply nth_error_set_nth_neq. lia.
      * intros _. apply G4. rewrite length_set_nth. exact Hlt.
Qed.

(* what an allocation leaves alone: chunks below the current one, the geometry of everything, the
   alignment stack; and the current chunk never becomes an earlier one *)
Definition mono (j : nat) (s s' : arena) : Prop :=
  (exists t, geoms (chunks s') = geoms (chunks s) ++ t) /\ aligns s' = aligns s /\
  (forall k, (k < j)%nat -> nth_error (chunks s') k = nth_error (chunks s) k) /\
  (exists j', cur s' = Cur j' /\ (j <= j')%nat /\ (j' < length (chunks s'))%nat).

Lemma raw_alloc_mono c s j size align r :
  cur s = Cur j -> (j < length (chunks s))%nat -> mono j s (fst (raw_alloc c s size align r)).
Proof.
  intros Ec Hj. unfold raw_alloc. rewrite Ec.
  destruct (nth_error (chunks s) j) as [ch|] eqn:En; [|apply nth_error_None in En; lia].
  assert (Hf : forall ch0 x ch1, chunk_alloc c (malign s) ch0 size align = Some (x, ch1) -> geomt ch1 = geomt ch0)
    by (intros; eapply chunk_alloc_geomt; eassumption).
  destruct (chunk_alloc c (malign s) ch size align) as [[p ch1]|] eqn:Ef.
  - cbn [fst]. unfold mono. cbn [chunks cur aligns upd_chunks].
    split; [exists []; rewrite app_nil_r; apply (geoms_set_nth _ _ _ _ En (Hf _ _ _ Ef))|]. split; [reflexivity|].
    split; [intros k Hk; apply nth_error_set_nth_neq; lia|]. exists j. split; [exact Ec|]. split; [lia|rewrite length_set_nth; exact Hj].
  - unfold in_another_chunk.
    destruct (walk_next c (fun ch0 => chunk_alloc c (malign s) ch0 size align) (chunks s) j (length (chunks s))) as [[cs jw] wres] eqn:Ew.
    destruct (walk_next_facts c _ Hf _ _ _ _ _ _ Ew) as (G1 & G2 & G3 & G4). specialize (G4 Hj).
    destruct wres as [x|].
    + cbn [fst]. unfold mono. cbn [chunks cur aligns upd_cur upd_chunks].
      split; [exists []; rewrite app_nil_r; exact G1|]. split; [reflexivity|].
      split; [intros k Hk; apply G3; lia|]. exists jw. split; [reflexivity|]. split; [exact G2|exact G4].
    + unfold grow_arena.
      destruct (new_chunk_size c _ size align) as [n|].
      2:{ cbn [fst]. unfold mono. cbn [chunks cur aligns upd_cur upd_chunks].
          split; [exists []; rewrite app_nil_r; exact G1|]. split; [reflexivity|].
          split; [intros k Hk; apply G3; lia|]. exists j. split; [reflexivity|]. split; [lia|].
          apply (f_equal (@length _)) in G1. rewrite !geoms_length in G1. lia. }
      destruct r as [[addr g]|].
      2:{ cbn [fst]. unfold mono. cbn [chunks cur aligns upd_cur upd_chunks log_event].
          split; [exists []; rewrite app_nil_r; exact G1|]. split; [reflexivity|].
          split; [intros k Hk; apply G3; lia|]. exists j. split; [reflexivity|]. split; [lia|].
          apply (f_equal (@length _)) in G1. rewrite !geoms_length in G1. lia. }
      cbn [cur chunks upd_cur upd_chunks log_event]. rewrite nth_error_app_last.
      set (mk := make_chunk c n addr g).
      assert (Hlen : length cs = length (chunks s)) by (apply (f_equal (@length _)) in G1; rewrite !geoms_length in G1; exact G1).
      destruct (chunk_alloc c (malign s) mk size align) as [[p ch1]|] eqn:Efm; cbn [fst]; unfold mono;
        cbn [chunks cur aligns upd_cur upd_chunks log_event].
      * assert (EA' : set_nth (cs ++ [mk]) (length cs) ch1 = cs ++ [ch1]).
        { clear. induction cs as [|y t IH]; [reflexivity|]. cbn. f_equal. exact IH. }
        rewrite EA'. split; [exists [geomt ch1]; unfold geoms; rewrite map_app; cbn [map]; fold (geoms cs); rewrite G1; reflexivity|].
        split; [reflexivity|]. split; [intros k Hk; rewrite nth_error_app1 by lia; apply G3; lia|].
        exists (length cs). split; [reflexivity|]. split; [lia|rewrite app_length; cbn; lia].
      * split; [exists [geomt mk]; unfold geoms; rewrite map_app; cbn [map]; fold (geoms cs); rewrite G1; reflexivity|].
        split; [reflexivity|]. split; [intros k Hk; rewrite nth_error_app1 by lia; apply G3; lia|].
        exists (length cs). split; [reflexivity|]. split; [lia|rewrite app_length; cbn; lia].
Qed.

Lemma mono_trans j j1 a b d :
  mono j a b -> (forall j', cur b = Cur j' -> j1 = j') -> mono j1 b d -> mono j a d.
Proof.
  intros ([t1 E1] & A1 & P1 & (jb & Ecb & Hjb & Hlb)) Hj1 ([t2 E2] & A2 & P2 & (jd & Ecd & Hjd & Hld)).
  specialize (Hj1 jb Ecb). subst j1.
  split; [exists (t1 ++ t2); rewrite E2, E1, app_assoc; reflexivity|]. split; [congruence|].
  split; [intros k Hk; rewrite P2 by lia; apply P1; exact Hk|]. exists jd. split; [exact Ecd|]. split; [lia|exact Hld].
Qed.

(* ---------------------------------------------------------------- a workload of allocations *)
Fixpoint allocs (c : cfg) (s : arena) (w : list (Z * Z)) (rs : list resp) : arena * list (Z + err) :=
  match w with
  | [] => (s, [])
  | (size, align) :: w' =>
    let '(s1, res) := raw_alloc c s size align (hd None rs) in
    let '(s2, out) := allocs c s1 w' (tl rs) in
    (s2, res :: out)
  end.

Definition is_inl {A B} (x : A + B) : Prop := match x with inl _ => True | inr _ => False end.

Lemma mono_refl j s : cur s = Cur j -> (j < length (chunks s))%nat -> mono j s s.
Proof.
  intros Ec Hj. split; [exists []; rewrite app_nil_r; reflexivity|]. split; [reflexivity|]. split; [auto|].
  exists j. split; [exact Ec|]. split; [lia|exact Hj].
Qed.

Lemma allocs_mono c : forall w rs s j, cur s = Cur j -> (j < length (chunks s))%nat -> mono j s (fst (allocs c s w rs)).
Proof.
  induction w as [|[size align] w IH]; intros rs s j Ec Hj; [apply mono_refl; assumption|].
  cbn [allocs]. pose proof (raw_alloc_mono c s j size align (hd None rs) Ec Hj) as M1.
  destruct (raw_alloc c s size align (hd None rs)) as [s1 res] eqn:Ea. cbn [fst] in M1.
  destruct M1 as (G1 & A1 & P1 & (j1 & Ec1 & Hj1 & Hl1)).
  pose proof (IH (tl rs) s1 j1 Ec1 Hl1) as M2.
  destruct (allocs c s1 w (tl rs)) as [s2 out]. cbn [fst] in *.
  apply (mono_trans j j1 s s1 s2); [repeat split; try assumption; exists j1; auto| |exact M2].
  intros j' E. congruence.
Qed.

Theorem allocs_replay c : forall w rs A Afin outs,
  allocs c A w rs = (Afin, outs) -> Forall is_inl outs ->
  forall B j, sim (geoms (chunks Afin)) j A B ->
  exists Bfin, allocs c B w [] = (Bfin, outs) /\ ledger Bfin = ledger B.
Proof.
  induction w as [|[size align] w IH]; intros rs A Afin outs H Hall B j Hsim.
  - cbn in *. injection H as <- <-. exists B. split; reflexivity.
  - cbn [allocs] in H. destruct (raw_alloc c A size align (hd None rs)) as [A1 res] eqn:Ea.
    destruct (allocs c A1 w (tl rs)) as [A2 out] eqn:Ew. injection H as <- <-.
    inversion Hall as [|? ? Hres Hrest]; subst. destruct res as [p|e]; [|destruct Hres].
    (* the geometry of A1 is still inside that of the final state *)
    pose proof Hsim as (EcA & _ & _ & HjA & _).
    pose proof (raw_alloc_mono c A j size align (hd None rs) EcA HjA) as M1. rewrite Ea in M1. cbn [fst] in M1.
    destruct M1 as (_ & _ & _ & (j1 & Ec1 & _ & Hl1)).
    pose proof (allocs_mono c w (tl rs) A1 j1 Ec1 Hl1) as M2. rewrite Ew in M2. cbn [fst] in M2.
    destruct M2 as ([t Et] & _).
    destruct (raw_alloc_sim c _ j A B size align (hd None rs) A1 p Ea (ex_intro _ t Et) Hsim) as (j' & B1 & Hb & Hl & Hsim1).
    destruct (IH (tl rs) A1 A2 out Ew Hrest B1 j' Hsim1) as (Bfin & Hbf & Hlf).
    exists Bfin. cbn [allocs hd tl]. rewrite Hb, Hbf. split; [reflexivity|congruence].
Qed.

(* The clause of C03.  A workload of allocations runs to completion from a state whose current
   chunk is j at position `cpos ch`; the arena is rewound to that checkpoint (scope exit, guard
   drop / reset, reset_to); the same workload then yields the same addresses without a single
   request to the base allocator — `[]` answers every request with a refusal, and the ledger of
   base-allocator events does not grow. *)
Theorem replay_needs_no_chunk c s j ch w rs Afin outs :
  cur s = Cur j -> nth_error (chunks s) j = Some ch ->
  allocs c s w rs = (Afin, outs) -> Forall is_inl outs ->
  let B := do_reset_to c Afin (mkCp (Cur j) (cpos ch) (epoch s)) in
  exists Bfin, allocs c B w [] = (Bfin, outs) /\ ledger Bfin = ledger B.
Proof.
  intros Ec En H Hall B. pose proof (nth_error_some_lt _ _ _ En) as Hj.
  pose proof (allocs_mono c w rs s j Ec Hj) as M. rewrite H in M. cbn [fst] in M.
  destruct M as ([t Et] & Eal & Ppre & (jf & Ecf & Hjf & Hlf)).
  (* chunk j of the final state has the geometry of ch *)
  assert (Hchj : exists chj, nth_error (chunks Afin) j = Some chj /\ geomt chj = geomt ch).
  { assert (Hn : nth_error (geoms (chunks Afin)) j = Some (geomt ch)).
    { rewrite Et, nth_error_app1 by (rewrite geoms_length; exact Hj). unfold geoms. rewrite nth_error_map, En. reflexivity. }
    unfold geoms in Hn. rewrite nth_error_map in Hn. destruct (nth_error (chunks Afin) j) as [x|]; [|discriminate].
    exists x. split; [reflexivity|]. cbn in Hn. congruence. }
  destruct Hchj as (chj & Enj & Egj).
  assert (EB : B = upd_cur (upd_chunks Afin (set_nth (chunks Afin) j (set_pos chj (cpos ch)))) (Cur j)).
  { unfold B, do_reset_to. cbn [cp_state cp_addr]. rewrite Enj. reflexivity. }
  assert (Hrestore : set_pos chj (cpos ch) = ch) by (apply chunk_eq; [exact Egj|reflexivity]).
  apply (allocs_replay c w rs s Afin outs H Hall B j).
  unfold sim. rewrite EB. cbn [cur chunks aligns upd_cur upd_chunks].
  split; [exact Ec|]. split; [reflexivity|]. split; [symmetry; exact Eal|]. split; [exact Hj|]. split.
  - intros k Hk. destruct (Nat.eq_dec k j) as [->|Hne].
    + rewrite nth_error_set_nth_eq by (eapply nth_error_some_lt; exact Enj). rewrite Hrestore, En. reflexivity.
    + rewrite nth_error_set_nth_neq by congruence. apply Ppre. lia.
  - split; [exists t; exact Et|]. exists []. rewrite app_nil_r. apply (geoms_set_nth _ _ _ _ Enj). reflexivity.
Qed.

(* non-vacuity: a workload that spans four chunks (three of them new), replayed after the rewind
   while the base allocator refuses everything *)
Module ReplayExample.
  Definition c0 : cfg := mkCfg true false true true 512 32 16 true.
  Definition s0 : arena := fst (init_with_size c0 1 512 (Some (65536, 512))).
  Definition w0 : list (Z * Z) := [(300, 8); (300, 8); (700, 16); (100, 1); (3000, 32)].
  Definition rs0 : list resp := [None; Some (131072, 1024); Some (262144, 2048); None; Some (524288, 8192)].

  Example workload_succeeds_and_replays :
    let '(Afin, outs) := allocs c0 s0 w0 rs0 in
    outs = [inl 65568; inl 131104; inl 262176; inl 262876; inl 524320] /\
    length (chunks Afin) = 4%nat /\
    let B := do_reset_to c0 Afin (mkCp (Cur 0) 65568 (epoch s0)) in
    snd (allocs c0 B w0 []) = outs /\ ledger (fst (allocs c0 B w0 [])) = ledger B.
  Proof. vm_compute. repeat split; reflexivity. Qed.
End ReplayExample.
