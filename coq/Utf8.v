(* Utf8.v — UTF-8 as the string types rely on it (MODEL + its characterisation).
   Bytes and code points are Z.  `decode1` is the Unicode 15 table 3-7 recogniser (what
   core::str::from_utf8 accepts), `encode` is char::encode_utf8, `boundaryb` is
   str::is_char_boundary.  The characterisation proved here — a byte string is accepted iff it
   is the concatenation of the encodings of scalar values, and its char boundaries are exactly
   the ends of those encodings — is what every string operation's validity proof rests on. *)
From Coq Require Import ZArith List Lia Bool Arith ZifyBool.
Import ListNotations.
Local Open Scope Z_scope.

Definition cont (b : Z) : bool := (128 <=? b) && (b <? 192).

(* Unicode scalar values: code points without the surrogates *)
Definition scalar (c : Z) : bool :=
  ((0 <=? c) && (c <? 55296)) || ((57344 <=? c) && (c <? 1114112)).

(* char::encode_utf8 *)
Definition encode (c : Z) : list Z :=
  if c <? 128 then [c]
  else if c <? 2048 then [192 + c / 64; 128 + c mod 64]
  else if c <? 65536 then [224 + c / 4096; 128 + (c / 64) mod 64; 128 + c mod 64]
  else [240 + c / 262144; 128 + (c / 4096) mod 64; 128 + (c / 64) mod 64; 128 + c mod 64].

Definition enc (cs : list Z) : list Z := flat_map encode cs.

(* core::str::utf8_char_width of a leading byte *)
Definition width (b0 : Z) : nat :=
  if b0 <? 128 then 1%nat else if b0 <? 224 then 2%nat else if b0 <? 240 then 3%nat else 4%nat.

(* the first well-formed byte sequence at the head of l: (code point, remaining bytes) *)
Definition decode1 (l : list Z) : option (Z * list Z) :=
  match l with
  | [] => None
  | b0 :: t0 =>
    if (0 <=? b0) && (b0 <? 128) then Some (b0, t0)
    else if (194 <=? b0) && (b0 <? 224) then
      match t0 with
      | b1 :: t1 => if cont b1 then Some ((b0 - 192) * 64 + (b1 - 128), t1) else None
      | _ => None
      end
    else if (224 <=? b0) && (b0 <? 240) then
      match t0 with
      | b1 :: b2 :: t2 =>
        if cont b1 && cont b2 && ((negb (b0 =? 224)) || (160 <=? b1)) && ((negb (b0 =? 237)) || (b1 <? 160))
        then Some ((b0 - 224) * 4096 + (b1 - 128) * 64 + (b2 - 128), t2) else None
      | _ => None
      end
    else if (240 <=? b0) && (b0 <? 245) then
      match t0 with
      | b1 :: b2 :: b3 :: t3 =>
        if cont b1 && cont b2 && cont b3 && ((negb (b0 =? 240)) || (144 <=? b1)) && ((negb (b0 =? 244)) || (b1 <? 144))
        then Some ((b0 - 240) * 262144 + (b1 - 128) * 4096 + (b2 - 128) * 64 + (b3 - 128), t3) else None
      | _ => None
      end
    else None
  end.

(* fuel: one unit per character; `decode` gives it the number of bytes *)
Fixpoint decode_fuel (n : nat) (l : list Z) : option (list Z) :=
  match l with
  | [] => Some []
  | _ =>
    match n with
    | O => None
    | S n' =>
      match decode1 l with
      | Some (c, rest) => match decode_fuel n' rest with Some cs => Some (c :: cs) | None => None end
      | None => None
      end
    end
  end.

Definition decode (l : list Z) : option (list Z) := decode_fuel (length l) l.
Definition valid (l : list Z) : bool := match decode l with Some _ => true | None => false end.

(* str::is_char_boundary *)
Definition boundaryb (l : list Z) (i : nat) : bool :=
  match i with
  | O => true
  | _ => match nth_error l i with
         | Some b => negb (cont b)
         | None => Nat.eqb i (length l)
         end
  end.

(* ---------------------------------------------------------------- encode / decode1 *)
Lemma encode_nonempty c : encode c <> [].
Proof. unfold encode. destruct (c <? 128), (c <? 2048), (c <? 65536); discriminate. Qed.

Lemma encode_length_pos c : (1 <= length (encode c))%nat.
Proof. unfold encode. destruct (c <? 128), (c <? 2048), (c <? 65536); cbn; lia. Qed.

Lemma decode1_encode c t : scalar c = true -> decode1 (encode c ++ t) = Some (c, t).
Proof.
  intros Hs. unfold scalar in Hs. unfold encode.
  destruct (Z.ltb_spec c 128).
  { cbn [app decode1]. replace ((0 <=? c) && (c <? 128)) with true by lia. reflexivity. }
  destruct (Z.ltb_spec c 2048).
  { cbn [app decode1]. pose proof (Z.div_mod c 64 ltac:(lia)). pose proof (Z.mod_pos_bound c 64 ltac:(lia)).
    set (q := c / 64) in *. set (r := c mod 64) in *.
    replace ((0 <=? 192 + q) && (192 + q <? 128)) with false by lia.
    replace ((194 <=? 192 + q) && (192 + q <? 224)) with true by lia.
    unfold cont. replace ((128 <=? 128 + r) && (128 + r <? 192)) with true by lia.
    f_equal. f_equal. lia. }
  destruct (Z.ltb_spec c 65536).
  { cbn [app decode1].
    pose proof (Z.div_mod c 64 ltac:(lia)). pose proof (Z.mod_pos_bound c 64 ltac:(lia)).
    pose proof (Z.div_mod (c / 64) 64 ltac:(lia)). pose proof (Z.mod_pos_bound (c / 64) 64 ltac:(lia)).
    assert (E : c / 4096 = c / 64 / 64) by (rewrite Z.div_div by lia; reflexivity). rewrite E.
    set (q := c / 64) in *. set (r := c mod 64) in *. set (q2 := q / 64) in *. set (r2 := q mod 64) in *.
    replace ((0 <=? 224 + q2) && (224 + q2 <? 128)) with false by lia.
    replace ((194 <=? 224 + q2) && (224 + q2 <? 224)) with false by lia.
    replace ((224 <=? 224 + q2) && (224 + q2 <? 240)) with true by lia.
    unfold cont.
    replace ((128 <=? 128 + r2) && (128 + r2 <? 192)) with true by lia.
    replace ((128 <=? 128 + r) && (128 + r <? 192)) with true by lia.
    replace (negb (224 + q2 =? 224) || (160 <=? 128 + r2)) with true by lia.
    replace (negb (224 + q2 =? 237) || (128 + r2 <? 160)) with true by lia.
    cbn [andb]. f_equal. f_equal. lia. }
  cbn [app decode1].
  pose proof (Z.div_mod c 64 ltac:(lia)). pose proof (Z.mod_pos_bound c 64 ltac:(lia)).
  pose proof (Z.div_mod (c / 64) 64 ltac:(lia)). pose proof (Z.mod_pos_bound (c / 64) 64 ltac:(lia)).
  pose proof (Z.div_mod (c / 64 / 64) 64 ltac:(lia)). pose proof (Z.mod_pos_bound (c / 64 / 64) 64 ltac:(lia)).
  assert (E : c / 4096 = c / 64 / 64) by (rewrite Z.div_div by lia; reflexivity).
  assert (E2 : c / 262144 = c / 64 / 64 / 64) by (rewrite !Z.div_div by lia; reflexivity).
  rewrite E, E2.
  set (q := c / 64) in *. set (r := c mod 64) in *. set (q2 := q / 64) in *. set (r2 := q mod 64) in *.
  set (q3 := q2 / 64) in *. set (r3 := q2 mod 64) in *.
  replace ((0 <=? 240 + q3) && (240 + q3 <? 128)) with false by lia.
  replace ((194 <=? 240 + q3) && (240 + q3 <? 224)) with false by lia.
  replace ((224 <=? 240 + q3) && (240 + q3 <? 240)) with false by lia.
  replace ((240 <=? 240 + q3) && (240 + q3 <? 245)) with true by lia.
  unfold cont.
  replace ((128 <=? 128 + r3) && (128 + r3 <? 192)) with true by lia.
  replace ((128 <=? 128 + r2) && (128 + r2 <? 192)) with true by lia.
  replace ((128 <=? 128 + r) && (128 + r <? 192)) with true by lia.
  replace (negb (240 + q3 =? 240) || (144 <=? 128 + r3)) with true by lia.
  replace (negb (240 + q3 =? 244) || (128 + r3 <? 144)) with true by lia.
  cbn [andb]. f_equal. f_equal. lia.
Qed.

Lemma decode1_sound l c rest : decode1 l = Some (c, rest) -> l = encode c ++ rest /\ scalar c = true.
Proof.
  unfold decode1. destruct l as [|b0 t0]; [discriminate|].
  destruct ((0 <=? b0) && (b0 <? 128)) eqn:E1.
  { intros H. injection H as <- <-. unfold encode, scalar. replace (b0 <? 128) with true by lia. split; [reflexivity|lia]. }
  destruct ((194 <=? b0) && (b0 <? 224)) eqn:E2.
  { destruct t0 as [|b1 t1]; [discriminate|]. unfold cont. destruct ((128 <=? b1) && (b1 <? 192)) eqn:C1; [|discriminate].
    intros H. injection H as <- <-.
    set (c := (b0 - 192) * 64 + (b1 - 128)).
    assert (Hq : c / 64 = b0 - 192) by (unfold c; rewrite Z.div_add_l by lia; rewrite Z.div_small by lia; lia).
    assert (Hr : c mod 64 = b1 - 128) by (unfold c; rewrite Z.add_comm, Z.mod_add by lia; apply Z.mod_small; lia).
    unfold encode, scalar. replace (c <? 128) with false by lia. replace (c <? 2048) with true by lia.
    rewrite Hq, Hr. split; [cbn [app]; f_equal; [lia|f_equal; lia]|lia]. }
  destruct ((224 <=? b0) && (b0 <? 240)) eqn:E3.
  { destruct t0 as [|b1 [|b2 t2]]; try discriminate. unfold cont.
    destruct ((128 <=? b1) && (b1 <? 192)) eqn:C1; [|discriminate].
    destruct ((128 <=? b2) && (b2 <? 192)) eqn:C2; [|discriminate].
    destruct (negb (b0 =? 224) || (160 <=? b1)) eqn:C3; [|discriminate].
    destruct (negb (b0 =? 237) || (b1 <? 160)) eqn:C4; [|discriminate].
    cbn [andb]. intros H. injection H as <- <-.
    set (c := (b0 - 224) * 4096 + (b1 - 128) * 64 + (b2 - 128)).
    assert (Hc64 : c = ((b0 - 224) * 64 + (b1 - 128)) * 64 + (b2 - 128)) by (unfold c; lia).
    assert (Hq : c / 64 = (b0 - 224) * 64 + (b1 - 128)) by (rewrite Hc64, Z.div_add_l by lia; rewrite Z.div_small by lia; lia).
    assert (Hr : c mod 64 = b2 - 128) by (rewrite Hc64, Z.add_comm, Z.mod_add by lia; apply Z.mod_small; lia).
    assert (Hq2 : c / 4096 = b0 - 224).
    { replace 4096 with (64 * 64) by reflexivity. rewrite <- Z.div_div by lia. rewrite Hq.
      rewrite Z.div_add_l by lia. rewrite Z.div_small by lia. lia. }
    assert (Hr2 : (c / 64) mod 64 = b1 - 128) by (rewrite Hq, Z.add_comm, Z.mod_add by lia; apply Z.mod_small; lia).
    unfold encode, scalar. replace (c <? 128) with false by lia. replace (c <? 2048) with false by lia.
    replace (c <? 65536) with true by lia. rewrite Hq2, Hr2, Hr.
    split; [cbn [app]; f_equal; [lia|f_equal; [lia|f_equal; lia]]|lia]. }
  destruct ((240 <=? b0) && (b0 <? 245)) eqn:E4; [|discriminate].
  destruct t0 as [|b1 [|b2 [|b3 t3]]]; try discriminate. unfold cont.
  destruct ((128 <=? b1) && (b1 <? 192)) eqn:C1; [|discriminate].
  destruct ((128 <=? b2) && (b2 <? 192)) eqn:C2; [|discriminate].
  destruct ((128 <=? b3) && (b3 <? 192)) eqn:C2'; [|discriminate].
  destruct (negb (b0 =? 240) || (144 <=? b1)) eqn:C3; [|discriminate].
  destruct (negb (b0 =? 244) || (b1 <? 144)) eqn:C4; [|discriminate].
  cbn [andb]. intros H. injection H as <- <-.
  set (c := (b0 - 240) * 262144 + (b1 - 128) * 4096 + (b2 - 128) * 64 + (b3 - 128)).
  assert (Hc64 : c = (((b0 - 240) * 64 + (b1 - 128)) * 64 + (b2 - 128)) * 64 + (b3 - 128)) by (unfold c; lia).
  assert (Hq : c / 64 = ((b0 - 240) * 64 + (b1 - 128)) * 64 + (b2 - 128))
    by (rewrite Hc64, Z.div_add_l by lia; rewrite Z.div_small by lia; lia).
  assert (Hr : c mod 64 = b3 - 128) by (rewrite Hc64, Z.add_comm, Z.mod_add by lia; apply Z.mod_small; lia).
  assert (Hq2 : c / 4096 = (b0 - 240) * 64 + (b1 - 128)).
  { replace 4096 with (64 * 64) by reflexivity. rewrite <- Z.div_div by lia. rewrite Hq.
    rewrite Z.div_add_l by lia. rewrite Z.div_small by lia. lia. }
  assert (Hr2 : (c / 64) mod 64 = b2 - 128) by (rewrite Hq, Z.add_comm, Z.mod_add by lia; apply Z.mod_small; lia).
  assert (Hq3 : c / 262144 = b0 - 240).
  { replace 262144 with (4096 * 64) by reflexivity. rewrite <- Z.div_div by lia. rewrite Hq2.
    rewrite Z.div_add_l by lia. rewrite Z.div_small by lia. lia. }
  assert (Hr3 : (c / 4096) mod 64 = b1 - 128) by (rewrite Hq2, Z.add_comm, Z.mod_add by lia; apply Z.mod_small; lia).
  unfold encode, scalar. replace (c <? 128) with false by lia. replace (c <? 2048) with false by lia.
  replace (c <? 65536) with false by lia. rewrite Hq3, Hr3, Hr2, Hr.
  split; [cbn [app]; f_equal; [lia|f_equal; [lia|f_equal; [lia|f_equal; lia]]]|lia].
Qed.

(* shape of an encoding: a non-continuation byte followed by at most three continuation bytes,
   as many as the width of the leading byte says *)
Lemma encode_shape c : scalar c = true ->
  exists b r, encode c = b :: r /\ cont b = false /\ forallb cont r = true /\
              length (encode c) = width b /\ 0 <= b < 256 /\ (b <? 128) = (c <? 128).
Proof.
  intros Hs. unfold scalar in Hs. unfold encode, width, cont.
  destruct (Z.ltb_spec c 128).
  { exists c, []. replace (c <? 128) with true by lia. cbn. repeat split; lia. }
  destruct (Z.ltb_spec c 2048).
  { pose proof (Z.div_mod c 64 ltac:(lia)). pose proof (Z.mod_pos_bound c 64 ltac:(lia)).
    set (q := c / 64) in *. set (r := c mod 64) in *.
    exists (192 + q), [128 + r]. cbn [forallb length].
    replace (192 + q <? 128) with false by lia. replace (192 + q <? 224) with true by lia.
    repeat split; try lia. }
  destruct (Z.ltb_spec c 65536).
  { pose proof (Z.div_mod c 64 ltac:(lia)). pose proof (Z.mod_pos_bound c 64 ltac:(lia)).
    pose proof (Z.div_mod (c / 64) 64 ltac:(lia)). pose proof (Z.mod_pos_bound (c / 64) 64 ltac:(lia)).
    assert (E : c / 4096 = c / 64 / 64) by (rewrite Z.div_div by lia; reflexivity). rewrite E.
    set (q := c / 64) in *. set (r := c mod 64) in *. set (q2 := q / 64) in *. set (r2 := q mod 64) in *.
    exists (224 + q2), [128 + r2; 128 + r]. cbn [forallb length].
    replace (224 + q2 <? 128) with false by lia. replace (224 + q2 <? 224) with false by lia.
    replace (224 + q2 <? 240) with true by lia.
    repeat split; try lia. }
  pose proof (Z.div_mod c 64 ltac:(lia)). pose proof (Z.mod_pos_bound c 64 ltac:(lia)).
  pose proof (Z.div_mod (c / 64) 64 ltac:(lia)). pose proof (Z.mod_pos_bound (c / 64) 64 ltac:(lia)).
  pose proof (Z.div_mod (c / 64 / 64) 64 ltac:(lia)). pose proof (Z.mod_pos_bound (c / 64 / 64) 64 ltac:(lia)).
  assert (E : c / 4096 = c / 64 / 64) by (rewrite Z.div_div by lia; reflexivity).
  assert (E2 : c / 262144 = c / 64 / 64 / 64) by (rewrite !Z.div_div by lia; reflexivity).
  rewrite E, E2.
  set (q := c / 64) in *. set (r := c mod 64) in *. set (q2 := q / 64) in *. set (r2 := q mod 64) in *.
  set (q3 := q2 / 64) in *. set (r3 := q2 mod 64) in *.
  exists (240 + q3), [128 + r3; 128 + r2; 128 + r]. cbn [forallb length].
  replace (240 + q3 <? 128) with false by lia. replace (240 + q3 <? 224) with false by lia.
  replace (240 + q3 <? 240) with false by lia.
  repeat split; try lia.
Qed.

(* ---------------------------------------------------------------- decode <-> enc *)
Lemma decode1_shorter l c rest : decode1 l = Some (c, rest) -> (length rest < length l)%nat.
Proof.
  intros H. destruct (decode1_sound _ _ _ H) as [-> _]. rewrite app_length.
  pose proof (encode_length_pos c). lia.
Qed.

Lemma decode_fuel_enc n cs :
  Forall (fun c => scalar c = true) cs -> (length cs <= n)%nat ->
  decode_fuel n (enc cs) = Some cs.
Proof.
  intros Hs. revert n. induction Hs as [|c cs Hc Hcs IH]; intros n Hn.
  - destruct n; reflexivity.
  - cbn [enc flat_map]. fold (enc cs).
    destruct (encode c ++ enc cs) as [|x xs] eqn:El.
    { exfalso. destruct (encode c) eqn:Ee; [exact (encode_nonempty c Ee)|discriminate]. }
    rewrite <- El. destruct n as [|n]; [cbn in Hn; lia|].
    assert (D : decode_fuel (S n) (encode c ++ enc cs) =
                match decode1 (encode c ++ enc cs) with
                | Some (c0, rest) => match decode_fuel n rest with Some cs0 => Some (c0 :: cs0) | None => None end
                | None => None end) by (rewrite El; reflexivity).
    rewrite D, decode1_encode by exact Hc. rewrite IH by (cbn in Hn; lia). reflexivity.
Qed.

Lemma enc_length_ge cs : (length cs <= length (enc cs))%nat.
Proof.
  induction cs as [|c cs IH]; [cbn; lia|]. cbn [enc flat_map length]. fold (enc cs). rewrite app_length.
  pose proof (encode_length_pos c). lia.
Qed.

Theorem decode_enc cs : Forall (fun c => scalar c = true) cs -> decode (enc cs) = Some cs.
Proof. intros H. unfold decode. apply decode_fuel_enc; [exact H|apply enc_length_ge]. Qed.

Lemma decode_fuel_sound n l cs :
  decode_fuel n l = Some cs -> l = enc cs /\ Forall (fun c => scalar c = true) cs.
Proof.
  revert l cs. induction n as [|n IH]; intros l cs H.
  - destruct l; [|discriminate]. injection H as <-. split; [reflexivity|constructor].
  - destruct l as [|x xs]; [injection H as <-; split; [reflexivity|constructor]|].
    cbn [decode_fuel] in H. destruct (decode1 (x :: xs)) as [[c rest]|] eqn:D; [|discriminate].
    destruct (decode_fuel n rest) as [cs0|] eqn:D2; [|discriminate]. injection H as <-.
    destruct (decode1_sound _ _ _ D) as [-> Hc]. destruct (IH _ _ D2) as [-> Hcs].
    split; [reflexivity|constructor; assumption].
Qed.

Theorem decode_sound l cs : decode l = Some cs -> l = enc cs /\ Forall (fun c => scalar c = true) cs.
Proof. apply decode_fuel_sound. Qed.

(* the characterisation: accepted = concatenation of encodings of scalar values *)
Theorem valid_iff l : valid l = true <-> exists cs, Forall (fun c => scalar c = true) cs /\ l = enc cs.
Proof.
  unfold valid. split.
  - destruct (decode l) as [cs|] eqn:D; [|discriminate]. intros _. exists cs.
    destruct (decode_sound _ _ D). split; assumption.
  - intros (cs & Hs & ->). rewrite decode_enc by exact Hs. reflexivity.
Qed.

Lemma enc_app a b : enc (a ++ b) = enc a ++ enc b.
Proof. unfold enc. apply flat_map_app. Qed.

Theorem valid_app a b : valid a = true -> valid b = true -> valid (a ++ b) = true.
Proof.
  rewrite !valid_iff. intros (ca & Ha & ->) (cb & Hb & ->). exists (ca ++ cb).
  split; [apply Forall_app; split; assumption|symmetry; apply enc_app].
Qed.

Lemma valid_encode c : scalar c = true -> valid (encode c) = true.
Proof. intros H. apply valid_iff. exists [c]. split; [constructor; [exact H|constructor]|cbn; rewrite app_nil_r; reflexivity]. Qed.

Lemma valid_nil : valid [] = true.
Proof. reflexivity. Qed.

(* ---------------------------------------------------------------- boundaries *)
(* the ends of the encodings *)
Definition is_end (cs : list Z) (i : nat) : Prop := exists k, i = length (enc (firstn k cs)).

Lemma nth_error_cont_tail r j b : forallb cont r = true -> nth_error r j = Some b -> cont b = true.
Proof.
  revert j. induction r as [|x r IH]; intros [|j] Hf H; cbn in *; try discriminate.
  - injection H as <-. apply andb_prop in Hf. tauto.
  - apply andb_prop in Hf. apply (IH j); tauto.
Qed.

Theorem boundary_iff cs i :
  Forall (fun c => scalar c = true) cs ->
  (boundaryb (enc cs) i = true <-> is_end cs i).
Proof.
  intros Hs. revert i. induction Hs as [|c cs Hc Hcs IH]; intros i.
  - unfold is_end. cbn. split.
    + destruct i as [|i]; [intros _; exists O; reflexivity|]. cbn. destruct i; cbn; discriminate.
    + intros [k ->]. rewrite firstn_nil. reflexivity.
  - destruct (encode_shape c Hc) as (b & r & Ee & Hb & Hr & _).
    cbn [enc flat_map]. fold (enc cs).
    destruct (Nat.lt_ge_cases i (length (encode c))) as [Hlt|Hge].
    + (* inside the first encoding: only 0 is a boundary *)
      split.
      * intros H. destruct i as [|i]; [exists O; reflexivity|]. exfalso.
        unfold boundaryb in H. rewrite nth_error_app1 in H by exact Hlt. rewrite Ee in H, Hlt. cbn [nth_error length] in H, Hlt.
        destruct (nth_error r i) as [x|] eqn:En.
        -- rewrite (nth_error_cont_tail r i x Hr En) in H. discriminate.
        -- apply nth_error_None in En. lia.
      * intros [k ->]. destruct k as [|k]; [reflexivity|]. exfalso.
        cbn [firstn enc flat_map] in Hlt. fold (enc (firstn k cs)) in Hlt. rewrite app_length in Hlt. lia.
    + (* at or after its end: shift *)
      set (n := length (encode c)) in *.
      assert (Hn : (1 <= n)%nat) by apply encode_length_pos.
      assert (Eb : boundaryb (encode c ++ enc cs) i = boundaryb (enc cs) (i - n)).
      { unfold boundaryb. destruct i as [|i]; [lia|].
        rewrite nth_error_app2 by exact Hge. fold n. rewrite app_length. fold n.
        destruct (S i - n)%nat as [|j] eqn:Ej.
        - destruct (enc cs) as [|y ys] eqn:Ecs.
          + cbn [nth_error length]. apply Nat.eqb_eq. lia.
          + cbn [nth_error]. (* first byte of the next encoding is not a continuation byte *)
            destruct cs as [|c2 cs2]; [discriminate|]. inversion Hcs as [|? ? Hc2 _]; subst.
            destruct (encode_shape c2 Hc2) as (b2 & r2 & Ee2 & Hb2 & _).
            cbn [enc flat_map] in Ecs. rewrite Ee2 in Ecs. injection Ecs as <- _. rewrite Hb2. reflexivity.
        - destruct (nth_error (enc cs) (S j)); [reflexivity|].
          destruct (Nat.eqb_spec (S i) (n + length (enc cs))), (Nat.eqb_spec (S j) (length (enc cs))); try reflexivity; lia. }
      rewrite Eb, IH. unfold is_end. split.
      * intros [k Hk]. exists (S k). cbn [firstn enc flat_map]. fold (enc (firstn k cs)). rewrite app_length. fold n. lia.
      * intros [k Hk]. destruct k as [|k].
        -- cbn in Hk. exists O. cbn. lia.
        -- cbn [firstn enc flat_map] in Hk. fold (enc (firstn k cs)) in Hk. rewrite app_length in Hk. fold n in Hk.
           exists k. lia.
Qed.

(* splitting a valid string at a boundary gives two valid strings *)
Theorem valid_split l i :
  valid l = true -> boundaryb l i = true ->
  valid (firstn i l) = true /\ valid (skipn i l) = true.
Proof.
  intros Hv Hb. apply valid_iff in Hv. destruct Hv as (cs & Hs & ->).
  apply (boundary_iff cs i Hs) in Hb. destruct Hb as [k ->].
  assert (E : enc cs = enc (firstn k cs) ++ enc (skipn k cs)) by (rewrite <- enc_app, firstn_skipn; reflexivity).
  rewrite E.
  rewrite firstn_app, Nat.sub_diag, firstn_all, firstn_O, app_nil_r.
  rewrite skipn_app, Nat.sub_diag, skipn_all, skipn_O. cbn [app].
  rewrite <- (firstn_skipn k cs) in Hs. apply Forall_app in Hs. destruct Hs as [H1 H2].
  split; apply valid_iff; eexists; (split; [|reflexivity]); assumption.
Qed.

Lemma boundary_le_length l i : boundaryb l i = true -> (i <= length l)%nat.
Proof.
  unfold boundaryb. destruct i as [|i]; [lia|]. destruct (nth_error l (S i)) eqn:E.
  - intros _. apply Nat.lt_le_incl. apply nth_error_Some. congruence.
  - intros H. apply Nat.eqb_eq in H. lia.
Qed.

Lemma boundary_0 l : boundaryb l 0 = true.
Proof. reflexivity. Qed.
Lemma boundary_len l : boundaryb l (length l) = true.
Proof.
  unfold boundaryb. destruct (length l) as [|n] eqn:E; [reflexivity|].
  rewrite <- E. replace (nth_error l (length l)) with (@None Z) by (symmetry; apply nth_error_None; lia).
  apply Nat.eqb_refl.
Qed.

(* the character starting at a boundary: its width is read off its first byte *)
Theorem next_boundary l i b :
  valid l = true -> boundaryb l i = true -> nth_error l i = Some b ->
  boundaryb l (i + width b) = true /\
  exists c, scalar c = true /\ length (encode c) = width b /\ firstn (width b) (skipn i l) = encode c /\
            decode1 (skipn i l) = Some (c, skipn (i + width b) l).
Proof.
  intros Hv Hb Hn. apply valid_iff in Hv. destruct Hv as (cs & Hs & ->).
  pose proof Hb as Hb0. apply (boundary_iff cs i Hs) in Hb. destruct Hb as [k Hk].
  assert (Esplit : enc cs = enc (firstn k cs) ++ enc (skipn k cs)) by (rewrite <- enc_app, firstn_skipn; reflexivity).
  destruct (skipn k cs) as [|c cs2] eqn:Esk.
  { exfalso. rewrite Esplit in Hn. cbn [enc flat_map] in Hn. rewrite app_nil_r in Hn.
    assert (nth_error (enc (firstn k cs)) i = None) by (apply nth_error_None; lia). congruence. }
  assert (Hc : scalar c = true).
  { rewrite <- (firstn_skipn k cs) in Hs. apply Forall_app in Hs. destruct Hs as [_ H2]. rewrite Esk in H2.
    inversion H2; assumption. }
  destruct (encode_shape c Hc) as (b' & r & Ee & Hb' & Hr & Hw & _).
  cbn [enc flat_map] in Esplit. fold (enc cs2) in Esplit.
  assert (b' = b).
  { rewrite Esplit, nth_error_app2, Hk, Nat.sub_diag, Ee in Hn by lia. cbn in Hn. congruence. }
  subst b'.
  assert (Esk2 : skipn i (enc cs) = encode c ++ enc cs2).
  { rewrite Esplit, Hk, skipn_app, Nat.sub_diag, skipn_all, skipn_O. reflexivity. }
  split.
  - apply (boundary_iff cs _ Hs). exists (S k).
    assert (E1 : firstn (S k) cs = firstn k cs ++ [c]).
    { rewrite <- (firstn_skipn k cs) at 1. rewrite Esk.
      rewrite firstn_app. rewrite firstn_length.
      assert (k <= length cs)%nat.
      { destruct (Nat.le_gt_cases k (length cs)); [assumption|]. rewrite skipn_all2 in Esk by lia. discriminate. }
      rewrite Nat.min_l by assumption. replace (S k - k)%nat with 1%nat by lia.
      rewrite firstn_all2 by (rewrite firstn_length; lia). reflexivity. }
    rewrite E1, enc_app, app_length. cbn [enc flat_map]. rewrite app_nil_r. lia.
  - exists c. split; [exact Hc|]. split; [exact Hw|]. rewrite Esk2. split.
    + rewrite <- Hw. rewrite firstn_app, Nat.sub_diag, firstn_all, firstn_O, app_nil_r. reflexivity.
    + rewrite decode1_encode by exact Hc. f_equal. f_equal.
      rewrite Esplit, app_assoc.
      replace (i + width b)%nat with (length (enc (firstn k cs) ++ encode c)) by (rewrite app_length; lia).
      rewrite skipn_app, skipn_all, Nat.sub_diag, skipn_O. reflexivity.
Qed.
