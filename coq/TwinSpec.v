(* TwinSpec.v — the rules the twin / forwarding tables of the entry points must satisfy (C17).
   The tables themselves (gen/Twins.v) are regenerated from the current source by tools/c17.py on
   every run.

   twins: for every pair `X` / `try_X` of one impl or trait block, the token lists of the two
   bodies after the normalisation the translator applies — removal of exactly what the error
   behaviour may introduce: the `try_` prefix of what is called, `?`, `Ok(..)`, `panic_on_error(..)`,
   the turbofish that picks the error type, `.map(drop)` / a trailing `;` (the value is discarded),
   and grouping tokens on both sides.  The two lists must be equal, up to one more idiom: a call of
   `m` on one side against `generic_m` on the other when the table itself shows that `m` is
   `panic_on_error(self.generic_m(..))`.

   forwards: every function of a forwarding container (forward_methods!, the impls of the allocator
   traits for references, trait objects, WithoutDealloc and WithoutShrink): it must call the
   function of its own name (trait objects: the for_trait_object function of that name without
   `try_`) with its own parameters in their order, the receiver being one of the known accessors;
   `panic_on_error` may wrap only calls into for_trait_object; the few functions that are not a
   forward are listed with their exact bodies. *)
From Coq Require Import String List Bool Arith.
Import ListNotations.
Local Open Scope string_scope.

Record twin := mkTwin {
  tw_file : string; tw_cont : string; tw_name : string;
  tw_plain : list string; tw_try : list string;
  tw_pp : list string; tw_pt : list string
}.

Inductive fkind :=
| Forward (path callee : string) (args : list string) (wrapped : bool)
| Other (body : string).

Record fwd := mkFwd { fw_file : string; fw_cont : string; fw_name : string; fw_params : list string; fw_kind : fkind }.

Fixpoint list_eqb (a b : list string) : bool :=
  match a, b with
  | [], [] => true
  | x :: a', y :: b' => (x =? y) && list_eqb a' b'
  | _, _ => false
  end.

Lemma list_eqb_eq a : forall b, list_eqb a b = true <-> a = b.
Proof.
  induction a as [|x a IH]; intros [|y b]; cbn; split; intros H; try discriminate; try reflexivity.
  - apply andb_prop in H. destruct H as [H1 H2]. apply String.eqb_eq in H1. apply IH in H2. congruence.
  - injection H as -> ->. rewrite String.eqb_refl. apply IH. reflexivity.
Qed.

(* `m` is the panicking wrapper of `generic_m`, according to the table *)
Definition is_wrapper (T : list twin) (m : string) : bool :=
  existsb (fun r => (tw_name r =? m) &&
                    match tw_plain r with
                    | s :: d :: g :: _ => (s =? "self") && (d =? ".") && (g =? "generic_" ++ m)
                    | _ => false
                    end) T.

Definition tok_eq (T : list twin) (a b : string) : bool :=
  (a =? b) || (("generic_" ++ a =? b) && is_wrapper T a).

Fixpoint toks_eq (T : list twin) (a b : list string) : bool :=
  match a, b with
  | [], [] => true
  | x :: a', y :: b' => tok_eq T x y && toks_eq T a' b'
  | _, _ => false
  end.

Definition twin_ok (T : list twin) (r : twin) : bool :=
  toks_eq T (tw_plain r) (tw_try r) && list_eqb (tw_pp r) (tw_pt r).

Definition Twins_ok (T : list twin) : bool := forallb (twin_ok T) T.

(* ---------------------------------------------------------------- forwards *)
Definition strip_try (n : string) : string :=
  if prefix "try_" n then substring 4 (String.length n - 4) n else n.

Definition receivers : list string := ["self"; "$ access"; "$ access_mut"; "& self . 0"; "self . 0"; "$ accessor"; "( * * self )"].

Definition allowed_other : list (string * string) :=
  [ ("typed_stats", "self . any_stats ( )");                       (* trait objects report type-erased statistics *)
    ("shrink_slice", "_ = ( ptr , old_len , new_len ) ; None");   (* WithoutShrink never shrinks *)
    ("deallocate", "let _ = ( ptr , layout )");                   (* WithoutDealloc never deallocates *)
    ("shrink", "(body modelled in Arena.ws_shrink)");
    ("shrink_unfit", "(body modelled in Arena.ws_shrink)") ].

(* the arguments are the parameters, in order; a `self` parameter is passed as one of the receivers *)
Definition args_match (params args : list string) : bool :=
  match params, args with
  | p :: ps, r :: as_ =>
    if p =? "self" then existsb (String.eqb r) receivers && list_eqb as_ ps else list_eqb args params
  | _, _ => list_eqb args params
  end.

Definition forward_ok (f : fwd) : bool :=
  match fw_kind f with
  | Other body => existsb (fun p => (fst p =? fw_name f) && (snd p =? body)) allowed_other
  | Forward path callee args wrapped =>
    ((callee =? fw_name f) || ((path =? "for_trait_object::") && (callee =? strip_try (fw_name f)))) &&
    (negb wrapped || (path =? "for_trait_object::")) &&
    args_match (fw_params f) args
  end.

Definition Forwards_ok (F : list fwd) : bool := forallb forward_ok F.

(* what a passing table means, row by row *)
Theorem Twins_ok_spec T : Twins_ok T = true ->
  forall r, In r T -> toks_eq T (tw_plain r) (tw_try r) = true /\ tw_pp r = tw_pt r.
Proof.
  unfold Twins_ok. rewrite forallb_forall. intros H r Hr. specialize (H r Hr). unfold twin_ok in H.
  apply andb_prop in H. destruct H as [H1 H2]. split; [exact H1|]. apply list_eqb_eq. exact H2.
Qed.

(* without the wrapper idiom the two bodies are literally the same token list *)
Lemma toks_eq_plain T a : forall b, (forall m, is_wrapper T m = false) -> toks_eq T a b = true -> a = b.
Proof.
  induction a as [|x a IH]; intros [|y b] Hw H; cbn in H; try discriminate; try reflexivity.
  apply andb_prop in H. destruct H as [H1 H2]. unfold tok_eq in H1. rewrite Hw, andb_false_r, orb_false_r in H1.
  apply String.eqb_eq in H1. rewrite (IH b Hw H2). congruence.
Qed.

Lemma args_match_spec params args : args_match params args = true ->
  (exists ps r as_, params = "self" :: ps /\ args = r :: as_ /\ In r receivers /\ as_ = ps) \/ args = params.
Proof.
  unfold args_match. destruct params as [|p ps]; [intros H; right; apply list_eqb_eq; exact H|].
  destruct args as [|r as_]; [intros H; right; apply list_eqb_eq; exact H|].
  destruct (String.eqb_spec p "self") as [->|Hne]; [|intros H; right; apply list_eqb_eq; exact H].
  intros H. apply andb_prop in H. destruct H as [R L]. left. exists ps, r, as_.
  split; [reflexivity|]. split; [reflexivity|]. split; [|apply list_eqb_eq; exact L].
  apply existsb_exists in R. destruct R as (x & Hx & E). apply String.eqb_eq in E. subst x. exact Hx.
Qed.

Theorem Forwards_ok_spec F : Forwards_ok F = true ->
  forall f path callee args wrapped, In f F -> fw_kind f = Forward path callee args wrapped ->
  (callee = fw_name f \/ (path = "for_trait_object::" /\ callee = strip_try (fw_name f))) /\
  (wrapped = true -> path = "for_trait_object::") /\
  ((exists ps r as_, fw_params f = "self" :: ps /\ args = r :: as_ /\ In r receivers /\ as_ = ps) \/ args = fw_params f).
Proof.
  unfold Forwards_ok. rewrite forallb_forall. intros H f path callee args wrapped Hf Hk. specialize (H f Hf).
  unfold forward_ok in H. rewrite Hk in H. apply andb_prop in H. destruct H as [H H3]. apply andb_prop in H. destruct H as [H1 H2].
  split.
  - apply orb_prop in H1. destruct H1 as [E|E]; [left; apply String.eqb_eq; exact E|].
    apply andb_prop in E. destruct E as [E1 E2]. right. split; apply String.eqb_eq; assumption.
  - split; [|apply args_match_spec; exact H3]. intros ->. cbn in H2. apply String.eqb_eq. exact H2.
Qed.
