(* ArenaSizes.v — C10: each later chunk is strictly larger than its predecessor, in every
   reachable state.  Only the sizes of the chunk list matter: every operation either keeps them,
   appends one chunk made by grow_arena (whose size is at least 2 * previous - 16 > previous),
   keeps only the last chunk (reset) or drops all (drop). *)
From Coq Require Import ZArith List Lia Bool.
From BS Require Import Word BumpSpec ChunkSpec Arena ArenaInv.
Import ListNotations.
Open Scope Z_scope.

Definition sizes (s : arena) : list Z := map csize (chunks s).

(* strictly increasing, every size at least 32 *)
Fixpoint incr (l : list Z) : Prop :=
  match l with
  | [] => True
  | a :: t => 32 <= a /\ match t with [] => True | b :: _ => a < b end /\ incr t
  end.

Definition last_size (l : list Z) : option Z := match rev l with x :: _ => Some x | [] => None end.

Lemma incr_app l x : incr l -> 32 <= x -> (forall p, last_size l = Some p -> p < x) -> incr (l ++ [x]).
Proof.
  induction l as [|a t IH]; intros Hi Hx Hl; [cbn; auto|].
  cbn [app incr] in *. destruct Hi as (Ha & Hn & Ht). split; [exact Ha|]. split.
  - destruct t as [|b t']; cbn [app]; [apply Hl; reflexivity|exact Hn].
  - apply IH; [exact Ht|exact Hx|]. intros p Hp. apply Hl. unfold last_size in *. cbn [rev].
    destruct (rev t) as [|y ys] eqn:Er; [discriminate|]. cbn. exact Hp.
Qed.

Lemma incr_last_only l x t : incr l -> rev l = x :: t -> incr [x].
Proof.
  intros Hi Hr. cbn. split; [|auto].
  assert (Hin : In x l) by (apply in_rev; rewrite Hr; left; reflexivity).
  clear Hr. induction l as [|a l' IH]; [destruct Hin|]. cbn [incr] in Hi. destruct Hi as (Ha & _ & Ht).
  destruct Hin as [->|Hin]; [exact Ha|exact (IH Ht Hin)].
Qed.

(* ---------------------------------------------------------------- building blocks *)
Lemma sizes_set_nth_pos l i ch p : nth_error l i = Some ch -> map csize (set_nth l i (set_pos ch p)) = map csize l.
Proof.
  revert i. induction l as [|x t IH]; intros [|i] H; cbn in *; try discriminate.
  - injection H as ->. reflexivity.
  - f_equal. apply IH. exact H.
Qed.

Lemma sizes_set_nth_same_size l i ch ch1 : nth_error l i = Some ch -> csize ch1 = csize ch -> map csize (set_nth l i ch1) = map csize l.
Proof.
  revert i. induction l as [|x t IH]; intros [|i] H E; cbn in *; try discriminate.
  - injection H as ->. rewrite E. reflexivity.
  - f_equal. apply IH; assumption.
Qed.

Lemma sizes_set_cur_pos s p : sizes (set_cur_pos s p) = sizes s.
Proof.
  unfold set_cur_pos, sizes. destruct (cur s) as [i| |]; try reflexivity.
  destruct (nth_error (chunks s) i) eqn:E; [|reflexivity]. cbn [chunks upd_chunks]. apply sizes_set_nth_pos. exact E.
Qed.

Lemma walk_next_sizes {R} c (f : chunk -> option (R * chunk)) :
  (forall ch r ch1, f ch = Some (r, ch1) -> csize ch1 = csize ch) ->
  forall fuel cs i cs' j res, walk_next c f cs i fuel = (cs', j, res) -> map csize cs' = map csize cs.
Proof.
  intros Hf. induction fuel as [|fuel IH]; intros cs i cs' j res H; cbn [walk_next] in H.
  - injection H as <- _ _. reflexivity.
  - destruct (nth_error cs (S i)) as [ch|] eqn:En; [|injection H as <- _ _; reflexivity].
    destruct (f (reset_chunk c ch)) as [[r ch1]|] eqn:Ef.
    + injection H as <- _ _. apply (sizes_set_nth_same_size cs (S i) ch ch1 En).
      rewrite (Hf _ _ _ Ef). reflexivity.
    + rewrite (IH _ _ _ _ _ H). apply (sizes_set_nth_same_size cs (S i) ch _ En). reflexivity.
Qed.

(* what the base allocator's answer must satisfy for the size argument: at least the requested size *)
Definition grant_ok (c : cfg) (l : list Z) (size align : Z) (r : resp) : Prop :=
  match r with
  | Some (_, g) => forall n, new_chunk_size c (last_size l) size align = Some n -> n <= g
  | None => True
  end.

Lemma prev_size_sizes s : prev_size s = last_size (sizes s).
Proof.
  unfold prev_size, last_size, sizes. rewrite <- map_rev. destruct (rev (chunks s)); reflexivity.
Qed.

Lemma grow_arena_sizes c s size align r :
  cfg_ok c -> incr (sizes s) -> grant_ok c (sizes s) size align r ->
  incr (sizes (fst (grow_arena c s size align r))).
Proof.
  intros Hc Hi Hg. unfold grow_arena. fold (prev_size s).
  destruct (new_chunk_size c (prev_size s) size align) as [n|] eqn:En; [|exact Hi].
  destruct r as [[addr g]|]; [|exact Hi].
  cbn [fst]. unfold sizes. cbn [chunks upd_cur upd_chunks log_event]. rewrite map_app. cbn [map].
  rewrite prev_size_sizes in En. specialize (Hg n En).
  pose proof Hc as [Hh _].
  (* the new chunk's size is at least n, and n >= 2 * previous - 16 *)
  unfold new_chunk_size in En.
  destruct (W <=? spec_hint (up c) (hs c) (ha c) size align); [discriminate|].
  destruct (W <=? match last_size (sizes s) with Some ps => 2 * ps | None => 0 end); [discriminate|].
  match type of En with context [spec_size0 _ _ ?h] => remember h as hint eqn:Ehint end.
  destruct (W <=? spec_size0 (hs c) (ha c) hint); [discriminate|].
  destruct (IMAX - (ha c - 1) <? spec_size_from_hint (up c) (hs c) (ha c) hint); [discriminate|].
  injection En as <-.
  pose proof (size_from_hint_facts (up c) (hs c) (ha c) Hh hint) as (Hn16 & Hnha & Hnge & Hnhs & _).
  set (n := spec_size_from_hint (up c) (hs c) (ha c) hint) in *.
  pose proof (align_size_between (up c) (hs c) (ha c) Hh n g Hn16 Hnha Hg) as (Hun & _).
  destruct Hh as (_ & _ & _ & _ & H32 & _).
  unfold make_chunk. cbn [csize set_pos]. fold (sizes s).
  apply incr_app; [exact Hi|lia|].
  intros p Hp. rewrite Hp in Ehint. lia.
Qed.

Lemma grow_arena_sizes_shape c s size align r :
  sizes (fst (grow_arena c s size align r)) = sizes s \/
  exists x, sizes (fst (grow_arena c s size align r)) = sizes s ++ [x].
Proof.
  unfold grow_arena. destruct (new_chunk_size _ _ _ _); [|left; reflexivity].
  destruct r as [[addr g]|]; [|left; reflexivity]. right. eexists. unfold sizes. cbn [fst chunks upd_cur upd_chunks log_event].
  rewrite map_app. reflexivity.
Qed.

Lemma in_another_chunk_sizes {R} c s h size align (f : chunk -> option (R * chunk)) r :
  cfg_ok c -> (forall ch x ch1, f ch = Some (x, ch1) -> csize ch1 = csize ch) ->
  incr (sizes s) -> grant_ok c (sizes s) size align r ->
  incr (sizes (fst (in_another_chunk c s h size align f r))).
Proof.
  intros Hc Hf Hi Hg. unfold in_another_chunk. destruct h as [i| |]; [| |exact Hi].
  - destruct (walk_next c f (chunks s) i (length (chunks s))) as [[cs j] wres] eqn:Ew.
    pose proof (walk_next_sizes c f Hf _ _ _ _ _ _ Ew) as Es.
    destruct wres as [res|]; [cbn [fst]; unfold sizes; cbn [chunks upd_cur upd_chunks]; rewrite Es; exact Hi|].
    set (s0 := upd_cur (upd_chunks s cs) (Cur j)).
    assert (E0 : sizes s0 = sizes s) by (unfold sizes, s0; cbn [chunks upd_cur upd_chunks]; exact Es).
    pose proof (grow_arena_sizes c s0 size align r Hc ltac:(rewrite E0; exact Hi) ltac:(rewrite E0; exact Hg)) as Hi1.
    destruct (grow_arena c s0 size align r) as [s1 [e|]]; cbn [fst] in *.
    + unfold sizes in *. cbn [chunks upd_cur]. exact Hi1.
    + destruct (cur s1) as [k| |]; try exact Hi1.
      destruct (nth_error (chunks s1) k) as [ch|] eqn:En; [|exact Hi1].
      destruct (f ch) as [[res ch1]|] eqn:Ef; [|exact Hi1].
      cbn [fst]. unfold sizes in *. cbn [chunks upd_chunks].
      rewrite (sizes_set_nth_same_size _ _ _ _ En (Hf _ _ _ Ef)). exact Hi1.
  - pose proof (grow_arena_sizes c s size align r Hc Hi Hg) as Hi1.
    destruct (grow_arena c s size align r) as [s1 [e|]]; cbn [fst] in *; [exact Hi1|].
    destruct (cur s1) as [k| |]; try exact Hi1.
    destruct (nth_error (chunks s1) k) as [ch|] eqn:En; [|exact Hi1].
    destruct (f ch) as [[res ch1]|] eqn:Ef; [|exact Hi1].
    cbn [fst]. unfold sizes in *. cbn [chunks upd_chunks].
    rewrite (sizes_set_nth_same_size _ _ _ _ En (Hf _ _ _ Ef)). exact Hi1.
Qed.

Lemma chunk_alloc_size c m ch size align p ch1 : chunk_alloc c m ch size align = Some (p, ch1) -> csize ch1 = csize ch.
Proof.
  unfold chunk_alloc. destruct (up c).
  - destruct (spec_up _ _ _ _ _) as [[q np]|]; [|discriminate]. intros H. injection H as _ <-. reflexivity.
  - destruct (spec_down _ _ _ _ _) as [q|]; [|discriminate]. intros H. injection H as _ <-. reflexivity.
Qed.

Lemma raw_alloc_sizes c s size align r :
  cfg_ok c -> incr (sizes s) -> grant_ok c (sizes s) size align r ->
  incr (sizes (fst (raw_alloc c s size align r))).
Proof.
  intros Hc Hi Hg. unfold raw_alloc.
  assert (Hf : forall ch x ch1, chunk_alloc c (malign s) ch size align = Some (x, ch1) -> csize ch1 = csize ch)
    by (intros; eapply chunk_alloc_size; eassumption).
  destruct (cur s) as [i| |]; try (apply in_another_chunk_sizes; assumption).
  destruct (nth_error (chunks s) i) as [ch|] eqn:En; [|exact Hi].
  destruct (chunk_alloc c (malign s) ch size align) as [[p ch1]|] eqn:Ef; [|apply in_another_chunk_sizes; assumption].
  cbn [fst]. unfold sizes in *. cbn [chunks upd_chunks]. rewrite (sizes_set_nth_same_size _ _ _ _ En (Hf _ _ _ Ef)). exact Hi.
Qed.

Lemma raw_alloc_slow_sizes c s size align r :
  cfg_ok c -> incr (sizes s) -> grant_ok c (sizes s) size align r ->
  incr (sizes (fst (raw_alloc_slow c s size align r))).
Proof.
  intros Hc Hi Hg. unfold raw_alloc_slow. apply in_another_chunk_sizes; try assumption.
  intros; eapply chunk_alloc_size; eassumption.
Qed.

Lemma raw_prepare_sizes c s size align r :
  cfg_ok c -> incr (sizes s) -> grant_ok c (sizes s) size align r ->
  incr (sizes (fst (raw_prepare c s size align r))).
Proof.
  intros Hc Hi Hg. unfold raw_prepare.
  assert (Hf : forall ch x ch1, chunk_prepare_sized c (malign s) ch size align = Some (x, ch1) -> csize ch1 = csize ch).
  { intros ch x ch1 H. unfold chunk_prepare_sized in H. destruct (chunk_alloc c (malign s) ch size align) as [[p c0]|]; [|discriminate].
    injection H as _ <-. reflexivity. }
  destruct (cur s) as [i| |]; try (apply in_another_chunk_sizes; assumption).
  destruct (nth_error (chunks s) i) as [ch|] eqn:En; [|exact Hi].
  destruct (chunk_prepare_sized c (malign s) ch size align) as [[p c0]|]; [exact Hi|apply in_another_chunk_sizes; assumption].
Qed.

Lemma raw_prepare_range_sizes c s size align r :
  cfg_ok c -> incr (sizes s) -> grant_ok c (sizes s) size align r ->
  incr (sizes (fst (raw_prepare_range c s size align r))).
Proof.
  intros Hc Hi Hg. unfold raw_prepare_range.
  set (f := fun ch : chunk => match chunk_prepare c ch size align with Some rng => Some (rng, ch) | None => None end).
  assert (Hf : forall ch x ch1, f ch = Some (x, ch1) -> csize ch1 = csize ch).
  { intros ch x ch1 H. unfold f in H. destruct (chunk_prepare c ch size align); [|discriminate]. injection H as _ <-. reflexivity. }
  destruct (cur s) as [i| |]; try (apply in_another_chunk_sizes; assumption).
  destruct (nth_error (chunks s) i) as [ch|] eqn:En; [|exact Hi].
  cbv beta. destruct (chunk_prepare c ch size align) as [rng|]; [exact Hi|apply in_another_chunk_sizes; assumption].
Qed.

Lemma sizes_dealloc_assume_last c s p sz : sizes (dealloc_assume_last c s p sz) = sizes s.
Proof. unfold dealloc_assume_last. destruct (negb (deallocates c)); [reflexivity|]. destruct (up c); apply sizes_set_cur_pos. Qed.
Lemma sizes_raw_dealloc c s p sz : sizes (raw_dealloc c s p sz) = sizes s.
Proof. unfold raw_dealloc. destruct (negb (deallocates c)); [reflexivity|]. destruct (is_last c s p sz); [apply sizes_dealloc_assume_last|reflexivity]. Qed.

Lemma raw_grow_sizes c s ptr osize oalign nsize nalign r :
  cfg_ok c -> incr (sizes s) -> grant_ok c (sizes s) nsize nalign r ->
  incr (sizes (fst (raw_grow c s ptr osize oalign nsize nalign r))).
Proof.
  intros Hc Hi Hg. unfold raw_grow.
  assert (Hmoved : forall x : arena * (Z + err), incr (sizes (fst x)) ->
            incr (sizes (fst (match x with
             | (t1, inl np) => let '(t2, ub) := copy_block t1 ptr np osize true in (t2, inl (mkRO np nsize ub))
             | (t1, inr e) => (t1, inr e) end)))).
  { intros [t1 [np|e]] H; cbn [fst] in *; exact H. }
  destruct (up c).
  - destruct (is_last c s ptr osize && divides nalign ptr).
    + destruct (cur_chunk s) as [ch|]; [|exact Hi].
      destruct (nsize <=? content_end c ch - ptr); [cbn [fst]; rewrite sizes_set_cur_pos; exact Hi|].
      apply Hmoved. apply raw_alloc_slow_sizes; assumption.
    + apply Hmoved. apply raw_alloc_sizes; assumption.
  - destruct (is_last c s ptr osize).
    + destruct (cur_chunk s) as [ch|]; [|exact Hi].
      destruct (content_start c ch <=? down_alignZ (Z.max (ptr - (nsize - osize)) 0) (Z.max nalign (malign s))).
      * cbn [copy_block fst]. rewrite sizes_set_cur_pos. exact Hi.
      * apply Hmoved. apply raw_alloc_slow_sizes; assumption.
    + apply Hmoved. apply raw_alloc_sizes; assumption.
Qed.

Lemma raw_shrink_sizes c s ptr osize oalign nsize nalign r :
  cfg_ok c -> incr (sizes s) -> grant_ok c (sizes s) nsize nalign r ->
  incr (sizes (fst (raw_shrink c s ptr osize oalign nsize nalign r))).
Proof.
  intros Hc Hi Hg. unfold raw_shrink.
  destruct (negb (divides nalign ptr)).
  - destruct (shrinks c && is_last c s ptr osize).
    + destruct (cur_chunk s) as [ch0|]; [|exact Hi].
      set (sd := dealloc_assume_last c s ptr osize).
      assert (Esd : sizes sd = sizes s) by apply sizes_dealloc_assume_last.
      destruct (cur_chunk sd) as [ch|] eqn:Ecc; [|exact Hi].
      destruct (chunk_alloc c (malign s) ch nsize nalign) as [[np ch1]|] eqn:Ea.
      * cbn [copy_block fst]. unfold sizes. cbn [chunks upd_mem].
        destruct (cur sd) as [i| |] eqn:Ecu; try (fold (sizes sd); rewrite Esd; exact Hi).
        cbn [chunks upd_chunks]. unfold cur_chunk in Ecc. rewrite Ecu in Ecc.
        rewrite (sizes_set_nth_same_size _ _ _ _ Ecc (chunk_alloc_size _ _ _ _ _ _ _ Ea)). fold (sizes sd). rewrite Esd. exact Hi.
      * set (s2 := set_cur_pos sd (cpos ch0)).
        assert (E2 : sizes s2 = sizes s) by (unfold s2; rewrite sizes_set_cur_pos; exact Esd).
        pose proof (raw_alloc_slow_sizes c s2 nsize nalign r Hc ltac:(rewrite E2; exact Hi) ltac:(rewrite E2; exact Hg)) as H3.
        destruct (raw_alloc_slow c s2 nsize nalign r) as [s3 [np|e]]; cbn [fst copy_block] in *; exact H3.
    + pose proof (raw_alloc_sizes c s nsize nalign r Hc Hi Hg) as H1.
      destruct (raw_alloc c s nsize nalign r) as [s2 [np|e]]; cbn [fst copy_block] in *; exact H1.
  - destruct (negb (shrinks c) || negb (is_last c s ptr osize)); [exact Hi|].
    destruct (up c); cbn [copy_block fst]; rewrite sizes_set_cur_pos; exact Hi.
Qed.

Lemma ws_shrink_sizes c s ptr osize oalign nsize nalign r :
  cfg_ok c -> incr (sizes s) -> grant_ok c (sizes s) nsize nalign r ->
  incr (sizes (fst (ws_shrink c s ptr osize oalign nsize nalign r))).
Proof.
  intros Hc Hi Hg. unfold ws_shrink. destruct (divides nalign ptr); [exact Hi|].
  pose proof (raw_alloc_sizes c s nsize nalign r Hc Hi Hg) as H1.
  destruct (raw_alloc c s nsize nalign r) as [s2 [np|e]]; cbn [fst copy_block] in *; exact H1.
Qed.

Lemma sizes_do_reset_to c s cp : incr (sizes s) -> incr (sizes (do_reset_to c s cp)).
Proof.
  intros Hi. unfold do_reset_to. destruct (cp_state cp) as [j| |]; try exact Hi.
  - destruct (nth_error (chunks s) j) eqn:En; [|exact Hi]. unfold sizes. cbn [chunks upd_cur upd_chunks].
    rewrite (sizes_set_nth_pos _ _ _ _ En). exact Hi.
  - destruct (cur s); try exact Hi. destruct (chunks s) as [|ch rest] eqn:Ech; [exact Hi|].
    unfold sizes in *. cbn [chunks upd_cur upd_chunks]. rewrite Ech in Hi. exact Hi.
Qed.

Lemma sizes_log_events s es : sizes (log_events s es) = sizes s.
Proof. unfold log_events. revert s. induction es as [|e es IH]; intros s; [reflexivity|]. cbn [fold_left]. rewrite IH. reflexivity. Qed.

(* ---------------------------------------------------------------- every operation *)
Definition op_layout2 (c : cfg) (s : arena) (o : op) : option (Z * Z) :=
  match o with
  | OPrepare _ es ea cap _ => Some (es * cap, ea)
  | _ => op_layout c s o
  end.
Definition op_grant (c : cfg) (s : arena) (o : op) (r : resp) : Prop :=
  match op_layout2 c s o with Some (sz, al) => grant_ok c (sizes s) sz al r | None => True end.

Lemma resp_ok_grant c s size align r : resp_ok c s size align r -> grant_ok c (sizes s) size align r.
Proof.
  unfold resp_ok, grant_ok. destruct r as [[addr g]|]; [|auto]. intros (_ & _ & _ & _ & H & _) n Hn.
  apply H. rewrite prev_size_sizes. exact Hn.
Qed.

Lemma sizes_add_block s p sz al : sizes (fst (add_block s p sz al)) = sizes s.
Proof. reflexivity. Qed.

Lemma sizes_upd_aligns s l : sizes (upd_aligns s l) = sizes s.
Proof. reflexivity. Qed.

Ltac szs := unfold sizes in *; cbn [chunks upd_live upd_mem upd_aligns upd_depth upd_cur upd_chunks bump_id tick zero_fill remove_block log_event map] in *.

Theorem step_sizes c s0 o r :
  cfg_ok c -> incr (sizes s0) -> op_grant c s0 o r -> incr (sizes (fst (step c s0 o r))).
Proof.
  intros Hc Hi Hg. unfold op_grant in Hg.
  assert (Hi' : incr (sizes (tick s0))) by exact Hi.
  assert (Et : sizes (tick s0) = sizes s0) by reflexivity.
  destruct o; cbn [step op_layout2 op_layout] in *; set (s := tick s0) in *.
  - (* OAlloc *)
    destruct (negb (is_top s h)); [exact Hi'|].
    pose proof (raw_alloc_sizes c s size align r Hc Hi' Hg) as H1.
    destruct (raw_alloc c s size align r) as [s1 [p|e]]; cbn [fst] in *; [|exact H1].
    destruct zeroed; exact H1.
  - (* ODealloc *)
    destruct (find_block s b) as [blk|]; [|exact Hi'].
    destruct (negb (is_top s h) || has_wrapper WDealloc ws); [exact Hi'|].
    cbn [fst]. rewrite sizes_raw_dealloc. exact Hi'.
  - (* OGrow *)
    destruct (find_block s b) as [blk|]; [|exact Hi'].
    destruct (negb (is_top s h)); [exact Hi'|].
    pose proof (raw_grow_sizes c s (bptr blk) (bsize blk) (balign blk) nsize nalign r Hc Hi' Hg) as H1.
    destruct (raw_grow c s (bptr blk) (bsize blk) (balign blk) nsize nalign r) as [s1 [ro|e]]; cbn [fst] in *; [|exact H1].
    destruct zeroed; exact H1.
  - (* OShrink *)
    destruct (find_block s b) as [blk|]; [|exact Hi'].
    destruct (negb (is_top s h) && negb (has_wrapper WShrink ws && divides nalign (bptr blk))).
    + destruct (divides nalign (bptr blk)); exact Hi'.
    + assert (H1 : incr (sizes (fst ((if has_wrapper WShrink ws then ws_shrink else raw_shrink) c s (bptr blk) (bsize blk) (balign blk) nsize nalign r)))).
      { destruct (has_wrapper WShrink ws); [apply ws_shrink_sizes|apply raw_shrink_sizes]; assumption. }
      destruct ((if has_wrapper WShrink ws then ws_shrink else raw_shrink) c s (bptr blk) (bsize blk) (balign blk) nsize nalign r) as [s1 [ro|e]];
        cbn [fst] in *; exact H1.
  - (* OFill *) destruct (find_block s b); exact Hi'.
  - (* OCheckpoint *) exact Hi'.
  - (* OResetTo *) cbn [fst]. apply sizes_do_reset_to. exact Hi'.
  - (* OReset *)
    cbn [cur upd_live]. destruct (cur s); try exact Hi'.
    cbn [chunks upd_live]. destruct (rev (chunks s)) as [|last t] eqn:Er; [exact Hi'|].
    cbn [fst]. unfold sizes. cbn [chunks upd_cur upd_chunks map reset_chunk set_pos csize].
    apply (incr_last_only (sizes s) (csize last) (map csize t) Hi'). unfold sizes. rewrite <- map_rev, Er. reflexivity.
  - (* OResetToStart *)
    cbn [cur upd_live]. destruct (cur s); try exact Hi'.
    cbn [chunks upd_live]. destruct (chunks s) as [|ch rest] eqn:Ech.
    + cbn [fst]. unfold sizes. cbn [chunks upd_live]. rewrite Ech. exact I.
    + cbn [fst]. unfold sizes in *. cbn [chunks upd_cur upd_chunks upd_live map reset_chunk set_pos csize]. rewrite Ech in Hi'. exact Hi'.
  - (* OReserve *)
    destruct (negb (is_top s h)); [exact Hi'|].
    unfold cur_chunk in Hg.
    destruct (cur s) as [i| |] eqn:Ec.
    + destruct (nth_error (chunks s) i) as [ch|] eqn:En; [|exact Hi'].
      assert (Ecc : cur_chunk s0 = Some ch) by (unfold cur_chunk; exact (eq_trans (f_equal (fun h => match h with Cur i0 => nth_error (chunks s0) i0 | _ => None end) Ec) En)).
      unfold cur_chunk in Ecc.
      destruct (n <=? remaining_in c ch + sumZ (map (capacity c) (chunks_after s))); [exact Hi'|].
      destruct (IMAX <? n - (remaining_in c ch + sumZ (map (capacity c) (chunks_after s)))); [exact Hi'|].
      assert (Hg' : grant_ok c (sizes s) (n - (remaining_in c ch + sumZ (map (capacity c) (chunks_after s)))) 1 r).
      { change (cur s0) with (cur s) in Hg. rewrite Ec in Hg. change (chunks s0) with (chunks s) in Hg. rewrite En in Hg. exact Hg. }
      pose proof (grow_arena_sizes c s _ 1 r Hc Hi' Hg') as H1.
      destruct (grow_arena c s (n - (remaining_in c ch + sumZ (map (capacity c) (chunks_after s)))) 1 r) as [s1 [e|]]; cbn [fst] in *; exact H1.
    + destruct (IMAX <? n); [exact Hi'|].
      assert (Hg' : grant_ok c (sizes s) n 1 r).
      { change (cur s0) with (cur s) in Hg. rewrite Ec in Hg. exact Hg. }
      pose proof (grow_arena_sizes c s n 1 r Hc Hi' Hg') as H1.
      destruct (grow_arena c s n 1 r) as [s1 [e|]]; cbn [fst] in *; exact H1.
    + exact Hi'.
  - (* OTryErr *)
    destruct (negb (is_top s h)); [exact Hi'|].
    assert (H1 : incr (sizes (fst (if mutable then raw_prepare c s size align r else raw_alloc c s size align r)))).
    { destruct mutable; [apply raw_prepare_sizes|apply raw_alloc_sizes]; assumption. }
    destruct (if mutable then raw_prepare c s size align r else raw_alloc c s size align r) as [s1 [p|e]]; cbn [fst] in *; [|exact H1].
    apply sizes_do_reset_to. exact H1.
  - (* OStats *) destruct (is_top s h); exact Hi'.
  - (* OAlignPush *)
    cbn [fst]. rewrite sizes_upd_aligns.
    destruct (malign s <? n); [|exact Hi'].
    destruct (cur_chunk s); [|exact Hi']. rewrite sizes_set_cur_pos. exact Hi'.
  - (* OAlignPop *)
    destruct (aligns s) as [|inner [|outer rest]]; try exact Hi'.
    destruct (realign && (inner <? outer)); [|exact Hi'].
    destruct (cur_chunk (upd_aligns s (outer :: rest))); [|exact Hi'].
    cbn [fst]. rewrite sizes_set_cur_pos. exact Hi'.
  - (* OPrepare *)
    destruct (negb (is_top s h)); [exact Hi'|].
    destruct (IMAX <? es * cap + (ea - 1)); [exact Hi'|].
    pose proof (raw_prepare_range_sizes c s (es * cap) ea r Hc Hi' Hg) as H1.
    destruct (raw_prepare_range c s (es * cap) ea r) as [s1 [[st en]|e]]; cbn [fst] in *; exact H1.
  - (* OWriteRaw *) exact Hi'.
  - (* OCommit *)
    destruct rev; destruct (up c); unfold add_block; cbn [fst]; unfold sizes; cbn [chunks bump_id upd_live];
      match goal with |- incr (map csize (chunks (set_cur_pos ?x ?p))) => change (incr (sizes (set_cur_pos x p))); rewrite sizes_set_cur_pos end;
      exact Hi'.
  - (* OClaim *) destruct (is_top s h); exact Hi'.
  - (* OUnclaim *) exact Hi'.
  - (* ODrop *)
    cbn [depth upd_live]. destruct (Nat.eqb (depth s) 0); [|exact Hi'].
    cbn [fst]. unfold sizes. cbn [chunks upd_cur upd_chunks map]. exact I.
Qed.

(* ---------------------------------------------------------------- every history *)
From BS Require Import ArenaExt ArenaInv2.

Lemma op_resp_ok2_grant c s o r : op_resp_ok2 c s o r -> op_grant c s o r.
Proof.
  unfold op_resp_ok2, op_grant, op_layout2, op_resp_ok.
  destruct o; try (destruct (op_layout c s _) as [[sz al]|]; [apply resp_ok_grant|auto]); try apply resp_ok_grant.
Qed.

Theorem run_sizes c xs : forall s, cfg_ok c -> incr (sizes s) -> hok c s xs -> incr (sizes (hrun c s xs)).
Proof.
  induction xs as [|x rest IH]; intros s Hc Hi Hok; [exact Hi|].
  destruct Hok as [H1 H2]. cbn [hrun]. apply IH; [exact Hc| |exact H2].
  destruct x as [o r|h cp r r']; cbn [hrun1 hok1] in *.
  - destruct H1 as [_ Hr]. apply step_sizes; [exact Hc|exact Hi|apply op_resp_ok2_grant; exact Hr].
  - apply step_sizes; [exact Hc| |exact I]. apply step_sizes; [exact Hc|exact Hi|exact I].
Qed.

Lemma incr_nth l : incr l -> forall i a b, nth_error l i = Some a -> nth_error l (S i) = Some b -> a < b.
Proof.
  induction l as [|x t IH]; intros Hi i a b Ha Hb; [destruct i; discriminate|].
  cbn [incr] in Hi. destruct Hi as (_ & Hn & Ht). destruct i as [|i].
  - cbn in Ha, Hb. injection Ha as <-. destruct t as [|y t']; [discriminate|]. cbn in Hb. injection Hb as <-. exact Hn.
  - cbn in Ha, Hb. exact (IH Ht i a b Ha Hb).
Qed.

(* the clause of C10: read in list order, each later chunk is strictly larger than its predecessor *)
Theorem chunks_strictly_grow c xs s i a b :
  cfg_ok c -> incr (sizes s) -> hok c s xs ->
  nth_error (chunks (hrun c s xs)) i = Some a -> nth_error (chunks (hrun c s xs)) (S i) = Some b ->
  csize a < csize b.
Proof.
  intros Hc Hi Hok Ha Hb. pose proof (run_sizes c xs s Hc Hi Hok) as Hr.
  apply (incr_nth _ Hr i); unfold sizes; rewrite nth_error_map; [rewrite Ha|rewrite Hb]; reflexivity.
Qed.

Lemma incr_unallocated m : incr (sizes (init_unallocated m)).
Proof. exact I. Qed.

(* a freshly created arena (no chunk, or the one chunk of with_size / with_capacity) qualifies *)
Lemma incr_fresh c s : cfg_ok c -> ginv c s -> (length (chunks s) <= 1)%nat -> incr (sizes s).
Proof.
  intros [Hh _] (Hok & _) Hlen. unfold sizes. destruct (chunks s) as [|ch [|ch2 t]]; [exact I| |cbn in Hlen; lia].
  inversion Hok as [|x xs [Hg _] _]; subst. destruct Hg as (_ & _ & _ & _ & Hhs & _).
  destruct Hh as (_ & _ & _ & _ & H32 & _). cbn. split; [lia|auto].
Qed.
