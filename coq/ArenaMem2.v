(* ArenaMem2.v — C02 for reallocation: what grow / shrink copy and which bytes they may change.
   Every branch of raw_grow / raw_shrink / WithoutShrink::shrink is one memmove of a prefix of the
   old block to the new address (or nothing); everything outside the destination keeps its bytes. *)
From Coq Require Import ZArith List Bool Lia.
From BS Require Import Word BumpSpec ChunkSpec Arena ArenaInv ArenaMem.
Import ListNotations.
Open Scope Z_scope.

(* memory m' is m after moving `len` bytes from src to dst *)
Definition moved (m m' : memory) (src dst len : Z) : Prop :=
  forall a, m' a = if (dst <=? a) && (a <? dst + len) then m (src + (a - dst)) else m a.

Lemma moved_copy m src dst len : moved m (mem_copy m src dst len) src dst len.
Proof. intros a. reflexivity. Qed.

Lemma moved_same m p len : moved m m p p len.
Proof. intros a. destruct ((p <=? a) && (a <? p + len)); [f_equal; lia|reflexivity]. Qed.

Lemma moved_ext m m0 m' src dst len : (forall a, m0 a = m a) -> moved m0 m' src dst len -> moved m m' src dst len.
Proof. intros E H a. rewrite (H a). destruct ((dst <=? a) && (a <? dst + len)); apply E. Qed.

Lemma moved_outside m m' src dst len a : moved m m' src dst len -> ~ (dst <= a < dst + len) -> m' a = m a.
Proof.
  intros H Hn. rewrite (H a). destruct (Z.leb_spec dst a); destruct (Z.ltb_spec a (dst + len)); cbn; try reflexivity. lia.
Qed.
Lemma moved_inside m m' src dst len k : moved m m' src dst len -> 0 <= k < len -> m' (dst + k) = m (src + k).
Proof.
  intros H Hk. rewrite (H (dst + k)). destruct (Z.leb_spec dst (dst + k)); destruct (Z.ltb_spec (dst + k) (dst + len)); cbn; try lia.
  f_equal. lia.
Qed.

Ltac mem_eq := first [ reflexivity | apply raw_alloc_mem | apply raw_alloc_slow_mem | apply set_cur_pos_mem | apply dealloc_assume_last_mem ].

(* ---------------------------------------------------------------- grow *)
Lemma raw_grow_moves c s ptr osize oalign nsize nalign r s1 ro :
  raw_grow c s ptr osize oalign nsize nalign r = (s1, inl ro) ->
  ro_size ro = nsize /\ moved (mem s) (mem s1) ptr (ro_ptr ro) osize.
Proof.
  unfold raw_grow. intros H.
  assert (Hmoved : forall x : arena * (Z + err), (match x with
             | (t1, inl np) => let '(t2, ub) := copy_block t1 ptr np osize true in (t2, inl (mkRO np nsize ub))
             | (t1, inr e) => (t1, inr e) end) = (s1, inl ro) ->
             mem (fst x) = mem s -> ro_size ro = nsize /\ moved (mem s) (mem s1) ptr (ro_ptr ro) osize).
  { intros [s2 [np|e]] Hx Hm; [|discriminate]. unfold copy_block in Hx. injection Hx as <- <-. cbn [fst] in Hm.
    split; [reflexivity|]. cbn [mem upd_mem ro_ptr]. rewrite Hm. apply moved_copy. }
  destruct (up c).
  - destruct (is_last c s ptr osize && divides nalign ptr).
    + destruct (cur_chunk s) as [ch|]; [|discriminate].
      destruct (nsize <=? content_end c ch - ptr).
      * injection H as <- <-. split; [reflexivity|]. cbn [ro_ptr]. rewrite set_cur_pos_mem. apply moved_same.
      * apply (Hmoved _ H). apply raw_alloc_slow_mem.
    + apply (Hmoved _ H). apply raw_alloc_mem.
  - destruct (is_last c s ptr osize).
    + destruct (cur_chunk s) as [ch|]; [|discriminate].
      destruct (content_start c ch <=? down_alignZ (Z.max (ptr - (nsize - osize)) 0) (Z.max nalign (malign s))).
      * unfold copy_block in H. injection H as <- <-. split; [reflexivity|]. cbn [ro_ptr]. rewrite set_cur_pos_mem.
        cbn [mem upd_mem]. apply moved_copy.
      * apply (Hmoved _ H). apply raw_alloc_slow_mem.
    + apply (Hmoved _ H). apply raw_alloc_mem.
Qed.

Lemma raw_grow_err_mem c s ptr osize oalign nsize nalign r s1 e :
  raw_grow c s ptr osize oalign nsize nalign r = (s1, inr e) -> mem s1 = mem s.
Proof.
  unfold raw_grow. intros H.
  assert (Hmoved : forall x : arena * (Z + err), (match x with
             | (t1, inl np) => let '(t2, ub) := copy_block t1 ptr np osize true in (t2, inl (mkRO np nsize ub))
             | (t1, inr e0) => (t1, inr e0) end) = (s1, inr e) -> mem (fst x) = mem s -> mem s1 = mem s).
  { intros [s2 [np|e0]] Hx Hm; [unfold copy_block in Hx; discriminate|]. injection Hx as <- _. exact Hm. }
  destruct (up c).
  - destruct (is_last c s ptr osize && divides nalign ptr).
    + destruct (cur_chunk s) as [ch|]; [|injection H as <- _; reflexivity].
      destruct (nsize <=? content_end c ch - ptr); [discriminate|]. apply (Hmoved _ H). apply raw_alloc_slow_mem.
    + apply (Hmoved _ H). apply raw_alloc_mem.
  - destruct (is_last c s ptr osize).
    + destruct (cur_chunk s) as [ch|]; [|injection H as <- _; reflexivity].
      destruct (content_start c ch <=? down_alignZ (Z.max (ptr - (nsize - osize)) 0) (Z.max nalign (malign s))).
      * unfold copy_block in H. discriminate.
      * apply (Hmoved _ H). apply raw_alloc_slow_mem.
    + apply (Hmoved _ H). apply raw_alloc_mem.
Qed.

(* the step: the grown block starts with the old contents, a zeroed grow has a zero tail, and no
   byte outside the grown block changes *)
Theorem grow_contents_and_frame c s0 h ws b nsize nalign zeroed r blk :
  find_block (tick s0) b = Some blk -> bsize blk <= nsize -> 0 <= bsize blk ->
  let '(s', out) := step c s0 (OGrow h ws b nsize nalign zeroed) r in
  match o_res out with
  | RBlock id p sz =>
    sz = nsize /\
    (forall k, 0 <= k < bsize blk -> mem s' (p + k) = mem s0 (bptr blk + k)) /\
    (zeroed = true -> forall a, p + bsize blk <= a < p + nsize -> mem s' a = 0) /\
    (forall a, ~ (p <= a < p + nsize) -> mem s' a = mem s0 a)
  | _ => forall a, mem s' a = mem s0 a
  end.
Proof.
  intros Hf Hle H0. cbn [step]. set (s := tick s0) in *. rewrite Hf.
  assert (Hms : mem s = mem s0) by reflexivity.
  destruct (negb (is_top s h)); [cbn; intros a; reflexivity|].
  destruct (raw_grow c s (bptr blk) (bsize blk) (balign blk) nsize nalign r) as [s1 [ro|e]] eqn:Eg.
  - destruct (raw_grow_moves _ _ _ _ _ _ _ _ _ _ Eg) as [Esz Hmv].
    set (s2 := if zeroed then zero_fill s1 (ro_ptr ro + bsize blk) (nsize - bsize blk) else s1).
    destruct (add_block (remove_block s2 b) (ro_ptr ro) (ro_size ro) nalign) as [s3 id] eqn:Ea.
    cbn [o_res snd fst].
    assert (Hm3 : mem s3 = mem s2) by (unfold add_block in Ea; injection Ea as <- _; reflexivity).
    split; [exact Esz|]. rewrite Hm3, <- Hms. split; [|split].
    + intros k Hk. unfold s2. destruct zeroed.
      * unfold zero_fill. cbn [mem upd_mem]. rewrite mem_fill_outside by lia. apply (moved_inside _ _ _ _ _ _ Hmv Hk).
      * apply (moved_inside _ _ _ _ _ _ Hmv Hk).
    + intros -> a Ha. unfold s2, zero_fill. cbn [mem upd_mem]. rewrite mem_fill_inside by lia. reflexivity.
    + intros a Ha. unfold s2. destruct zeroed.
      * unfold zero_fill. cbn [mem upd_mem]. rewrite mem_fill_outside by lia. apply (moved_outside _ _ _ _ _ _ Hmv). lia.
      * apply (moved_outside _ _ _ _ _ _ Hmv). lia.
  - cbn [o_res snd fst]. intros a. rewrite (raw_grow_err_mem _ _ _ _ _ _ _ _ _ _ Eg). reflexivity.
Qed.

(* ---------------------------------------------------------------- shrink *)
Lemma raw_shrink_moves c s ptr osize oalign nsize nalign r s1 res :
  raw_shrink c s ptr osize oalign nsize nalign r = (s1, res) ->
  match res with
  | inl ro => moved (mem s) (mem s1) ptr (ro_ptr ro) nsize /\ (ro_size ro = nsize \/ (ro_size ro = osize /\ ro_ptr ro = ptr))
  | inr _ => mem s1 = mem s
  end.
Proof.
  unfold raw_shrink. intros H.
  destruct (negb (divides nalign ptr)).
  - destruct (shrinks c && is_last c s ptr osize).
    + destruct (cur_chunk s) as [ch0|]; [|injection H as <- <-; reflexivity].
      set (sd := dealloc_assume_last c s ptr osize) in *.
      assert (Hsd : mem sd = mem s) by apply dealloc_assume_last_mem.
      destruct (cur_chunk sd) as [ch|]; [|injection H as <- <-; reflexivity].
      destruct (chunk_alloc c (malign s) ch nsize nalign) as [[np ch1]|].
      * unfold copy_block in H. injection H as <- <-. cbn [ro_ptr ro_size mem upd_mem]. split; [|left; reflexivity].
        replace (mem (match cur sd with Cur i => upd_chunks sd (set_nth (chunks sd) i ch1) | _ => sd end)) with (mem s)
          by (destruct (cur sd); rewrite <- Hsd; reflexivity).
        apply moved_copy.
      * set (s2 := set_cur_pos sd (cpos ch0)) in *.
        assert (Hs2 : mem s2 = mem s) by (unfold s2; rewrite set_cur_pos_mem; exact Hsd).
        pose proof (raw_alloc_slow_mem c s2 nsize nalign r) as Hm3.
        destruct (raw_alloc_slow c s2 nsize nalign r) as [s3 [np|e]]; cbn [fst] in Hm3.
        -- unfold copy_block in H. injection H as <- <-. cbn [ro_ptr ro_size mem upd_mem]. split; [|left; reflexivity].
           rewrite Hm3, Hs2. apply moved_copy.
        -- injection H as <- <-. rewrite Hm3. exact Hs2.
    + pose proof (raw_alloc_mem c s nsize nalign r) as Hm1.
      destruct (raw_alloc c s nsize nalign r) as [s2 [np|e]]; cbn [fst] in Hm1.
      * unfold copy_block in H. injection H as <- <-. cbn [ro_ptr ro_size mem upd_mem]. split; [|left; reflexivity].
        rewrite Hm1. apply moved_copy.
      * injection H as <- <-. exact Hm1.
  - destruct (negb (shrinks c) || negb (is_last c s ptr osize)).
    + injection H as <- <-. cbn [ro_ptr ro_size]. split; [apply moved_same|right; split; reflexivity].
    + destruct (up c).
      * injection H as <- <-. cbn [ro_ptr ro_size]. rewrite set_cur_pos_mem. split; [apply moved_same|left; reflexivity].
      * unfold copy_block in H. injection H as <- <-. cbn [ro_ptr ro_size]. rewrite set_cur_pos_mem. cbn [mem upd_mem].
        split; [apply moved_copy|left; reflexivity].
Qed.

Lemma ws_shrink_moves c s ptr osize oalign nsize nalign r s1 res :
  fix_without_shrink c = true ->
  ws_shrink c s ptr osize oalign nsize nalign r = (s1, res) ->
  match res with
  | inl ro => moved (mem s) (mem s1) ptr (ro_ptr ro) nsize /\ ro_size ro = nsize
  | inr _ => mem s1 = mem s
  end.
Proof.
  intros Hfix H. unfold ws_shrink in H. rewrite Hfix in H.
  destruct (divides nalign ptr).
  - injection H as <- <-. cbn [ro_ptr ro_size]. split; [apply moved_same|reflexivity].
  - pose proof (raw_alloc_mem c s nsize nalign r) as Hm1.
    destruct (raw_alloc c s nsize nalign r) as [s2 [np|e]]; cbn [fst] in Hm1.
    + unfold copy_block in H. injection H as <- <-. cbn [ro_ptr ro_size mem upd_mem]. split; [|reflexivity].
      rewrite Hm1. apply moved_copy.
    + injection H as <- <-. exact Hm1.
Qed.

(* the step: the shrunk block starts with the first `nsize` bytes of the old one, and no byte
   outside the block that is returned changes *)
Theorem shrink_contents_and_frame c s0 h ws b nsize nalign r blk :
  fix_without_shrink c = true ->
  find_block (tick s0) b = Some blk -> 0 <= nsize <= bsize blk ->
  let '(s', out) := step c s0 (OShrink h ws b nsize nalign) r in
  match o_res out with
  | RBlock id p sz =>
    nsize <= sz /\
    (forall k, 0 <= k < nsize -> mem s' (p + k) = mem s0 (bptr blk + k)) /\
    (forall a, ~ (p <= a < p + nsize) -> mem s' a = mem s0 a)
  | _ => forall a, mem s' a = mem s0 a
  end.
Proof.
  intros Hfix Hf Hle. cbn [step]. set (s := tick s0) in *. rewrite Hf.
  assert (Hms : mem s = mem s0) by reflexivity.
  destruct (negb (is_top s h) && negb (has_wrapper WShrink ws && divides nalign (bptr blk))).
  - destruct (divides nalign (bptr blk)).
    + destruct (add_block (remove_block s b) (bptr blk) (bsize blk) nalign) as [s3 id] eqn:Ea. cbn [o_res snd fst].
      assert (Hm3 : mem s3 = mem s) by (unfold add_block in Ea; injection Ea as <- _; reflexivity).
      rewrite Hm3, <- Hms. split; [lia|]. split; intros; reflexivity.
    + cbn. intros a. reflexivity.
  - set (go := if has_wrapper WShrink ws then ws_shrink else raw_shrink).
    destruct (go c s (bptr blk) (bsize blk) (balign blk) nsize nalign r) as [s1 [ro|e]] eqn:Eg.
    + assert (Hmv : moved (mem s) (mem s1) (bptr blk) (ro_ptr ro) nsize /\ nsize <= ro_size ro).
      { unfold go in Eg. destruct (has_wrapper WShrink ws).
        - pose proof (ws_shrink_moves _ _ _ _ _ _ _ _ _ _ Hfix Eg) as [A B]. split; [exact A|lia].
        - pose proof (raw_shrink_moves _ _ _ _ _ _ _ _ _ _ Eg) as [A [B|[B _]]]; (split; [exact A|lia]). }
      destruct Hmv as [Hmv Hsz].
      destruct (add_block (remove_block s1 b) (ro_ptr ro) (ro_size ro) nalign) as [s3 id] eqn:Ea. cbn [o_res snd fst].
      assert (Hm3 : mem s3 = mem s1) by (unfold add_block in Ea; injection Ea as <- _; reflexivity).
      rewrite Hm3, <- Hms. split; [exact Hsz|]. split.
      * intros k Hk. apply (moved_inside _ _ _ _ _ _ Hmv Hk).
      * intros a Ha. apply (moved_outside _ _ _ _ _ _ Hmv Ha).
    + cbn [o_res snd fst]. intros a. rewrite <- Hms.
      unfold go in Eg. destruct (has_wrapper WShrink ws).
      * pose proof (ws_shrink_moves _ _ _ _ _ _ _ _ _ _ Hfix Eg) as A. cbn in A. rewrite A. reflexivity.
      * pose proof (raw_shrink_moves _ _ _ _ _ _ _ _ _ _ Eg) as A. cbn in A. rewrite A. reflexivity.
Qed.

(* ---------------------------------------------------------------- the other live blocks *)
Lemma grow_arena_live c s size align r : live (fst (grow_arena c s size align r)) = live s.
Proof. unfold grow_arena. destruct (new_chunk_size _ _ _ _); [|reflexivity]. destruct r as [[a g]|]; reflexivity. Qed.

Lemma in_another_chunk_live {R} c s h size align (f : chunk -> option (R * chunk)) r :
  live (fst (in_another_chunk c s h size align f r)) = live s.
Proof.
  unfold in_another_chunk. destruct h as [i| |]; [| |reflexivity].
  - destruct (walk_next c f (chunks s) i (length (chunks s))) as [[cs j] [res|]]; [reflexivity|].
    set (s0 := upd_cur (upd_chunks s cs) (Cur j)).
    pose proof (grow_arena_live c s0 size align r) as Hm.
    destruct (grow_arena c s0 size align r) as [s1 [e|]]; cbn [fst] in *; [exact Hm|].
    destruct (cur s1); try exact Hm. destruct (nth_error (chunks s1) i0); try exact Hm.
    destruct (f c0) as [[res ch1]|]; exact Hm.
  - pose proof (grow_arena_live c s size align r) as Hm.
    destruct (grow_arena c s size align r) as [s1 [e|]]; cbn [fst] in *; [exact Hm|].
    destruct (cur s1); try exact Hm. destruct (nth_error (chunks s1) i); try exact Hm.
    destruct (f c0) as [[res ch1]|]; exact Hm.
Qed.

Lemma raw_alloc_live c s size align r : live (fst (raw_alloc c s size align r)) = live s.
Proof.
  unfold raw_alloc. destruct (cur s) as [i| |]; try apply in_another_chunk_live.
  destruct (nth_error (chunks s) i); [|reflexivity].
  destruct (chunk_alloc c (malign s) c0 size align) as [[p ch1]|]; [reflexivity|apply in_another_chunk_live].
Qed.
Lemma raw_alloc_slow_live c s size align r : live (fst (raw_alloc_slow c s size align r)) = live s.
Proof. apply in_another_chunk_live. Qed.
Lemma set_cur_pos_live s p : live (set_cur_pos s p) = live s.
Proof. unfold set_cur_pos. destruct (cur s); try reflexivity. destruct (nth_error (chunks s) i); reflexivity. Qed.
Lemma dealloc_assume_last_live c s p sz : live (dealloc_assume_last c s p sz) = live s.
Proof. unfold dealloc_assume_last. destruct (negb (deallocates c)); [reflexivity|]. destruct (up c); apply set_cur_pos_live. Qed.

Lemma raw_grow_live c s ptr osize oalign nsize nalign r : live (fst (raw_grow c s ptr osize oalign nsize nalign r)) = live s.
Proof.
  unfold raw_grow.
  assert (Hmoved : forall x : arena * (Z + err), live (fst x) = live s ->
            live (fst (match x with
             | (t1, inl np) => let '(t2, ub) := copy_block t1 ptr np osize true in (t2, inl (mkRO np nsize ub))
             | (t1, inr e) => (t1, inr e) end)) = live s).
  { intros [t1 [np|e]] H; cbn [fst] in *; exact H. }
  destruct (up c).
  - destruct (is_last c s ptr osize && divides nalign ptr).
    + destruct (cur_chunk s) as [ch|]; [|reflexivity].
      destruct (nsize <=? content_end c ch - ptr); [apply set_cur_pos_live|apply Hmoved; apply raw_alloc_slow_live].
    + apply Hmoved. apply raw_alloc_live.
  - destruct (is_last c s ptr osize).
    + destruct (cur_chunk s) as [ch|]; [|reflexivity].
      destruct (content_start c ch <=? down_alignZ (Z.max (ptr - (nsize - osize)) 0) (Z.max nalign (malign s))).
      * cbn [copy_block fst]. rewrite set_cur_pos_live. reflexivity.
      * apply Hmoved. apply raw_alloc_slow_live.
    + apply Hmoved. apply raw_alloc_live.
Qed.

(* growing one block leaves the bytes of every other live block alone *)
Theorem grow_keeps_other_blocks c s0 h ws b nsize nalign zeroed r blk b' :
  cfg_ok c -> inv c s0 -> valid_layout nsize nalign -> resp_ok c s0 nsize nalign r ->
  find_block (tick s0) b = Some blk -> bsize blk <= nsize ->
  In b' (live s0) -> bid b' <> b ->
  forall a, bptr b' <= a < bptr b' + bsize b' ->
  mem (fst (step c s0 (OGrow h ws b nsize nalign zeroed) r)) a = mem s0 a.
Proof.
  intros Hc Hinv Hl Hr Hf Hle Hin Hne a Ha.
  assert (Hinv' : inv c (fst (step c s0 (OGrow h ws b nsize nalign zeroed) r))).
  { apply step_inv_grow; try assumption. intros blk0 Hf0.
    assert (E : find_block (tick s0) b = find_block s0 b) by reflexivity. rewrite E in Hf. rewrite Hf in Hf0. injection Hf0 as <-. exact Hle. }
  assert (H0 : 0 <= bsize blk).
  { destruct (find_block_spec _ _ _ Hf) as [Hb _]. destruct Hinv as (_ & Hbl & _). rewrite Forall_forall in Hbl.
    exact (proj1 (Hbl blk Hb)). }
  pose proof (grow_contents_and_frame c s0 h ws b nsize nalign zeroed r blk Hf Hle H0) as Hcf.
  revert Hinv' Hcf. cbn [step]. set (s := tick s0) in *. rewrite Hf.
  destruct (negb (is_top s h)); [cbn; intros _ _; reflexivity|].
  pose proof (raw_grow_live c s (bptr blk) (bsize blk) (balign blk) nsize nalign r) as Hlv.
  destruct (raw_grow c s (bptr blk) (bsize blk) (balign blk) nsize nalign r) as [s1 [ro|e]] eqn:Eg; cbn [fst] in Hlv.
  - set (s2 := if zeroed then zero_fill s1 (ro_ptr ro + bsize blk) (nsize - bsize blk) else s1).
    assert (Hlv2 : live s2 = live s) by (unfold s2; destruct zeroed; exact Hlv).
    destruct (add_block (remove_block s2 b) (ro_ptr ro) (ro_size ro) nalign) as [s3 id] eqn:Ea.
    cbn [o_res snd fst]. intros Hinv' (Esz & _ & _ & Hframe).
    apply Hframe. intros Hr'.
    (* b' and the new block are both live afterwards, with different ids: they are disjoint *)
    unfold add_block in Ea. injection Ea as <- <-.
    set (nb := mkBlock (nextid s2) (ro_ptr ro) (ro_size ro) nalign (epoch s2)) in *.
    assert (Hb'in : In b' (filter (fun x => negb (Nat.eqb (bid x) b)) (live s2))).
    { apply filter_In. split; [rewrite Hlv2; exact Hin|]. apply Bool.negb_true_iff. apply Nat.eqb_neq. exact Hne. }
    destruct (inv_live_blocks c _ Hc Hinv') as [_ Hdisj].
    cbn [live bump_id upd_live remove_block] in Hdisj.
    assert (Hidne : bid nb <> bid b').
    { destruct Hinv' as (_ & _ & _ & [Hnd _]). cbn [live bump_id upd_live remove_block map] in Hnd.
      inversion Hnd as [|? ? Hnotin _]; subst. cbn [bid nb]. intros E. apply Hnotin. cbn [bid]. rewrite E. apply in_map. exact Hb'in. }
    destruct (Z_le_gt_dec (ro_size ro) 0) as [Hz|Hz]; [lia|].
    assert (Hz' : 0 < bsize nb) by (cbn [bsize nb]; lia).
    specialize (Hdisj nb b' (or_introl eq_refl) (or_intror Hb'in) Hidne Hz' ltac:(lia)).
    cbn [bptr bsize nb] in Hdisj. lia.
  - cbn [o_res snd fst]. intros _ Hsame. apply Hsame.
Qed.

Lemma raw_shrink_live c s ptr osize oalign nsize nalign r : live (fst (raw_shrink c s ptr osize oalign nsize nalign r)) = live s.
Proof.
  unfold raw_shrink.
  destruct (negb (divides nalign ptr)).
  - destruct (shrinks c && is_last c s ptr osize).
    + destruct (cur_chunk s) as [ch0|]; [|reflexivity].
      set (sd := dealloc_assume_last c s ptr osize).
      assert (Hsd : live sd = live s) by apply dealloc_assume_last_live.
      destruct (cur_chunk sd) as [ch|]; [|reflexivity].
      destruct (chunk_alloc c (malign s) ch nsize nalign) as [[np ch1]|].
      * cbn [copy_block fst live upd_mem]. destruct (cur sd); exact Hsd.
      * set (s2 := set_cur_pos sd (cpos ch0)).
        assert (Hs2 : live s2 = live s) by (unfold s2; rewrite set_cur_pos_live; exact Hsd).
        pose proof (raw_alloc_slow_live c s2 nsize nalign r) as Hm3.
        destruct (raw_alloc_slow c s2 nsize nalign r) as [s3 [np|e]]; cbn [fst copy_block live upd_mem] in *; rewrite Hm3; exact Hs2.
    + pose proof (raw_alloc_live c s nsize nalign r) as Hm1.
      destruct (raw_alloc c s nsize nalign r) as [s2 [np|e]]; cbn [fst copy_block live upd_mem] in *; exact Hm1.
  - destruct (negb (shrinks c) || negb (is_last c s ptr osize)); [reflexivity|].
    destruct (up c); [apply set_cur_pos_live|]. cbn [copy_block fst]. rewrite set_cur_pos_live. reflexivity.
Qed.

Lemma ws_shrink_live c s ptr osize oalign nsize nalign r : live (fst (ws_shrink c s ptr osize oalign nsize nalign r)) = live s.
Proof.
  unfold ws_shrink. destruct (divides nalign ptr); [reflexivity|].
  pose proof (raw_alloc_live c s nsize nalign r) as Hm1.
  destruct (raw_alloc c s nsize nalign r) as [s2 [np|e]]; cbn [fst copy_block live upd_mem] in *; exact Hm1.
Qed.

(* shrinking one block leaves the bytes of every other live block alone *)
Theorem shrink_keeps_other_blocks c s0 h ws b nsize nalign r blk b' :
  cfg_ok c -> fix_without_shrink c = true -> inv c s0 -> valid_layout nsize nalign -> resp_ok c s0 nsize nalign r ->
  find_block (tick s0) b = Some blk -> 0 <= nsize <= bsize blk ->
  In b' (live s0) -> bid b' <> b ->
  forall a, bptr b' <= a < bptr b' + bsize b' ->
  mem (fst (step c s0 (OShrink h ws b nsize nalign) r)) a = mem s0 a.
Proof.
  intros Hc Hfix Hinv Hl Hr Hf Hle Hin Hne a Ha.
  assert (Hinv' : inv c (fst (step c s0 (OShrink h ws b nsize nalign) r))).
  { apply step_inv_shrink; try assumption. intros blk0 Hf0.
    assert (E : find_block (tick s0) b = find_block s0 b) by reflexivity. rewrite E in Hf. rewrite Hf in Hf0. injection Hf0 as <-. lia. }
  pose proof (shrink_contents_and_frame c s0 h ws b nsize nalign r blk Hfix Hf Hle) as Hcf.
  revert Hinv' Hcf. cbn [step]. set (s := tick s0) in *. rewrite Hf.
  destruct (negb (is_top s h) && negb (has_wrapper WShrink ws && divides nalign (bptr blk))).
  - destruct (divides nalign (bptr blk)).
    + destruct (add_block (remove_block s b) (bptr blk) (bsize blk) nalign) as [s3 id] eqn:Ea. cbn [o_res snd fst].
      intros _ _. unfold add_block in Ea. injection Ea as <- _. reflexivity.
    + cbn. intros _ _. reflexivity.
  - set (go := if has_wrapper WShrink ws then ws_shrink else raw_shrink).
    assert (Hlv : live (fst (go c s (bptr blk) (bsize blk) (balign blk) nsize nalign r)) = live s).
    { unfold go. destruct (has_wrapper WShrink ws); [apply ws_shrink_live|apply raw_shrink_live]. }
    destruct (go c s (bptr blk) (bsize blk) (balign blk) nsize nalign r) as [s1 [ro|e]] eqn:Eg; cbn [fst] in Hlv.
    + destruct (add_block (remove_block s1 b) (ro_ptr ro) (ro_size ro) nalign) as [s3 id] eqn:Ea.
      cbn [o_res snd fst]. intros Hinv' (Hsz & _ & Hframe).
      apply Hframe. intros Hr'.
      unfold add_block in Ea. injection Ea as <- <-.
      set (nb := mkBlock (nextid s1) (ro_ptr ro) (ro_size ro) nalign (epoch s1)) in *.
      assert (Hb'in : In b' (filter (fun x => negb (Nat.eqb (bid x) b)) (live s1))).
      { apply filter_In. split; [rewrite Hlv; exact Hin|]. apply Bool.negb_true_iff. apply Nat.eqb_neq. exact Hne. }
      destruct (inv_live_blocks c _ Hc Hinv') as [_ Hdisj].
      cbn [live bump_id upd_live remove_block] in Hdisj.
      assert (Hidne : bid nb <> bid b').
      { destruct Hinv' as (_ & _ & _ & [Hnd _]). cbn [live bump_id upd_live remove_block map] in Hnd.
        inversion Hnd as [|? ? Hnotin _]; subst. cbn [bid nb]. intros E. apply Hnotin. cbn [bid]. rewrite E. apply in_map. exact Hb'in. }
      assert (Hz' : 0 < bsize nb) by (cbn [bsize nb]; lia).
      specialize (Hdisj nb b' (or_introl eq_refl) (or_intror Hb'in) Hidne Hz' ltac:(lia)).
      cbn [bptr bsize nb] in Hdisj. lia.
    + cbn [o_res snd fst]. intros _ Hsame. apply Hsame.
Qed.

(* ---------------------------------------------------------------- C13: growing the newest block in place *)
(* upwards, the newest block (the one that ends at the bump position) whose address satisfies the
   new alignment grows where it is whenever the chunk has room: same address, no copy, no request *)
Theorem grow_newest_in_place_up c s ptr osize oalign nsize nalign r ch :
  up c = true -> is_last c s ptr osize = true -> divides nalign ptr = true ->
  cur_chunk s = Some ch -> nsize <= content_end c ch - ptr ->
  raw_grow c s ptr osize oalign nsize nalign r =
    (set_cur_pos s (up_alignZ (ptr + nsize) (malign s)), inl (mkRO ptr nsize false)).
Proof.
  intros Hup Hl Hd Hc Hfit. unfold raw_grow. rewrite Hup, Hl, Hd, Hc. cbn [andb].
  destruct (Z.leb_spec nsize (content_end c ch - ptr)); [reflexivity|lia].
Qed.

Corollary grow_newest_in_place_up_step c s0 h ws b nsize nalign zeroed r blk ch :
  up c = true -> find_block (tick s0) b = Some blk -> is_top (tick s0) h = true ->
  is_last c (tick s0) (bptr blk) (bsize blk) = true -> divides nalign (bptr blk) = true ->
  cur_chunk (tick s0) = Some ch -> nsize <= content_end c ch - bptr blk ->
  exists id, o_res (snd (step c s0 (OGrow h ws b nsize nalign zeroed) r)) = RBlock id (bptr blk) nsize /\
             o_events (snd (step c s0 (OGrow h ws b nsize nalign zeroed) r)) = [].
Proof.
  intros Hup Hf Ht Hl Hd Hc Hfit. cbn [step]. set (s := tick s0) in *. rewrite Hf, Ht. cbn [negb].
  rewrite (grow_newest_in_place_up c s _ _ _ _ _ r ch Hup Hl Hd Hc Hfit). cbn [ro_ptr ro_size ro_ub].
  set (s1 := set_cur_pos s (up_alignZ (bptr blk + nsize) (malign s))).
  set (s2 := if zeroed then zero_fill s1 (bptr blk + bsize blk) (nsize - bsize blk) else s1).
  unfold add_block. cbn [snd o_res o_events]. eexists. split; [reflexivity|].
  unfold new_events. cbn [ledger bump_id upd_live remove_block].
  assert (El : ledger s2 = ledger s).
  { unfold s2, s1. destruct zeroed; cbn [ledger zero_fill upd_mem];
      unfold set_cur_pos; destruct (cur s) as [k| |]; try reflexivity; destruct (nth_error (chunks s) k); reflexivity. }
  rewrite El, Nat.sub_diag. reflexivity.
Qed.
