(* ArenaLinks.v — walking the chunk list while chunks are being given back (C05: "released exactly once … never
   read or written afterwards"; C03 / C10: the walks of reset_to_start and reset).

   The arena model keeps the chunks in a list; the code keeps them as a doubly linked list whose links live in
   the chunk headers, i.e. inside the very blocks that are released.  What matters is the ORDER of reading a
   link and releasing the chunk that holds it.  Model: chunks are numbered by their position 0 … n-1 in the
   list (prev k = k-1, next k = k+1), a header can be read only while its chunk has not been released
   (otherwise: use after free), and releasing a chunk twice is an error as well.  The walks are the loops of
   raw_bump.rs, statement by statement (their shape is checked against the source by tools/allocsites.py):

     for_each_prev / for_each_next:  iter = chunk.prev()/next();  f(chunk)          (link first, then release)
     Drop (manually_drop):           for_each_prev(release); for_each_next(release); release(self)
     reset:                          for_each_prev(release); while let Some(next) = chunk.next() { release(chunk); chunk = next }
     reset_to_start:                 while let Some(prev) = chunk.prev() { chunk = prev }

   Proved for every list length and every current chunk: Drop releases every chunk exactly once and never reads
   a released header; reset releases every chunk but the last exactly once and ends at the last; reset_to_start
   ends at chunk 0.  And the two slips that were seeded independently are refuted in general, not by a sample:
   releasing before reading the link (C05_r8) is a use after free whenever a later chunk exists; walking back
   one step instead of to the start (C03_r2 / C03_r4) ends at the wrong chunk whenever the current chunk is
   the third or later. *)
From Coq Require Import List Arith Lia Bool Permutation.
Import ListNotations.

Inductive wres (A : Type) : Type := WOk (a : A) | WUaf.
Arguments WOk {A} a.
Arguments WUaf {A}.

Record hstore := mkHS { hn : nat; hreleased : list nat }.

Definition is_rel (st : hstore) (k : nat) : bool := existsb (Nat.eqb k) (hreleased st).

Lemma is_rel_spec st k : is_rel st k = true <-> In k (hreleased st).
Proof.
  unfold is_rel. rewrite existsb_exists. split.
  - intros (x & Hin & E). apply Nat.eqb_eq in E. subst. exact Hin.
  - intros Hin. exists k. split; [exact Hin|apply Nat.eqb_refl].
Qed.

Lemma is_rel_false st k : is_rel st k = false <-> ~ In k (hreleased st).
Proof.
  rewrite <- is_rel_spec. destruct (is_rel st k); split; intro H.
  - discriminate.
  - exfalso. apply H. reflexivity.
  - intro H1. discriminate.
  - reflexivity.
Qed.

(* reading the links of chunk k: only while k has not been released *)
Definition read_next (st : hstore) (k : nat) : wres (option nat) :=
  if is_rel st k then WUaf else WOk (if S k <? hn st then Some (S k) else None).
Definition read_prev (st : hstore) (k : nat) : wres (option nat) :=
  if is_rel st k then WUaf else WOk (match k with 0 => None | S j => Some j end).
(* chunk.deallocate(): reads the header (allocator, size), then hands the block back *)
Definition release (st : hstore) (k : nat) : wres hstore :=
  if is_rel st k then WUaf else WOk (mkHS (hn st) (k :: hreleased st)).

Definition bindw {A B} (m : wres A) (f : A -> wres B) : wres B := match m with WOk a => f a | WUaf => WUaf end.

(* for_each_prev(|c| c.deallocate()) — `link_first` = the order of the code; false = the seeded slip *)
Fixpoint fe_prev (link_first : bool) (fuel : nat) (st : hstore) (iter : option nat) : wres hstore :=
  match iter, fuel with
  | None, _ => WOk st
  | Some _, O => WOk st
  | Some j, S f =>
    if link_first then bindw (read_prev st j) (fun p => bindw (release st j) (fun st1 => fe_prev link_first f st1 p))
    else bindw (release st j) (fun st1 => bindw (read_prev st1 j) (fun p => fe_prev link_first f st1 p))
  end.
Fixpoint fe_next (link_first : bool) (fuel : nat) (st : hstore) (iter : option nat) : wres hstore :=
  match iter, fuel with
  | None, _ => WOk st
  | Some _, O => WOk st
  | Some j, S f =>
    if link_first then bindw (read_next st j) (fun p => bindw (release st j) (fun st1 => fe_next link_first f st1 p))
    else bindw (release st j) (fun st1 => bindw (read_next st1 j) (fun p => fe_next link_first f st1 p))
  end.

(* Drop for Bump: RawBump::manually_drop with `i` the current chunk *)
Definition run_drop (link_first : bool) (st : hstore) (i : nat) : wres hstore :=
  bindw (read_prev st i) (fun p => bindw (fe_prev link_first (hn st) st p) (fun st1 =>
  bindw (read_next st1 i) (fun nx => bindw (fe_next link_first (hn st) st1 nx) (fun st2 => release st2 i)))).

(* the forward loop of reset: while let Some(next) = chunk.next() { chunk.deallocate(); chunk = next } *)
Fixpoint reset_fwd (fuel : nat) (st : hstore) (k : nat) : wres (hstore * nat) :=
  match fuel with
  | O => WOk (st, k)
  | S f => bindw (read_next st k) (fun nx =>
           match nx with
           | None => WOk (st, k)
           | Some k' => bindw (release st k) (fun st1 => reset_fwd f st1 k')
           end)
  end.
Definition run_reset (st : hstore) (i : nat) : wres (hstore * nat) :=
  bindw (read_prev st i) (fun p => bindw (fe_prev true (hn st) st p) (fun st1 => reset_fwd (hn st) st1 i)).

(* reset_to_start: `whole` = while let (the code); false = if let (one step, the seeded slip) *)
Fixpoint walk_to_start (fuel : nat) (st : hstore) (k : nat) : wres nat :=
  match fuel with
  | O => WOk k
  | S f => bindw (read_prev st k) (fun p => match p with None => WOk k | Some j => walk_to_start f st j end)
  end.
Definition run_reset_to_start (whole : bool) (st : hstore) (i : nat) : wres nat :=
  if whole then walk_to_start (hn st) st i else walk_to_start 1 st i.

(* ---------------------------------------------------------------- proofs *)
Definition fresh (n : nat) : hstore := mkHS n [].

Lemma fe_prev_none lf fuel st : fe_prev lf fuel st None = WOk st. Proof. destruct fuel; reflexivity. Qed.
Lemma fe_next_none lf fuel st : fe_next lf fuel st None = WOk st. Proof. destruct fuel; reflexivity. Qed.

(* what a walk leaves: the old releases plus exactly the chunks lo <= k < hi, each once *)
Definition released_range (old : list nat) (lo hi : nat) (st : hstore) (n : nat) : Prop :=
  hn st = n /\ NoDup (hreleased st) /\ forall k, In k (hreleased st) <-> In k old \/ (lo <= k < hi).

Lemma fe_prev_ok fuel : forall st j,
  j < fuel -> NoDup (hreleased st) -> (forall k, k <= j -> ~ In k (hreleased st)) ->
  exists st', fe_prev true fuel st (Some j) = WOk st' /\ released_range (hreleased st) 0 (S j) st' (hn st).
Proof.
  induction fuel as [|f IH]; intros st j Hf Hnd Hfree; [lia|].
  cbn [fe_prev]. unfold read_prev, release.
  assert (Ej : is_rel st j = false) by (apply is_rel_false; apply Hfree; lia).
  rewrite Ej. cbn [bindw]. destruct j as [|j].
  - rewrite fe_prev_none. eexists. split; [reflexivity|]. split; [reflexivity|]. cbn [hreleased].
    split; [constructor; [apply Hfree; lia|exact Hnd]|].
    intros k. cbn [In]. split; [intros [<-|H]; [right; lia|left; exact H] | intros [H|H]; [right; exact H|left; lia]].
  - set (st1 := mkHS (hn st) (S j :: hreleased st)).
    destruct (IH st1 j) as (st' & E & Hn & Hnd' & Hin).
    + lia.
    + cbn. constructor; [apply Hfree; lia|exact Hnd].
    + intros k Hk. cbn. intros [H|H]; [lia|]. apply (Hfree k); [lia|exact H].
    + exists st'. split; [exact E|]. split; [exact Hn|]. split; [exact Hnd'|].
      intros k. rewrite Hin. cbn [hreleased st1 In]. split.
      * intros [[<-|H]|H]; [right; lia|left; exact H|right; lia].
      * intros [H|H]; [left; right; exact H|]. destruct (Nat.eq_dec k (S j)) as [->|NE]; [left; left; reflexivity|right; lia].
Qed.

Lemma fe_next_ok fuel : forall st j,
  j < hn st -> hn st - j <= fuel -> NoDup (hreleased st) -> (forall k, j <= k < hn st -> ~ In k (hreleased st)) ->
  exists st', fe_next true fuel st (Some j) = WOk st' /\ released_range (hreleased st) j (hn st) st' (hn st).
Proof.
  induction fuel as [|f IH]; intros st j Hj Hf Hnd Hfree; [lia|].
  cbn [fe_next]. unfold read_next, release.
  assert (Ej : is_rel st j = false) by (apply is_rel_false; apply Hfree; lia).
  rewrite Ej. cbn [bindw].
  set (st1 := mkHS (hn st) (j :: hreleased st)).
  destruct (Nat.ltb_spec (S j) (hn st)) as [Hlt|Hge].
  - destruct (IH st1 (S j)) as (st' & E & Hn & Hnd' & Hin).
    + cbn. exact Hlt.
    + cbn. lia.
    + cbn. constructor; [apply Hfree; lia|exact Hnd].
    + intros k Hk. cbn in *. intros [H|H]; [lia|]. apply (Hfree k); [lia|exact H].
    + exists st'. split; [exact E|]. split; [exact Hn|]. split; [exact Hnd'|].
      intros k. rewrite Hin. cbn [hreleased st1 In hn]. split.
      * intros [[<-|H]|H]; [right; lia|left; exact H|right; lia].
      * intros [H|H]; [left; right; exact H|]. destruct (Nat.eq_dec k j) as [->|NE]; [left; left; reflexivity|right; lia].
  - rewrite fe_next_none. exists st1. split; [reflexivity|]. split; [reflexivity|]. cbn [hreleased st1].
    split; [constructor; [apply Hfree; lia|exact Hnd]|].
    intros k. cbn [In]. split; [intros [<-|H]; [right; lia|left; exact H] | intros [H|H]; [right; exact H|left; lia]].
Qed.

(* Drop: every chunk released exactly once, no header read after its chunk was released *)
Theorem drop_releases_every_chunk_once n i :
  i < n -> exists st', run_drop true (fresh n) i = WOk st' /\ Permutation (hreleased st') (seq 0 n).
Proof.
  intros Hi. unfold run_drop, fresh. cbn [hn].
  unfold read_prev at 1. cbn [is_rel hreleased existsb bindw].
  (* the chunks before the current one *)
  assert (Hprev : exists st1, fe_prev true n (mkHS n []) (match i with 0 => None | S j => Some j end) = WOk st1 /\
                  released_range [] 0 i st1 n).
  { destruct i as [|j].
    - exists (mkHS n []). split; [apply fe_prev_none|]. split; [reflexivity|]. split; [constructor|].
      intros k. cbn. split; [tauto|intros [[]|H]; lia].
    - destruct (fe_prev_ok n (mkHS n []) j) as (st1 & E & H); [lia|constructor|intros k _ []|].
      exists st1. split; [exact E|exact H]. }
  destruct Hprev as (st1 & E1 & Hn1 & Hnd1 & Hin1). rewrite E1. cbn [bindw].
  unfold read_next. assert (Ei : is_rel st1 i = false) by (apply is_rel_false; rewrite Hin1; cbn; intros [[]|H]; lia).
  rewrite Ei. cbn [bindw]. rewrite Hn1.
  (* the chunks after it *)
  assert (Hnext : exists st2, fe_next true n st1 (if S i <? n then Some (S i) else None) = WOk st2 /\
                  released_range (hreleased st1) (S i) n st2 n).
  { destruct (Nat.ltb_spec (S i) n) as [Hlt|Hge].
    - destruct (fe_next_ok n st1 (S i)) as (st2 & E & H); [lia|lia|exact Hnd1| |].
      + intros k Hk. rewrite Hin1. cbn. intros [[]|H]; lia.
      + exists st2. rewrite Hn1 in H. split; [exact E|exact H].
    - exists st1. split; [apply fe_next_none|]. split; [exact Hn1|]. split; [exact Hnd1|].
      intros k. split; [tauto|intros [H|H]; [exact H|lia]]. }
  destruct Hnext as (st2 & E2 & Hn2 & Hnd2 & Hin2). rewrite E2. cbn [bindw].
  unfold release. assert (Ei2 : is_rel st2 i = false).
  { apply is_rel_false. rewrite Hin2, Hin1. cbn. intros [[[]|H]|H]; lia. }
  rewrite Ei2. eexists. split; [reflexivity|]. cbn [hreleased].
  apply NoDup_Permutation.
  - constructor; [apply is_rel_false in Ei2; exact Ei2|exact Hnd2].
  - apply seq_NoDup.
  - intros k. rewrite in_seq. cbn [In]. rewrite Hin2, Hin1. cbn [In]. split.
    + intros [<-|[[[]|H]|H]]; lia.
    + intros H. destruct (Nat.eq_dec k i) as [->|NE]; [left; reflexivity|]. right.
      destruct (Nat.lt_ge_cases k i); [left; right; lia|right; lia].
Qed.

(* C05_r8: releasing the chunk before reading its link is a use after free as soon as there is a later chunk *)
Theorem release_before_link_uaf_general n i :
  S i < n -> exists st1, fe_prev true n (fresh n) (match i with 0 => None | S j => Some j end) = WOk st1 /\
             fe_next false n st1 (Some (S i)) = WUaf.
Proof.
  intros Hlt.
  assert (Hprev : exists st1, fe_prev true n (fresh n) (match i with 0 => None | S j => Some j end) = WOk st1 /\
                  released_range [] 0 i st1 n).
  { destruct i as [|j].
    - exists (fresh n). split; [apply fe_prev_none|]. split; [reflexivity|]. split; [constructor|].
      intros k. cbn. split; [tauto|intros [[]|H]; lia].
    - destruct (fe_prev_ok n (fresh n) j) as (st1 & E & H); [lia|constructor|intros k _ []|].
      exists st1. split; [exact E|exact H]. }
  destruct Hprev as (st1 & E1 & Hn1 & Hnd1 & Hin1). exists st1. split; [exact E1|].
  destruct n as [|n]; [lia|]. cbn [fe_next]. unfold release.
  assert (Ei : is_rel st1 (S i) = false) by (apply is_rel_false; rewrite Hin1; cbn; intros [[]|H]; lia).
  rewrite Ei. cbn [bindw]. unfold read_next. cbn [is_rel hreleased existsb]. rewrite Nat.eqb_refl. reflexivity.
Qed.

(* reset: every chunk but the last released exactly once; the walk ends at the last chunk *)
Lemma reset_fwd_ok fuel : forall st k,
  k < hn st -> hn st - k <= fuel -> NoDup (hreleased st) -> (forall j, k <= j < hn st -> ~ In j (hreleased st)) ->
  exists st', reset_fwd fuel st k = WOk (st', hn st - 1) /\ released_range (hreleased st) k (hn st - 1) st' (hn st).
Proof.
  induction fuel as [|f IH]; intros st k Hk Hf Hnd Hfree; [lia|].
  cbn [reset_fwd]. unfold read_next.
  assert (Ek : is_rel st k = false) by (apply is_rel_false; apply Hfree; lia).
  rewrite Ek. cbn [bindw].
  destruct (Nat.ltb_spec (S k) (hn st)) as [Hlt|Hge].
  - unfold release. rewrite Ek. cbn [bindw].
    set (st1 := mkHS (hn st) (k :: hreleased st)).
    destruct (IH st1 (S k)) as (st' & E & Hn & Hnd' & Hin).
    + cbn. exact Hlt.
    + cbn. lia.
    + cbn. constructor; [apply Hfree; lia|exact Hnd].
    + intros j Hj. cbn in *. intros [H|H]; [lia|]. apply (Hfree j); [lia|exact H].
    + exists st'. cbn [hn st1] in *. split; [exact E|]. split; [exact Hn|]. split; [exact Hnd'|].
      intros j. rewrite Hin. cbn [hreleased st1 In]. split.
      * intros [[<-|H]|H]; [right; lia|left; exact H|right; lia].
      * intros [H|H]; [left; right; exact H|]. destruct (Nat.eq_dec j k) as [->|NE]; [left; left; reflexivity|right; lia].
  - exists st. assert (k = hn st - 1) by lia. subst k. split; [reflexivity|]. split; [reflexivity|]. split; [exact Hnd|].
    intros j. split; [tauto|intros [H|H]; [exact H|lia]].
Qed.

Theorem reset_keeps_exactly_the_last_chunk n i :
  i < n -> exists st', run_reset (fresh n) i = WOk (st', n - 1) /\ Permutation (hreleased st') (seq 0 (n - 1)).
Proof.
  intros Hi. unfold run_reset, fresh. cbn [hn].
  unfold read_prev at 1. cbn [is_rel hreleased existsb bindw].
  assert (Hprev : exists st1, fe_prev true n (mkHS n []) (match i with 0 => None | S j => Some j end) = WOk st1 /\
                  released_range [] 0 i st1 n).
  { destruct i as [|j].
    - exists (mkHS n []). split; [apply fe_prev_none|]. split; [reflexivity|]. split; [constructor|].
      intros k. cbn. split; [tauto|intros [[]|H]; lia].
    - destruct (fe_prev_ok n (mkHS n []) j) as (st1 & E & H); [lia|constructor|intros k _ []|].
      exists st1. split; [exact E|exact H]. }
  destruct Hprev as (st1 & E1 & Hn1 & Hnd1 & Hin1). rewrite E1. cbn [bindw].
  destruct (reset_fwd_ok n st1 i) as (st2 & E2 & Hn2 & Hnd2 & Hin2); [lia|lia|exact Hnd1| |].
  - intros j Hj. rewrite Hin1. cbn. intros [[]|H]; lia.
  - rewrite Hn1 in *. exists st2. split; [exact E2|].
    apply NoDup_Permutation; [exact Hnd2|apply seq_NoDup|].
    intros k. rewrite in_seq, Hin2, Hin1. cbn [In]. split; [intros [[[]|H]|H]; lia|].
    intros H. destruct (Nat.lt_ge_cases k i); [left; right; lia|right; lia].
Qed.

(* reset_to_start: the whole walk ends at chunk 0; the one-step walk (if let for while let) ends at i - 1 *)
Lemma walk_to_start_ok fuel : forall n k, k <= fuel -> walk_to_start fuel (fresh n) k = WOk 0.
Proof.
  induction fuel as [|f IH]; intros n k Hk.
  - assert (k = 0) by lia. subst. reflexivity.
  - cbn [walk_to_start]. unfold read_prev, fresh. cbn [is_rel hreleased existsb bindw].
    destruct k as [|j]; [reflexivity|]. apply IH. lia.
Qed.

Theorem reset_to_start_reaches_the_first_chunk n i : i < n -> run_reset_to_start true (fresh n) i = WOk 0.
Proof. intros Hi. unfold run_reset_to_start. cbn [hn fresh]. apply walk_to_start_ok. lia. Qed.

Theorem one_step_back_is_not_the_start n i : 2 <= i -> run_reset_to_start false (fresh n) i = WOk (i - 1) /\ i - 1 <> 0.
Proof.
  intros Hi. unfold run_reset_to_start. cbn [walk_to_start]. unfold read_prev, fresh. cbn [is_rel hreleased existsb bindw].
  destruct i as [|j]; [lia|]. cbn [walk_to_start]. split; [f_equal; lia|lia].
Qed.

(* non-vacuity *)
Example links_example :
  (exists st, run_drop true (fresh 4) 1 = WOk st /\ hreleased st = [1; 3; 2; 0]) /\
  run_drop false (fresh 4) 0 = WUaf /\
  (exists st, run_reset (fresh 4) 1 = WOk (st, 3) /\ hreleased st = [2; 1; 0]) /\
  run_reset_to_start true (fresh 4) 3 = WOk 0 /\ run_reset_to_start false (fresh 4) 3 = WOk 2.
Proof. vm_compute. repeat split; try reflexivity; eexists; split; reflexivity. Qed.
