(* ArenaRegrow.v — growing an exclusive-borrow vector (MutBumpVec / MutBumpVecRev / MutBumpString):
   `grow_prepared_allocation` / `generic_grow_to` prepare a bigger range and copy the elements over.

   (1) As long as the vector's capacity is what `prepare` gave it — the WHOLE rest of the chunk,
       in elements — a bigger request cannot be served by the same chunk (regrow_leaves_chunk):
       the new range lies in another chunk, so old and new buffer are disjoint.  This is the
       argument behind the `copy_nonoverlapping` the code used.
   (2) `map_in_place` to a smaller element type and `into_flattened` re-express the capacity in
       another unit (reshape_capacity, flatten_capacity): the new capacity never covers more bytes
       than the old one (reshape_inside), but it can cover FEWER than the chunk offers the new
       element type — then (1) no longer applies: regrow_same_chunk_overlaps is a computed state in
       which the regrown range overlaps the old buffer (genuine defect 8, repaired by `ptr::copy`).
   (3) With the copy the repaired code makes (memmove = Arena.mem_copy, which reads the old memory
       and writes the new) the elements arrive intact whatever the overlap, and no byte outside
       the new range changes (regrow_copy_keeps_contents, regrow_copy_frame). *)
From Coq Require Import ZArith List Lia Bool.
From BS Require Import Word BumpSpec ChunkSpec Arena.
Import ListNotations.
Open Scope Z_scope.

(* ---------------------------------------------------------------- (1) *)
Lemma mult_le_down_align x e a : 0 < a -> (a | x) -> x <= e -> x <= down_alignZ e a.
Proof. intros Ha Hd Hle. apply down_align_max; assumption. Qed.

Lemma div_lt_mul_gt n es k : 0 < es -> n / es < k -> n < es * k.
Proof.
  intros Hes Hlt.
  assert (H1 : n / es + 1 <= k) by lia.
  assert (H2 : es * (n / es + 1) <= es * k) by (apply Z.mul_le_mono_nonneg_l; lia).
  pose proof (Z.mod_pos_bound n es Hes) as Hm.
  pose proof (Z.div_mod n es ltac:(lia)) as Hdm.
  lia.
Qed.

Theorem regrow_leaves_chunk_up start end_ es ea cap st en newcap :
  pow2 ea -> 0 < es -> (ea | es) ->
  spec_prep_up start end_ (es * cap) ea = Some (st, en) ->
  (en - st) / es < newcap ->
  spec_prep_up start end_ (es * newcap) ea = None.
Proof.
  intros Hp Hes Hd Hs Hlt. pose proof (pow2_pos _ Hp) as Ha.
  unfold spec_prep_up in *.
  destruct ((start <=? end_) && (up_alignZ start ea + es * cap <=? end_)) eqn:E; [|discriminate].
  injection Hs as Hst Hen. subst st en.
  apply andb_true_iff in E. destruct E as [E1 E2].
  rewrite E1. cbn [andb].
  destruct (up_alignZ start ea + es * newcap <=? end_) eqn:E3; [|reflexivity].
  exfalso. apply Z.leb_le in E3.
  assert (Hq : (ea | up_alignZ start ea)) by (apply up_align_div; exact Ha).
  assert (Hm : (ea | es * newcap)) by (apply Z.divide_mul_l; exact Hd).
  assert (Hsum : (ea | up_alignZ start ea + es * newcap)) by (apply Z.divide_add_r; assumption).
  pose proof (mult_le_down_align _ _ _ Ha Hsum E3) as Hle.
  pose proof (div_lt_mul_gt _ _ _ Hes Hlt) as Hgt. lia.
Qed.

Theorem regrow_leaves_chunk_down start end_ es ea cap st en newcap :
  pow2 ea -> 0 < es -> (ea | es) ->
  spec_prep_down start end_ (es * cap) ea = Some (st, en) ->
  (en - st) / es < newcap ->
  spec_prep_down start end_ (es * newcap) ea = None.
Proof.
  intros Hp Hes Hd Hs Hlt. pose proof (pow2_pos _ Hp) as Ha.
  unfold spec_prep_down in *.
  destruct ((start <=? end_) && (start + es * cap <=? down_alignZ end_ ea)) eqn:E; [|discriminate].
  injection Hs as Hst Hen. subst st en.
  apply andb_true_iff in E. destruct E as [E1 E2].
  rewrite E1. cbn [andb].
  destruct (start + es * newcap <=? down_alignZ end_ ea) eqn:E3; [|reflexivity].
  exfalso. apply Z.leb_le in E3.
  (* the block would start at the aligned address e - es*newcap >= start, hence >= up_align start *)
  assert (He : (ea | down_alignZ end_ ea)) by (apply down_align_div; exact Ha).
  assert (Hm : (ea | es * newcap)) by (apply Z.divide_mul_l; exact Hd).
  assert (Hdiff : (ea | down_alignZ end_ ea - es * newcap)) by (apply Z.divide_sub_r; assumption).
  assert (Hup : up_alignZ start ea <= down_alignZ end_ ea - es * newcap) by (apply up_align_min; [exact Ha|exact Hdiff|lia]).
  pose proof (div_lt_mul_gt _ _ _ Hes Hlt) as Hgt. lia.
Qed.

(* for a chunk of the arena, both directions *)
Theorem regrow_leaves_chunk c ch es ea cap st en newcap :
  pow2 ea -> 0 < es -> (ea | es) ->
  chunk_prepare c ch (es * cap) ea = Some (st, en) ->
  (en - st) / es < newcap ->
  chunk_prepare c ch (es * newcap) ea = None.
Proof.
  unfold chunk_prepare. intros Hp Hes Hd Hs Hlt. destruct (up c).
  - eapply regrow_leaves_chunk_up; eassumption.
  - eapply regrow_leaves_chunk_down; eassumption.
Qed.

(* ---------------------------------------------------------------- (2) *)
(* FixedBumpVec::map_in_place: `(capacity * T::SIZE) / U::SIZE`; the code asserts U::SIZE <= T::SIZE
   (and U::ALIGN <= T::ALIGN) at compile time; zero-sized U: unlimited *)
Definition reshape_capacity (cap ts us : Z) : Z := if us =? 0 then W - 1 else (cap * ts) / us.
(* into_flattened of [T; N] elements: length and capacity times N; zero-sized T: (len * N, unlimited) *)
Definition flatten_capacity (cap n : Z) : Z := cap * n.

Theorem reshape_inside cap ts us :
  0 <= cap -> 0 < us -> us <= ts ->
  reshape_capacity cap ts us * us <= cap * ts /\ cap <= reshape_capacity cap ts us.
Proof.
  intros Hc Hu Hle. unfold reshape_capacity.
  assert (E : us =? 0 = false) by (apply Z.eqb_neq; lia). rewrite E.
  split.
  - pose proof (Z.mul_div_le (cap * ts) us Hu). lia.
  - apply Z.div_le_lower_bound; [exact Hu|]. nia.
Qed.

(* the elements of the mapped vector fit: len elements of size us in the reshaped capacity *)
Theorem reshape_holds_elements len cap ts us :
  0 <= len <= cap -> 0 < us -> us <= ts -> len <= reshape_capacity cap ts us.
Proof. intros Hl Hu Hle. pose proof (reshape_inside cap ts us ltac:(lia) Hu Hle). lia. Qed.

Theorem flatten_same_bytes len cap n es :
  len * n * es = len * (n * es) /\ flatten_capacity cap n * es = cap * (n * es).
Proof. unfold flatten_capacity. split; ring. Qed.

(* the capacity after a reshape can be smaller than what the chunk offers the new element type:
   u32 -> u8 in a chunk with 11 bytes left (capacity 2 * 4 = 8 < 11) *)
Example reshape_can_undershoot :
  let rest := 11 in let cap_t := rest / 4 in
  reshape_capacity cap_t 4 1 = 8 /\ 8 < rest / 1.
Proof. vm_compute. split; reflexivity. Qed.

(* ---------------------------------------------------------------- (3) *)
Theorem regrow_copy_keeps_contents (m : memory) (src dst bytes : Z) :
  forall i, 0 <= i < bytes -> mem_copy m src dst bytes (dst + i) = m (src + i).
Proof.
  intros i Hi. unfold mem_copy.
  assert (E : (dst <=? dst + i) && (dst + i <? dst + bytes) = true).
  { apply andb_true_iff. split; [apply Z.leb_le|apply Z.ltb_lt]; lia. }
  rewrite E. f_equal. lia.
Qed.

Theorem regrow_copy_frame (m : memory) (src dst bytes : Z) :
  forall x, ~ (dst <= x < dst + bytes) -> mem_copy m src dst bytes x = m x.
Proof.
  intros x Hx. unfold mem_copy.
  destruct ((dst <=? x) && (x <? dst + bytes)) eqn:E; [|reflexivity].
  apply andb_true_iff in E. destruct E as [E1 E2]. apply Z.leb_le in E1. apply Z.ltb_lt in E2. lia.
Qed.

(* ---------------------------------------------------------------- the witness *)
(* A 512-byte upward chunk with 11 bytes left.  MutBumpVec<u32> is given the range [p+3, p+11)
   (capacity 2); map_in_place to u8 turns that into capacity 8; reserve_exact(1) on the full
   vector asks for 9 bytes — and the SAME chunk serves it, from p: the new range [p, p+11)
   overlaps the old buffer [p+3, p+11). *)
Module RegrowExample.
  Definition c0 : cfg := mkCfg true false true true 512 32 16 true.
  Definition s0 : arena := fst (init_with_size c0 1 512 (Some (65536, 512))).
  (* use all but 11 bytes of the chunk *)
  Definition s1 : arena := fst (step c0 s0 (OAlloc 0 [] (480 - 11) 1 false) None).
  Definition first : arena * out := step c0 s1 (OPrepare 0 4 4 2 false) None.
  Definition second : arena * out := step c0 (fst first) (OPrepare 0 1 1 9 false) None.
  Example regrow_same_chunk_overlaps :
    o_res (snd first) = RRange 66040 2 /\
    reshape_capacity 2 4 1 = 8 /\
    o_res (snd second) = RRange 66037 11 /\
    cur (fst second) = Cur 0 /\
    ranges_overlap 66040 8 66037 11 = true.
  Proof. vm_compute. repeat split; reflexivity. Qed.
End RegrowExample.
