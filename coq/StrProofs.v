(* StrProofs.v — theorems about the string model (Str.v): byte-level edits equal the std
   definitions, contents stay valid UTF-8 on every path including unwinding, panics happen
   exactly off boundaries / out of range, lossy and UTF-16 conversions give valid UTF-8,
   C strings end at the first NUL. *)
From Coq Require Import ZArith List Lia Bool Arith ZifyBool.
From BS Require Import Utf8 Colls CollsProofs Str.
Import ListNotations.

(* ---------------------------------------------------------------- firstn / skipn over appends *)
Lemma firstn_app_r {A} (a b : list A) n : length a <= n -> firstn n (a ++ b) = a ++ firstn (n - length a) b.
Proof. intros H. rewrite firstn_app. rewrite firstn_all2 by exact H. reflexivity. Qed.
Lemma firstn_app_l {A} (a b : list A) n : n <= length a -> firstn n (a ++ b) = firstn n a.
Proof. intros H. rewrite firstn_app. replace (n - length a) with 0 by lia. cbn. apply app_nil_r. Qed.
Lemma skipn_app_r {A} (a b : list A) n : length a <= n -> skipn n (a ++ b) = skipn (n - length a) b.
Proof. intros H. rewrite skipn_app. rewrite skipn_all2 by exact H. reflexivity. Qed.
Lemma skipn_app_l {A} (a b : list A) n : n <= length a -> skipn n (a ++ b) = skipn n a ++ b.
Proof. intros H. rewrite skipn_app. replace (n - length a) with 0 by lia. reflexivity. Qed.

Lemma split3 {A} (s : list A) a b : a <= b <= length s ->
  s = firstn a s ++ firstn (b - a) (skipn a s) ++ skipn b s.
Proof.
  intros H. rewrite <- (firstn_skipn a s) at 1. f_equal.
  rewrite <- (firstn_skipn (b - a) (skipn a s)) at 1. f_equal. rewrite skipn_skipn. f_equal. lia.
Qed.

(* ---------------------------------------------------------------- the byte-level edits *)
Theorem insert_bytes_code_spec s spare idx bytes :
  idx <= length s -> length bytes <= length spare ->
  insert_bytes_code s spare idx bytes = firstn idx s ++ bytes ++ skipn idx s.
Proof.
  intros H1 H2. unfold insert_bytes_code, copy_within, write_at.
  set (len := length s). set (amt := length bytes).
  assert (Es : s = firstn idx s ++ skipn idx s) by (symmetry; apply firstn_skipn).
  assert (Lh : length (firstn idx s) = idx) by (rewrite firstn_length; lia).
  assert (Lt : length (skipn idx s) = len - idx) by (rewrite skipn_length; reflexivity).
  set (h := firstn idx s) in *. set (t := skipn idx s) in *.
  assert (Eb : s ++ spare = h ++ t ++ spare) by (rewrite Es at 1; rewrite <- app_assoc; reflexivity).
  rewrite Eb.
  assert (A1 : firstn (idx + amt) (h ++ t ++ spare) = h ++ firstn amt (t ++ spare)).
  { rewrite firstn_app_r by lia. f_equal. f_equal. lia. }
  assert (A2 : firstn (len - idx) (skipn idx (h ++ t ++ spare)) = t).
  { rewrite skipn_app_exact by lia. apply firstn_app_exact. lia. }
  assert (A3 : skipn (idx + amt + (len - idx)) (h ++ t ++ spare) = skipn amt spare).
  { rewrite skipn_app_r by lia. rewrite skipn_app_r by lia. f_equal. lia. }
  rewrite A1, A2, A3.
  set (X := firstn amt (t ++ spare)). set (q := skipn amt spare).
  assert (LX : length X = amt) by (unfold X; rewrite firstn_length, app_length; lia).
  rewrite <- (app_assoc h X).
  rewrite (firstn_app_exact h) by lia.
  replace (h ++ X ++ t ++ q) with ((h ++ X) ++ t ++ q) by (rewrite <- app_assoc; reflexivity).
  rewrite (skipn_app_exact (h ++ X)) by (rewrite app_length; lia).
  replace (h ++ bytes ++ t ++ q) with ((h ++ bytes ++ t) ++ q) by (rewrite <- !app_assoc; reflexivity).
  apply firstn_app_exact. rewrite !app_length. lia.
Qed.

Theorem remove_code_spec s idx next :
  idx <= next <= length s -> remove_code s idx next = firstn idx s ++ skipn next s.
Proof.
  intros H. unfold remove_code, copy_within.
  set (len := length s).
  assert (A2 : firstn (len - next) (skipn next s) = skipn next s) by (apply firstn_all2; rewrite skipn_length; lia).
  rewrite A2.
  replace (firstn idx s ++ skipn next s ++ skipn (idx + (len - next)) s)
    with ((firstn idx s ++ skipn next s) ++ skipn (idx + (len - next)) s) by (rewrite <- app_assoc; reflexivity).
  apply firstn_app_exact. rewrite app_length, firstn_length, skipn_length. lia.
Qed.

Theorem replace_range_code_spec s spare a b r :
  a <= b <= length s -> length r - (b - a) <= length spare ->
  replace_range_code s spare a b r = firstn a s ++ r ++ skipn b s.
Proof.
  intros H1 H2. unfold replace_range_code, copy_within, write_at.
  set (len := length s). set (given := length r).
  pose proof (split3 s a b H1) as Es.
  assert (Lh : length (firstn a s) = a) by (rewrite firstn_length; lia).
  assert (Lm : length (firstn (b - a) (skipn a s)) = b - a) by (rewrite firstn_length, skipn_length; lia).
  assert (Lt : length (skipn b s) = len - b) by (rewrite skipn_length; reflexivity).
  set (h := firstn a s) in *. set (m := firstn (b - a) (skipn a s)) in *. set (t := skipn b s) in *.
  assert (Eb : s ++ spare = h ++ m ++ t ++ spare) by (rewrite Es at 1; rewrite <- !app_assoc; reflexivity).
  rewrite Eb.
  destruct (Nat.eqb_spec (b - a) given) as [E|E].
  - (* same length: overwrite in place *)
    rewrite (firstn_app_exact h) by lia.
    rewrite skipn_app_r by lia. rewrite skipn_app_exact by lia.
    replace (h ++ r ++ t ++ spare) with ((h ++ r ++ t) ++ spare) by (rewrite <- !app_assoc; reflexivity).
    apply firstn_app_exact. rewrite !app_length. fold given. lia.
  - assert (A2 : firstn (len - b) (skipn b (h ++ m ++ t ++ spare)) = t).
    { rewrite skipn_app_r by lia. rewrite skipn_app_exact by lia. apply firstn_app_exact. lia. }
    rewrite A2.
    set (X := firstn (a + given) (h ++ m ++ t ++ spare)).
    set (q := skipn (a + given + (len - b)) (h ++ m ++ t ++ spare)).
    assert (LX : length X = a + given).
    { unfold X. rewrite firstn_length, !app_length. lia. }
    assert (EX : firstn a X = h).
    { unfold X. rewrite firstn_app_r by lia. apply firstn_app_exact. lia. }
    rewrite (firstn_app_l X) by lia. rewrite EX.
    rewrite (skipn_app_exact X) by (fold given; lia).
    replace (h ++ r ++ t ++ q) with ((h ++ r ++ t) ++ q) by (rewrite <- !app_assoc; reflexivity).
    apply firstn_app_exact. rewrite !app_length. fold given. lia.
Qed.

(* ================================================================ validity of every operation *)
Definition V (s : list Z) : Prop := valid s = true.
Definition scalars (cs : list Z) : Prop := Forall (fun c => scalar c = true) cs.

Lemma V_enc cs : scalars cs -> V (enc cs).
Proof. intros H. apply valid_iff. exists cs. split; [exact H|reflexivity]. Qed.

Lemma V_inv s : V s -> exists cs, scalars cs /\ s = enc cs.
Proof. apply valid_iff. Qed.

Lemma valid_splice s a b r :
  V s -> V r -> boundaryb s a = true -> boundaryb s b = true -> V (firstn a s ++ r ++ skipn b s).
Proof.
  intros Hs Hr Ha Hb. destruct (valid_split s a Hs Ha) as [H1 _]. destruct (valid_split s b Hs Hb) as [_ H2].
  apply valid_app; [exact H1|]. apply valid_app; assumption.
Qed.

Lemma valid_mid s a b :
  V s -> a <= b -> boundaryb s a = true -> boundaryb s b = true -> V (firstn (b - a) (skipn a s)).
Proof.
  intros Hs Hab Ha Hb. pose proof (boundary_le_length _ _ Hb) as Hbl.
  destruct (valid_split s b Hs Hb) as [H1 _].
  (* a is also a boundary of the prefix up to b *)
  assert (Ha' : boundaryb (firstn b s) a = true).
  { unfold boundaryb in *. destruct a as [|a]; [reflexivity|].
    destruct (Nat.eq_dec (S a) b) as [E|E].
    - rewrite E. replace (nth_error (firstn b s) b) with (@None Z)
        by (symmetry; apply nth_error_None; rewrite firstn_length; lia).
      rewrite firstn_length. apply Nat.eqb_eq. lia.
    - assert (S a < b) by lia.
      replace (nth_error (firstn b s) (S a)) with (nth_error s (S a)).
      + destruct (nth_error s (S a)) eqn:En; [exact Ha|]. apply nth_error_None in En. lia.
      + rewrite <- (firstn_skipn b s) at 1. rewrite nth_error_app1 by (rewrite firstn_length; lia). reflexivity. }
  destruct (valid_split (firstn b s) a H1 Ha') as [_ H2].
  replace (firstn (b - a) (skipn a s)) with (skipn a (firstn b s)); [exact H2|].
  rewrite firstn_skipn_comm. f_equal. f_equal. lia.
Qed.

(* ---------------------------------------------------------------- push / push_str *)
Theorem push_valid s c : V s -> scalar c = true -> V (s_after (s_push s c)).
Proof. intros Hs Hc. cbn. apply valid_app; [exact Hs|apply valid_encode; exact Hc]. Qed.
Theorem push_str_valid s r : V s -> V r -> V (s_after (s_push_str s r)).
Proof. intros Hs Hr. cbn. apply valid_app; assumption. Qed.

(* ---------------------------------------------------------------- insert / insert_str *)
Theorem insert_str_spec s spare idx r :
  boundaryb s idx = true -> length r <= length spare ->
  s_insert_str s spare idx r = SOk (firstn idx s ++ r ++ skipn idx s) [] [].
Proof.
  intros Hb Hsp. unfold s_insert_str. rewrite Hb. rewrite insert_bytes_code_spec; [reflexivity| |exact Hsp].
  apply boundary_le_length. exact Hb.
Qed.
Theorem insert_str_panics_iff s spare idx r :
  s_panicked (s_insert_str s spare idx r) = true <-> boundaryb s idx = false.
Proof. unfold s_insert_str. destruct (boundaryb s idx); cbn; split; congruence. Qed.
Theorem insert_str_valid s spare idx r :
  V s -> V r -> length r <= length spare -> V (s_after (s_insert_str s spare idx r)).
Proof.
  intros Hs Hr Hsp. destruct (boundaryb s idx) eqn:Hb.
  - rewrite insert_str_spec by assumption. cbn. apply valid_splice; assumption.
  - unfold s_insert_str. rewrite Hb. exact Hs.
Qed.
Theorem insert_valid s spare idx c :
  V s -> scalar c = true -> length (encode c) <= length spare -> V (s_after (s_insert s spare idx c)).
Proof. intros Hs Hc Hsp. apply insert_str_valid; [exact Hs|apply valid_encode; exact Hc|exact Hsp]. Qed.

(* ---------------------------------------------------------------- remove *)
Theorem remove_spec s idx :
  V s -> boundaryb s idx = true -> idx < length s ->
  exists c, scalar c = true /\ firstn (length (encode c)) (skipn idx s) = encode c /\
            s_remove s idx = SOk (firstn idx s ++ skipn (idx + length (encode c)) s) [c] [] /\
            V (firstn idx s ++ skipn (idx + length (encode c)) s).
Proof.
  intros Hs Hb Hlt. destruct (nth_error s idx) as [b|] eqn:En; [|apply nth_error_None in En; lia].
  destruct (next_boundary s idx b Hs Hb En) as (Hnb & c & Hc & Hw & Hf & Hd).
  exists c. split; [exact Hc|]. rewrite Hw. split; [exact Hf|].
  pose proof (boundary_le_length _ _ Hnb) as Hle.
  split.
  - unfold s_remove. rewrite Hb, Hd, Hw. rewrite remove_code_spec by lia. reflexivity.
  - pose proof (valid_splice s idx (idx + width b) [] Hs valid_nil Hb Hnb) as H. exact H.
Qed.

Theorem remove_panics_iff s idx :
  V s -> (s_panicked (s_remove s idx) = true <-> boundaryb s idx = false \/ length s <= idx).
Proof.
  intros Hs. destruct (boundaryb s idx) eqn:Hb.
  - pose proof (boundary_le_length _ _ Hb) as Hle.
    destruct (Nat.eq_dec idx (length s)) as [->|Hne].
    + unfold s_remove. rewrite Hb, skipn_all. cbn. split; [intros _; right; lia|reflexivity].
    + destruct (remove_spec s idx Hs Hb ltac:(lia)) as (c & _ & _ & -> & _). cbn.
      split; [discriminate|intros [H|H]; [discriminate|lia]].
  - unfold s_remove. rewrite Hb. cbn. split; [intros _; left; reflexivity|reflexivity].
Qed.

Theorem remove_valid s idx : V s -> V (s_after (s_remove s idx)).
Proof.
  intros Hs. destruct (boundaryb s idx) eqn:Hb.
  - pose proof (boundary_le_length _ _ Hb) as Hle.
    destruct (Nat.eq_dec idx (length s)) as [->|Hne].
    + unfold s_remove. rewrite Hb, skipn_all. exact Hs.
    + destruct (remove_spec s idx Hs Hb ltac:(lia)) as (c & _ & _ & -> & Hv). exact Hv.
  - unfold s_remove. rewrite Hb. exact Hs.
Qed.

(* ---------------------------------------------------------------- pop *)
Theorem pop_spec s cs :
  scalars cs -> s = enc cs ->
  s_pop s = match rev cs with [] => SOk s [] [] | c :: r => SOk (enc (rev r)) [c] [] end.
Proof.
  intros Hcs ->. unfold s_pop. rewrite decode_enc by exact Hcs.
  destruct (rev cs) as [|c r] eqn:Er; [reflexivity|].
  assert (E : cs = rev r ++ [c]) by (rewrite <- (rev_involutive cs), Er; reflexivity).
  f_equal. rewrite E, enc_app. cbn [enc flat_map]. rewrite app_nil_r.
  apply firstn_app_exact. rewrite app_length. lia.
Qed.

Theorem pop_valid s : V s -> V (s_after (s_pop s)).
Proof.
  intros Hs. destruct (V_inv s Hs) as (cs & Hcs & E). rewrite (pop_spec s cs Hcs E).
  destruct (rev cs) as [|c r] eqn:Er; [exact Hs|]. cbn. apply V_enc.
  assert (E2 : cs = rev r ++ [c]) by (rewrite <- (rev_involutive cs), Er; reflexivity).
  unfold scalars in *. rewrite E2 in Hcs. apply Forall_app in Hcs. tauto.
Qed.

(* ---------------------------------------------------------------- truncate *)
Theorem truncate_panics_iff s n :
  s_panicked (s_truncate s n) = true <-> (n <= length s /\ boundaryb s n = false).
Proof.
  unfold s_truncate. destruct (Nat.leb_spec n (length s)); [|cbn; split; [discriminate|lia]].
  destruct (boundaryb s n); cbn; split; try discriminate; try tauto. intros [_ H']; discriminate.
Qed.
Theorem truncate_spec s n : boundaryb s n = true -> s_truncate s n = SOk (firstn n s) [] [].
Proof.
  intros Hb. unfold s_truncate. pose proof (boundary_le_length _ _ Hb). 
  destruct (Nat.leb_spec n (length s)); [|lia]. rewrite Hb. reflexivity.
Qed.
Theorem truncate_valid s n : V s -> V (s_after (s_truncate s n)).
Proof.
  intros Hs. unfold s_truncate. destruct (n <=? length s); [|exact Hs].
  destruct (boundaryb s n) eqn:Hb; [|exact Hs]. cbn. apply (valid_split s n Hs Hb).
Qed.

(* ---------------------------------------------------------------- retain *)
Lemma sretain_go_valid f : forall rest k kept,
  V kept -> scalars rest -> V (s_after (sretain_go f k kept rest)).
Proof.
  induction rest as [|c r IH]; intros k kept Hk Hr; cbn [sretain_go]; [exact Hk|].
  inversion Hr as [|? ? Hc Hr']; subst.
  destruct (f k c) as [[|]|]; [apply IH; [apply valid_app; [exact Hk|apply valid_encode; exact Hc]|exact Hr']
                             |apply IH; assumption|exact Hk].
Qed.

(* valid after normal completion AND after a panic of the callback at any invocation *)
Theorem retain_valid f s : V s -> V (s_after (s_retain f s)).
Proof.
  intros Hs. destruct (V_inv s Hs) as (cs & Hcs & ->). unfold s_retain. rewrite decode_enc by exact Hcs.
  apply sretain_go_valid; [apply valid_nil|exact Hcs].
Qed.

Fixpoint filter_kz (g : nat -> Z -> bool) (k : nat) (l : list Z) : list Z :=
  match l with [] => [] | c :: r => if g k c then c :: filter_kz g (S k) r else filter_kz g (S k) r end.

Lemma sretain_go_spec (g : nat -> Z -> bool) : forall rest k kept,
  sretain_go (fun k c => Ret (g k c)) k kept rest = SOk (kept ++ enc (filter_kz g k rest)) [] [].
Proof.
  induction rest as [|c r IH]; intros k kept; cbn [sretain_go filter_kz].
  - cbn. rewrite app_nil_r. reflexivity.
  - destruct (g k c); rewrite IH; [|reflexivity]. cbn [enc flat_map]. rewrite <- app_assoc. reflexivity.
Qed.

Theorem retain_is_filter (g : nat -> Z -> bool) cs :
  scalars cs -> s_retain (fun k c => Ret (g k c)) (enc cs) = SOk (enc (filter_kz g 0 cs)) [] [].
Proof. intros Hcs. unfold s_retain. rewrite decode_enc by exact Hcs. apply sretain_go_spec. Qed.

(* ---------------------------------------------------------------- range operations *)
Definition range_bad (s : list Z) (a b : nat) : Prop :=
  b < a \/ length s < b \/ boundaryb s a = false \/ boundaryb s b = false.

Lemma range_guard (s : list Z) a b :
  ((b <? a) || (length s <? b)) = false -> a <= b <= length s.
Proof. intros H. apply orb_false_iff in H. destruct H as [H1 H2]. apply Nat.ltb_ge in H1, H2. lia. Qed.

Theorem drain_panics_iff s a b kf kb forget :
  V s -> (s_panicked (s_drain s a b kf kb forget) = true <-> range_bad s a b).
Proof.
  intros Hs. unfold s_drain, range_bad.
  destruct ((b <? a) || (length s <? b)) eqn:Eg.
  { cbn. split; [intros _|reflexivity]. apply orb_true_iff in Eg. destruct Eg as [E|E]; apply Nat.ltb_lt in E; tauto. }
  pose proof (range_guard _ _ _ Eg) as Hr.
  destruct (boundaryb s a) eqn:Ha; cbn [negb]; [|cbn; split; [tauto|reflexivity]].
  destruct (boundaryb s b) eqn:Hb; cbn [negb]; [|cbn; split; [tauto|reflexivity]].
  pose proof (valid_mid s a b Hs ltac:(lia) Ha Hb) as Hm. unfold V, valid in Hm.
  destruct (decode (firstn (b - a) (skipn a s))); [|discriminate].
  cbn. split; [discriminate|]. intros [H|[H|[H|H]]]; try lia; discriminate.
Qed.

Theorem drain_spec s a b kf kb :
  V s -> a <= b <= length s -> boundaryb s a = true -> boundaryb s b = true ->
  exists cs, scalars cs /\ firstn (b - a) (skipn a s) = enc cs /\
    forall forget, exists ys, s_drain s a b kf kb forget = SOk (if forget then s else firstn a s ++ skipn b s) ys [] /\
      (length cs <= kf -> ys = cs).
Proof.
  intros Hs Hr Ha Hb. pose proof (valid_mid s a b Hs ltac:(lia) Ha Hb) as Hm.
  destruct (V_inv _ Hm) as (cs & Hcs & Em). exists cs. split; [exact Hcs|]. split; [exact Em|].
  intros forget. unfold s_drain.
  replace ((b <? a) || (length s <? b)) with false by (symmetry; apply orb_false_iff; split; apply Nat.ltb_ge; lia).
  rewrite Ha, Hb. cbn [negb]. rewrite Em, decode_enc by exact Hcs.
  eexists. split; [reflexivity|]. intros Hk.
  rewrite Nat.min_r by exact Hk. rewrite Nat.sub_diag, Nat.min_0_r.
  unfold lastn. rewrite Nat.sub_0_r, skipn_all. cbn. rewrite app_nil_r. apply firstn_all.
Qed.

Theorem drain_valid s a b kf kb forget : V s -> V (s_after (s_drain s a b kf kb forget)).
Proof.
  intros Hs. unfold s_drain.
  destruct ((b <? a) || (length s <? b)) eqn:Eg; [exact Hs|].
  destruct (boundaryb s a) eqn:Ha; cbn [negb]; [|exact Hs].
  destruct (boundaryb s b) eqn:Hb; cbn [negb]; [|exact Hs].
  destruct (decode (firstn (b - a) (skipn a s))); [|exact Hs].
  cbn. destruct forget; [exact Hs|].
  apply (valid_splice s a b [] Hs valid_nil Ha Hb).
Qed.

Theorem replace_range_panics_iff s spare a b r :
  s_panicked (s_replace_range s spare a b r) = true <-> range_bad s a b.
Proof.
  unfold s_replace_range, range_bad.
  destruct ((b <? a) || (length s <? b)) eqn:Eg.
  { cbn. split; [intros _|reflexivity]. apply orb_true_iff in Eg. destruct Eg as [E|E]; apply Nat.ltb_lt in E; tauto. }
  pose proof (range_guard _ _ _ Eg) as Hr.
  destruct (boundaryb s a) eqn:Ha; cbn [negb]; [|cbn; split; [tauto|reflexivity]].
  destruct (boundaryb s b) eqn:Hb; cbn [negb]; [|cbn; split; [tauto|reflexivity]].
  cbn. split; [discriminate|]. intros [H|[H|[H|H]]]; try lia; discriminate.
Qed.

Theorem replace_range_spec s spare a b r :
  a <= b <= length s -> boundaryb s a = true -> boundaryb s b = true ->
  length r - (b - a) <= length spare ->
  s_replace_range s spare a b r = SOk (firstn a s ++ r ++ skipn b s) [] [].
Proof.
  intros Hr Ha Hb Hsp. unfold s_replace_range.
  replace ((b <? a) || (length s <? b)) with false by (symmetry; apply orb_false_iff; split; apply Nat.ltb_ge; lia).
  rewrite Ha, Hb. cbn [negb]. rewrite replace_range_code_spec by assumption. reflexivity.
Qed.

Theorem replace_range_valid s spare a b r :
  V s -> V r -> length r - (b - a) <= length spare -> V (s_after (s_replace_range s spare a b r)).
Proof.
  intros Hs Hr Hsp. unfold s_replace_range.
  destruct ((b <? a) || (length s <? b)) eqn:Eg; [exact Hs|]. pose proof (range_guard _ _ _ Eg).
  destruct (boundaryb s a) eqn:Ha; cbn [negb]; [|exact Hs].
  destruct (boundaryb s b) eqn:Hb; cbn [negb]; [|exact Hs].
  cbn. rewrite replace_range_code_spec by assumption. apply valid_splice; assumption.
Qed.

Theorem extend_from_within_panics_iff s a b :
  s_panicked (s_extend_from_within s a b) = true <-> range_bad s a b.
Proof.
  unfold s_extend_from_within, range_bad.
  destruct ((b <? a) || (length s <? b)) eqn:Eg.
  { cbn. split; [intros _|reflexivity]. apply orb_true_iff in Eg. destruct Eg as [E|E]; apply Nat.ltb_lt in E; tauto. }
  pose proof (range_guard _ _ _ Eg) as Hr.
  destruct (boundaryb s a) eqn:Ha; cbn [negb]; [|cbn; split; [tauto|reflexivity]].
  destruct (boundaryb s b) eqn:Hb; cbn [negb]; [|cbn; split; [tauto|reflexivity]].
  cbn. split; [discriminate|]. intros [H|[H|[H|H]]]; try lia; discriminate.
Qed.

Theorem extend_from_within_valid s a b : V s -> V (s_after (s_extend_from_within s a b)).
Proof.
  intros Hs. unfold s_extend_from_within.
  destruct ((b <? a) || (length s <? b)) eqn:Eg; [exact Hs|]. pose proof (range_guard _ _ _ Eg).
  destruct (boundaryb s a) eqn:Ha; cbn [negb]; [|exact Hs].
  destruct (boundaryb s b) eqn:Hb; cbn [negb]; [|exact Hs].
  cbn. apply valid_app; [exact Hs|]. apply valid_mid; try assumption; lia.
Qed.

(* ---------------------------------------------------------------- split_off *)
(* with the boundary check of empty ranges in place (fixed = true): the full statement *)
Theorem split_off_panics_iff s a b :
  s_panicked (s_split_off true s a b) = true <-> range_bad s a b.
Proof.
  unfold s_split_off, range_bad.
  destruct ((b <? a) || (length s <? b)) eqn:Eg.
  { cbn. split; [intros _|reflexivity]. apply orb_true_iff in Eg. destruct Eg as [E|E]; apply Nat.ltb_lt in E; tauto. }
  pose proof (range_guard _ _ _ Eg) as Hr.
  destruct (Nat.eqb_spec b (length s)) as [Eb|Eb].
  { subst b. rewrite boundary_len. destruct (boundaryb s a) eqn:Ha; cbn; split; try discriminate; try tauto.
    intros [H|[H|[H|H]]]; try lia; discriminate. }
  destruct (Nat.eqb_spec a 0) as [Ea|Ea].
  { subst a. rewrite boundary_0. destruct (boundaryb s b) eqn:Hb; cbn; split; try discriminate; try tauto.
    intros [H|[H|[H|H]]]; try lia; discriminate. }
  rewrite andb_false_r.
  destruct (boundaryb s a) eqn:Ha; cbn [negb]; [|cbn; split; [tauto|reflexivity]].
  destruct (boundaryb s b) eqn:Hb; cbn [negb]; [|cbn; split; [tauto|reflexivity]].
  destruct (split_off_code s a b). cbn. split; [discriminate|]. intros [H|[H|[H|H]]]; try lia; discriminate.
Qed.

Theorem split_off_spec fixed s a b :
  a <= b <= length s -> boundaryb s a = true -> boundaryb s b = true ->
  s_split_off fixed s a b = SOk (firstn a s ++ skipn b s) [] (firstn (b - a) (skipn a s)).
Proof.
  intros Hr Ha Hb. unfold s_split_off.
  replace ((b <? a) || (length s <? b)) with false by (symmetry; apply orb_false_iff; split; apply Nat.ltb_ge; lia).
  pose proof (split_off_code_spec s a b Hr) as Hc.
  destruct (Nat.eqb_spec b (length s)) as [Eb|Eb].
  { rewrite Ha. subst b. rewrite skipn_all, app_nil_r. f_equal. symmetry. apply firstn_all2. rewrite skipn_length. lia. }
  destruct (Nat.eqb_spec a 0) as [Ea|Ea].
  { rewrite Hb. subst a. cbn [firstn app skipn]. rewrite Nat.sub_0_r. reflexivity. }
  destruct ((a =? b) && negb fixed) eqn:Eab.
  { apply andb_prop in Eab. destruct Eab as [Eab _]. apply Nat.eqb_eq in Eab. subst b.
    rewrite Nat.sub_diag. cbn [firstn]. rewrite firstn_skipn. reflexivity. }
  rewrite Ha, Hb. cbn [negb]. rewrite Hc. reflexivity.
Qed.

(* both halves are valid UTF-8, whatever the arguments and whichever version *)
Theorem split_off_valid fixed s a b :
  V s -> V (s_after (s_split_off fixed s a b)) /\
         match s_split_off fixed s a b with SOk _ _ off => V off | SPanic _ => True end.
Proof.
  intros Hs. unfold s_split_off.
  destruct ((b <? a) || (length s <? b)) eqn:Eg; [split; [exact Hs|exact I]|].
  pose proof (range_guard _ _ _ Eg) as Hr.
  destruct (Nat.eqb_spec b (length s)) as [Eb|Eb].
  { destruct (boundaryb s a) eqn:Ha; [|split; [exact Hs|exact I]]. cbn. apply (valid_split s a Hs Ha). }
  destruct (Nat.eqb_spec a 0) as [Ea|Ea].
  { destruct (boundaryb s b) eqn:Hb; [|split; [exact Hs|exact I]]. cbn.
    destruct (valid_split s b Hs Hb). split; assumption. }
  destruct ((a =? b) && negb fixed); [split; [exact Hs|apply valid_nil]|].
  destruct (boundaryb s a) eqn:Ha; cbn [negb]; [|split; [exact Hs|exact I]].
  destruct (boundaryb s b) eqn:Hb; cbn [negb]; [|split; [exact Hs|exact I]].
  rewrite (split_off_code_spec s a b Hr). cbn. split.
  - apply (valid_splice s a b [] Hs valid_nil Ha Hb).
  - apply valid_mid; try assumption; lia.
Qed.

(* the pinned commit (fixed = false) did NOT satisfy the panic clause: an empty range strictly
   inside the string whose position is not a boundary was accepted.  This witness, replayed on the
   implementation, is the finding recorded in known_findings.json *)
Theorem split_off_pinned_refuted :
  exists s a b, V s /\ range_bad s a b /\ s_panicked (s_split_off false s a b) = false.
Proof.
  exists [196; 141; 120]%Z, 1, 1. split; [reflexivity|]. split; [right; right; left; reflexivity|reflexivity].
Qed.
(* everything else holds for the pinned version too *)
Theorem split_off_pinned_partial s a b :
  ~ (a = b /\ 0 < a < length s) ->
  (s_panicked (s_split_off false s a b) = true <-> range_bad s a b).
Proof.
  intros Hne. rewrite <- split_off_panics_iff. unfold s_split_off.
  destruct ((b <? a) || (length s <? b)) eqn:Eg; [reflexivity|]. pose proof (range_guard _ _ _ Eg).
  destruct (Nat.eqb_spec b (length s)); [reflexivity|].
  destruct (Nat.eqb_spec a 0); [reflexivity|].
  destruct (Nat.eqb_spec a b); [exfalso; apply Hne; lia|]. reflexivity.
Qed.

(* ---------------------------------------------------------------- from_utf8 (lossy) *)
Theorem from_utf8_spec v : s_from_utf8 v = (if valid v then Some v else None).
Proof. reflexivity. Qed.

Lemma REPLACEMENT_valid : V REPLACEMENT.
Proof. reflexivity. Qed.

Theorem lossy_fuel_valid : forall n l, V (lossy_fuel n l).
Proof.
  induction n as [|n IH]; intros l; destruct l as [|x xs]; try apply valid_nil.
  cbn [lossy_fuel]. destruct (decode1 (x :: xs)) as [[c rest]|] eqn:D.
  - destruct (decode1_sound _ _ _ D) as [_ Hc]. apply valid_app; [apply valid_encode; exact Hc|apply IH].
  - apply valid_app; [apply REPLACEMENT_valid|apply IH].
Qed.

Theorem from_utf8_lossy_valid v : V (s_from_utf8_lossy v).
Proof. apply lossy_fuel_valid. Qed.

Lemma lossy_fuel_enc : forall cs n, scalars cs -> length cs <= n -> lossy_fuel n (enc cs) = enc cs.
Proof.
  induction cs as [|c cs IH]; intros n Hs Hn; [destruct n; reflexivity|].
  inversion Hs as [|? ? Hc Hcs]; subst. cbn [enc flat_map]. fold (enc cs).
  destruct n as [|n]; [cbn in Hn; lia|].
  destruct (encode c ++ enc cs) as [|x xs] eqn:El.
  { exfalso. destruct (encode c) eqn:Ee; [exact (encode_nonempty c Ee)|discriminate]. }
  rewrite <- El.
  assert (D : lossy_fuel (S n) (encode c ++ enc cs) =
              match decode1 (encode c ++ enc cs) with
              | Some (c0, rest) => encode c0 ++ lossy_fuel n rest
              | None => REPLACEMENT ++ lossy_fuel n (skipn (invalid_len (encode c ++ enc cs)) (encode c ++ enc cs))
              end) by (rewrite El; reflexivity).
  rewrite D, decode1_encode by exact Hc. rewrite IH; [reflexivity|exact Hcs|cbn in Hn; lia].
Qed.

(* valid input is returned unchanged *)
Theorem from_utf8_lossy_id v : V v -> s_from_utf8_lossy v = v.
Proof.
  intros Hv. destruct (V_inv v Hv) as (cs & Hcs & ->). unfold s_from_utf8_lossy.
  apply lossy_fuel_enc; [exact Hcs|apply enc_length_ge].
Qed.

(* the fuel handed out by s_from_utf8_lossy is enough: more fuel changes nothing *)
Lemma invalid_len_pos l : l <> [] -> 1 <= invalid_len l.
Proof.
  destruct l as [|b0 t0]; [congruence|]. intros _. unfold invalid_len.
  destruct ((224 <=? b0)%Z && (b0 <? 240)%Z).
  { destruct t0 as [|b1 t1]; [lia|]. destruct (second_ok3 b0 b1); lia. }
  destruct ((240 <=? b0)%Z && (b0 <? 245)%Z); [|lia].
  destruct t0 as [|b1 t1]; [lia|]. destruct (second_ok4 b0 b1); [|lia].
  destruct t1 as [|b2 t2]; [lia|]. destruct (cont b2); lia.
Qed.

Theorem lossy_fuel_enough : forall n m l, length l <= n -> length l <= m -> lossy_fuel n l = lossy_fuel m l.
Proof.
  induction n as [|n IH]; intros m l Hn Hm.
  - destruct l; [destruct m; reflexivity|cbn in Hn; lia].
  - destruct l as [|x xs]; [destruct m; reflexivity|]. destruct m as [|m]; [cbn in Hm; lia|].
    cbn [lossy_fuel]. destruct (decode1 (x :: xs)) as [[c rest]|] eqn:D.
    + pose proof (decode1_shorter _ _ _ D) as Hsh. f_equal. apply IH; cbn [length] in *; lia.
    + f_equal. pose proof (invalid_len_pos (x :: xs) ltac:(discriminate)) as Hp.
      apply IH; rewrite skipn_length; cbn [length] in *; lia.
Qed.

(* ---------------------------------------------------------------- UTF-16 *)
Definition unit16 (u : Z) : Prop := (0 <= u < 65536)%Z.

Lemma decode_utf16_scalar : forall n v, length v <= n -> Forall unit16 v ->
  Forall (fun o => match o with Some c => scalar c = true | None => True end) (decode_utf16 v).
Proof.
  induction n as [|n IH]; intros v Hn Hv.
  - destruct v; [constructor|cbn [length] in *; lia].
  - destruct v as [|u t]; [constructor|]. inversion Hv as [|? ? Hu Ht]; subst. unfold unit16 in Hu.
    cbn [decode_utf16].
    destruct ((u <? 55296)%Z || (57344 <=? u)%Z) eqn:E1.
    { constructor; [unfold scalar; lia|apply IH; [cbn [length] in *; lia|exact Ht]]. }
    destruct (u <? 56320)%Z eqn:E2.
    + destruct t as [|u2 t2]; [constructor; [exact I|constructor]|].
      inversion Ht as [|? ? Hu2 Ht2]; subst. unfold unit16 in Hu2.
      destruct ((56320 <=? u2)%Z && (u2 <? 57344)%Z) eqn:E3.
      * constructor; [unfold scalar; lia|apply IH; [cbn [length] in *; lia|exact Ht2]].
      * constructor; [exact I|apply IH; [cbn [length] in *; lia|exact Ht]].
    + constructor; [exact I|apply IH; [cbn [length] in *; lia|exact Ht]].
Qed.

Lemma all_some_scalars l cs :
  Forall (fun o => match o with Some c => scalar c = true | None => True end) l ->
  all_some l = Some cs -> scalars cs.
Proof.
  revert cs. induction l as [|[c|] t IH]; intros cs Hl H; cbn in H.
  - injection H as <-. constructor.
  - inversion Hl; subst. destruct (all_some t) as [cs0|]; [|discriminate]. injection H as <-.
    constructor; [assumption|apply IH; [assumption|reflexivity]].
  - discriminate.
Qed.

Theorem from_utf16_valid v s : Forall unit16 v -> s_from_utf16 v = Some s -> V s.
Proof.
  intros Hv H. unfold s_from_utf16 in H. destruct (all_some (decode_utf16 v)) as [cs|] eqn:E; [|discriminate].
  injection H as <-. apply V_enc. eapply all_some_scalars; [|exact E].
  apply (decode_utf16_scalar (length v)); [lia|exact Hv].
Qed.

(* an error is reported exactly when some unit is an unpaired surrogate *)
Theorem from_utf16_err_iff v : s_from_utf16 v = None <-> In None (decode_utf16 v).
Proof.
  unfold s_from_utf16. generalize (decode_utf16 v) as l. induction l as [|[c|] t IH]; cbn.
  - split; [discriminate|tauto].
  - destruct (all_some t); cbn in *.
    + split; [discriminate|]. intros [H|H]; [discriminate|]. apply IH in H. discriminate.
    + split; [intros _; right; apply IH; reflexivity|reflexivity].
  - split; [intros _; left; reflexivity|reflexivity].
Qed.

Theorem from_utf16_lossy_valid v : Forall unit16 v -> V (s_from_utf16_lossy v).
Proof.
  intros Hv. unfold s_from_utf16_lossy. apply V_enc.
  pose proof (decode_utf16_scalar (length v) v ltac:(lia) Hv) as H.
  induction H as [|o t Ho Ht IH]; [constructor|]. cbn [map]. constructor; [|exact IH].
  destruct o; [exact Ho|reflexivity].
Qed.

(* where nothing is lossy the two agree *)
Theorem from_utf16_lossy_agrees v s : s_from_utf16 v = Some s -> s_from_utf16_lossy v = s.
Proof.
  unfold s_from_utf16, s_from_utf16_lossy. generalize (decode_utf16 v) as l. intros l.
  destruct (all_some l) as [cs|] eqn:E; [|discriminate]. intros H. injection H as <-. f_equal.
  revert cs E. induction l as [|[c|] t IH]; intros cs E; cbn in E.
  - injection E as <-. reflexivity.
  - destruct (all_some t) as [cs0|]; [|discriminate]. injection E as <-. cbn [map]. f_equal. apply IH. reflexivity.
  - discriminate.
Qed.

(* ---------------------------------------------------------------- C strings *)
Lemma into_cstr_spec s : s_into_cstr s = before_nul s ++ [0%Z].
Proof.
  unfold s_into_cstr. induction s as [|b t IH]; [reflexivity|]. cbn [nul_position before_nul].
  destruct (Z.eqb_spec b 0) as [->|Hne]; [reflexivity|].
  destruct (nul_position t) as [n|]; cbn [option_map] in *.
  - cbn [firstn app]. f_equal. exact IH.
  - cbn [app]. f_equal. exact IH.
Qed.

Lemma before_nul_no_nul s : ~ In 0%Z (before_nul s).
Proof.
  induction s as [|b t IH]; [cbn; tauto|]. cbn [before_nul]. destruct (Z.eqb_spec b 0); [cbn; tauto|].
  intros [H|H]; [congruence|exact (IH H)].
Qed.

Lemma before_nul_prefix s : exists rest, s = before_nul s ++ rest /\ (rest = [] \/ exists r, rest = 0%Z :: r).
Proof.
  induction s as [|b t IH]; [exists []; split; [reflexivity|left; reflexivity]|]. cbn [before_nul].
  destruct (Z.eqb_spec b 0) as [->|Hne].
  - exists (0%Z :: t). split; [reflexivity|right; eexists; reflexivity].
  - destruct IH as (rest & E & Hr). exists rest. split; [cbn; f_equal; exact E|exact Hr].
Qed.

(* the text up to the first NUL (or all of it), followed by exactly one NUL *)
Theorem into_cstr_contract s :
  exists text, s_into_cstr s = text ++ [0%Z] /\ ~ In 0%Z text /\
    exists rest, s = text ++ rest /\ (rest = [] \/ exists r, rest = 0%Z :: r).
Proof.
  exists (before_nul s). split; [apply into_cstr_spec|]. split; [apply before_nul_no_nul|apply before_nul_prefix].
Qed.

(* non-vacuity: a 1-, 2-, 3- and 4-byte character, edited in the middle *)
Example str_example :
  let s := enc [97; 269; 8364; 119070]%Z in
  V s /\ boundaryb s 3 = true /\ boundaryb s 2 = false /\
  s_remove s 1 = SOk (enc [97; 8364; 119070]%Z) [269%Z] [] /\
  s_panicked (s_remove s 2) = true /\
  s_from_utf8_lossy [97; 240; 159; 97; 237; 160; 128]%Z = ([97] ++ REPLACEMENT ++ [97] ++ REPLACEMENT ++ REPLACEMENT ++ REPLACEMENT)%Z.
Proof. vm_compute. repeat split; reflexivity. Qed.
