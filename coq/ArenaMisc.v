(* ArenaMisc.v — theorems for C03 (scopes), C05 (chunk ledger), C07 (failure), C13 (reclaim /
   opt-outs) over the arena model. *)
From Coq Require Import ZArith List Bool Lia Permutation.
From BS Require Import Word BumpSpec ChunkSpec Arena ArenaInv ArenaStats.
Import ListNotations.
Open Scope Z_scope.

(* =========================== C13: opt-outs and non-last blocks =========================== *)
Theorem no_dealloc_setting c s p sz : deallocates c = false -> raw_dealloc c s p sz = s.
Proof. intros H. unfold raw_dealloc. rewrite H. reflexivity. Qed.

Theorem nonlast_dealloc_noop c s p sz : is_last c s p sz = false -> raw_dealloc c s p sz = s.
Proof. intros H. unfold raw_dealloc. destruct (negb (deallocates c)); [reflexivity|]. rewrite H. reflexivity. Qed.

(* a deallocate through WithoutDealloc (anywhere in the wrapper stack), with DEALLOCATES = false,
   or of a block that is not the newest one, changes neither chunks nor positions nor statistics *)
Theorem dealloc_optout_keeps_stats c s h ws b r :
  (has_wrapper WDealloc ws = true \/ deallocates c = false) ->
  let s' := fst (step c s (ODealloc h ws b) r) in
  chunks s' = chunks s /\ cur s' = cur s /\ arena_stats c s' = arena_stats c s.
Proof.
  intros H. cbv zeta. cbn [step]. destruct (find_block (tick s) b) as [blk|]; [|repeat split].
  assert (E : forall x, chunks x = chunks s -> cur x = cur s -> arena_stats c x = arena_stats c s).
  { intros x E1 E2. unfold arena_stats, cur_chunk, chunks_before, chunks_after. rewrite E1, E2. reflexivity. }
  destruct H as [H|H].
  - rewrite H, orb_true_r. cbn [fst]. repeat split; try (apply E; reflexivity).
  - destruct (negb (is_top (tick s) h) || has_wrapper WDealloc ws); cbn [fst]; [repeat split; apply E; reflexivity|].
    rewrite no_dealloc_setting by exact H. repeat split; try (apply E; reflexivity).
Qed.

Theorem nonlast_dealloc_keeps_everything c s h ws b blk r :
  find_block (tick s) b = Some blk ->
  is_last c (remove_block (tick s) b) (bptr blk) (bsize blk) = false ->
  let s' := fst (step c s (ODealloc h ws b) r) in
  chunks s' = chunks s /\ cur s' = cur s /\ forall a, mem s' a = mem s a.
Proof.
  intros Hf Hl. cbv zeta. cbn [step]. rewrite Hf.
  destruct (negb (is_top (tick s) h) || has_wrapper WDealloc ws); cbn [fst]; [repeat split|].
  rewrite nonlast_dealloc_noop by exact Hl. repeat split.
Qed.

(* WithoutShrink::shrink never gives memory back: the bump position is untouched when the
   alignment fits (and otherwise only an allocation happens) *)
Theorem without_shrink_fit_keeps_state c s p osz oal nsz nal r :
  divides nal p = true -> fst (ws_shrink c s p osz oal nsz nal r) = s.
Proof. intros H. unfold ws_shrink. rewrite H. reflexivity. Qed.

Theorem no_shrink_setting_fit_keeps_state c s p osz oal nsz nal r :
  shrinks c = false -> divides nal p = true -> fst (raw_shrink c s p osz oal nsz nal r) = s.
Proof. intros Hs Hd. unfold raw_shrink. rewrite Hd, Hs. reflexivity. Qed.

(* reclaiming the newest block makes its space reusable: the same layout comes back at the
   same address (upwards arena; the block's size is a multiple of the minimum alignment) *)
Theorem dealloc_then_alloc_same_address_up c m ch p size align :
  cfg_ok c -> up c = true -> chunk_ok c ch -> valid_min_align m -> valid_layout size align ->
  (m | p) -> (align | p) -> (m | size) -> content_start c ch <= p -> p + size = cpos ch ->
  chunk_alloc c m (set_pos ch (align_posZ true m p)) size align = Some (p, ch).
Proof.
  intros Hc Hup [Hg Hpos] Hm Hl Hmp Hap Hms Hcs Hlast.
  pose proof (min_align_pos _ Hm) as Hmpos. destruct Hl as (Ha2 & Hs0 & Hl3).
  pose proof (pow2_pos _ Ha2) as Hapos.
  unfold align_posZ. rewrite up_align_id by assumption.
  unfold chunk_alloc. rewrite Hup. cbn [set_pos cpos].
  change (content_end c (set_pos ch p)) with (content_end c ch).
  unfold spec_up. rewrite up_align_id by assumption.
  destruct (Z.leb_spec p (content_end c ch)); [|lia]. destruct (Z.leb_spec (p + size) (content_end c ch)); [|lia].
  cbn [andb]. rewrite up_align_id by (try assumption; apply Z.divide_add_r; assumption).
  rewrite Hlast. destruct ch; reflexivity.
Qed.

(* =========================== C03: scopes and checkpoints =========================== *)
(* a checkpoint records the current chunk and its position *)
Theorem checkpoint_records_position c s r :
  match o_res (snd (step c s (OCheckpoint (depth s)) r)) with
  | RCheckpoint cp => cp_state cp = cur s /\
                      (forall ch, cur_chunk s = Some ch -> cp_addr cp = cpos ch)
  | _ => False
  end.
Proof.
  cbn [step snd o_res]. unfold is_top. cbn [tick depth]. rewrite Nat.eqb_refl. cbn [cp_state cp_addr].
  split; [reflexivity|]. intros ch H. unfold cur_chunk in *. cbn [tick cur chunks] in *. rewrite H. reflexivity.
Qed.

(* reset_to puts the handle back on the checkpoint's chunk at the recorded position, leaves
   every other chunk as it is (later chunks stay available), and calls the base allocator never *)
Theorem reset_to_restores c s h cp j ch r :
  cp_state cp = Cur j -> nth_error (chunks s) j = Some ch ->
  let s' := fst (step c s (OResetTo h cp) r) in
  cur s' = Cur j /\ nth_error (chunks s') j = Some (set_pos ch (cp_addr cp)) /\
  length (chunks s') = length (chunks s) /\
  (forall k, k <> j -> nth_error (chunks s') k = nth_error (chunks s) k) /\
  o_events (snd (step c s (OResetTo h cp) r)) = [].
Proof.
  intros Ecp En. cbv zeta. cbn [step]. unfold do_reset_to. rewrite Ecp. cbn [chunks upd_live tick]. rewrite En.
  cbn [fst snd cur chunks upd_cur upd_chunks o_events].
  split; [reflexivity|]. split; [apply nth_error_set_nth_eq; eapply nth_error_some_lt; exact En|].
  split; [apply set_nth_length|]. split; [intros k Hk; apply nth_error_set_nth_neq; congruence|].
  unfold new_events. cbn [ledger upd_cur upd_chunks upd_live tick]. rewrite Nat.sub_diag. reflexivity.
Qed.

(* the allocated byte count only depends on the chunks up to the current one and its position:
   restoring both restores the count *)
Theorem allocated_depends_on_prefix c s1 s2 j ch1 ch2 :
  cur s1 = Cur j -> cur s2 = Cur j ->
  nth_error (chunks s1) j = Some ch1 -> nth_error (chunks s2) j = Some ch2 ->
  same_geom ch1 ch2 -> cpos ch1 = cpos ch2 ->
  Forall2 same_geom (firstn j (chunks s1)) (firstn j (chunks s2)) ->
  st_allocated (arena_stats c s1) = st_allocated (arena_stats c s2).
Proof.
  intros E1 E2 N1 N2 Hg Hp HF. unfold arena_stats, cur_chunk, chunks_before. rewrite E1, E2, N1, N2.
  cbn [st_allocated]. f_equal.
  - destruct (same_geom_content c _ _ Hg) as [A B]. unfold allocated_in. rewrite A, B, Hp. reflexivity.
  - induction HF as [|a b l l' Hab Hl IH]; [reflexivity|]. cbn [map]. unfold sumZ in *. cbn [fold_right].
    destruct (same_geom_content c _ _ Hab) as [A B]. unfold capacity at 1 3. rewrite A, B. f_equal. exact IH.
Qed.

(* reset_to_start and scope exits release nothing *)
Theorem reset_to_start_releases_none c s r : o_events (snd (step c s OResetToStart r)) = [].
Proof.
  cbn [step]. cbn [cur upd_live tick]. destruct (cur s); cbn [snd o_events];
    try (unfold new_events; cbn [ledger upd_live tick]; rewrite Nat.sub_diag; reflexivity).
  cbn [chunks upd_live tick]. destruct (chunks s); cbn [snd o_events];
    unfold new_events; cbn [ledger upd_cur upd_chunks upd_live tick]; rewrite Nat.sub_diag; reflexivity.
Qed.

(* =========================== C05: the chunk ledger =========================== *)
(* dropping the arena releases every chunk exactly once, with the layout it was granted for *)
Theorem drop_releases_each_chunk_once c s i :
  cur s = Cur i -> (i < length (chunks s))%nat ->
  Permutation (drop_events c s) (map (dealloc_event c) (chunks s)).
Proof.
  intros Ec Hi. unfold drop_events. rewrite Ec.
  destruct (nth_error (chunks s) i) as [ch|] eqn:En; [|apply nth_error_None in En; lia].
  pose proof (split_at _ _ _ En) as Hs.
  remember (chunks s) as cs eqn:Ecs. clear Ecs.
  assert (E : map (dealloc_event c) cs =
              map (dealloc_event c) (firstn i cs) ++ dealloc_event c ch :: map (dealloc_event c) (skipn (S i) cs)).
  { rewrite Hs at 1. rewrite map_app. reflexivity. }
  rewrite E. rewrite map_rev. eapply Permutation_trans.
  - apply Permutation_app; [symmetry; apply Permutation_rev|apply Permutation_refl].
  - apply Permutation_app_head. apply Permutation_sym. apply Permutation_cons_append.
Qed.

Theorem released_layout_fits c ch :
  chunk_geom c ch ->
  match dealloc_event c ch with
  | EvDealloc addr size align => addr = cbase ch /\ align = ha c /\ creq ch <= size <= cgranted ch
  | _ => False
  end.
Proof. intros (_ & _ & _ & _ & _ & G6 & G7 & _). cbn. repeat split; assumption. Qed.

(* Bump::reset keeps exactly the last (largest) chunk *)
Theorem reset_keeps_exactly_last c s i lst t r :
  cur s = Cur i -> rev (chunks s) = lst :: t ->
  chunks (fst (step c s OReset r)) = [reset_chunk c lst].
Proof.
  intros Ec Er. cbn [step]. cbn [cur upd_live tick]. rewrite Ec. cbn [chunks upd_live tick]. rewrite Er.
  cbn [fst chunks upd_cur upd_chunks]. reflexivity.
Qed.

(* =========================== C07: allocation failure =========================== *)
(* a refused chunk request is always an error, links nothing and keeps the current chunk *)
Theorem refused_grow_is_error c s size align :
  exists e, snd (grow_arena c s size align None) = Some e /\
            chunks (fst (grow_arena c s size align None)) = chunks s /\
            cur (fst (grow_arena c s size align None)) = cur s /\
            frame s (fst (grow_arena c s size align None)).
Proof.
  unfold grow_arena. destruct (new_chunk_size _ _ _ _).
  - exists ErrAlloc. cbn. repeat split.
  - exists ErrOverflow. cbn. repeat split.
Qed.

(* an overflowing size computation is an error too, and does not even call the base allocator *)
Theorem overflow_is_error c s size align r :
  new_chunk_size c (prev_size s) size align = None ->
  grow_arena c s size align r = (s, Some ErrOverflow).
Proof. intros H. unfold grow_arena. fold (prev_size s). rewrite H. reflexivity. Qed.

(* allocation never touches the ghost list, memory, claims, alignments *)
Lemma grow_arena_frame c s size align r : frame s (fst (grow_arena c s size align r)).
Proof.
  unfold grow_arena. destruct (new_chunk_size _ _ _ _); [|apply frame_refl].
  destruct r as [[a g]|]; repeat split.
Qed.

Lemma in_another_chunk_frame {R} c s h size align (f : chunk -> option (R * chunk)) r :
  frame s (fst (in_another_chunk c s h size align f r)).
Proof.
  unfold in_another_chunk. destruct h as [i| |]; [| |apply frame_refl].
  - destruct (walk_next c f (chunks s) i (length (chunks s))) as [[cs j] [res|]]; [repeat split|].
    set (s0 := upd_cur (upd_chunks s cs) (Cur j)).
    pose proof (grow_arena_frame c s0 size align r) as Hm.
    assert (H0 : frame s s0) by repeat split.
    destruct (grow_arena c s0 size align r) as [s1 [e|]]; cbn [fst] in *; [eapply frame_trans; eassumption|].
    destruct (cur s1); try (eapply frame_trans; eassumption).
    destruct (nth_error (chunks s1) i0); try (eapply frame_trans; eassumption).
    destruct (f c0) as [[res ch1]|]; cbn [fst]; [|eapply frame_trans; eassumption].
    eapply frame_trans; [exact H0|]. eapply frame_trans; [exact Hm|]. repeat split.
  - pose proof (grow_arena_frame c s size align r) as Hm.
    destruct (grow_arena c s size align r) as [s1 [e|]]; cbn [fst] in *; [exact Hm|].
    destruct (cur s1); try exact Hm. destruct (nth_error (chunks s1) i); try exact Hm.
    destruct (f c0) as [[res ch1]|]; cbn [fst]; [|exact Hm]. eapply frame_trans; [exact Hm|]. repeat split.
Qed.

Lemma raw_alloc_frame c s size align r : frame s (fst (raw_alloc c s size align r)).
Proof.
  unfold raw_alloc. destruct (cur s) as [i| |]; try apply in_another_chunk_frame.
  destruct (nth_error (chunks s) i); [|apply frame_refl].
  destruct (chunk_alloc c (malign s) c0 size align) as [[p ch1]|]; [repeat split|apply in_another_chunk_frame].
Qed.

(* a failed allocation leaves every live block, every byte and the claim state as they were;
   by ArenaInv.step_inv_partial the state still satisfies the invariant and keeps working *)
Theorem failed_alloc_keeps_live_and_memory c s h ws size align zeroed r e :
  o_res (snd (step c s (OAlloc h ws size align zeroed) r)) = RErr e ->
  let s' := fst (step c s (OAlloc h ws size align zeroed) r) in
  live s' = live s /\ (forall a, mem s' a = mem s a) /\ depth s' = depth s /\ aligns s' = aligns s.
Proof.
  cbn [step]. set (s1 := tick s). destruct (negb (is_top s1 h)); [cbn; intros _; repeat split|].
  pose proof (raw_alloc_frame c s1 size align r) as Hf.
  destruct (raw_alloc c s1 size align r) as [s2 [p|e0]]; cbn [fst] in Hf.
  - destruct (add_block _ _ _ _); cbn. discriminate.
  - cbn [snd fst o_res]. intros _. destruct Hf as (F1 & F2 & F3 & F4 & _).
    rewrite F1, F2, F3, F4. repeat split.
Qed.

Theorem failed_alloc_still_satisfies_invariant c s h ws size align zeroed r :
  cfg_ok c -> inv c s -> valid_layout size align -> resp_ok c s size align r ->
  inv c (fst (step c s (OAlloc h ws size align zeroed) r)).
Proof. intros. apply step_inv_alloc; assumption. Qed.

(* a claimed handle: every memory request is an error, nothing changes *)
Theorem claimed_alloc_fails c s h ws size align zeroed r :
  h <> depth s ->
  step c s (OAlloc h ws size align zeroed) r = (tick s, mkOut (RErr ErrClaimed) [] false).
Proof.
  intros Hne. cbn [step]. unfold is_top. cbn [tick depth].
  destruct (Nat.eqb_spec h (depth s)); [contradiction|]. cbn [negb].
  unfold new_events. rewrite Nat.sub_diag. reflexivity.
Qed.
