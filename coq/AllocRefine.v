(* AllocRefine.v — the position arithmetic of the CURRENT src/allocator_impl.rs (is_last,
   deallocate_assume_last, grow, shrink, shrink_unfit, align_fits) and of RawChunk::set_pos_addr_and_align
   — cut out expression by expression by tools/allocsites.py and translated into gen/AllocSites.v on
   every run — computes exactly the terms the hand-written arena model (Arena.v: is_last,
   dealloc_assume_last, raw_grow, raw_shrink, divides) computes in the same places, and none of the
   unchecked additions / subtractions can wrap for addresses inside a chunk (`Ok`).
   Each theorem names the model term on its right-hand side; the lemmas at the end restate the
   model's branches in exactly those terms, so that the correspondence "code expression = model
   expression" is visible without unfolding Arena.v. *)
From Coq Require Import ZArith Lia Bool ZifyBool.
From BS Require Import Word BumpSpec ChunkSpec Arena ArenaInv LibRefine.
From BS.gen Require LibArith AllocSites.
Open Scope Z_scope.

(* the helper copies inside the unit are the translated helpers of lib.rs *)
Lemma helpers_same :
  AllocSites.up_align_usize_unchecked = LibArith.up_align_usize_unchecked /\
  AllocSites.down_align_usize = LibArith.down_align_usize /\
  AllocSites.bump_down = LibArith.bump_down /\
  AllocSites.align_pos = LibArith.align_pos.
Proof. repeat split; reflexivity. Qed.

Lemma site_up_align x a :
  pow2 a -> a < W -> 0 <= x -> x + a - 1 < W -> AllocSites.up_align_usize_unchecked x a = Ok (up_alignZ x a).
Proof. apply lib_up_align_unchecked_ok. Qed.

Lemma site_bump_down addr size align :
  pow2 align -> align < W -> 0 <= addr < W -> 0 <= size ->
  AllocSites.bump_down addr size align = Ok (down_alignZ (Z.max (addr - size) 0) align).
Proof. apply lib_bump_down_refines. Qed.

Lemma call_ok {R A} (x : A) : @call R A (Ok x) = Norm x. Proof. reflexivity. Qed.

(* ---------------- is_last: Arena.is_last *)
Theorem is_last_refines ptr size pos :
  0 <= ptr -> 0 <= size -> ptr + size < W ->
  AllocSites.is_last_up ptr size pos = Ok (ptr + size =? pos) /\
  AllocSites.is_last_down ptr pos = Ok (ptr =? pos).
Proof.
  intros H1 H2 H3. unfold AllocSites.is_last_up, AllocSites.is_last_down.
  rewrite add_ok by lia. split; reflexivity.
Qed.

(* ---------------- deallocate_assume_last: Arena.dealloc_assume_last (align_posZ of ptr / ptr + size) *)
Theorem dealloc_target_refines upb m ptr size :
  valid_min_align m -> 0 <= ptr -> 0 <= size -> ptr + size + m - 1 < W ->
  (AllocSites.dealloc_up_target ptr = Ok ptr /\ AllocSites.dealloc_down_target ptr size = Ok (ptr + size)) /\
  AllocSites.set_pos_and_align_addr upb m (if upb then ptr else ptr + size)
  = Ok (align_posZ upb m (if upb then ptr else ptr + size)).
Proof.
  intros Hm H1 H2 H3. assert (0 < m) by (destruct Hm as [Hp _]; apply pow2_pos; exact Hp).
  split.
  - unfold AllocSites.dealloc_up_target, AllocSites.dealloc_down_target. rewrite add_ok by lia. split; reflexivity.
  - unfold AllocSites.set_pos_and_align_addr.
    change AllocSites.align_pos with LibArith.align_pos.
    rewrite align_pos_refines by (try assumption; destruct upb; lia). reflexivity.
Qed.

(* ---------------- grow, upwards: remaining, fit test, new position (Arena.raw_grow, up, in place) *)
Theorem grow_up_refines chunk_end ptr nsize m :
  valid_min_align m -> 0 <= ptr <= chunk_end -> 0 <= nsize -> ptr + nsize + m - 1 < W ->
  AllocSites.grow_up_remaining chunk_end ptr = Ok (chunk_end - ptr) /\
  AllocSites.grow_up_fits nsize (chunk_end - ptr) = Ok (nsize <=? chunk_end - ptr) /\
  AllocSites.grow_up_new_pos ptr nsize m = Ok (up_alignZ (ptr + nsize) m).
Proof.
  intros Hm H1 H2 H3. destruct Hm as [Hp Hle]. pose proof (pow2_pos _ Hp).
  unfold AllocSites.grow_up_remaining, AllocSites.grow_up_fits, AllocSites.grow_up_new_pos.
  rewrite sub_ok by lia. rewrite add_ok by lia. cbn [bindc].
  rewrite site_up_align by (try assumption; rewrite ?W_val; lia). repeat split; reflexivity.
Qed.

(* ---------------- grow, downwards (Arena.raw_grow, down, in place) *)
Theorem grow_down_refines ptr osize nsize nalign m very_start :
  valid_min_align m -> pow2 nalign -> nalign < W -> 0 <= ptr < W -> 0 <= osize <= nsize ->
  let new_addr := down_alignZ (Z.max (ptr - (nsize - osize)) 0) (Z.max nalign m) in
  new_addr + nsize < W ->
  AllocSites.grow_down_additional nsize osize = Ok (nsize - osize) /\
  AllocSites.grow_down_new_addr ptr (nsize - osize) nalign m = Ok new_addr /\
  AllocSites.grow_down_fits new_addr very_start = Ok (very_start <=? new_addr) /\
  AllocSites.grow_down_new_addr_end new_addr nsize = Ok (new_addr + nsize) /\
  AllocSites.grow_down_nonoverlapping (new_addr + nsize) ptr = Ok (new_addr + nsize <? ptr).
Proof.
  intros Hm Hna HnW Hp Hs new_addr Hb. destruct Hm as [Hpm Hle].
  assert (Hmx : pow2 (Z.max nalign m)) by (apply pow2_max; assumption).
  assert (HmW : Z.max nalign m < W) by (apply Z.max_lub_lt; [exact HnW | rewrite W_val; lia]).
  assert (0 <= new_addr).
  { unfold new_addr, down_alignZ. pose proof (pow2_pos _ Hmx) as Hpos.
    pose proof (Z.mod_le (Z.max (ptr - (nsize - osize)) 0) (Z.max nalign m) ltac:(lia) Hpos). lia. }
  unfold AllocSites.grow_down_additional, AllocSites.grow_down_new_addr, AllocSites.grow_down_fits,
    AllocSites.grow_down_new_addr_end, AllocSites.grow_down_nonoverlapping.
  rewrite sub_ok by lia. rewrite site_bump_down by (try assumption; lia). rewrite call_ok. cbn [bindc run].
  fold new_addr. rewrite add_ok by lia. repeat split; reflexivity.
Qed.

(* ---------------- shrink, upwards and downwards (Arena.raw_shrink, last block, alignment fits) *)
Theorem shrink_up_refines ptr nsize m :
  valid_min_align m -> 0 <= ptr -> 0 <= nsize -> ptr + nsize + m - 1 < W ->
  AllocSites.shrink_up_end ptr nsize = Ok (ptr + nsize) /\
  AllocSites.shrink_up_new_pos (ptr + nsize) m = Ok (up_alignZ (ptr + nsize) m).
Proof.
  intros Hm H1 H2 H3. destruct Hm as [Hp Hle]. pose proof (pow2_pos _ Hp).
  unfold AllocSites.shrink_up_end, AllocSites.shrink_up_new_pos. rewrite add_ok by lia.
  rewrite site_up_align by (try assumption; rewrite ?W_val; lia). split; reflexivity.
Qed.

Theorem shrink_down_refines ptr osize nsize nalign m :
  valid_min_align m -> pow2 nalign -> nalign < W -> 0 <= ptr -> 0 <= nsize <= osize -> ptr + osize < W ->
  let new_addr := down_alignZ (Z.max (ptr + osize - nsize) 0) (Z.max nalign m) in
  AllocSites.shrink_down_old_end ptr osize = Ok (ptr + osize) /\
  AllocSites.shrink_down_new_addr (ptr + osize) nsize nalign m = Ok new_addr /\
  AllocSites.shrink_down_copy_src_end ptr nsize = Ok (ptr + nsize) /\
  AllocSites.shrink_down_overlaps (ptr + nsize) new_addr = Ok (new_addr <? ptr + nsize).
Proof.
  intros Hm Hna HnW Hp Hs Hb new_addr. destruct Hm as [Hpm Hle].
  assert (Hmx : pow2 (Z.max nalign m)) by (apply pow2_max; assumption).
  assert (HmW : Z.max nalign m < W) by (apply Z.max_lub_lt; [exact HnW | rewrite W_val; lia]).
  unfold AllocSites.shrink_down_old_end, AllocSites.shrink_down_new_addr, AllocSites.shrink_down_copy_src_end,
    AllocSites.shrink_down_overlaps.
  rewrite !add_ok by lia. rewrite site_bump_down by (try assumption; lia). repeat split; reflexivity.
Qed.

(* ---------------- shrink_unfit: the ends compared in the overlap tests (np <? ptr + nsize / ptr <? np + nsize) *)
Theorem unfit_ends_refine ptr np nsize :
  0 <= ptr -> 0 <= np -> 0 <= nsize -> ptr + nsize < W -> np + nsize < W ->
  AllocSites.unfit_up_old_end ptr nsize = Ok (ptr + nsize) /\ AllocSites.unfit_down_new_end np nsize = Ok (np + nsize).
Proof.
  intros. unfold AllocSites.unfit_up_old_end, AllocSites.unfit_down_new_end. rewrite !add_ok by lia. split; reflexivity.
Qed.

(* ---------------- align_fits: Arena.divides *)
Theorem is_aligned_to_refines ptr a :
  pow2 a -> 0 <= ptr -> AllocSites.is_aligned_to ptr a = Ok (divides a ptr).
Proof.
  intros [k [Hk ->]] Hp. unfold AllocSites.is_aligned_to, divides.
  assert (0 < 2 ^ k) by (apply Z.pow_pos_nonneg; lia).
  rewrite sub_ok by lia. cbn [bindc run]. unfold and64.
  replace (2 ^ k - 1) with (Z.ones k) by (rewrite Z.ones_equiv; lia).
  rewrite Z.land_ones by exact Hk. reflexivity.
Qed.

(* ---------------- the model's branches, restated in those terms *)
Lemma model_is_last c s ptr size ch :
  cur_chunk s = Some ch -> is_last c s ptr size = if up c then ptr + size =? cpos ch else ptr =? cpos ch.
Proof. intros E. unfold is_last. rewrite E. reflexivity. Qed.

Lemma model_dealloc_target c s ptr size :
  deallocates c = true ->
  dealloc_assume_last c s ptr size = set_cur_pos s (align_posZ (up c) (malign s) (if up c then ptr else ptr + size)).
Proof. intros E. unfold dealloc_assume_last. rewrite E. cbn [negb]. destruct (up c); reflexivity. Qed.

Lemma model_grow_up_in_place c s ptr osize oalign nsize nalign r ch :
  up c = true -> is_last c s ptr osize = true -> divides nalign ptr = true -> cur_chunk s = Some ch ->
  (nsize <=? content_end c ch - ptr) = true ->
  raw_grow c s ptr osize oalign nsize nalign r = (set_cur_pos s (up_alignZ (ptr + nsize) (malign s)), inl (mkRO ptr nsize false)).
Proof. intros U L D E F. unfold raw_grow. rewrite U, L, D, E. cbn [andb]. rewrite F. reflexivity. Qed.

Lemma model_shrink_up_in_place c s ptr osize oalign nsize nalign r :
  up c = true -> divides nalign ptr = true -> shrinks c = true -> is_last c s ptr osize = true ->
  raw_shrink c s ptr osize oalign nsize nalign r = (set_cur_pos s (up_alignZ (ptr + nsize) (malign s)), inl (mkRO ptr nsize false)).
Proof. intros U D S L. unfold raw_shrink. rewrite D, S, L, U. reflexivity. Qed.

(* ---------------- chunk growth: Arena.new_chunk_size composes calc_hint_from_capacity (C12), twice the previous
   chunk size, the minimum chunk size and calc_size_from_hint exactly as append_for / grow_size /
   ChunkSizeHint::{max, calc_size} do *)
Theorem grow_size_hint_refines ps :
  AllocSites.grow_size_hint ps = Ok (if W <=? 2 * ps then None else Some (2 * ps)).
Proof.
  unfold AllocSites.grow_size_hint, checked_mul. cbn [Word.run]. f_equal.
  replace (ps * 2) with (2 * ps) by ring.
  destruct (Z.ltb_spec (2 * ps) W); destruct (Z.leb_spec W (2 * ps)); try reflexivity; lia.
Qed.

Theorem hint_composition_refines req grown minimum :
  AllocSites.hint_max req grown = Ok (Z.max req grown) /\
  AllocSites.calc_size_hint (Z.max req grown) minimum = Ok (Z.max (Z.max req grown) minimum).
Proof.
  unfold AllocSites.calc_size_hint, AllocSites.hint_max. cbn [Word.run call bindc].
  split; f_equal.
  - destruct (Z.ltb_spec grown req); cbv iota; lia.
  - destruct (Z.ltb_spec minimum (Z.max req grown)); cbv iota; lia.
Qed.

(* the model's chunk size, restated in those terms: the hint handed to calc_size_from_hint is
   max (max required (2 * previous)) minimum, and a doubling that leaves usize is an error *)
Lemma model_new_chunk_size c ps size align :
  new_chunk_size c (Some ps) size align =
  (let req := spec_hint (up c) (hs c) (ha c) size align in
   if W <=? req then None else
   if W <=? 2 * ps then None else
   let hint := Z.max (Z.max req (2 * ps)) (min_chunk c) in
   if W <=? spec_size0 (hs c) (ha c) hint then None else
   let n := spec_size_from_hint (up c) (hs c) (ha c) hint in
   if IMAX - (ha c - 1) <? n then None else Some n).
Proof. reflexivity. Qed.

(* ---------------- the typed twin: BumpScope's shrink_slice ("adapted from Allocator::shrink") computes, for a slice of
   old_len / new_len elements of size es and alignment ea, exactly the terms of the Allocator path (shrink_up_refines /
   shrink_down_refines with osize = old_len * es, nsize = new_len * es, nalign = ea) — so the typed fast path and the
   generic layout path agree (C17) and reclaim the same bytes (C13) *)
Theorem typed_shrink_refines ptr old_len new_len es ea m pos :
  valid_min_align m -> pow2 ea -> ea < W -> 0 <= ptr -> 0 <= es -> 0 <= new_len <= old_len ->
  ptr + old_len * es + m - 1 < W -> old_len * es < W ->
  let osize := old_len * es in let nsize := new_len * es in
  let new_addr := down_alignZ (Z.max (ptr + osize - nsize) 0) (Z.max ea m) in
  AllocSites.typed_shrink_old_size old_len es = Ok osize /\
  AllocSites.typed_shrink_new_size new_len es = Ok nsize /\
  AllocSites.typed_is_last_up ptr osize pos = Ok (ptr + osize =? pos) /\
  AllocSites.typed_is_last_down ptr pos = Ok (ptr =? pos) /\
  AllocSites.typed_shrink_up_end ptr nsize = Ok (ptr + nsize) /\
  AllocSites.typed_shrink_up_new_pos (ptr + nsize) m = Ok (up_alignZ (ptr + nsize) m) /\
  AllocSites.typed_shrink_down_old_end ptr osize = Ok (ptr + osize) /\
  AllocSites.typed_shrink_down_new_addr (ptr + osize) nsize ea m = Ok new_addr /\
  AllocSites.typed_shrink_down_new_end ptr nsize = Ok (ptr + nsize) /\
  AllocSites.typed_shrink_down_overlaps (ptr + nsize) new_addr = Ok (new_addr <? ptr + nsize).
Proof.
  intros Hm Hea HeW Hp Hes Hl Hb HoW osize nsize new_addr. destruct Hm as [Hpm Hle].
  pose proof (pow2_pos _ Hpm) as Hm0.
  assert (Hn : 0 <= nsize <= osize) by (unfold nsize, osize; split; [apply Z.mul_nonneg_nonneg; lia|apply Z.mul_le_mono_nonneg_r; lia]).
  assert (Hmx : pow2 (Z.max ea m)) by (apply pow2_max; assumption).
  assert (HmW : Z.max ea m < W) by (apply Z.max_lub_lt; [exact HeW | rewrite W_val; lia]).
  unfold AllocSites.typed_shrink_old_size, AllocSites.typed_shrink_new_size, AllocSites.typed_is_last_up,
    AllocSites.typed_is_last_down, AllocSites.typed_shrink_up_end, AllocSites.typed_shrink_up_new_pos,
    AllocSites.typed_shrink_down_old_end, AllocSites.typed_shrink_down_new_addr, AllocSites.typed_shrink_down_new_end,
    AllocSites.typed_shrink_down_overlaps.
  fold osize nsize.
  rewrite !mul_ok by (fold osize nsize; lia). fold osize nsize.
  assert (Hx : ptr + nsize + m - 1 < W) by lia.
  rewrite !add_ok by lia.
  rewrite site_up_align by (try assumption; rewrite ?W_val; lia).
  rewrite site_bump_down by (try assumption; lia).
  repeat split; reflexivity.
Qed.

(* ---------------- committing a typed prepared slice: RawChunk::set_pos_addr_and_align_from is Arena.commit_pos (typed):
   re-align, in bump direction, exactly when the element alignment is below the minimum alignment *)
Theorem commit_pos_refines (c : cfg) m ea x :
  valid_min_align m -> 0 <= x -> x + m - 1 < W ->
  AllocSites.commit_pos_from (up c) m x ea = Ok (commit_pos c m ea false x).
Proof.
  intros Hm Hx Hb. unfold AllocSites.commit_pos_from, commit_pos. cbn [orb].
  destruct (ea <? m).
  - change AllocSites.align_pos with LibArith.align_pos.
    rewrite align_pos_refines by assumption. reflexivity.
  - reflexivity.
Qed.
