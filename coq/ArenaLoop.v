(* ArenaLoop.v — C03: a fixed workload run in a reset() loop stops requesting chunks.
   (1) a chunk with enough room serves a whole workload on the fast path, without any request;
   (2) reset keeps the largest (= last) chunk, and a round that did request leaves a surviving
       chunk at least 16 bytes larger than the one it started with;
   hence the number of rounds that request anything is bounded by a number that depends only on
   the workload and the first chunk — however many rounds are run. *)
From Coq Require Import ZArith List Lia Bool.
From BS Require Import Word BumpSpec ChunkSpec Arena ArenaInv ArenaReplay.
Import ListNotations.
Open Scope Z_scope.

(* a conservative bound on what a workload consumes: size + alignment padding + rounding *)
Definition need1 (l : Z * Z) : Z := fst l + snd l + 16.
Definition need (w : list (Z * Z)) : Z := fold_right (fun l acc => need1 l + acc) 0 w.

Lemma chunk_alloc_room c m ch size align :
  cfg_ok c -> chunk_ok c ch -> valid_min_align m -> (m | cpos ch) -> valid_layout size align ->
  size + align + 16 <= remaining_in c ch ->
  exists p ch1, chunk_alloc c m ch size align = Some (p, ch1) /\
    remaining_in c ch - (size + align + 16) <= remaining_in c ch1.
Proof.
  intros Hc [Hg Hpos] Hm Hmp (Ha2 & Hs0 & _) Hroom.
  pose proof (pow2_pos _ Ha2) as Hap. pose proof (min_align_pos _ Hm) as Hmpos. destruct Hm as [Hm2 Hm16].
  unfold chunk_alloc, remaining_in in *. destruct (up c) eqn:Eup.
  - unfold spec_up. set (q := up_alignZ (cpos ch) align).
    pose proof (up_align_ge (cpos ch) align Hap) as Q1. pose proof (up_align_lt (cpos ch) align Hap) as Q2. fold q in Q1, Q2.
    pose proof (up_align_lt (q + size) m Hmpos) as N2.
    destruct (Z.leb_spec (cpos ch) (content_end c ch)); [|lia].
    destruct (Z.leb_spec (q + size) (content_end c ch)); [|lia]. cbn [andb].
    eexists _, _. split; [reflexivity|]. cbn [set_pos cpos content_end cbase csize].
    unfold content_end in *. rewrite Eup in *. cbn [cbase csize set_pos]. lia.
  - unfold spec_down. set (A := Z.max align m).
    assert (HA : 0 < A <= align + 16) by (unfold A; lia).
    pose proof (down_align_gt (cpos ch - size) A ltac:(lia)) as P1.
    pose proof (down_align_le (cpos ch - size) A ltac:(lia)) as P2.
    destruct (Z.leb_spec (content_start c ch) (cpos ch)); [|lia].
    destruct (Z.leb_spec (content_start c ch) (down_alignZ (cpos ch - size) A)); [|lia]. cbn [andb].
    eexists _, _. split; [reflexivity|]. cbn [set_pos cpos].
    unfold content_start in *. rewrite Eup in *. cbn [cbase set_pos]. lia.
Qed.

Lemma need_nonneg w : Forall (fun l => valid_layout (fst l) (snd l)) w -> 0 <= need w.
Proof.
  induction 1 as [|[sz al] t (Ha2 & Hs0 & _) _ IH]; [cbn; lia|].
  change (need ((sz, al) :: t)) with (need1 (sz, al) + need t). unfold need1. cbn [fst snd] in *.
  pose proof (pow2_pos _ Ha2). lia.
Qed.

(* a whole workload in the current chunk: no request, only that chunk's position moves *)
Lemma allocs_room c : forall w rs s j ch,
  cfg_ok c -> Forall (fun l => valid_layout (fst l) (snd l)) w ->
  cur s = Cur j -> nth_error (chunks s) j = Some ch -> chunk_ok c ch ->
  valid_min_align (malign s) -> (malign s | cpos ch) -> need w <= remaining_in c ch ->
  exists s' outs ch', allocs c s w rs = (s', outs) /\ Forall is_inl outs /\ ledger s' = ledger s /\
    cur s' = Cur j /\ chunks s' = set_nth (chunks s) j ch' /\ geomt ch' = geomt ch /\ aligns s' = aligns s /\
    live s' = live s /\ chunk_ok c ch' /\ (malign s | cpos ch').
Proof.
  induction w as [|[size align] w IH]; intros rs s j ch Hc Hw Ec En Hok Hm Hmp Hneed.
  - exists s, [], ch. split; [reflexivity|]. split; [constructor|]. split; [reflexivity|]. split; [exact Ec|].
    split; [symmetry; apply set_nth_same; exact En|]. split; [reflexivity|]. split; [reflexivity|]. split; [reflexivity|].
    split; [exact Hok|exact Hmp].
  - inversion Hw as [|? ? Hl Hw']; subst. cbn [fst snd] in Hl.
    pose proof (need_nonneg w Hw') as Hn0.
    change (need ((size, align) :: w)) with (need1 (size, align) + need w) in Hneed. unfold need1 in Hneed. cbn [fst snd] in Hneed.
    destruct (chunk_alloc_room c (malign s) ch size align Hc Hok Hm Hmp Hl ltac:(lia)) as (p & ch1 & Ea & Hrem).
    destruct (chunk_alloc_geom c _ ch size align p ch1 Hc Hok Hm Hmp Hl Ea) as (Hok1 & Hsg & Hmp1 & _).
    cbn [allocs]. unfold raw_alloc at 1. rewrite Ec, En, Ea.
    set (s1 := upd_chunks s (set_nth (chunks s) j ch1)).
    pose proof (nth_error_some_lt _ _ _ En) as Hlt.
    assert (En1 : nth_error (chunks s1) j = Some ch1) by (apply nth_error_set_nth_eq; exact Hlt).
    destruct (IH (tl rs) s1 j ch1 Hc Hw' Ec En1 Hok1 Hm Hmp1 ltac:(lia)) as (s' & outs & ch' & Hal & Hall & Hled & Ecs & Ech & Eg & Eal & Elv & Hok' & Hmp').
    exists s', (inl p :: outs), ch'. rewrite Hal. split; [reflexivity|]. split; [constructor; [exact I|exact Hall]|].
    split; [exact Hled|]. split; [exact Ecs|]. split.
    + rewrite Ech. unfold s1. cbn [chunks upd_chunks]. apply set_nth_set_nth.
    + split; [rewrite Eg; destruct Hsg as (E1 & E2 & E3 & E4); unfold geomt; congruence|].
      split; [exact Eal|]. split; [exact Elv|]. split; [exact Hok'|exact Hmp'].
Qed.

(* ---------------------------------------------------------------- rounds *)
From BS Require Import ArenaSizes.

(* every answer of the base allocator during a workload is one it may give *)
Fixpoint allocs_ok (c : cfg) (s : arena) (w : list (Z * Z)) (rs : list resp) : Prop :=
  match w with
  | [] => True
  | (size, align) :: w' =>
    resp_ok c s size align (hd None rs) /\ allocs_ok c (fst (raw_alloc c s size align (hd None rs))) w' (tl rs)
  end.

Definition gsz (g : Z * Z * Z * Z) : Z := snd (fst (fst g)).
Lemma sizes_geoms s : sizes s = map gsz (geoms (chunks s)).
Proof. unfold sizes, geoms. rewrite map_map. reflexivity. Qed.

Lemma allocs_keeps c : forall w rs s j,
  cfg_ok c -> Forall (fun l => valid_layout (fst l) (snd l)) w -> allocs_ok c s w rs ->
  ginv c s -> incr (sizes s) -> cur s = Cur j ->
  let s1 := fst (allocs c s w rs) in
  ginv c s1 /\ incr (sizes s1) /\ live s1 = live s /\ mono j s s1.
Proof.
  induction w as [|[size align] w IH]; intros rs s j Hc Hw Hok Hg Hi Ec.
  - cbn. split; [exact Hg|]. split; [exact Hi|]. split; [reflexivity|].
    apply mono_refl; [exact Ec|]. destruct Hg as (_ & _ & _ & Hcur). rewrite Ec in Hcur. destruct Hcur as (ch & En & _).
    eapply nth_error_some_lt; exact En.
  - inversion Hw as [|? ? Hl Hw']; subst. cbn [fst snd] in Hl. destruct Hok as [Hr Hok'].
    assert (Hj : (j < length (chunks s))%nat).
    { destruct Hg as (_ & _ & _ & Hcur). rewrite Ec in Hcur. destruct Hcur as (ch & En & _). eapply nth_error_some_lt; exact En. }
    pose proof (raw_alloc_mono c s j size align (hd None rs) Ec Hj) as M1.
    pose proof (raw_alloc_sizes c s size align (hd None rs) Hc Hi (resp_ok_grant _ _ _ _ _ Hr)) as Hi1.
    cbn [allocs]. destruct (raw_alloc c s size align (hd None rs)) as [s1 res] eqn:Ea. cbn [fst] in *.
    destruct (raw_alloc_post c s size align _ s1 res Hc Hg Hl Hr Ea) as (Hfr & Hg1 & _).
    pose proof M1 as (_ & _ & _ & (j1 & Ec1 & Hjj & Hl1)).
    destruct (IH (tl rs) s1 j1 Hc Hw' Hok' Hg1 Hi1 Ec1) as (Hg2 & Hi2 & Hlv & M2).
    destruct (allocs c s1 w (tl rs)) as [s2 out] eqn:Ew. cbn [fst] in *.
    split; [exact Hg2|]. split; [exact Hi2|]. split; [destruct Hfr as (E & _); congruence|].
    apply (mono_trans j j1 s s1 s2 M1); [intros j' E; congruence|exact M2].
Qed.

(* reset(): only the last chunk survives, rewound *)
Definition lastsz (s : arena) : Z := match rev (chunks s) with ch :: _ => csize ch | [] => 0 end.

Definition loop_state (c : cfg) (s : arena) (ch : chunk) : Prop :=
  ginv c s /\ live s = [] /\ cur s = Cur 0%nat /\ chunks s = [ch] /\ cpos ch = fresh_pos c ch.

Lemma loop_state_incr c s ch : cfg_ok c -> loop_state c s ch -> incr (sizes s).
Proof. intros Hc (Hg & _ & _ & E & _). apply (incr_fresh c s Hc Hg). rewrite E. cbn. lia. Qed.

Lemma ginv_inv c s : ginv c s -> live s = [] -> inv c s.
Proof. intros Hg E. split; [exact Hg|]. unfold ids_ok. rewrite E. cbn. split; [constructor|]. split; [constructor|]. split; constructor. Qed.

Lemma reset_gives_loop_state c s j r :
  cfg_ok c -> ginv c s -> live s = [] -> cur s = Cur j ->
  exists lst t, rev (chunks s) = lst :: t /\
    loop_state c (fst (step c s OReset r)) (reset_chunk c lst) /\
    aligns (fst (step c s OReset r)) = aligns s.
Proof.
  intros Hc Hg Hl Ec. pose proof (step_inv_reset c s r Hc (ginv_inv c s Hg Hl)) as (Hg' & _).
  destruct Hg as (_ & _ & _ & Hcur). rewrite Ec in Hcur. destruct Hcur as (ch0 & En & _).
  revert Hg'. cbn [step]. cbn [cur upd_live tick]. rewrite Ec. cbn [chunks upd_live tick].
  destruct (rev (chunks s)) as [|lst t] eqn:Er.
  { exfalso. assert (E : chunks s = []) by (rewrite <- (rev_involutive (chunks s)), Er; reflexivity). rewrite E in En. destruct j; discriminate. }
  cbn [fst]. intros Hg'. exists lst, t. split; [reflexivity|].
  match goal with |- context [log_events ?a ?b] => destruct (log_events_fields a b) as (A1 & A2 & A3 & A4 & _) end.
  split.
  - split; [exact Hg'|]. cbn [live cur chunks upd_cur upd_chunks]. split; [rewrite A4; reflexivity|].
    split; [reflexivity|]. split; [reflexivity|]. unfold reset_chunk, set_pos, fresh_pos, content_start, content_end. cbn. reflexivity.
  - cbn [aligns upd_cur upd_chunks]. rewrite A3. reflexivity.
Qed.

Lemma reset_single_ledger c s ch r :
  cur s = Cur 0%nat -> chunks s = [ch] -> ledger (fst (step c s OReset r)) = ledger s.
Proof.
  intros Ec E. cbn [step]. cbn [cur upd_live tick chunks]. rewrite Ec, E. cbn [rev app fst].
  unfold reset_events. cbn [cur upd_live tick chunks]. rewrite Ec, E. cbn. reflexivity.
Qed.

Lemma incr_head_lt a l : incr (a :: l) -> forall b, In b l -> a < b.
Proof.
  revert a. induction l as [|x l IH]; intros a Hi b Hb; [destruct Hb|].
  cbn [incr] in Hi. destruct Hi as (_ & Hax & Hi). destruct Hb as [->|Hb]; [exact Hax|].
  pose proof (IH x Hi b Hb). lia.
Qed.

(* what one round does to a loop state *)
Lemma round_progress c w rs s ch r :
  cfg_ok c -> Forall (fun l => valid_layout (fst l) (snd l)) w -> loop_state c s ch -> allocs_ok c s w rs ->
  let s1 := fst (allocs c s w rs) in
  let s2 := fst (step c s1 OReset r) in
  exists ch2, loop_state c s2 ch2 /\ aligns s2 = aligns s /\ csize ch <= csize ch2 /\
    ((length (chunks s) < length (chunks s1))%nat -> csize ch + 16 <= csize ch2).
Proof.
  intros Hc Hw HL Hok s1 s2. pose proof (loop_state_incr c s ch Hc HL) as Hi.
  destruct HL as (Hg & Hlv & Ec & Ech & Hfresh).
  destruct (allocs_keeps c w rs s 0%nat Hc Hw Hok Hg Hi Ec) as (Hg1 & Hi1 & Hlv1 & M). fold s1 in Hg1, Hi1, Hlv1, M.
  destruct M as ([t Et] & Eal & _ & (j1 & Ec1 & _ & Hl1)).
  destruct (reset_gives_loop_state c s1 j1 r Hc Hg1 (eq_trans Hlv1 Hlv) Ec1) as (lst & tl_ & Er & HL2 & Eal2). fold s2 in HL2, Eal2.
  exists (reset_chunk c lst). split; [exact HL2|]. split; [congruence|].
  assert (Hsz : sizes s1 = csize ch :: map gsz t).
  { rewrite sizes_geoms, Et, Ech. cbn. reflexivity. }
  assert (Hlast : In (csize lst) (sizes s1)).
  { unfold sizes. apply in_map. apply in_rev. rewrite Er. left; reflexivity. }
  change (csize (reset_chunk c lst)) with (csize lst).
  assert (H16 : forall x, In x (chunks s1) -> (16 | csize x)).
  { intros x Hx. destruct Hg1 as (Hall & _). rewrite Forall_forall in Hall. destruct (Hall x Hx) as ((_ & _ & H & _) & _). exact H. }
  assert (Hch16 : (16 | csize ch)).
  { destruct Hg as (Hall & _). rewrite Ech in Hall. inversion Hall as [|? ? ((_ & _ & H & _) & _) _]; subst. exact H. }
  assert (Hlen : length (chunks s1) = S (length t)).
  { rewrite <- (geoms_length (chunks s1)), Et, Ech. cbn. reflexivity. }
  destruct t as [|g t'].
  - (* no chunk was added: the survivor is the same chunk *)
    rewrite Hsz in Hlast. cbn in Hlast. destruct Hlast as [E|[]]. split; [lia|]. rewrite Ech, Hlen. cbn. lia.
  - (* chunks were added: the last is strictly larger, both multiples of 16 *)
    assert (Hlt : csize ch < csize lst).
    { apply (incr_head_lt (csize ch) (map gsz (g :: t'))); [rewrite <- Hsz; exact Hi1|].
      assert (Es : rev (sizes s1) = csize lst :: map csize tl_) by (unfold sizes; rewrite <- map_rev, Er; reflexivity).
      rewrite Hsz in Es. cbn [rev] in Es.
      assert (Hin : In (csize lst) (rev (map gsz (g :: t')) ++ [csize ch])) by (rewrite Es; left; reflexivity).
      apply in_app_or in Hin. destruct Hin as [Hin|[E|[]]]; [apply in_rev in Hin; exact Hin|].
      (* the last size is the first one: impossible with at least two chunks *)
      exfalso. destruct (rev (map gsz (g :: t'))) as [|y ys] eqn:E1.
      - apply (f_equal (@length Z)) in E1. rewrite rev_length in E1. cbn in E1. discriminate.
      - cbn [app] in Es. injection Es as Ey _.
        assert (Hy : In y (map gsz (g :: t'))) by (apply in_rev; rewrite E1; left; reflexivity).
        pose proof (incr_head_lt (csize ch) (map gsz (g :: t')) ltac:(rewrite <- Hsz; exact Hi1) y Hy). lia. }
    assert (Hl16 : (16 | csize lst)) by (apply H16; apply in_rev; rewrite Er; left; reflexivity).
    destruct Hch16 as [k1 Ek1], Hl16 as [k2 Ek2]. split; [lia|]. intros _. lia.
Qed.

(* a round with enough room: no request, and the arena comes back exactly as it was *)
Lemma round_quiet c w rs s ch r :
  cfg_ok c -> Forall (fun l => valid_layout (fst l) (snd l)) w -> loop_state c s ch ->
  need w <= capacity c ch ->
  let s1 := fst (allocs c s w rs) in
  let s2 := fst (step c s1 OReset r) in
  Forall is_inl (snd (allocs c s w rs)) /\ ledger s1 = ledger s /\ length (chunks s1) = length (chunks s) /\
  loop_state c s2 ch /\ ledger s2 = ledger s /\ aligns s2 = aligns s.
Proof.
  intros Hc Hw (Hg & Hlv & Ec & Ech & Hfresh) Hroom s1 s2.
  pose proof Hg as (Hall & _ & Hm & Hcur). rewrite Ec, Ech in Hcur. destruct Hcur as (ch' & En & Hmp). cbn in En. injection En as <-.
  rewrite Ech in Hall. inversion Hall as [|? ? Hchok _]; subst.
  assert (Hrem : need w <= remaining_in c ch).
  { unfold remaining_in, capacity, fresh_pos in *. rewrite Hfresh. destruct (up c); lia. }
  destruct (allocs_room c w rs s 0%nat ch Hc Hw Ec ltac:(rewrite Ech; reflexivity) Hchok Hm Hmp Hrem)
    as (s' & outs & ch1 & Hal & Hin & Hled & Ec' & Ech' & Eg & Eal & Elv & Hok1 & Hmp1).
  assert (E1 : s1 = s') by (unfold s1; rewrite Hal; reflexivity).
  split; [rewrite Hal; exact Hin|]. split; [congruence|].
  rewrite Ech in Ech'. cbn [set_nth] in Ech'. split; [rewrite E1, Ech', Ech; reflexivity|].
  assert (Hg1 : ginv c s1).
  { rewrite E1. destruct Hg as (G1 & G2 & G3 & G4). unfold ginv. rewrite Ech', Ec'. unfold malign. rewrite Eal. fold (malign s).
    split; [constructor; [exact Hok1|constructor]|]. split.
    - intros i j a b Hij Ha Hb. destruct i as [|[|i]], j as [|[|j]]; cbn in Ha, Hb; try discriminate; congruence.
    - split; [exact Hm|]. exists ch1. split; [reflexivity|exact Hmp1]. }
  destruct (reset_gives_loop_state c s1 0%nat r Hc Hg1 ltac:(rewrite E1; congruence) ltac:(rewrite E1; exact Ec')) as (lst & tl_ & Er & HL2 & Eal2).
  fold s2 in HL2, Eal2. rewrite E1, Ech' in Er. cbn in Er. injection Er as <- <-.
  assert (Erc : reset_chunk c ch1 = ch).
  { apply chunk_eq; [unfold reset_chunk, set_pos, geomt in *; cbn; exact Eg|]. unfold reset_chunk. cbn [set_pos cpos].
    rewrite Hfresh. unfold fresh_pos, content_start, content_end. unfold geomt in Eg. injection Eg as -> -> _ _. reflexivity. }
  rewrite Erc in HL2. split; [exact HL2|]. split.
  - unfold s2. rewrite (reset_single_ledger c s1 ch1 r); [congruence|rewrite E1; exact Ec'|rewrite E1; exact Ech'].
  - rewrite Eal2, E1. exact Eal.
Qed.

(* ---------------------------------------------------------------- the loop *)
(* any number of rounds `workload; reset()`.  The second component counts the rounds in which the
   arena obtained a new chunk from the base allocator. *)
Fixpoint rounds (c : cfg) (w : list (Z * Z)) (s : arena) (rss : list (list resp)) : arena * nat :=
  match rss with
  | [] => (s, 0%nat)
  | rs :: rest =>
    let s1 := fst (allocs c s w rs) in
    let s2 := fst (step c s1 OReset None) in
    let '(sf, n) := rounds c w s2 rest in
    (sf, if (length (chunks s) <? length (chunks s1))%nat then S n else n)
  end.

Fixpoint rounds_ok (c : cfg) (w : list (Z * Z)) (s : arena) (rss : list (list resp)) : Prop :=
  match rss with
  | [] => True
  | rs :: rest =>
    allocs_ok c s w rs /\ rounds_ok c w (fst (step c (fst (allocs c s w rs)) OReset None)) rest
  end.

(* once the surviving chunk has room for the workload, no round makes a request: the ledger of
   base-allocator events never grows again and every allocation succeeds — whatever the base
   allocator would have answered *)
Theorem loop_quiet_forever c w : forall rss s ch,
  cfg_ok c -> Forall (fun l => valid_layout (fst l) (snd l)) w -> loop_state c s ch ->
  need w <= capacity c ch ->
  let '(sf, n) := rounds c w s rss in
  n = 0%nat /\ ledger sf = ledger s /\ loop_state c sf ch.
Proof.
  induction rss as [|rs rest IH]; intros s ch Hc Hw HL Hroom.
  - cbn. split; [reflexivity|]. split; [reflexivity|exact HL].
  - cbn [rounds].
    destruct (round_quiet c w rs s ch None Hc Hw HL Hroom) as (_ & _ & Hlen & HL2 & Hled2 & _).
    specialize (IH _ ch Hc Hw HL2 Hroom).
    destruct (rounds c w (fst (step c (fst (allocs c s w rs)) OReset None)) rest) as [sf n].
    destruct IH as (-> & Hl & HLf). rewrite Hlen, Nat.ltb_irrefl. split; [reflexivity|]. split; [congruence|exact HLf].
Qed.

(* the clause of C03: however many rounds are run, the number of rounds in which the arena obtains
   a chunk is bounded by a number that depends only on the workload and on the chunk the loop
   started with *)
Theorem reset_loop_converges c w : forall rss s ch,
  cfg_ok c -> Forall (fun l => valid_layout (fst l) (snd l)) w -> loop_state c s ch ->
  rounds_ok c w s rss ->
  16 * Z.of_nat (snd (rounds c w s rss)) <= Z.max 0 (need w + hs c - csize ch + 15).
Proof.
  induction rss as [|rs rest IH]; intros s ch Hc Hw HL Hok.
  - cbn. lia.
  - destruct Hok as [Hok Hrest]. cbn [rounds].
    destruct (round_progress c w rs s ch None Hc Hw HL Hok) as (ch2 & HL2 & _ & Hge & Hgrow).
    specialize (IH _ ch2 Hc Hw HL2 Hrest).
    destruct (rounds c w (fst (step c (fst (allocs c s w rs)) OReset None)) rest) as [sf n] eqn:Er. cbn [snd] in *.
    destruct (Nat.ltb_spec (length (chunks s)) (length (chunks (fst (allocs c s w rs))))) as [Hlt|Hnl]; [|lia].
    specialize (Hgrow Hlt).
    (* a round that obtained a chunk did not have room *)
    assert (Hnoroom : capacity c ch < need w).
    { destruct (Z.lt_ge_cases (capacity c ch) (need w)) as [H|H]; [exact H|exfalso].
      destruct (round_quiet c w rs s ch None Hc Hw HL H) as (_ & _ & Hlen & _). lia. }
    assert (Hcap : capacity c ch = csize ch - hs c) by (unfold capacity, content_end, content_start; destruct (up c); lia).
    lia.
Qed.

(* a loop that starts from any allocated arena without live blocks is in a loop state after its
   first round *)
Lemma first_round_reaches_loop_state c w rs s j r :
  cfg_ok c -> Forall (fun l => valid_layout (fst l) (snd l)) w -> allocs_ok c s w rs ->
  ginv c s -> incr (sizes s) -> live s = [] -> cur s = Cur j ->
  exists ch, loop_state c (fst (step c (fst (allocs c s w rs)) OReset r)) ch.
Proof.
  intros Hc Hw Hok Hg Hi Hlv Ec.
  destruct (allocs_keeps c w rs s j Hc Hw Hok Hg Hi Ec) as (Hg1 & _ & Hlv1 & M).
  destruct M as (_ & _ & _ & (j1 & Ec1 & _)).
  destruct (reset_gives_loop_state c _ j1 r Hc Hg1 (eq_trans Hlv1 Hlv) Ec1) as (lst & t & _ & HL & _).
  exists (reset_chunk c lst). exact HL.
Qed.

(* non-vacuity: a 512-byte arena, a workload of 4.4 kB: the first two rounds obtain chunks (the
   second because the chunk that survived the first round is still too small for the whole
   workload), every later round obtains none *)
Module LoopExample.
  Definition c0 : cfg := mkCfg true false true true 512 32 16 true.
  Definition s0 : arena := fst (init_with_size c0 1 512 (Some (65536, 512))).
  Definition w0 : list (Z * Z) := [(300, 8); (300, 8); (700, 16); (100, 1); (3000, 32)].
  Definition rs1 : list resp := [None; Some (131072, 1024); Some (262144, 2048); None; Some (524288, 4096)].
  Definition rs2 : list resp := [None; None; None; None; Some (1048576, 8192)].
  Example two_rounds_then_quiet :
    snd (rounds c0 w0 s0 [rs1; rs2; []; []; []; []]) = 2%nat /\
    map csize (chunks (fst (rounds c0 w0 s0 [rs1; rs2; []; []; []; []]))) = [8192] /\
    need w0 = 4545.
  Proof. vm_compute. repeat split; reflexivity. Qed.

  (* the hypotheses of the theorems are satisfiable: this arena is in a loop state, and too small *)
  Example cfg_holds : cfg_ok c0.
  Proof.
    assert (P16 : pow2 16) by (exists 4; split; [lia|reflexivity]).
    unfold cfg_ok, hdr_ok, c0. cbn [hs ha min_chunk]. split; [|unfold W; lia].
    split; [exact P16|]. split; [lia|]. split; [lia|]. split; [exists 2; reflexivity|]. lia.
  Qed.
  Example workload_holds : Forall (fun l => valid_layout (fst l) (snd l)) w0.
  Proof.
    assert (P1 : pow2 1) by (exists 0; split; [lia|reflexivity]).
    assert (P8 : pow2 8) by (exists 3; split; [lia|reflexivity]).
    assert (P16 : pow2 16) by (exists 4; split; [lia|reflexivity]).
    assert (P32 : pow2 32) by (exists 5; split; [lia|reflexivity]).
    unfold w0. repeat (apply Forall_cons; [unfold valid_layout, IMAX; cbn [fst snd]; split; [assumption|lia]|]). apply Forall_nil.
  Qed.
  Example loop_state_holds : exists ch, loop_state c0 s0 ch /\ capacity c0 ch < need w0.
  Proof.
    assert (P1 : pow2 1) by (exists 0; split; [lia|reflexivity]).
    exists (mkChunk 65536 512 496 512 65568). split.
    - unfold loop_state. split; [|split; [vm_compute; reflexivity|split; [vm_compute; reflexivity|split; [vm_compute; reflexivity|vm_compute; reflexivity]]]].
      assert (E : chunks s0 = [mkChunk 65536 512 496 512 65568] /\ malign s0 = 1 /\ cur s0 = Cur 0) by (vm_compute; repeat split).
      destruct E as (E1 & E2 & E3). unfold ginv. rewrite E1, E2, E3. clear E1 E2 E3.
      split; [|split; [|split]].
      + constructor; [|constructor]. unfold chunk_ok, chunk_geom, content_start, content_end, c0, W, IMAX.
        cbn [cbase csize creq cgranted cpos up hs ha].
        split; [|lia]. split; [lia|]. split; [exists 4096; reflexivity|]. split; [exists 32; reflexivity|].
        split; [intros; discriminate|]. lia.
      + intros i j a b Hij Ha Hb. destruct i as [|[|i]], j as [|[|j]]; cbn in Ha, Hb; try discriminate; congruence.
      + split; [exact P1|lia].
      + eexists. split; [reflexivity|]. exists 65568. reflexivity.
    - vm_compute. reflexivity.
  Qed.
End LoopExample.
