(* ArenaStats.v — C10: bookkeeping and reported statistics are coherent in every state that
   satisfies the arena invariant (hence, by ArenaInv.run_inv_partial, after every operation). *)
From Coq Require Import ZArith List Bool Lia.
From BS Require Import Word BumpSpec ChunkSpec Arena ArenaInv.
Import ListNotations.
Open Scope Z_scope.

Lemma sumZ_app l1 l2 : sumZ (l1 ++ l2) = sumZ l1 + sumZ l2.
Proof. induction l1 as [|a l IH]; cbn; [reflexivity|]. unfold sumZ in *. cbn. lia. Qed.

Lemma sumZ_nonneg l : Forall (fun x => 0 <= x) l -> 0 <= sumZ l.
Proof. induction 1; cbn; unfold sumZ in *; cbn; lia. Qed.

Lemma split_at {A} (l : list A) i x : nth_error l i = Some x -> l = firstn i l ++ x :: skipn (S i) l.
Proof.
  revert i; induction l as [|a l IH]; intros [|i] H; cbn in *; try discriminate.
  - injection H as ->. reflexivity.
  - f_equal. apply IH. exact H.
Qed.

Section Stats.
  Variable c : cfg.
  Hypothesis Hc : cfg_ok c.

  Lemma chunk_capacity_facts ch : chunk_ok c ch ->
    0 <= capacity c ch /\ capacity c ch + hs c = csize ch /\
    allocated_in c ch + remaining_in c ch = capacity c ch /\
    0 <= allocated_in c ch /\ 0 <= remaining_in c ch.
  Proof.
    intros [Hg Hp]. pose proof (geom_bounds c Hc ch Hg) as (_ & Hle & _).
    unfold capacity, allocated_in, remaining_in, content_start, content_end in *.
    destruct (up c); repeat split; lia.
  Qed.

  (* allocated + remaining = capacity <= size, count = number of chunks *)
  Theorem stats_identities s :
    ginv c s ->
    let st := arena_stats c s in
    st_allocated st + st_remaining st = st_capacity st /\
    st_capacity st <= st_size st /\
    0 <= st_allocated st /\ 0 <= st_remaining st /\
    (st_count st = match cur s with Cur _ => Z.of_nat (length (chunks s)) | _ => 0 end).
  Proof.
    intros (Hok & _ & _ & Hcur). cbv zeta. unfold arena_stats, cur_chunk, chunks_before, chunks_after.
    destruct (cur s) as [i| |] eqn:Ec; [|cbn; lia|contradiction].
    destruct Hcur as (ch & En & _). rewrite En. cbn [st_allocated st_remaining st_capacity st_size st_count].
    pose proof (split_at _ _ _ En) as Hsplit.
    pose proof (Forall_nth_error _ _ _ _ Hok En) as Hchok.
    destruct (chunk_capacity_facts ch Hchok) as (C0 & C1 & C2 & C3 & C4).
    assert (Hcap : forall l, Forall (chunk_ok c) l -> 0 <= sumZ (map (capacity c) l) /\
                   sumZ (map (capacity c) l) <= sumZ (map csize l)).
    { induction 1 as [|x l Hx Hl IH]; cbn; unfold sumZ in *; cbn; [lia|].
      destruct (chunk_capacity_facts x Hx) as (X0 & X1 & _). destruct Hc as [(_ & _ & _ & _ & H32 & _) _]. lia. }
    assert (Hboth : Forall (chunk_ok c) (firstn i (chunks s)) /\ Forall (chunk_ok c) (skipn (S i) (chunks s))).
    { pose proof Hok as Hok2. rewrite Hsplit in Hok2. apply Forall_app in Hok2. destruct Hok2 as [Hf Hrest].
      inversion Hrest; subst. split; assumption. }
    destruct Hboth as [Hf Hsk].
    destruct (Hcap _ Hf) as [F0 F1]. destruct (Hcap _ Hsk) as [S0 S1].
    assert (E : forall f, sumZ (map f (chunks s)) =
               sumZ (map f (firstn i (chunks s))) + (f ch + sumZ (map f (skipn (S i) (chunks s))))).
    { intros f. rewrite Hsplit at 1. rewrite map_app, sumZ_app. reflexivity. }
    rewrite (E (capacity c)), (E csize).
    destruct Hc as [(_ & _ & _ & _ & H32 & _) _].
    repeat split; lia.
  Qed.

  (* position inside the content range, multiple of the minimum alignment in force;
     chunk sizes multiples of 16 with the header inside the granted block *)
  Theorem position_and_geometry s :
    ginv c s ->
    (forall ch, In ch (chunks s) ->
       content_start c ch <= cpos ch <= content_end c ch /\ (16 | csize ch) /\
       hs c <= csize ch /\ csize ch <= cgranted ch /\ creq ch <= csize ch /\
       (up c = false -> (ha c | csize ch))) /\
    (forall ch, cur_chunk s = Some ch -> (malign s | cpos ch)).
  Proof.
    intros (Hok & _ & _ & Hcur). split.
    - intros ch Hin. rewrite Forall_forall in Hok.
      destruct (Hok ch Hin) as [(_ & _ & G3 & G4 & G5 & G6 & G7 & _) Hp]. repeat split; try tauto; lia.
    - intros ch Hcc. destruct (cur_chunk_spec s ch Hcc) as (i & Ec & En). rewrite Ec in Hcur.
      destruct Hcur as (ch' & En' & Hm). congruence.
  Qed.

  (* an unallocated (or claimed) handle reports all zeros *)
  Theorem dummy_reports_zero s : (forall i, cur s <> Cur i) -> arena_stats c s = mkStats 0 0 0 0 0.
  Proof.
    intros H. unfold arena_stats, cur_chunk. destruct (cur s) as [i| |]; [exfalso; apply (H i); reflexivity|reflexivity|reflexivity].
  Qed.
End Stats.

(* non-vacuity: a concrete reachable state *)
Example stats_example :
  let c := mkCfg true true true true 512 32 16 true in
  let s := fst (init_with_size c 1 512 (Some (4096, 496))) in
  arena_stats c s = mkStats 1 496 464 0 464.
Proof. vm_compute. reflexivity. Qed.
