(* SplitRefine.v — the window arithmetic of the CURRENT FixedBumpVec::split_off (cut out branch by branch by
   tools/splitsites.py, translated into gen/SplitSites.v, shape facts in gen/SplitFacts.v) is SplitCap.split_off_windows:
   in each of the four branches the part `self` keeps and the part that is returned have exactly the offset, length
   and capacity of the model's windows, `self` keeps the side the model says, and the rotation is the model's. *)
From Coq Require Import ZArith Lia Bool Arith ZifyNat ZifyBool.
From BS Require Import Word Colls SplitCap.
From BS.gen Require SplitSites SplitFacts.
Local Open Scope Z_scope.

Local Notation Zn := Z.of_nat.

Ltac site := repeat (rewrite sub_ok by lia; cbn [bindc]); cbn [bindc Word.run]; try reflexivity; f_equal; lia.

(* the range reaches the end of the vector: self keeps the front part *)
Theorem split_off_tail_refines (len cap a b : nat) :
  (a <= b)%nat -> b = len -> (len <= cap)%nat ->
  let '(keep, off) := split_off_windows len cap a b in
  SplitFacts.so_tail_self_keeps_lhs = true /\ SplitFacts.so_tail_rotation_ok = true /\
  woff keep = 0%nat /\ SplitSites.so_tail_lhs_len (Zn a) = Ok (Zn (wlen keep)) /\ SplitSites.so_tail_lhs_cap (Zn a) = Ok (Zn (wcap keep)) /\
  SplitSites.so_tail_rhs_off (Zn a) = Ok (Zn (woff off)) /\ SplitSites.so_tail_rhs_len (Zn a) (Zn len) = Ok (Zn (wlen off)) /\
  SplitSites.so_tail_rhs_cap (Zn a) (Zn cap) = Ok (Zn (wcap off)).
Proof.
  intros Hab Hb Hc. subst b. unfold split_off_windows. rewrite Nat.eqb_refl. cbn [woff wlen wcap].
  unfold SplitSites.so_tail_lhs_len, SplitSites.so_tail_lhs_cap, SplitSites.so_tail_rhs_off, SplitSites.so_tail_rhs_len, SplitSites.so_tail_rhs_cap.
  repeat split; try reflexivity; site.
Qed.

(* the range starts at 0 (and does not reach the end): self keeps the back part *)
Theorem split_off_front_refines (len cap b : nat) :
  (b < len)%nat -> (len <= cap)%nat ->
  let '(keep, off) := split_off_windows len cap 0 b in
  SplitFacts.so_front_self_keeps_lhs = false /\ SplitFacts.so_front_rotation_ok = true /\
  woff off = 0%nat /\ SplitSites.so_front_lhs_len (Zn b) = Ok (Zn (wlen off)) /\ SplitSites.so_front_lhs_cap (Zn b) = Ok (Zn (wcap off)) /\
  SplitSites.so_front_rhs_off (Zn b) = Ok (Zn (woff keep)) /\ SplitSites.so_front_rhs_len (Zn b) (Zn len) = Ok (Zn (wlen keep)) /\
  SplitSites.so_front_rhs_cap (Zn b) (Zn cap) = Ok (Zn (wcap keep)).
Proof.
  intros Hb Hc. unfold split_off_windows.
  assert (E : (b =? len)%nat = false) by (apply Nat.eqb_neq; lia). rewrite E. cbn [Nat.eqb woff wlen wcap].
  unfold SplitSites.so_front_lhs_len, SplitSites.so_front_lhs_cap, SplitSites.so_front_rhs_off, SplitSites.so_front_rhs_len, SplitSites.so_front_rhs_cap.
  repeat split; try reflexivity; site.
Qed.

(* interior range, head shorter than tail: the range is rotated to the front, self keeps the back part *)
Theorem split_off_headshort_refines (len cap a b : nat) :
  (0 < a)%nat -> (a < b)%nat -> (b < len)%nat -> (len <= cap)%nat -> (a < len - b)%nat ->
  let '(keep, off) := split_off_windows len cap a b in
  SplitFacts.so_headshort_self_keeps_lhs = false /\ SplitFacts.so_headshort_rotation_ok = true /\ SplitFacts.so_interior_defs_ok = true /\
  woff off = 0%nat /\ SplitSites.so_headshort_lhs_len (Zn a) (Zn b) = Ok (Zn (wlen off)) /\
  SplitSites.so_headshort_lhs_cap (Zn a) (Zn b) = Ok (Zn (wcap off)) /\
  SplitSites.so_headshort_rhs_off (Zn a) (Zn b) = Ok (Zn (woff keep)) /\
  SplitSites.so_headshort_rhs_len (Zn a) (Zn b) (Zn len) = Ok (Zn (wlen keep)) /\
  SplitSites.so_headshort_rhs_cap (Zn a) (Zn b) (Zn cap) = Ok (Zn (wcap keep)).
Proof.
  intros H0 Hab Hb Hc Hh. unfold split_off_windows.
  assert (E1 : (b =? len)%nat = false) by (apply Nat.eqb_neq; lia).
  assert (E2 : (a =? 0)%nat = false) by (apply Nat.eqb_neq; lia).
  assert (E3 : (a =? b)%nat = false) by (apply Nat.eqb_neq; lia).
  assert (E4 : (a <? len - b)%nat = true) by (apply Nat.ltb_lt; lia).
  rewrite E1, E2, E3, E4. cbn [woff wlen wcap].
  unfold SplitSites.so_headshort_lhs_len, SplitSites.so_headshort_lhs_cap, SplitSites.so_headshort_rhs_off,
    SplitSites.so_headshort_rhs_len, SplitSites.so_headshort_rhs_cap.
  repeat split; try reflexivity; site.
Qed.

(* interior range, head at least as long as the tail: the range is rotated to the back, self keeps the front part *)
Theorem split_off_taillong_refines (len cap a b : nat) :
  (0 < a)%nat -> (a < b)%nat -> (b < len)%nat -> (len <= cap)%nat -> (len - b <= a)%nat ->
  let '(keep, off) := split_off_windows len cap a b in
  SplitFacts.so_taillong_self_keeps_lhs = true /\ SplitFacts.so_taillong_rotation_ok = true /\
  woff keep = 0%nat /\ SplitSites.so_taillong_lhs_len (Zn a) (Zn b) (Zn len) = Ok (Zn (wlen keep)) /\
  SplitSites.so_taillong_lhs_cap (Zn a) (Zn b) (Zn len) = Ok (Zn (wcap keep)) /\
  SplitSites.so_taillong_rhs_off (Zn a) (Zn b) (Zn len) = Ok (Zn (woff off)) /\
  SplitSites.so_taillong_rhs_len (Zn a) (Zn b) = Ok (Zn (wlen off)) /\
  SplitSites.so_taillong_rhs_cap (Zn a) (Zn b) (Zn len) (Zn cap) = Ok (Zn (wcap off)).
Proof.
  intros H0 Hab Hb Hc Hh. unfold split_off_windows.
  assert (E1 : (b =? len)%nat = false) by (apply Nat.eqb_neq; lia).
  assert (E2 : (a =? 0)%nat = false) by (apply Nat.eqb_neq; lia).
  assert (E3 : (a =? b)%nat = false) by (apply Nat.eqb_neq; lia).
  assert (E4 : (a <? len - b)%nat = false) by (apply Nat.ltb_ge; lia).
  rewrite E1, E2, E3, E4. cbn [woff wlen wcap].
  unfold SplitSites.so_taillong_lhs_len, SplitSites.so_taillong_lhs_cap, SplitSites.so_taillong_rhs_off,
    SplitSites.so_taillong_rhs_len, SplitSites.so_taillong_rhs_cap.
  repeat split; try reflexivity; site.
Qed.
