(* BumpRefine.v — the code generated from the CURRENT src/bumping.rs computes the
   specifications of BumpSpec.v on every valid input, without overflow. *)
From Coq Require Import ZArith Lia Bool ZifyBool.
From BS Require Import Word BumpSpec.
From BS.gen Require Import Bumping.
Open Scope Z_scope.


Lemma bindc_norm {R A B} (a : A) (f : A -> ctl R B) : bindc (Norm a) f = f a.
Proof. reflexivity. Qed.

(* ---------- generated helpers ---------- *)
Lemma gen_down_align_ok x a :
  pow2 a -> a < W -> 0 <= x < W -> down_align x a = Ok (down_alignZ x a).
Proof.
  intros Ha HaW Hx. pose proof (pow2_pos _ Ha). unfold down_align.
  rewrite sub_ok by lia. cbn [bindc run]. rewrite and_not_mask by (try assumption; lia).
  reflexivity.
Qed.

Lemma gen_up_align_unchecked_ok x a :
  pow2 a -> a < W -> 0 <= x -> x + a - 1 < W -> up_align_unchecked x a = Ok (up_alignZ x a).
Proof.
  intros Ha HaW Hx Hb. pose proof (pow2_pos _ Ha). unfold up_align_unchecked.
  rewrite sub_ok by lia. cbn [bindc]. rewrite add_ok by lia. cbn [bindc run].
  rewrite and_not_mask by (try assumption; lia). unfold up_alignZ.
  replace (x + (a - 1)) with (x + a - 1) by lia. reflexivity.
Qed.

Lemma gen_up_align_ok x a :
  pow2 a -> a < W -> 0 < x < W ->
  up_align x a = Ok (if x + a - 1 <? W then Some (up_alignZ x a) else None).
Proof.
  intros Ha HaW Hx. pose proof (pow2_pos _ Ha). unfold up_align.
  rewrite sub_ok by lia. cbn [bindc]. unfold checked_add.
  replace (x + (a - 1)) with (x + a - 1) by lia.
  destruct (Z.ltb_spec (x + a - 1) W); cbn [bindc run]; [|reflexivity].
  rewrite and_not_mask by (try assumption; lia). fold (up_alignZ x a).
  unfold nonzero_new. pose proof (up_align_ge x a ltac:(lia)).
  destruct (Z.eqb_spec (up_alignZ x a) 0); [lia|reflexivity].
Qed.

(* ---------- small facts ---------- *)
Lemma up_align_keeps_min start align m :
  pow2 align -> pow2 m -> (m | start) -> (m | up_alignZ start align).
Proof.
  intros Ha Hm Hd. pose proof (pow2_pos _ Ha). pose proof (pow2_pos _ Hm).
  destruct (pow2_le_or align m Ha Hm) as [Hdiv|Hdiv].
  - rewrite up_align_id; [assumption|assumption|]. eapply Z.divide_trans; eassumption.
  - apply up_align_div_finer; assumption.
Qed.

Lemma div16_le x : (16 | x) -> x < W -> x <= W - 16.
Proof. intros [k ->] H. unfold W in *. lia. Qed.

Lemma div16_ge x : (16 | x) -> 0 < x -> 16 <= x.
Proof. intros [k ->] H. lia. Qed.

Lemma down_align_0 a : 0 < a -> down_alignZ 0 a = 0.
Proof. intros Ha. unfold down_alignZ. rewrite Z.mod_0_l by lia. lia. Qed.

Definition up_result (o : option (Z * Z)) : option BumpUp :=
  match o with Some (p, np) => Some {| bu_new_pos := np; bu_ptr := p |} | None => None end.

Lemma bu_eq a b c d : a = c -> b = d ->
  Ok (Some {| bu_new_pos := a; bu_ptr := b |}) = Ok (Some {| bu_new_pos := c; bu_ptr := d |}).
Proof. intros -> ->. reflexivity. Qed.

Lemma bu_eq_up a b c d m : a = c -> b = d ->
  Ok (Some {| bu_new_pos := up_alignZ a m; bu_ptr := b |}) =
  Ok (Some {| bu_new_pos := up_alignZ c m; bu_ptr := d |}).
Proof. intros -> ->. reflexivity. Qed.

Lemma ok_some_eq (a b : Z) : a = b -> Ok (Some a) = Ok (Some b).
Proof. intros ->. reflexivity. Qed.

Lemma ok_pair_eq (a b c d : Z) : a = c -> b = d -> Ok (Some (a, b)) = Ok (Some (c, d)).
Proof. intros -> ->. reflexivity. Qed.

(* ---------- symbolic execution of generated code ----------
   The loop never mentions variable names or branch positions of the generated term: it
   evaluates binds, discharges checked operations by lia on the facts in context, rewrites the
   bit-level alignment forms to down_alignZ/up_alignZ, and splits on every remaining
   condition.  Facts about opaque alignment terms are supplied by the caller as hypotheses. *)
Ltac sx_side := first [ assumption | lia ].
Ltac sx_step :=
  first
    [ progress cbn [bindc run call try_opt up_result]
    | rewrite add_ok by lia
    | rewrite sub_ok by lia
    | rewrite rem_ok by lia
    | rewrite and_not_mask by sx_side
    | rewrite as_isize_wsub_ge by lia
    | rewrite as_isize_wsub_lt by lia
    | rewrite as_isize_small by lia
    | rewrite sat_sub_ge by lia
    | rewrite sat_sub_lt by lia
    | rewrite gen_up_align_unchecked_ok by sx_side
    | rewrite gen_down_align_ok by sx_side
    | rewrite gen_up_align_ok by sx_side
    | progress unfold sat_add, checked_add, nonzero_new ].
Ltac sx_split :=
  match goal with
  | |- context [if ?c then _ else _] => destruct c eqn:?
  | |- context [match ?c with Some _ => _ | None => _ end] => destruct c eqn:?
  end.

(* ================= bump_up ================= *)
Theorem bump_up_refines start end_ m size align ac sc mult :
  valid_min_align m -> valid_layout size align -> valid_up start end_ m ->
  (mult = true -> (align | size)) ->
  bump_up {| bp_start := start; bp_end := end_; bp_min_align := m;
             bp_layout := mkLayout size align; bp_align_is_const := ac;
             bp_size_is_const := sc; bp_size_is_multiple_of_align := mult |}
  = Ok (up_result (spec_up start end_ m size align)).
Proof.
  intros [Hm2 Hm16] [Ha [Hs Hl]] Hv Hmult.
  pose proof W_val as HW. pose proof IMAX_val as HI.
  pose proof (pow2_pos _ Ha) as Hap. pose proof (pow2_pos _ Hm2) as Hmp.
  assert (HaW : align < W) by lia.
  assert (HmW : m < W) by lia.
  assert (Hm16d : (m | 16)) by (apply pow2_divide; [assumption|apply pow2_16|assumption]).
  remember (up_alignZ start align) as q eqn:Eq.
  assert (Hq1 : start <= q) by (subst q; apply up_align_ge; assumption).
  assert (Hq2 : q < start + align) by (subst q; apply up_align_lt; assumption).
  assert (F3 : down_alignZ (start - 1) align = q - align).
  { subst q. rewrite up_align_via_down by assumption. lia. }
  pose proof (up_align_ge (q + size) m Hmp) as F6.
  pose proof (up_align_lt (q + size) m Hmp) as F7.
  unfold bump_up, spec_up. rewrite <- Eq.
  cbn [bp_start bp_end bp_min_align bp_layout bp_align_is_const bp_size_is_const
       bp_size_is_multiple_of_align lsize lalign].
  unfold MIN_CHUNK_ALIGN.
  destruct Hv as [(H0 & Hse & HeW & Hsz & Hms & H16) | (H0 & Hst & HsW & Hs16 & He16')].
  - (* regular range *)
    pose proof (div16_le _ H16 HeW) as He16.
    assert (Hme : (m | end_)) by (eapply Z.divide_trans; eassumption).
    assert (Hqa : (align | q)) by (subst q; apply up_align_div; assumption).
    assert (Hqm : (m | q)) by (subst q; apply up_align_keeps_min; assumption).
    assert (F1 : align <= m -> q = start).
    { intros Hle. subst q. apply up_align_id; [assumption|]. eapply Z.divide_trans; [|exact Hms].
      apply pow2_divide; assumption. }
    assert (F2a : ac = true -> mult = true -> m <= align -> up_alignZ (q + size) m = q + size).
    { intros _ Hmu Hle. apply up_align_id; [assumption|]. apply Z.divide_add_r; [assumption|].
      eapply Z.divide_trans; [|exact (Hmult Hmu)]. apply pow2_divide; assumption. }
    assert (F2b : size mod m = 0 -> up_alignZ (q + size) m = q + size).
    { intros Hmod. apply up_align_id; [assumption|]. apply Z.divide_add_r; [assumption|].
      apply Z.mod_divide; [lia|assumption]. }
    assert (F4 : align <= 16 -> q <= end_).
    { intros Hle. subst q. apply up_align_min; [assumption| |assumption].
      eapply Z.divide_trans; [|exact H16]. apply pow2_divide; [assumption|apply pow2_16|assumption]. }
    assert (F5 : q + size <= end_ -> up_alignZ (q + size) m <= end_).
    { intros Hle. apply up_align_min; assumption. }
    repeat first [ sx_step | rewrite <- Eq | rewrite F3 | sx_split ].
    all: first [ reflexivity | exfalso; lia | (apply bu_eq; lia) | (apply bu_eq_up; lia) ].
  - (* dummy range: every request fails *)
    pose proof (div16_le _ Hs16 HsW) as Hs16'.
    assert (F1 : align <= 16 -> q = start).
    { intros Hle. subst q. apply up_align_id; [assumption|]. eapply Z.divide_trans; [|exact Hs16].
      apply pow2_divide; [assumption|apply pow2_16|assumption]. }
    repeat first [ sx_step | rewrite <- Eq | rewrite F3 | sx_split ].
    all: first [ reflexivity | exfalso; lia ].
Qed.

(* ================= bump_down ================= *)
Theorem bump_down_refines start end_ m size align ac sc mult :
  valid_min_align m -> valid_layout size align -> valid_down start end_ m ->
  (mult = true -> (align | size)) ->
  bump_down {| bp_start := start; bp_end := end_; bp_min_align := m;
               bp_layout := mkLayout size align; bp_align_is_const := ac;
               bp_size_is_const := sc; bp_size_is_multiple_of_align := mult |}
  = Ok (spec_down start end_ m size align).
Proof.
  intros [Hm2 Hm16] [Ha [Hs Hl]] Hv Hmult.
  pose proof W_val as HW. pose proof IMAX_val as HI.
  pose proof (pow2_pos _ Ha) as Hap. pose proof (pow2_pos _ Hm2) as Hmp.
  assert (HaW : align < W) by lia.
  assert (Hm16d : (m | 16)) by (apply pow2_divide; [assumption|apply pow2_16|assumption]).
  pose proof (pow2_max _ _ Ha Hm2) as HM2.
  remember (Z.max align m) as M eqn:EM.
  assert (HMa : align <= M) by lia. assert (HMm : m <= M) by lia.
  assert (HMc : M = align \/ M = m) by lia.
  assert (HMW : M < W) by lia.
  pose proof (pow2_pos _ HM2) as HMp.
  remember (down_alignZ (end_ - size) M) as p eqn:Ep.
  assert (Hp1 : p <= end_ - size) by (subst p; apply down_align_le; assumption).
  assert (Hp2 : end_ - size - M < p) by (subst p; apply down_align_gt; assumption).
  assert (G3 : down_alignZ 0 M = 0) by (apply down_align_0; assumption).
  unfold bump_down, spec_down. rewrite <- EM, <- Ep.
  cbn [bp_start bp_end bp_min_align bp_layout bp_align_is_const bp_size_is_const
       bp_size_is_multiple_of_align lsize lalign].
  unfold MIN_CHUNK_ALIGN. rewrite <- EM.
  destruct Hv as [(H0 & Hse & HeW & Hsz & H16 & Hme) | (H0 & Hst & HsW & Hs16 & He16')].
  - (* regular range *)
    pose proof (div16_ge _ H16 H0) as Hs16.
    assert (G1a : mult = true -> align <= m -> m <= align -> p = end_ - size).
    { intros Hmu H1 H2. assert (align = m) by lia. subst p. apply down_align_id; [assumption|].
      replace M with m by lia. apply Z.divide_sub_r; [assumption|]. subst align. exact (Hmult Hmu). }
    assert (G1b : align <= m -> size mod m = 0 -> p = end_ - size).
    { intros H1 Hmod. subst p. apply down_align_id; [assumption|].
      replace M with m by lia. apply Z.divide_sub_r; [assumption|].
      apply Z.mod_divide; [lia|assumption]. }
    assert (G2 : align <= 16 -> start <= end_ - size -> start <= p).
    { intros Hle Hfit. subst p. apply down_align_max; [assumption| |assumption].
      eapply Z.divide_trans; [|exact H16]. apply pow2_divide; [assumption|apply pow2_16|lia]. }
    destruct (Z_le_gt_dec size end_) as [Hfit|Hnofit].
    + repeat first [ sx_step | rewrite <- Ep | sx_split ].
      all: first [ reflexivity | exfalso; lia | (apply ok_some_eq; lia) ].
    + repeat first [ sx_step | rewrite <- Ep | rewrite G3 | sx_split ].
      all: first [ reflexivity | exfalso; lia | (apply ok_some_eq; lia) ].
  - (* dummy range *)
    pose proof (div16_ge _ He16' H0) as He16.
    destruct (Z_le_gt_dec size end_) as [Hfit|Hnofit].
    + repeat first [ sx_step | rewrite <- Ep | sx_split ].
      all: first [ reflexivity | exfalso; lia ].
    + repeat first [ sx_step | rewrite <- Ep | rewrite G3 | sx_split ].
      all: first [ reflexivity | exfalso; lia ].
Qed.

(* ================= bump_prepare_up ================= *)
Theorem bump_prepare_up_refines start end_ m size align ac sc mult :
  valid_min_align m -> valid_layout size align -> valid_up start end_ m ->
  bump_prepare_up {| bp_start := start; bp_end := end_; bp_min_align := m;
               bp_layout := mkLayout size align; bp_align_is_const := ac;
               bp_size_is_const := sc; bp_size_is_multiple_of_align := mult |}
  = Ok (spec_prep_up start end_ size align).
Proof.
  intros [Hm2 Hm16] [Ha [Hs Hl]] Hv.
  pose proof W_val as HW. pose proof IMAX_val as HI.
  pose proof (pow2_pos _ Ha) as Hap. pose proof (pow2_pos _ Hm2) as Hmp.
  assert (HaW : align < W) by lia.
  remember (up_alignZ start align) as q eqn:Eq.
  assert (Hq1 : start <= q) by (subst q; apply up_align_ge; assumption).
  assert (Hq2 : q < start + align) by (subst q; apply up_align_lt; assumption).
  remember (down_alignZ end_ align) as e eqn:Ee.
  unfold bump_prepare_up, spec_prep_up. rewrite <- Eq, <- Ee.
  cbn [bp_start bp_end bp_min_align bp_layout bp_align_is_const bp_size_is_const
       bp_size_is_multiple_of_align lsize lalign].
  unfold MIN_CHUNK_ALIGN.
  destruct Hv as [(H0 & Hse & HeW & Hsz & Hms & H16) | (H0 & Hst & HsW & Hs16 & He16')].
  - pose proof (div16_le _ H16 HeW) as He16.
    assert (F1 : align <= m -> q = start).
    { intros Hle. subst q. apply up_align_id; [assumption|]. eapply Z.divide_trans; [|exact Hms].
      apply pow2_divide; assumption. }
    assert (F4 : align <= 16 -> q <= end_).
    { intros Hle. subst q. apply up_align_min; [assumption| |assumption].
      eapply Z.divide_trans; [|exact H16]. apply pow2_divide; [assumption|apply pow2_16|assumption]. }
    assert (F8 : W <= start + align - 1 -> end_ < q).
    { intros Hov. subst q. unfold up_alignZ.
      assert (W <= down_alignZ (start + align - 1) align); [|lia].
      apply down_align_max; [assumption| |assumption].
      apply pow2_divide; [assumption|exists 64; split; [lia|reflexivity]|lia]. }
    repeat first [ sx_step | rewrite <- Eq | rewrite <- Ee | sx_split ].
    all: first [ reflexivity | exfalso; lia | congruence | (apply ok_pair_eq; lia) | (injection Heqo as <-; first [reflexivity | exfalso; lia | (apply ok_pair_eq; lia)]) | discriminate ].
  - pose proof (div16_le _ Hs16 HsW) as Hs16'.
    assert (F1 : align <= 16 -> q = start).
    { intros Hle. subst q. apply up_align_id; [assumption|]. eapply Z.divide_trans; [|exact Hs16].
      apply pow2_divide; [assumption|apply pow2_16|assumption]. }
    repeat first [ sx_step | rewrite <- Eq | rewrite <- Ee | sx_split ].
    all: first [ reflexivity | exfalso; lia | (injection Heqo as <-; first [reflexivity | exfalso; lia]) | discriminate ].
Qed.

(* ================= bump_prepare_down ================= *)
Theorem bump_prepare_down_refines start end_ m size align ac sc mult :
  valid_min_align m -> valid_layout size align -> valid_down start end_ m ->
  bump_prepare_down {| bp_start := start; bp_end := end_; bp_min_align := m;
               bp_layout := mkLayout size align; bp_align_is_const := ac;
               bp_size_is_const := sc; bp_size_is_multiple_of_align := mult |}
  = Ok (spec_prep_down start end_ size align).
Proof.
  intros [Hm2 Hm16] [Ha [Hs Hl]] Hv.
  pose proof W_val as HW. pose proof IMAX_val as HI.
  pose proof (pow2_pos _ Ha) as Hap. pose proof (pow2_pos _ Hm2) as Hmp.
  assert (HaW : align < W) by lia.
  remember (up_alignZ start align) as q eqn:Eq.
  assert (Hq1 : start <= q) by (subst q; apply up_align_ge; assumption).
  assert (Hq2 : q < start + align) by (subst q; apply up_align_lt; assumption).
  remember (down_alignZ end_ align) as e eqn:Ee.
  assert (He1 : e <= end_) by (subst e; apply down_align_le; assumption).
  assert (He2 : end_ - align < e) by (subst e; apply down_align_gt; assumption).
  assert (F9 : e < W -> start <= e -> start + align - 1 < W).
  { intros HeW' Hle. assert (e <= W - align); [|lia].
    assert (Hd : (align | e)) by (subst e; apply down_align_div; assumption).
    assert (HdW : (align | W)).
    { apply pow2_divide; [assumption|exists 64; split; [lia|reflexivity]|lia]. }
    destruct Hd as [k Hk]. destruct HdW as [j Hj]. rewrite Hk, Hj in *.
    assert (k < j) by (apply (Z.mul_lt_mono_pos_r align); lia).
    assert ((k + 1) * align <= j * align) by (apply Z.mul_le_mono_nonneg_r; lia). lia. }
  unfold bump_prepare_down, spec_prep_down. rewrite <- Eq, <- Ee.
  cbn [bp_start bp_end bp_min_align bp_layout bp_align_is_const bp_size_is_const
       bp_size_is_multiple_of_align lsize lalign].
  unfold MIN_CHUNK_ALIGN.
  destruct Hv as [(H0 & Hse & HeW & Hsz & H16 & Hme) | (H0 & Hst & HsW & Hs16 & He16')].
  - assert (F1 : align <= m -> e = end_).
    { intros Hle. subst e. apply down_align_id; [assumption|]. eapply Z.divide_trans; [|exact Hme].
      apply pow2_divide; assumption. }
    assert (F4 : align <= 16 -> start <= e).
    { intros Hle. subst e. apply down_align_max; [assumption| |assumption].
      eapply Z.divide_trans; [|exact H16]. apply pow2_divide; [assumption|apply pow2_16|assumption]. }
    repeat first [ sx_step | rewrite <- Eq | rewrite <- Ee | sx_split ].
    all: first [ reflexivity | exfalso; lia | (apply ok_pair_eq; lia) ].
  - pose proof (div16_ge _ He16' H0) as He16.
    assert (F1 : align <= 16 -> e = end_).
    { intros Hle. subst e. apply down_align_id; [assumption|]. eapply Z.divide_trans; [|exact He16'].
      apply pow2_divide; [assumption|apply pow2_16|assumption]. }
    repeat first [ sx_step | rewrite <- Eq | rewrite <- Ee | sx_split ].
    all: first [ reflexivity | exfalso; lia ].
Qed.
