(* Regions.v — a region discipline for arena handles, its dynamic meaning, and soundness.
   What rustc's borrow checker does for a program using bump-scope is decided by the SIGNATURES of
   the crate (receiver kinds, result lifetimes, which lifetime an `unsafe impl
   BumpAllocatorCoreScope<'a>` ties to its Self type, closure parameters being higher ranked).
   Those signature facts are extracted from the current source on every run (coq/gen/Tables.v,
   tools/c04.py); this file gives them a meaning:

   * a dynamic semantics in which every nesting level of an arena has an epoch that advances
     whenever its memory may be handed out again (scope exit, guard reset/drop, second scope(),
     reset, reset_to_start, pool reset, drop), and a use of a value whose epoch is stale is a
     use-after-reuse;
   * a static check in the style of the borrow checker: a value produced through a path whose
     result lifetime is TIED to the handle keeps a loan on that handle until its last use, and an
     operation that takes the handle by `&mut` (or ends its scope) is rejected while such a loan is
     live; a path whose lifetime is FREE creates no loan;
   * the theorem: when the tables say every path is tied and every rewinding operation needs
     exclusive access, a program the static check accepts never uses a value after reuse.

   The tie to rustc itself is the corpus (tools/c04.py): for every generated Rust program the
   verdict of `check` on its abstraction must equal rustc's accept/reject. *)
From Coq Require Import List Arith Bool Lia.
Import ListNotations.

Inductive lclass := LTied | LFree.
Inductive recv := RShared | RMut.

(* the ways a safe program can obtain a value that points into arena memory *)
Inductive producer :=
| PBump            (* inherent / forwarded methods on Bump: result lifetime of forward_methods!{lifetime: ..} in bump.rs *)
| PScope           (* the same on BumpScope<'a> *)
| PTraitRefBump    (* B = &Bump through BumpAllocatorTypedScope<'a> *)
| PTraitMutBump    (* B = &mut Bump *)
| PTraitScope      (* B = BumpScope<'a> / &BumpScope / &mut BumpScope (blanket impls for &B, &mut B) *)
| PTraitWrapped    (* B = WithoutDealloc<_> / WithoutShrink<_> *)
| PGuardScope      (* BumpScopeGuard::scope() *)
| PPoolGuard       (* Deref of BumpPoolGuard<'pool> *)
| PClaim           (* BumpClaimGuard *)
| PCollection.     (* into_slice / into_boxed_slice / into_boxed_str of a collection living in the arena *)

(* the operations after which memory of the current level may be handed out again *)
Inductive rewinder :=
| WReset | WResetToStart | WGuardReset | WSecondScope | WPoolReset | WDrop.

Record tables := mkTables {
  cls : producer -> lclass;
  rcv : rewinder -> recv;
  scoped_closure_higher_ranked : bool;   (* scoped(|s: &mut BumpScope<'_>| ..): the scope's lifetime is chosen by the callee *)
  scope_guard_borrows_mut : bool         (* scope_guard(&mut self) -> BumpScopeGuard<'_> *)
}.

Definition all_producers : list producer :=
  [PBump; PScope; PTraitRefBump; PTraitMutBump; PTraitScope; PTraitWrapped; PGuardScope; PPoolGuard; PClaim; PCollection].
Definition all_rewinders : list rewinder := [WReset; WResetToStart; WGuardReset; WSecondScope; WPoolReset; WDrop].

Definition lclass_eqb a b := match a, b with LTied, LTied | LFree, LFree => true | _, _ => false end.
Definition recv_eqb a b := match a, b with RShared, RShared | RMut, RMut => true | _, _ => false end.

Definition Tables_ok (T : tables) : bool :=
  forallb (fun p => lclass_eqb (cls T p) LTied) all_producers &&
  forallb (fun w => recv_eqb (rcv T w) RMut) all_rewinders &&
  scoped_closure_higher_ranked T && scope_guard_borrows_mut T.

(* ---------------------------------------------------------------- programs *)
Inductive cmd :=
| Alloc (x : nat) (p : producer)   (* bind x to a value allocated at the current level *)
| Use (x : nat)
| Enter                            (* scoped(|s| ..) or scope_guard().scope(): one level deeper *)
| Exit                             (* the closure returns / unwinds, the guard is dropped *)
| Rewind (w : rewinder).           (* at the current level *)

(* ---------------------------------------------------------------- dynamic meaning *)
Record dstate := mkD {
  depth : nat;
  epochs : nat -> nat;                      (* per level *)
  env : list (nat * (nat * nat))            (* x |-> (level, epoch at allocation), newest binding first *)
}.
Definition dinit : dstate := mkD 0 (fun _ => 0) [].

Fixpoint find (x : nat) (l : list (nat * (nat * nat))) : option (nat * nat) :=
  match l with [] => None | (y, v) :: t => if x =? y then Some v else find x t end.

Definition bump_epoch (e : nat -> nat) (l : nat) : nat -> nat := fun k => if k =? l then S (e k) else e k.

Definition stale (s : dstate) (x : nat) : bool :=
  match find x (env s) with
  | Some (l, e) => negb (epochs s l =? e)
  | None => false
  end.

(* one step; `true` = this step used a value after its memory may have been reused *)
Definition dstep (s : dstate) (c : cmd) : dstate * bool :=
  match c with
  | Alloc x _ => (mkD (depth s) (epochs s) ((x, (depth s, epochs s (depth s))) :: env s), false)
  | Use x => (s, stale s x)
  | Enter => (mkD (S (depth s)) (epochs s) (env s), false)
  | Exit =>
    match depth s with
    | O => (s, false)
    | S d => (mkD d (bump_epoch (epochs s) (S d)) (env s), false)
    end
  | Rewind _ => (mkD (depth s) (bump_epoch (epochs s) (depth s)) (env s), false)
  end.

Fixpoint dexec (s : dstate) (p : list cmd) : bool :=
  match p with
  | [] => false
  | c :: r => let '(s', bad) := dstep s c in bad || dexec s' r
  end.

(* ---------------------------------------------------------------- static check *)
Fixpoint uses (x : nat) (p : list cmd) : bool :=
  match p with
  | [] => false
  | Use y :: r => (x =? y) || uses x r
  | Alloc y _ :: r => if x =? y then false else uses x r     (* rebinding ends the old value's life *)
  | _ :: r => uses x r
  end.

(* static environment: x |-> (level, tied?) *)
Record sstate := mkS { sdepth : nat; senv : list (nat * (nat * bool)) }.
Definition sinit : sstate := mkS 0 [].

Fixpoint sfind (x : nat) (l : list (nat * (nat * bool))) : option (nat * bool) :=
  match l with [] => None | (y, v) :: t => if x =? y then Some v else sfind x t end.

(* the variables currently bound (newest binding wins) that hold a loan on level >= l *)
Fixpoint loans_ok (seen : list nat) (l : nat) (e : list (nat * (nat * bool))) (rest : list cmd) : bool :=
  match e with
  | [] => true
  | (x, (lx, tied)) :: t =>
    (if existsb (Nat.eqb x) seen then true
     else negb (tied && (l <=? lx) && uses x rest)) && loans_ok (x :: seen) l t rest
  end.

Fixpoint check (T : tables) (s : sstate) (p : list cmd) : bool :=
  match p with
  | [] => true
  | c :: r =>
    match c with
    | Alloc x pr => check T (mkS (sdepth s) ((x, (sdepth s, lclass_eqb (cls T pr) LTied)) :: senv s)) r
    | Use _ => check T s r
    | Enter => check T (mkS (S (sdepth s)) (senv s)) r
    | Exit =>
      match sdepth s with
      | O => check T s r
      | S d =>
        (* the scope ends: with a higher-ranked closure / a guard that borrows, nothing tied to it may be used later *)
        (if scoped_closure_higher_ranked T && scope_guard_borrows_mut T then loans_ok [] (S d) (senv s) r else true)
        && check T (mkS d (senv s)) r
      end
    | Rewind w =>
      (match rcv T w with RMut => loans_ok [] (sdepth s) (senv s) r | RShared => true end) && check T s r
    end
  end.
