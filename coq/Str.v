(* Str.v — executable model of the string operations (MODEL ONLY; proofs are in StrProofs.v).
   Hand-written from src/bump_box.rs (impl BumpBox<str>: split_off, pop, truncate, remove, retain,
   drain), src/owned_str/drain.rs, src/bump_string.rs (generic_insert(_str), insert_bytes,
   generic_extend_from_within, generic_replace_range, generic_from_utf8_lossy_in,
   generic_from_utf16(_lossy)_in, generic_into_cstr) and
   src/traits/bump_allocator_typed_scope.rs (alloc_cstr_from_str).  FixedBumpString,
   MutBumpString and BumpString forward to these.

   A string is its byte list.  The byte-level edits are modelled as the code performs them: on
   the buffer `contents ++ spare capacity` with memmove (`copy_within`), memcpy (`write_at`) and
   a final set_len (`firstn`).  What `str::chars()` yields is `Utf8.decode`. *)
From Coq Require Import ZArith List Lia Bool Arith.
From BS Require Import Utf8 Colls.
Import ListNotations.

Inductive sres :=
| SOk (s : list Z) (chars : list Z) (off : list Z)   (* new contents, characters returned, string split off *)
| SPanic (s : list Z).                               (* unwound; contents afterwards *)

Definition s_after (r : sres) : list Z := match r with SOk s _ _ => s | SPanic s => s end.
Definition s_panicked (r : sres) : bool := match r with SOk _ _ _ => false | SPanic _ => true end.

(* ---------------------------------------------------------------- buffer primitives *)
(* ptr::copy(buf + src, buf + dst, n): memmove, reads the old buffer *)
Definition copy_within (l : list Z) (src dst n : nat) : list Z :=
  firstn dst l ++ firstn n (skipn src l) ++ skipn (dst + n) l.
(* ptr::copy_nonoverlapping(bytes, buf + dst, |bytes|) *)
Definition write_at (l : list Z) (dst : nat) (bytes : list Z) : list Z :=
  firstn dst l ++ bytes ++ skipn (dst + length bytes) l.

(* BumpString::insert_bytes, after the reserve made `spare` at least as long as `bytes` *)
Definition insert_bytes_code (s spare : list Z) (idx : nat) (bytes : list Z) : list Z :=
  let len := length s in
  let amt := length bytes in
  let buf1 := copy_within (s ++ spare) idx (idx + amt) (len - idx) in
  let buf2 := write_at buf1 idx bytes in
  firstn (len + amt) buf2.

(* BumpBox<str>::remove: the tail moves down over the removed character *)
Definition remove_code (s : list Z) (idx next : nat) : list Z :=
  let len := length s in
  firstn (len - (next - idx)) (copy_within s next idx (len - next)).

(* BumpString::generic_replace_range, after the reserve *)
Definition replace_range_code (s spare : list Z) (a b : nat) (r : list Z) : list Z :=
  let len := length s in
  let given := length r in
  let range_len := b - a in
  let buf := s ++ spare in
  let buf1 := if range_len =? given then buf else copy_within buf b (a + given) (len - b) in
  let buf2 := write_at buf1 a r in
  firstn (len + given - range_len) buf2.

(* ---------------------------------------------------------------- operations *)
Definition s_push (s : list Z) (c : Z) : sres := SOk (s ++ encode c) [] [].
Definition s_push_str (s r : list Z) : sres := SOk (s ++ r) [] [].

Definition s_insert_str (s spare : list Z) (idx : nat) (r : list Z) : sres :=
  if boundaryb s idx then SOk (insert_bytes_code s spare idx r) [] [] else SPanic s.
Definition s_insert (s spare : list Z) (idx : nat) (c : Z) : sres := s_insert_str s spare idx (encode c).

(* `self[idx..]` panics off a boundary; `.chars().next()` is None at the end *)
Definition s_remove (s : list Z) (idx : nat) : sres :=
  if boundaryb s idx then
    match decode1 (skipn idx s) with
    | Some (c, _) => SOk (remove_code s idx (idx + length (encode c))) [c] []
    | None => SPanic s
    end
  else SPanic s.

(* chars().next_back() *)
Definition s_pop (s : list Z) : sres :=
  match decode s with
  | Some cs =>
    match rev cs with
    | [] => SOk s [] []
    | c :: _ => SOk (firstn (length s - length (encode c)) s) [c] []
    end
  | None => SPanic s     (* contents are not UTF-8: excluded by every theorem's hypothesis *)
  end.

Definition s_truncate (s : list Z) (n : nat) : sres :=
  if n <=? length s then (if boundaryb s n then SOk (firstn n s) [] [] else SPanic s)
  else SOk s [] [].

(* retain with SetLenOnDrop: `kept` are the bytes below idx - del_bytes *)
Fixpoint sretain_go (f : nat -> Z -> ans) (k : nat) (kept : list Z) (rest : list Z) : sres :=
  match rest with
  | [] => SOk kept [] []
  | c :: r =>
    match f k c with
    | Panic => SPanic kept                          (* the guard sets len = idx - del_bytes *)
    | Ret true => sretain_go f (S k) (kept ++ encode c) r
    | Ret false => sretain_go f (S k) kept r
    end
  end.
Definition s_retain (f : nat -> Z -> ans) (s : list Z) : sres :=
  match decode s with Some cs => sretain_go f 0 [] cs | None => SPanic s end.

(* drain(a..b): kf characters pulled from the front, kb from the back, then dropped or leaked *)
Definition s_drain (s : list Z) (a b kf kb : nat) (forget : bool) : sres :=
  if (b <? a) || (length s <? b) then SPanic s
  else if negb (boundaryb s a) then SPanic s
  else if negb (boundaryb s b) then SPanic s
  else
    match decode (firstn (b - a) (skipn a s)) with
    | Some cs =>
      let kf' := Nat.min kf (length cs) in
      let kb' := Nat.min kb (length cs - kf') in
      let ys := firstn kf' cs ++ rev (lastn kb' cs) in
      SOk (if forget then s else firstn a s ++ skipn b s) ys []
    | None => SPanic s
    end.

Definition s_replace_range (s spare : list Z) (a b : nat) (r : list Z) : sres :=
  if (b <? a) || (length s <? b) then SPanic s
  else if negb (boundaryb s a) then SPanic s
  else if negb (boundaryb s b) then SPanic s
  else SOk (replace_range_code s spare a b r) [] [].

Definition s_extend_from_within (s : list Z) (a b : nat) : sres :=
  if (b <? a) || (length s <? b) then SPanic s
  else if negb (boundaryb s a) then SPanic s
  else if negb (boundaryb s b) then SPanic s
  else SOk (s ++ firstn (b - a) (skipn a s)) [] [].

(* BumpBox<str>::split_off.  `fixed` = the boundaries of an empty range in the middle are checked
   too (they are since the "fix:" commit recorded in known_findings.json; the pinned code returned
   an empty string without looking at them) *)
Definition s_split_off (fixed : bool) (s : list Z) (a b : nat) : sres :=
  let len := length s in
  if (b <? a) || (len <? b) then SPanic s
  else if b =? len then (if boundaryb s a then SOk (firstn a s) [] (skipn a s) else SPanic s)
  else if a =? 0 then (if boundaryb s b then SOk (skipn b s) [] (firstn b s) else SPanic s)
  else if (a =? b) && negb fixed then SOk s [] []
  else if negb (boundaryb s a) then SPanic s
  else if negb (boundaryb s b) then SPanic s
  else let '(keep, off) := split_off_code s a b in SOk keep [] off.

(* ---------------------------------------------------------------- conversions *)
Local Open Scope Z_scope.
Definition s_from_utf8 (v : list Z) : option (list Z) := if valid v then Some v else None.

(* length of what Utf8Chunks reports as the invalid part at an ill-formed position: the lead byte
   plus the continuation bytes that could still have started a well-formed sequence *)
Definition second_ok3 (b0 b1 : Z) : bool :=
  cont b1 && ((negb (b0 =? 224)) || (160 <=? b1)) && ((negb (b0 =? 237)) || (b1 <? 160)).
Definition second_ok4 (b0 b1 : Z) : bool :=
  cont b1 && ((negb (b0 =? 240)) || (144 <=? b1)) && ((negb (b0 =? 244)) || (b1 <? 144)).
Definition invalid_len (l : list Z) : nat :=
  match l with
  | [] => 0%nat
  | b0 :: t0 =>
    if (224 <=? b0) && (b0 <? 240) then
      match t0 with b1 :: _ => if second_ok3 b0 b1 then 2%nat else 1%nat | [] => 1%nat end
    else if (240 <=? b0) && (b0 <? 245) then
      match t0 with
      | b1 :: t1 =>
        if second_ok4 b0 b1 then (match t1 with b2 :: _ => if cont b2 then 3%nat else 2%nat | [] => 2%nat end) else 1%nat
      | [] => 1%nat
      end
    else 1%nat
  end.

Definition REPLACEMENT : list Z := [239; 191; 189].   (* U+FFFD *)

Fixpoint lossy_fuel (n : nat) (l : list Z) : list Z :=
  match l with
  | [] => []
  | _ =>
    match n with
    | O => []
    | S n' =>
      match decode1 l with
      | Some (c, rest) => encode c ++ lossy_fuel n' rest
      | None => REPLACEMENT ++ lossy_fuel n' (skipn (invalid_len l) l)
      end
    end
  end.
Definition s_from_utf8_lossy (v : list Z) : list Z := lossy_fuel (length v) v.

(* char::decode_utf16 *)
Fixpoint decode_utf16 (l : list Z) : list (option Z) :=
  match l with
  | [] => []
  | u :: t =>
    if (u <? 55296) || (57344 <=? u) then Some u :: decode_utf16 t
    else if u <? 56320 then
      match t with
      | u2 :: t2 =>
        if (56320 <=? u2) && (u2 <? 57344)
        then Some (65536 + (u - 55296) * 1024 + (u2 - 56320)) :: decode_utf16 t2
        else None :: decode_utf16 t
      | [] => [None]
      end
    else None :: decode_utf16 t
  end.

Fixpoint all_some (l : list (option Z)) : option (list Z) :=
  match l with
  | [] => Some []
  | Some c :: t => match all_some t with Some cs => Some (c :: cs) | None => None end
  | None :: _ => None
  end.

Definition s_from_utf16 (v : list Z) : option (list Z) :=
  match all_some (decode_utf16 v) with Some cs => Some (enc cs) | None => None end.
Definition s_from_utf16_lossy (v : list Z) : list Z :=
  enc (map (fun o => match o with Some c => c | None => 65533 end) (decode_utf16 v)).

(* ---------------------------------------------------------------- C strings *)
Fixpoint before_nul (s : list Z) : list Z :=
  match s with [] => [] | b :: t => if b =? 0 then [] else b :: before_nul t end.
Fixpoint nul_position (s : list Z) : option nat :=
  match s with [] => None | b :: t => if b =? 0 then Some O else option_map S (nul_position t) end.

(* BumpString::generic_into_cstr / alloc_cstr_from_str: bytes of the CStr including the NUL *)
Definition s_into_cstr (s : list Z) : list Z :=
  match nul_position s with
  | Some nul => firstn (S nul) s
  | None => s ++ [0]
  end.
