(* VecCap.v — executable model of the capacity bookkeeping of BumpVec<T> and FixedBumpVec<T>
   (MODEL ONLY; proofs in VecCapProofs.v).  Hand-written from src/bump_vec.rs: generic_reserve,
   generic_reserve_exact, generic_grow_amortized, generic_grow_exact, generic_grow_to,
   generic_with_capacity_in, shrink_to_fit, shrink_to, the `reserve_one` of push / insert, the
   `reserve(n)` of extend_from_slice_* / append / resize / extend_from_within; lib.rs
   min_non_zero_cap; src/fixed_bump_vec.rs (a full fixed vector fails, never reallocates).

   Only lengths and capacities are modelled (contents: Colls.v).  The base of everything the code
   decides is here: when it calls the allocator, with what capacity, and what it does when that
   call is refused — `grant` is the allocator's answer to the (at most one) call an operation
   makes; `shrunk` says whether allocator.shrink_slice returned a pointer.

   MutBumpVec / MutBumpVecRev (src/mut_bump_vec.rs, src/fixed_bump_vec/raw.rs
   grow_prepared_allocation) use the same policy, but the capacity they end up with is the length
   of the prepared range — the rest of the chunk — which is at least what was asked for: `got` is
   that length (0 for BumpVec, whose capacity becomes exactly the requested one). *)
From Coq Require Import ZArith Bool List.
From BS Require Import Word.
Import ListNotations.
Open Scope Z_scope.

Record vstate := mkV { vlen : Z; vcap : Z }.
Inductive verr := VOverflow | VAlloc | VFull.

Inductive vop :=
| VReserve (n : Z)
| VReserveExact (n : Z)
| VPush                      (* push / insert: reserve_one, then one more element *)
| VExtend (n : Z)            (* extend_from_slice_copy / append / resize up / extend_from_within: reserve n, then n more *)
| VPop
| VTruncate (k : Z)
| VShrinkToFit
| VShrinkTo (m : Z).

Record vout := mkVO { vo_err : option verr; vo_asked : bool (* the allocator was called *) }.

(* lib.rs min_non_zero_cap *)
Definition min_non_zero_cap (sz : Z) : Z := if sz =? 1 then 8 else if sz <=? 1024 then 4 else 1.

(* Layout::from_size_align(n * sz, al) succeeds *)
Definition layout_ok (sz al n : Z) : bool := (n * sz <? W) && (n * sz <=? IMAX - (al - 1)).

(* generic_grow_to / RawFixedBumpVec::allocate: one allocator call for `new_cap` elements *)
Definition grow_to (sz al : Z) (s : vstate) (new_cap : Z) (grant : bool) (got : Z) : vstate * vout :=
  if negb (layout_ok sz al new_cap) then (s, mkVO (Some VOverflow) false)
  else if grant then (mkV (vlen s) (Z.max new_cap got), mkVO None true)
  else (s, mkVO (Some VAlloc) true).

Definition grow_amortized (sz al : Z) (s : vstate) (additional : Z) (grant : bool) (got : Z) : vstate * vout :=
  let required := vlen s + additional in
  if W <=? required then (s, mkVO (Some VOverflow) false) else
  let doubled := if W <=? vcap s * 2 then required else vcap s * 2 in
  let new_cap := Z.max (Z.max doubled required) (min_non_zero_cap sz) in
  grow_to sz al s new_cap grant got.

Definition grow_exact (sz al : Z) (s : vstate) (additional : Z) (grant : bool) (got : Z) : vstate * vout :=
  let required := vlen s + additional in
  if W <=? required then (s, mkVO (Some VOverflow) false) else grow_to sz al s required grant got.

Definition quiet (s : vstate) : vstate * vout := (s, mkVO None false).

Definition reserve (sz al : Z) (s : vstate) (n : Z) (grant : bool) (got : Z) : vstate * vout :=
  if vcap s - vlen s <? n then grow_amortized sz al s n grant got else quiet s.
Definition reserve_exact (sz al : Z) (s : vstate) (n : Z) (grant : bool) (got : Z) : vstate * vout :=
  if vcap s - vlen s <? n then grow_exact sz al s n grant got else quiet s.

(* `fixed` = FixedBumpVec: no growth at all *)
Definition vstep (fixed : bool) (sz al : Z) (s : vstate) (o : vop) (grant shrunk : bool) (got : Z) : vstate * vout :=
  let need (n : Z) (k : vstate -> vstate) :=
    if fixed then
      if vcap s - vlen s <? n then (s, mkVO (Some VFull) false) else (k s, mkVO None false)
    else
      match reserve sz al s n grant got with
      | (s1, mkVO None a) => (k s1, mkVO None a)
      | r => r
      end in
  match o with
  | VReserve n => if fixed then need n (fun x => x) else reserve sz al s n grant got
  | VReserveExact n => if fixed then need n (fun x => x) else reserve_exact sz al s n grant got
  | VPush => need 1 (fun x => mkV (vlen x + 1) (vcap x))
  | VExtend n => need n (fun x => mkV (vlen x + n) (vcap x))
  | VPop => quiet (mkV (Z.max 0 (vlen s - 1)) (vcap s))
  | VTruncate k => quiet (mkV (Z.min (vlen s) k) (vcap s))
  | VShrinkToFit =>
    if fixed || (vcap s <=? vlen s) then quiet s
    else if shrunk then (mkV (vlen s) (vlen s), mkVO None true) else (s, mkVO None true)
  | VShrinkTo m =>
    let new_cap := Z.max (vlen s) m in
    if fixed || (vcap s <=? new_cap) then quiet s
    else if shrunk then (mkV (vlen s) new_cap, mkVO None true) else (s, mkVO None true)
  end.

(* with_capacity_in *)
Definition with_capacity (sz al : Z) (c : Z) (grant : bool) (got : Z) : vstate * vout :=
  if c =? 0 then quiet (mkV 0 0) else grow_to sz al (mkV 0 0) c grant got.

Fixpoint vrun (fixed : bool) (sz al : Z) (s : vstate) (xs : list (vop * bool * bool * Z)) : vstate :=
  match xs with
  | [] => s
  | (o, g, sh, got) :: t => vrun fixed sz al (fst (vstep fixed sz al s o g sh got)) t
  end.
