(* Pool.v — executable model of BumpPool (MODEL ONLY; proofs in PoolProofs.v).
   Hand-written from src/bump_pool.rs: a mutex-protected stack of idle arenas (`bumps`), `get*`
   pops one or creates one, a guard's Drop pushes its arena back, mem::forget of a guard leaks its
   arena (it is never dropped, so its memory stays valid), reset / reset_to_start / drop of the
   pool need `&mut` (no live guard borrows the pool) and act on every idle arena.
   The mutex makes each of these an atomic action, so an execution of any number of threads is a
   list of actions: a schedule.  Poisoning of the mutex is ignored by the code (into_inner), hence
   not part of the state: a `get` whose arena creation fails or panics is `Get g false`. *)
From Coq Require Import List Arith Bool.
Import ListNotations.

Record pool := mkPool {
  idle : list nat;              (* arenas in `bumps`, top of the stack first *)
  held : list (nat * nat);      (* (guard, arena) of live guards *)
  leaked : list nat;            (* arenas of forgotten guards *)
  created : nat;                (* arenas ever created; also the next arena id *)
  peak : nat;                   (* ghost: most guards ever alive at once (forgotten ones stay alive) *)
  blocks : list (nat * nat);    (* ghost: (arena, block) allocations that must still be intact *)
  nextb : nat;
  released : list nat;          (* arenas whose chunks went back to the base allocator *)
  gone : bool                   (* the pool was dropped *)
}.

Definition init : pool := mkPool [] [] [] 0 0 [] 0 [] false.

Inductive act :=
| Get (g : nat) (ok : bool)     (* get / try_get / get_with_size / get_with_capacity; ok = a needed creation succeeds *)
| DropG (g : nat)
| Forget (g : nat)
| Alloc (g : nat)               (* an allocation through guard g *)
| Reset
| ResetToStart
| PoolDrop.

Inductive out :=
| OArena (a : nat) (fresh : bool)
| OFail
| OBlock (a b : nat)
| ODone
| OReject.                      (* not a step a safe program can make (unknown guard, &mut while borrowed, ...) *)

Definition live (s : pool) : nat := length (held s) + length (leaked s).

Fixpoint lookup (g : nat) (l : list (nat * nat)) : option nat :=
  match l with
  | [] => None
  | (g', a) :: t => if g =? g' then Some a else lookup g t
  end.
Fixpoint remove_guard (g : nat) (l : list (nat * nat)) : list (nat * nat) :=
  match l with
  | [] => []
  | (g', a) :: t => if g =? g' then t else (g', a) :: remove_guard g t
  end.

Definition step (s : pool) (x : act) : pool * out :=
  if gone s then (s, OReject) else
  match x with
  | Get g ok =>
    match lookup g (held s) with
    | Some _ => (s, OReject)
    | None =>
      match idle s with
      | a :: rest =>
        let h := (g, a) :: held s in
        (mkPool rest h (leaked s) (created s) (Nat.max (peak s) (length h + length (leaked s)))
                (blocks s) (nextb s) (released s) false, OArena a false)
      | [] =>
        if ok then
          let a := created s in
          let h := (g, a) :: held s in
          (mkPool [] h (leaked s) (S (created s)) (Nat.max (peak s) (length h + length (leaked s)))
                  (blocks s) (nextb s) (released s) false, OArena a true)
        else (s, OFail)
      end
    end
  | DropG g =>
    match lookup g (held s) with
    | Some a => (mkPool (a :: idle s) (remove_guard g (held s)) (leaked s) (created s) (peak s)
                        (blocks s) (nextb s) (released s) false, ODone)
    | None => (s, OReject)
    end
  | Forget g =>
    match lookup g (held s) with
    | Some a => (mkPool (idle s) (remove_guard g (held s)) (a :: leaked s) (created s) (peak s)
                        (blocks s) (nextb s) (released s) false, ODone)
    | None => (s, OReject)
    end
  | Alloc g =>
    match lookup g (held s) with
    | Some a => (mkPool (idle s) (held s) (leaked s) (created s) (peak s)
                        ((a, nextb s) :: blocks s) (S (nextb s)) (released s) false, OBlock a (nextb s))
    | None => (s, OReject)
    end
  | Reset | ResetToStart =>
    match held s with
    | [] =>
      (* every idle arena is rewound: its allocations are gone; a leaked arena is not in `bumps` *)
      (mkPool (idle s) [] (leaked s) (created s) (peak s)
              (filter (fun ab => existsb (Nat.eqb (fst ab)) (leaked s)) (blocks s)) (nextb s) (released s) false, ODone)
    | _ => (s, OReject)
    end
  | PoolDrop =>
    match held s with
    | [] => (mkPool [] [] (leaked s) (created s) (peak s)
                    (filter (fun ab => existsb (Nat.eqb (fst ab)) (leaked s)) (blocks s)) (nextb s)
                    (idle s ++ released s) true, ODone)
    | _ => (s, OReject)
    end
  end.

Definition run (s : pool) (xs : list act) : pool := fold_left (fun s x => fst (step s x)) xs s.
