(* CapRefine.v — the capacity-growth decisions of the CURRENT vector sources
   (src/bump_vec.rs, src/mut_bump_vec.rs, src/mut_bump_vec_rev.rs: generic_reserve, generic_reserve_exact,
   generic_reserve_one, generic_grow_amortized, generic_grow_exact — cut out by tools/capsites.py and
   translated by tools/rs2v.py into gen/CapSites.v on every run) compute what the hand-written
   capacity model VecCap.v computes: when a reserve grows, and which capacity it then asks
   generic_grow_to for (or that it reports a capacity overflow).  `Ok` on the left also says that
   the code's unchecked arithmetic (`capacity - len`, MutBumpVec's `capacity * 2`) cannot wrap for a
   vector whose length is at most its capacity and whose capacity is at most isize::MAX. *)
From Coq Require Import ZArith Lia Bool ZifyBool.
From BS Require Import Word VecCap.
From BS.gen Require CapSites.
Open Scope Z_scope.

Definition amortized_target (sz len cap add : Z) : option Z :=
  if W <=? len + add then None
  else Some (Z.max (Z.max (if W <=? cap * 2 then len + add else cap * 2) (len + add)) (min_non_zero_cap sz)).

Definition exact_target (len add : Z) : option Z :=
  if W <=? len + add then None else Some (len + add).

(* the model's growth functions are exactly "compute the target, then ask for it" *)
Lemma grow_amortized_by_target sz al s add grant got :
  grow_amortized sz al s add grant got =
  match amortized_target sz (vlen s) (vcap s) add with
  | None => (s, mkVO (Some VOverflow) false)
  | Some c => grow_to sz al s c grant got
  end.
Proof. unfold grow_amortized, amortized_target. destruct (W <=? vlen s + add); reflexivity. Qed.

Lemma grow_exact_by_target sz al s add grant got :
  grow_exact sz al s add grant got =
  match exact_target (vlen s) add with
  | None => (s, mkVO (Some VOverflow) false)
  | Some c => grow_to sz al s c grant got
  end.
Proof. unfold grow_exact, exact_target. destruct (W <=? vlen s + add); reflexivity. Qed.

Lemma mnzc_call {R} sz : @call R Z (CapSites.min_non_zero_cap sz) = Norm (min_non_zero_cap sz).
Proof. reflexivity. Qed.

Lemma checked_add_case len add :
  checked_add len add = if W <=? len + add then None else Some (len + add).
Proof. unfold checked_add. destruct (Z.ltb_spec (len + add) W); destruct (Z.leb_spec W (len + add)); try reflexivity; lia. Qed.

(* ---------------- BumpVec ---------------- *)
Theorem bv_grow_amortized_refines len cap add sz :
  CapSites.bv_grow_amortized len cap add sz = Ok (amortized_target sz len cap add).
Proof.
  unfold CapSites.bv_grow_amortized, amortized_target. rewrite checked_add_case.
  destruct (W <=? len + add); [reflexivity|].
  cbn [bindc]. rewrite mnzc_call. cbn [bindc run].
  unfold checked_mul.
  (* closed by arithmetic, not by syntactic equality: the operands of `max` may be written in any order *)
  destruct (Z.ltb_spec (cap * 2) W); destruct (Z.leb_spec W (cap * 2)); try lia; first [reflexivity | f_equal; f_equal; lia].
Qed.

Theorem bv_grow_exact_refines len cap add sz :
  CapSites.bv_grow_exact len cap add sz = Ok (exact_target len add).
Proof.
  unfold CapSites.bv_grow_exact, exact_target. rewrite checked_add_case.
  destruct (W <=? len + add); reflexivity.
Qed.

Theorem bv_reserve_grows_refines len cap add :
  len <= cap -> CapSites.bv_reserve_grows len cap add = Ok (cap - len <? add).
Proof. intros H. unfold CapSites.bv_reserve_grows. rewrite sub_ok by lia. reflexivity. Qed.

Theorem bv_reserve_exact_grows_refines len cap add :
  len <= cap -> CapSites.bv_reserve_exact_grows len cap add = Ok (cap - len <? add).
Proof. intros H. unfold CapSites.bv_reserve_exact_grows. rewrite sub_ok by lia. reflexivity. Qed.

Theorem bv_reserve_one_grows_refines len cap :
  len <= cap -> CapSites.bv_reserve_one_grows len cap = Ok (cap - len <? 1).
Proof.
  intros H. unfold CapSites.bv_reserve_one_grows. cbn [run]. f_equal.
  destruct (Z.eqb_spec cap len); destruct (Z.ltb_spec (cap - len) 1); try reflexivity; lia.
Qed.

(* ---------------- MutBumpVec / MutBumpVecRev: `capacity * 2` unchecked ---------------- *)
Lemma amortized_no_wrap sz len cap add :
  0 <= cap <= IMAX -> amortized_target sz len cap add =
  if W <=? len + add then None else Some (Z.max (Z.max (cap * 2) (len + add)) (min_non_zero_cap sz)).
Proof.
  intros Hc. unfold amortized_target. destruct (W <=? len + add); [reflexivity|].
  assert (E : W <=? cap * 2 = false). { apply Z.leb_gt. rewrite IMAX_val in Hc. rewrite W_val. lia. }
  rewrite E. reflexivity.
Qed.

Theorem mv_grow_amortized_refines len cap add sz :
  0 <= cap <= IMAX -> CapSites.mv_grow_amortized len cap add sz = Ok (amortized_target sz len cap add).
Proof.
  intros Hc. rewrite amortized_no_wrap by exact Hc.
  unfold CapSites.mv_grow_amortized. rewrite checked_add_case.
  destruct (W <=? len + add); [reflexivity|].
  cbn [bindc]. rewrite mul_ok by (rewrite IMAX_val in Hc; rewrite W_val; lia).
  cbn [bindc]. rewrite mnzc_call. cbn [bindc run]. first [reflexivity | f_equal; f_equal; lia].
Qed.

Theorem rv_grow_amortized_refines len cap add sz :
  0 <= cap <= IMAX -> CapSites.rv_grow_amortized len cap add sz = Ok (amortized_target sz len cap add).
Proof.
  intros Hc. rewrite amortized_no_wrap by exact Hc.
  unfold CapSites.rv_grow_amortized. rewrite checked_add_case.
  destruct (W <=? len + add); [reflexivity|].
  cbn [bindc]. rewrite mul_ok by (rewrite IMAX_val in Hc; rewrite W_val; lia).
  cbn [bindc]. rewrite mnzc_call. cbn [bindc run]. first [reflexivity | f_equal; f_equal; lia].
Qed.

Theorem mv_grow_exact_refines len cap add sz :
  CapSites.mv_grow_exact len cap add sz = Ok (exact_target len add).
Proof. unfold CapSites.mv_grow_exact, exact_target. rewrite checked_add_case. destruct (W <=? len + add); reflexivity. Qed.

Theorem rv_grow_exact_refines len cap add sz :
  CapSites.rv_grow_exact len cap add sz = Ok (exact_target len add).
Proof. unfold CapSites.rv_grow_exact, exact_target. rewrite checked_add_case. destruct (W <=? len + add); reflexivity. Qed.

Theorem mv_reserve_grows_refines len cap add :
  len <= cap -> CapSites.mv_reserve_grows len cap add = Ok (cap - len <? add)
             /\ CapSites.mv_reserve_exact_grows len cap add = Ok (cap - len <? add)
             /\ CapSites.mv_reserve_one_grows len cap = Ok (cap - len <? 1).
Proof.
  intros H. unfold CapSites.mv_reserve_grows, CapSites.mv_reserve_exact_grows, CapSites.mv_reserve_one_grows.
  rewrite !sub_ok by lia. repeat split; try reflexivity. cbn [run]. f_equal.
  destruct (Z.eqb_spec cap len); destruct (Z.ltb_spec (cap - len) 1); try reflexivity; lia.
Qed.

Theorem rv_reserve_grows_refines len cap add :
  len <= cap -> CapSites.rv_reserve_grows len cap add = Ok (cap - len <? add)
             /\ CapSites.rv_reserve_exact_grows len cap add = Ok (cap - len <? add)
             /\ CapSites.rv_reserve_one_grows len cap = Ok (cap - len <? 1).
Proof.
  intros H. unfold CapSites.rv_reserve_grows, CapSites.rv_reserve_exact_grows, CapSites.rv_reserve_one_grows.
  rewrite !sub_ok by lia. repeat split; try reflexivity. cbn [run]. f_equal.
  destruct (Z.eqb_spec cap len); destruct (Z.ltb_spec (cap - len) 1); try reflexivity; lia.
Qed.

(* the whole reserve of the code — condition from the source, target from the source — is the model's *)
Theorem bv_reserve_is_model sz al s n grant got :
  vlen s <= vcap s ->
  reserve sz al s n grant got =
  match CapSites.bv_reserve_grows (vlen s) (vcap s) n with
  | Ok true =>
    match CapSites.bv_grow_amortized (vlen s) (vcap s) n sz with
    | Ok (Some c) => grow_to sz al s c grant got
    | _ => (s, mkVO (Some VOverflow) false)
    end
  | _ => quiet s
  end.
Proof.
  intros H. rewrite bv_reserve_grows_refines by exact H. rewrite bv_grow_amortized_refines.
  unfold reserve. destruct (vcap s - vlen s <? n); [|reflexivity].
  rewrite grow_amortized_by_target. destruct (amortized_target sz (vlen s) (vcap s) n); reflexivity.
Qed.

Theorem mv_reserve_is_model sz al s n grant got :
  vlen s <= vcap s -> 0 <= vcap s <= IMAX ->
  reserve sz al s n grant got =
  match CapSites.mv_reserve_grows (vlen s) (vcap s) n with
  | Ok true =>
    match CapSites.mv_grow_amortized (vlen s) (vcap s) n sz with
    | Ok (Some c) => grow_to sz al s c grant got
    | _ => (s, mkVO (Some VOverflow) false)
    end
  | _ => quiet s
  end.
Proof.
  intros H Hc. destruct (mv_reserve_grows_refines (vlen s) (vcap s) n H) as [E _]. rewrite E.
  rewrite mv_grow_amortized_refines by exact Hc.
  unfold reserve. destruct (vcap s - vlen s <? n); [|reflexivity].
  rewrite grow_amortized_by_target. destruct (amortized_target sz (vlen s) (vcap s) n); reflexivity.
Qed.
