(* ArenaAny.v — the type-erased statistics (src/stats/any.rs).  An `AnyChunk` sees a chunk through its
   header alone: the header's address, its `end` field (the far end of the chunk: the chunk end when
   bumping upwards, the chunk START when bumping downwards), its `pos` field and the header size it
   was given when it was made from a typed `Chunk<A, S>`.  The bump direction is inferred
   (`end > header`), every range is computed from those four numbers.  With the header size of the
   allocator the chunk came from, the type-erased view reports exactly the typed numbers and ranges
   (C10's clause); with the 32-byte header of a zero-sized allocator — what the pinned commit assumed
   for every allocator (genuine defect 2, repaired in f0dcac1) — it does not (computed witness). *)
From Coq Require Import ZArith List Lia Bool.
From BS Require Import Word BumpSpec ChunkSpec Arena ArenaInv.
Open Scope Z_scope.

Record hdr := mkHdr { h_addr : Z; h_end : Z; h_pos : Z }.

(* what NonDummyChunk::new writes into the header *)
Definition header_of (c : cfg) (ch : chunk) : hdr :=
  if up c then mkHdr (cbase ch) (cbase ch + csize ch) (cpos ch)
  else mkHdr (cbase ch + csize ch - hs c) (cbase ch) (cpos ch).

Definition any_up (x : hdr) : bool := h_addr x <? h_end x.
Definition any_after_header (hsz : Z) (x : hdr) : Z := h_addr x + hsz.
Definition any_chunk_start (x : hdr) : Z := if any_up x then h_addr x else h_end x.
Definition any_chunk_end (hsz : Z) (x : hdr) : Z := if any_up x then h_end x else any_after_header hsz x.
Definition any_content_start (hsz : Z) (x : hdr) : Z := if any_up x then any_after_header hsz x else any_chunk_start x.
Definition any_content_end (hsz : Z) (x : hdr) : Z := if any_up x then any_chunk_end hsz x else h_addr x.
Definition any_size (hsz : Z) (x : hdr) : Z := any_chunk_end hsz x - any_chunk_start x.
Definition any_capacity (hsz : Z) (x : hdr) : Z := any_content_end hsz x - any_content_start hsz x.
Definition any_allocated (hsz : Z) (x : hdr) : Z :=
  if any_up x then h_pos x - any_content_start hsz x else any_content_end hsz x - h_pos x.
Definition any_remaining (hsz : Z) (x : hdr) : Z :=
  if any_up x then any_content_end hsz x - h_pos x else h_pos x - any_content_start hsz x.

Section Any.
  Variable c : cfg.
  Hypothesis Hc : cfg_ok c.
  Variable ch : chunk.
  Hypothesis Hg : chunk_geom c ch.

  Let Hhs : 32 <= hs c. Proof. unfold cfg_ok, hdr_ok in Hc; tauto. Qed.
  Let Hsz : hs c <= csize ch. Proof. unfold chunk_geom in Hg; tauto. Qed.

  Theorem any_direction_is_the_typed_one : any_up (header_of c ch) = up c.
  Proof.
    unfold any_up, header_of. destruct (up c); cbn [h_addr h_end].
    - apply Z.ltb_lt. lia.
    - apply Z.ltb_ge. lia.
  Qed.

  Theorem any_view_is_the_typed_view :
    let x := header_of c ch in
    any_chunk_start x = cbase ch /\ any_chunk_end (hs c) x = cbase ch + csize ch /\
    any_content_start (hs c) x = content_start c ch /\ any_content_end (hs c) x = content_end c ch /\
    any_size (hs c) x = csize ch /\ any_capacity (hs c) x = capacity c ch /\
    any_allocated (hs c) x = allocated_in c ch /\ any_remaining (hs c) x = remaining_in c ch /\
    h_pos x = cpos ch.
  Proof.
    cbv zeta.
    unfold any_size, any_capacity, any_allocated, any_remaining, any_content_start, any_content_end,
      any_chunk_start, any_chunk_end, any_after_header.
    rewrite any_direction_is_the_typed_one.
    unfold header_of, capacity, allocated_in, remaining_in, content_start, content_end.
    destruct (up c); cbn [h_addr h_end h_pos]; repeat split; lia.
  Qed.
End Any.

(* the pinned commit computed `after_header` with the header size of ChunkHeader<()> = 32 whatever the
   allocator: for an 8-byte allocator value (header 48 bytes) the numbers differ *)
Example any_view_pinned_refuted :
  let c := mkCfg true false true true 512 48 16 true in
  let ch := mkChunk 65536 512 512 512 (65536 + 48 + 4) in
  any_capacity (hs c) (header_of c ch) = capacity c ch /\
  any_capacity 32 (header_of c ch) <> capacity c ch /\
  any_allocated 32 (header_of c ch) = 20 /\ allocated_in c ch = 4.
Proof. vm_compute. repeat split; try reflexivity. discriminate. Qed.

(* ---------------- the header NonDummyChunk::new writes in the CURRENT source (gen/AllocSites.v) is header_of *)
From BS.gen Require AllocSites.

Theorem new_chunk_header_refines c ch :
  cfg_ok c -> chunk_geom c ch ->
  if up c then
    AllocSites.new_chunk_up_header (cbase ch) = Ok (h_addr (header_of c ch)) /\
    AllocSites.new_chunk_up_pos (cbase ch) (hs c) = Ok (fresh_pos c ch) /\
    AllocSites.new_chunk_up_end (cbase ch) (csize ch) = Ok (h_end (header_of c ch))
  else
    AllocSites.new_chunk_down_header (cbase ch) (csize ch) (hs c) = Ok (h_addr (header_of c ch)) /\
    AllocSites.new_chunk_down_pos (h_addr (header_of c ch)) = Ok (fresh_pos c ch) /\
    AllocSites.new_chunk_down_end (cbase ch) = Ok (h_end (header_of c ch)).
Proof.
  intros Hc Hg. unfold chunk_geom in Hg.
  destruct Hg as (Hb & Hdb & H16 & Hdn & Hhs & Hreq & Hsz & HW & HI).
  assert (Hh : 32 <= hs c) by (unfold cfg_ok, hdr_ok in Hc; tauto).
  unfold header_of, fresh_pos, content_start, content_end.
  destruct (up c); cbn [h_addr h_end].
  - unfold AllocSites.new_chunk_up_header, AllocSites.new_chunk_up_pos, AllocSites.new_chunk_up_end.
    rewrite mul_ok by lia. cbn [bindc]. rewrite !add_ok by lia. repeat split; try reflexivity.
    cbn [bindc Word.run]. f_equal. lia.
  - unfold AllocSites.new_chunk_down_header, AllocSites.new_chunk_down_pos, AllocSites.new_chunk_down_end.
    rewrite add_ok by lia. cbn [bindc]. rewrite mul_ok by lia. cbn [bindc]. rewrite sub_ok by lia.
    repeat split; try reflexivity. cbn [bindc Word.run]. f_equal. lia.
Qed.
