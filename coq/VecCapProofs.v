(* VecCapProofs.v — the capacity clauses of C08 and the collection-level clause of C07, proved
   for every history of the model VecCap.v. *)
From Coq Require Import ZArith Bool List Lia.
From BS Require Import Word VecCap.
Import ListNotations.
Open Scope Z_scope.

(* element type: sized, a layout *)
Definition elem_ok (sz al : Z) : Prop := 1 <= sz /\ 1 <= al.

(* the invariant: capacity at least the length, and the buffer is a legal allocation *)
Definition vinv (sz al : Z) (s : vstate) : Prop :=
  0 <= vlen s <= vcap s /\ vcap s * sz <= IMAX.

(* what the allocator may hand out beyond the request (MutBumpVec: the rest of the chunk) *)
Definition got_ok (sz got : Z) : Prop := got * sz <= IMAX.

Lemma W_IMAX : IMAX < W. Proof. unfold IMAX, W. lia. Qed.

Lemma min_non_zero_cap_pos sz : 1 <= min_non_zero_cap sz <= 8.
Proof. unfold min_non_zero_cap. destruct (sz =? 1); [lia|]. destruct (sz <=? 1024); lia. Qed.

Lemma layout_ok_bound sz al n : elem_ok sz al -> layout_ok sz al n = true -> n * sz <= IMAX.
Proof. intros [Hs Ha] H. unfold layout_ok in H. apply andb_prop in H. destruct H as [_ H]. apply Z.leb_le in H. lia. Qed.

(* ---------------------------------------------------------------- one call of grow_to *)
Lemma grow_to_spec sz al s n grant got s' o :
  grow_to sz al s n grant got = (s', o) ->
  (vo_err o = None /\ s' = mkV (vlen s) (Z.max n got) /\ vo_asked o = true /\ grant = true /\ layout_ok sz al n = true) \/
  (vo_err o <> None /\ s' = s).
Proof.
  unfold grow_to. destruct (layout_ok sz al n) eqn:El; cbn [negb].
  - destruct grant; intros H; injection H as <- <-.
    + left. repeat split; reflexivity.
    + right. split; [discriminate|reflexivity].
  - intros H. injection H as <- <-. right. split; [discriminate|reflexivity].
Qed.

Lemma max_bound sz n got : 1 <= sz -> n * sz <= IMAX -> got * sz <= IMAX -> Z.max n got * sz <= IMAX.
Proof. intros Hs H1 H2. destruct (Z.max_spec n got) as [[_ ->]|[_ ->]]; assumption. Qed.

Lemma reserve_spec sz al s n grant got s' o :
  elem_ok sz al -> vinv sz al s -> got_ok sz got -> 0 <= n ->
  reserve sz al s n grant got = (s', o) ->
  (vo_err o = None /\ vinv sz al s' /\ vlen s' = vlen s /\ n <= vcap s' - vlen s' /\ vcap s <= vcap s' /\
   (n <= vcap s - vlen s -> s' = s /\ vo_asked o = false) /\
   (vcap s - vlen s < n -> vo_asked o = true /\ grant = true /\ 2 * vcap s <= vcap s' /\ min_non_zero_cap sz <= vcap s')) \/
  (vo_err o <> None /\ s' = s /\ vcap s - vlen s < n).
Proof.
  intros He (Hl & Hc) Hgot Hn. unfold reserve. destruct (Z.ltb_spec (vcap s - vlen s) n) as [Hlt|Hge].
  - unfold grow_amortized. destruct (Z.leb_spec W (vlen s + n)) as [Hov|Hreq].
    { intros H. injection H as <- <-. right. split; [discriminate|]. split; [reflexivity|exact Hlt]. }
    set (doubled := if W <=? vcap s * 2 then vlen s + n else vcap s * 2).
    set (nc := Z.max (Z.max doubled (vlen s + n)) (min_non_zero_cap sz)).
    intros H. destruct (grow_to_spec _ _ _ _ _ _ _ _ H) as [(E1 & E2 & E3 & E4 & E5)|(E1 & E2)].
    + left. subst s'. cbn [vlen vcap]. pose proof (layout_ok_bound _ _ _ He E5) as Hb.
      pose proof (min_non_zero_cap_pos sz) as Hm. pose proof W_IMAX as HW. destruct He as [Hs Ha].
      assert (Hcs : vcap s <= vcap s * sz) by nia.
      assert (Hd : vcap s * 2 < W) by (unfold IMAX, W in *; lia).
      assert (Ed : doubled = vcap s * 2) by (unfold doubled; destruct (Z.leb_spec W (vcap s * 2)); [lia|reflexivity]).
      pose proof (max_bound sz nc got Hs Hb Hgot) as Hmb. fold nc.
      split; [exact E1|]. split; [unfold vinv; cbn [vlen vcap]; lia|]. split; [reflexivity|].
      split; [lia|]. split; [lia|]. split; [lia|]. intros _. repeat split; try assumption; lia.
    + right. split; [exact E1|]. split; [exact E2|exact Hlt].
  - intros H. injection H as <- <-. left. cbn [vo_err vo_asked]. split; [reflexivity|]. split; [split; assumption|].
    split; [reflexivity|]. split; [lia|]. split; [lia|]. split; [intros _; split; reflexivity|lia].
Qed.

Lemma reserve_exact_spec sz al s n grant got s' o :
  elem_ok sz al -> vinv sz al s -> got_ok sz got -> 0 <= n ->
  reserve_exact sz al s n grant got = (s', o) ->
  (vo_err o = None /\ vinv sz al s' /\ vlen s' = vlen s /\ n <= vcap s' - vlen s' /\ vcap s <= vcap s' /\
   (n <= vcap s - vlen s -> s' = s /\ vo_asked o = false) /\
   (vcap s - vlen s < n -> vo_asked o = true /\ grant = true /\ vcap s' = Z.max (vlen s + n) got)) \/
  (vo_err o <> None /\ s' = s /\ vcap s - vlen s < n).
Proof.
  intros He (Hl & Hc) Hgot Hn. unfold reserve_exact. destruct (Z.ltb_spec (vcap s - vlen s) n) as [Hlt|Hge].
  - unfold grow_exact. destruct (Z.leb_spec W (vlen s + n)) as [Hov|Hreq].
    { intros H. injection H as <- <-. right. split; [discriminate|]. split; [reflexivity|exact Hlt]. }
    intros H. destruct (grow_to_spec _ _ _ _ _ _ _ _ H) as [(E1 & E2 & E3 & E4 & E5)|(E1 & E2)].
    + left. subst s'. cbn [vlen vcap]. pose proof (layout_ok_bound _ _ _ He E5) as Hb. destruct He as [Hs Ha].
      pose proof (max_bound sz _ got Hs Hb Hgot) as Hmb.
      split; [exact E1|]. split; [unfold vinv; cbn [vlen vcap]; lia|]. split; [reflexivity|].
      split; [lia|]. split; [lia|]. split; [lia|]. intros _. repeat split; assumption.
    + right. split; [exact E1|]. split; [exact E2|exact Hlt].
  - intros H. injection H as <- <-. left. cbn [vo_err vo_asked]. split; [reflexivity|]. split; [split; assumption|].
    split; [reflexivity|]. split; [lia|]. split; [lia|]. split; [intros _; split; reflexivity|lia].
Qed.

(* arguments a caller can pass: usize *)
Definition vop_ok (o : vop) : Prop :=
  match o with
  | VReserve n | VReserveExact n | VExtend n | VTruncate n | VShrinkTo n => 0 <= n < W
  | _ => True
  end.

(* ---------------------------------------------------------------- every operation *)
(* C07 (collection level): an operation that fails leaves length and capacity as they were.
   C08: capacity >= length always. *)
Theorem vstep_inv fixed sz al s o grant shrunk got :
  elem_ok sz al -> vinv sz al s -> got_ok sz got -> vop_ok o ->
  let '(s', out) := vstep fixed sz al s o grant shrunk got in
  vinv sz al s' /\ (vo_err out <> None -> s' = s).
Proof.
  intros He Hi Hgot Ho. pose proof Hi as (Hl & Hc).
  assert (Hneed : forall n (k : vstate -> vstate), 0 <= n ->
            (forall x, vinv sz al x -> n <= vcap x - vlen x -> vinv sz al (k x)) ->
            let '(s', out) := (if fixed then if vcap s - vlen s <? n then (s, mkVO (Some VFull) false) else (k s, mkVO None false)
                               else match reserve sz al s n grant got with (s1, mkVO None a) => (k s1, mkVO None a) | r => r end) in
            vinv sz al s' /\ (vo_err out <> None -> s' = s)).
  { intros n k Hn Hk. destruct fixed.
    - destruct (Z.ltb_spec (vcap s - vlen s) n); [split; [exact Hi|reflexivity]|]. split; [apply Hk; [exact Hi|lia]|]. cbn. congruence.
    - destruct (reserve sz al s n grant got) as [s1 o1] eqn:Er.
      destruct (reserve_spec _ _ _ _ _ _ _ _ He Hi Hgot Hn Er) as [(E1 & I1 & _ & R1 & _)|(E1 & E2 & _)].
      + destruct o1 as [e a]. cbn [vo_err] in E1. subst e. split; [apply Hk; assumption|]. cbn. congruence.
      + destruct o1 as [[e|] a]; [|cbn in E1; congruence]. split; [subst; exact Hi|intros _; exact E2]. }
  destruct o as [n|n| |n| |k| |m]; cbn [vstep vop_ok] in *.
  - destruct fixed.
    + apply (Hneed n (fun x => x)); [lia|auto].
    + destruct (reserve sz al s n grant got) as [s1 o1] eqn:Er.
      destruct (reserve_spec _ _ _ _ _ _ _ _ He Hi Hgot (proj1 Ho) Er) as [(E1 & I1 & _)|(E1 & E2 & _)].
      * split; [exact I1|congruence]. * split; [subst; exact Hi|intros _; exact E2].
  - destruct fixed.
    + apply (Hneed n (fun x => x)); [lia|auto].
    + destruct (reserve_exact sz al s n grant got) as [s1 o1] eqn:Er.
      destruct (reserve_exact_spec _ _ _ _ _ _ _ _ He Hi Hgot (proj1 Ho) Er) as [(E1 & I1 & _)|(E1 & E2 & _)].
      * split; [exact I1|congruence]. * split; [subst; exact Hi|intros _; exact E2].
  - apply (Hneed 1 (fun x => mkV (vlen x + 1) (vcap x))); [lia|]. intros x (Hx & Hxc) Hr. unfold vinv. cbn [vlen vcap]. lia.
  - apply (Hneed n (fun x => mkV (vlen x + n) (vcap x))); [lia|]. intros x (Hx & Hxc) Hr. unfold vinv. cbn [vlen vcap]. lia.
  - unfold quiet. split; [unfold vinv; cbn [vlen vcap]; lia|cbn; congruence].
  - unfold quiet. split; [unfold vinv; cbn [vlen vcap]; lia|cbn; congruence].
  - destruct (fixed || (vcap s <=? vlen s)); [split; [exact Hi|cbn; congruence]|].
    destruct shrunk; (split; [|cbn; congruence]); [|exact Hi]. destruct He. unfold vinv. cbn [vlen vcap]. nia.
  - destruct (fixed || (vcap s <=? Z.max (vlen s) m)) eqn:Eb; [split; [exact Hi|cbn; congruence]|].
    apply orb_false_iff in Eb. destruct Eb as [_ Eb]. apply Z.leb_gt in Eb.
    destruct shrunk; (split; [|cbn; congruence]); [|exact Hi]. destruct He. unfold vinv. cbn [vlen vcap]. nia.
Qed.

Definition step_ok (sz : Z) (x : vop * bool * bool * Z) : Prop := vop_ok (fst (fst (fst x))) /\ got_ok sz (snd x).

(* every reachable state *)
Theorem vrun_inv fixed sz al : forall xs s,
  elem_ok sz al -> vinv sz al s -> Forall (step_ok sz) xs -> vinv sz al (vrun fixed sz al s xs).
Proof.
  induction xs as [|[[[o g] sh] got] t IH]; intros s He Hi Hok; [exact Hi|]. cbn [vrun].
  inversion Hok as [|? ? [Ho Hg] Ht]; subst. cbn [fst snd] in Ho, Hg.
  pose proof (vstep_inv fixed sz al s o g sh got He Hi Hg Ho) as H. destruct (vstep fixed sz al s o g sh got) as [s' out].
  cbn [fst]. apply IH; [exact He|exact (proj1 H)|exact Ht].
Qed.

(* C08: reserve / reserve_exact keep their promise; nothing is reallocated while it suffices *)
Theorem reserve_promise sz al s n grant shrunk got (exact : bool) :
  elem_ok sz al -> vinv sz al s -> got_ok sz got -> 0 <= n ->
  let '(s', out) := vstep false sz al s (if exact then VReserveExact n else VReserve n) grant shrunk got in
  vo_err out = None -> n <= vcap s' - vlen s' /\ vlen s' = vlen s /\ vcap s <= vcap s'.
Proof.
  intros He Hi Hgot Hn. destruct exact; cbn [vstep].
  - destruct (reserve_exact sz al s n grant got) as [s1 o1] eqn:Er.
    destruct (reserve_exact_spec _ _ _ _ _ _ _ _ He Hi Hgot Hn Er) as [(E1 & I1 & L & R & C & _)|(E1 & _)]; [intros _; auto|congruence].
  - destruct (reserve sz al s n grant got) as [s1 o1] eqn:Er.
    destruct (reserve_spec _ _ _ _ _ _ _ _ He Hi Hgot Hn Er) as [(E1 & I1 & L & R & C & _)|(E1 & _)]; [intros _; auto|congruence].
Qed.

(* an operation that needs n more slots and finds them makes no allocator call, cannot fail and
   does not change the capacity (so the buffer does not move) *)
Theorem enough_room_no_allocator_call fixed sz al s o grant shrunk got n :
  elem_ok sz al -> vinv sz al s ->
  (o = VReserve n \/ o = VReserveExact n \/ o = VExtend n \/ (o = VPush /\ n = 1)) -> 0 <= n ->
  n <= vcap s - vlen s ->
  let '(s', out) := vstep fixed sz al s o grant shrunk got in
  vo_err out = None /\ vo_asked out = false /\ vcap s' = vcap s.
Proof.
  intros He Hi Ho Hn Hroom.
  assert (R : reserve sz al s n grant got = quiet s) by (unfold reserve; destruct (Z.ltb_spec (vcap s - vlen s) n); [lia|reflexivity]).
  assert (RE : reserve_exact sz al s n grant got = quiet s) by (unfold reserve_exact; destruct (Z.ltb_spec (vcap s - vlen s) n); [lia|reflexivity]).
  assert (F : (vcap s - vlen s <? n) = false) by (apply Z.ltb_ge; lia).
  destruct Ho as [->|[->|[->|[-> ->]]]]; cbn [vstep]; destruct fixed; rewrite ?R, ?RE, ?F; unfold quiet; cbn; repeat split; reflexivity.
Qed.

(* the promise window: after a successful reserve(n), the next n pushes find room: the capacity
   stays, although the allocator would refuse (`grant = false`) *)
Fixpoint pushes (k : nat) : list (vop * bool * bool * Z) :=
  match k with O => [] | S k' => (VPush, false, false, 0) :: pushes k' end.

Theorem promise_window sz al : forall k s,
  elem_ok sz al -> vinv sz al s -> Z.of_nat k <= vcap s - vlen s ->
  let s' := vrun false sz al s (pushes k) in
  vcap s' = vcap s /\ vlen s' = vlen s + Z.of_nat k.
Proof.
  induction k as [|k IH]; intros s He Hi Hk; [cbn; lia|].
  cbn [pushes vrun].
  assert (Hg0 : got_ok sz 0) by (unfold got_ok, IMAX; lia).
  pose proof (vstep_inv false sz al s VPush false false 0 He Hi Hg0 I) as H2.
  assert (E : fst (vstep false sz al s VPush false false 0) = mkV (vlen s + 1) (vcap s)).
  { cbn [vstep]. unfold reserve. destruct (Z.ltb_spec (vcap s - vlen s) 1); [lia|]. reflexivity. }
  destruct (vstep false sz al s VPush false false 0) as [s1 o1]. cbn [fst] in *. subst s1.
  destruct (IH (mkV (vlen s + 1) (vcap s)) He (proj1 H2)) as [A B]; [cbn [vlen vcap]; lia|].
  cbn [vlen vcap] in *. lia.
Qed.

(* amortised growth: a push that has to grow at least doubles the capacity *)
Theorem growing_push_doubles sz al s grant shrunk got :
  elem_ok sz al -> vinv sz al s -> got_ok sz got -> vlen s = vcap s ->
  let '(s', out) := vstep false sz al s VPush grant shrunk got in
  vo_err out = None -> 2 * vcap s <= vcap s' /\ min_non_zero_cap sz <= vcap s' /\ vlen s' = vlen s + 1.
Proof.
  intros He Hi Hgot Hfull. cbn [vstep]. destruct (reserve sz al s 1 grant got) as [s1 o1] eqn:Er.
  assert (H01 : 0 <= 1) by lia.
  destruct (reserve_spec _ _ _ _ _ _ _ _ He Hi Hgot H01 Er) as [(E1 & I1 & L & R & C & _ & G)|(E1 & E2 & _)].
  - destruct o1 as [e a]. cbn [vo_err] in E1. subst e. intros _. destruct (G ltac:(lia)) as (_ & _ & G1 & G2).
    cbn [vlen vcap]. lia.
  - destruct o1 as [[e|] a]; [cbn; congruence|cbn in E1; congruence].
Qed.

(* BumpVec (got = 0): reserve_exact and with_capacity give exactly what was asked *)
Theorem reserve_exact_is_exact sz al s n grant shrunk :
  elem_ok sz al -> vinv sz al s -> 0 <= n -> vcap s - vlen s < n ->
  let '(s', out) := vstep false sz al s (VReserveExact n) grant shrunk 0 in
  vo_err out = None -> vcap s' = vlen s + n.
Proof.
  intros He Hi Hn Hlt. cbn [vstep]. destruct (reserve_exact sz al s n grant 0) as [s1 o1] eqn:Er.
  assert (Hg0 : got_ok sz 0) by (unfold got_ok, IMAX; lia).
  destruct (reserve_exact_spec _ _ _ _ _ _ _ _ He Hi Hg0 Hn Er) as [(E1 & I1 & L & R & C & _ & G)|(E1 & _)]; [|congruence].
  intros _. destruct (G Hlt) as (_ & _ & E). destruct Hi as (Hl & _). lia.
Qed.

(* a fixed vector never changes its capacity, and fails exactly when it is too full *)
Theorem fixed_never_reallocates sz al s o grant shrunk got :
  let '(s', out) := vstep true sz al s o grant shrunk got in
  vcap s' = vcap s /\ vo_asked out = false.
Proof.
  destruct o as [n|n| |n| |k| |m]; cbn [vstep orb]; unfold quiet;
    try (destruct (vcap s - vlen s <? _)); cbn; split; reflexivity.
Qed.

Theorem fixed_push_fails_iff_full sz al s grant shrunk got :
  vinv sz al s ->
  (vo_err (snd (vstep true sz al s VPush grant shrunk got)) <> None <-> vlen s = vcap s).
Proof.
  intros (Hl & _). cbn [vstep]. destruct (Z.ltb_spec (vcap s - vlen s) 1) as [Hlt|Hge]; cbn; split; intros Hx; try lia; try congruence.
Qed.

(* shrinking keeps capacity >= length and >= the requested lower bound (when it was before) *)
Theorem shrink_to_bounds sz al s m grant shrunk got :
  vinv sz al s ->
  let s' := fst (vstep false sz al s (VShrinkTo m) grant shrunk got) in
  vlen s' = vlen s /\ vlen s <= vcap s' <= vcap s /\ Z.min (vcap s) m <= vcap s'.
Proof.
  intros (Hl & _). cbn [vstep orb]. destruct (Z.leb_spec (vcap s) (Z.max (vlen s) m)); [cbn; lia|].
  destruct shrunk; cbn [fst vlen vcap]; lia.
Qed.

(* with_capacity: at least — for BumpVec exactly — what was asked for *)
Theorem with_capacity_spec sz al c grant got :
  elem_ok sz al -> got_ok sz got -> 0 <= c ->
  let '(s, out) := with_capacity sz al c grant got in
  (vo_err out = None -> vinv sz al s /\ vlen s = 0 /\ c <= vcap s /\ (got = 0 -> vcap s = c)) /\ (vo_err out <> None -> s = mkV 0 0).
Proof.
  intros He Hgot Hc. unfold with_capacity. destruct (Z.eqb_spec c 0) as [->|Hne].
  - unfold quiet. split; [intros _; unfold vinv; cbn; lia|cbn; congruence].
  - destruct (grow_to sz al (mkV 0 0) c grant got) as [s o] eqn:Eg.
    destruct (grow_to_spec _ _ _ _ _ _ _ _ Eg) as [(E1 & E2 & _ & _ & E5)|(E1 & E2)].
    + subst s. pose proof (layout_ok_bound _ _ _ He E5). destruct He as [Hs Ha]. pose proof (max_bound sz c got Hs H Hgot).
      split; [intros _; unfold vinv; cbn [vlen vcap]; repeat split; lia|congruence].
    + split; [congruence|intros _; exact E2].
Qed.

(* C07: a request whose size overflows is an error, decided without asking the allocator, and the
   vector is unchanged *)
Theorem overflow_is_error_without_call sz al s n grant shrunk got (exact : bool) :
  elem_ok sz al -> vinv sz al s -> 0 <= n -> IMAX < (vlen s + n) * sz ->
  let '(s', out) := vstep false sz al s (if exact then VReserveExact n else VReserve n) grant shrunk got in
  vo_err out = Some VOverflow /\ vo_asked out = false /\ s' = s.
Proof.
  intros [Hs Ha] (Hl & Hc) Hn Hbig.
  assert (Hlt : vcap s - vlen s < n) by nia.
  assert (Hlay : forall nc, vlen s + n <= nc -> layout_ok sz al nc = false).
  { intros nc Hnc. unfold layout_ok. apply andb_false_iff. right. apply Z.leb_gt. nia. }
  destruct exact; cbn [vstep].
  - unfold reserve_exact. destruct (Z.ltb_spec (vcap s - vlen s) n) as [_|Hge]; [|lia].
    unfold grow_exact. destruct (Z.leb_spec W (vlen s + n)) as [Hov|Hreq]; [repeat split|].
    unfold grow_to. rewrite (Hlay (vlen s + n)) by lia. cbn [negb]. repeat split.
  - unfold reserve. destruct (Z.ltb_spec (vcap s - vlen s) n) as [_|Hge]; [|lia].
    unfold grow_amortized. destruct (Z.leb_spec W (vlen s + n)) as [Hov|Hreq]; [repeat split|].
    unfold grow_to. rewrite Hlay by lia. cbn [negb]. repeat split.
Qed.

(* zero-sized element types: the vector reports capacity usize::MAX and behaves like a fixed vector
   of that capacity — the length can never pass usize::MAX, an operation that would overflow it is
   an error that changes nothing, and the allocator is never asked *)
Theorem zst_vector_never_overflows al s o grant shrunk got :
  vcap s = W - 1 -> 0 <= vlen s <= vcap s -> vop_ok o ->
  let '(s', out) := vstep true 0 al s o grant shrunk got in
  vcap s' = W - 1 /\ 0 <= vlen s' <= W - 1 /\ (vo_err out <> None -> s' = s) /\ vo_asked out = false /\
  (forall n, (o = VExtend n \/ (o = VPush /\ n = 1)) -> (vo_err out = None <-> vlen s + n <= W - 1)).
Proof.
  intros Hc Hl Ho.
  destruct o as [n|n| |n| |k| |m]; cbn [vstep orb vop_ok] in *; unfold quiet;
    try (destruct (Z.ltb_spec (vcap s - vlen s) n) as [Hlt|Hge]);
    try (destruct (Z.ltb_spec (vcap s - vlen s) 1) as [Hlt|Hge]);
    cbn [vlen vcap vo_err vo_asked];
    (split; [lia|]); (split; [lia|]); (split; [try congruence; intros _; reflexivity|]); (split; [reflexivity|]);
    intros x [E|[E1 E2]]; try discriminate; try (injection E as <-); subst; split; intros Hx; try lia; try congruence; try reflexivity.
Qed.

(* non-vacuity *)
Example a_history :
  vrun false 4 4 (mkV 0 0) [(VPush, true, false, 0); (VReserve 10, true, false, 0); (VExtend 10, false, false, 0); (VPush, false, false, 0);
                            (VShrinkToFit, false, true, 0)] = mkV 11 11 /\
  vrun false 4 4 (mkV 0 0) [(VPush, true, false, 120); (VExtend 119, false, false, 0); (VPush, true, false, 500)] = mkV 121 500 /\
  vinv 4 4 (mkV 0 0) /\ elem_ok 4 4.
Proof. split; [vm_compute; reflexivity|]. split; [vm_compute; reflexivity|]. unfold vinv, elem_ok, IMAX. cbn. lia. Qed.
