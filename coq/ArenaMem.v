(* ArenaMem.v — C02: which bytes an operation may change (frame), and what a reallocation
   copies.  Memory is a total function; equalities are stated pointwise (no extensionality). *)
From Coq Require Import ZArith List Bool Lia.
From BS Require Import Word BumpSpec ChunkSpec Arena ArenaInv.
Import ListNotations.
Open Scope Z_scope.

(* ---- operations on chunks never touch memory ---- *)
Lemma grow_arena_mem c s size align r : mem (fst (grow_arena c s size align r)) = mem s.
Proof.
  unfold grow_arena. destruct (new_chunk_size _ _ _ _); [|reflexivity].
  destruct r as [[a g]|]; reflexivity.
Qed.

Lemma in_another_chunk_mem {R} c s h size align (f : chunk -> option (R * chunk)) r :
  mem (fst (in_another_chunk c s h size align f r)) = mem s.
Proof.
  unfold in_another_chunk. destruct h as [i| |]; [| |reflexivity].
  - destruct (walk_next c f (chunks s) i (length (chunks s))) as [[cs j] [res|]]; [reflexivity|].
    set (s0 := upd_cur (upd_chunks s cs) (Cur j)).
    pose proof (grow_arena_mem c s0 size align r) as Hm.
    destruct (grow_arena c s0 size align r) as [s1 [e|]]; cbn [fst] in *; [exact Hm|].
    destruct (cur s1); try exact Hm. destruct (nth_error (chunks s1) i0); try exact Hm.
    destruct (f c0) as [[res ch1]|]; exact Hm.
  - pose proof (grow_arena_mem c s size align r) as Hm.
    destruct (grow_arena c s size align r) as [s1 [e|]]; cbn [fst] in *; [exact Hm|].
    destruct (cur s1); try exact Hm. destruct (nth_error (chunks s1) i); try exact Hm.
    destruct (f c0) as [[res ch1]|]; exact Hm.
Qed.

Lemma raw_alloc_mem c s size align r : mem (fst (raw_alloc c s size align r)) = mem s.
Proof.
  unfold raw_alloc. destruct (cur s) as [i| |]; try apply in_another_chunk_mem.
  destruct (nth_error (chunks s) i); [|reflexivity].
  destruct (chunk_alloc c (malign s) c0 size align) as [[p ch1]|]; [reflexivity|apply in_another_chunk_mem].
Qed.

Lemma raw_alloc_slow_mem c s size align r : mem (fst (raw_alloc_slow c s size align r)) = mem s.
Proof. apply in_another_chunk_mem. Qed.

Lemma set_cur_pos_mem s p : mem (set_cur_pos s p) = mem s.
Proof. unfold set_cur_pos. destruct (cur s); try reflexivity. destruct (nth_error (chunks s) i); reflexivity. Qed.

Lemma dealloc_assume_last_mem c s p sz : mem (dealloc_assume_last c s p sz) = mem s.
Proof. unfold dealloc_assume_last. destruct (negb (deallocates c)); [reflexivity|]. destruct (up c); apply set_cur_pos_mem. Qed.

Lemma raw_dealloc_mem c s p sz : mem (raw_dealloc c s p sz) = mem s.
Proof.
  unfold raw_dealloc. destruct (negb (deallocates c)); [reflexivity|].
  destruct (is_last c s p sz); [apply dealloc_assume_last_mem|reflexivity].
Qed.

Lemma do_reset_to_mem c s cp : mem (do_reset_to c s cp) = mem s.
Proof.
  unfold do_reset_to. destruct (cp_state cp) as [j| |]; try reflexivity.
  - destruct (nth_error (chunks s) j); reflexivity.
  - destruct (cur s); try reflexivity. destruct (chunks s); reflexivity.
Qed.

(* ---- the primitive writes ---- *)
Lemma mem_copy_outside m src dst len a : ~ (dst <= a < dst + len) -> mem_copy m src dst len a = m a.
Proof.
  intros H. unfold mem_copy. destruct (Z.leb_spec dst a); destruct (Z.ltb_spec a (dst + len)); cbn; try reflexivity. lia.
Qed.

Lemma mem_copy_inside m src dst len a : dst <= a < dst + len -> mem_copy m src dst len a = m (src + (a - dst)).
Proof.
  intros H. unfold mem_copy. destruct (Z.leb_spec dst a); destruct (Z.ltb_spec a (dst + len)); cbn; try reflexivity; lia.
Qed.

Lemma mem_fill_outside m start len f a : ~ (start <= a < start + len) -> mem_fill m start len f a = m a.
Proof.
  intros H. unfold mem_fill. destruct (Z.leb_spec start a); destruct (Z.ltb_spec a (start + len)); cbn; try reflexivity. lia.
Qed.

Lemma mem_fill_inside m start len f a : start <= a < start + len -> mem_fill m start len f a = f (a - start).
Proof.
  intros H. unfold mem_fill. destruct (Z.leb_spec start a); destruct (Z.ltb_spec a (start + len)); cbn; try reflexivity; lia.
Qed.

(* ---- allocation: only a zeroed allocation writes, and only inside the block it returns ---- *)
Theorem alloc_frame c s h ws size align zeroed r a :
  let '(s', out) := step c s (OAlloc h ws size align zeroed) r in
  mem s' a <> mem s a ->
  zeroed = true /\ exists id p, o_res out = RBlock id p size /\ p <= a < p + size.
Proof.
  cbn [step]. set (s1 := tick s). destruct (negb (is_top s1 h)); [cbn; congruence|].
  pose proof (raw_alloc_mem c s1 size align r) as Hm.
  destruct (raw_alloc c s1 size align r) as [s2 [p|e]]; cbn [fst] in Hm.
  - destruct zeroed.
    + unfold add_block. cbn [mem bump_id upd_live zero_fill upd_mem o_res].
      intros Hne. split; [reflexivity|]. exists (nextid (zero_fill s2 p size)), p. split; [reflexivity|].
      destruct (Z_le_gt_dec p a); [destruct (Z_lt_le_dec a (p + size)); [lia|]|]; exfalso; apply Hne;
        rewrite mem_fill_outside by lia; rewrite Hm; reflexivity.
    + unfold add_block. cbn [mem bump_id upd_live]. rewrite Hm. cbn. congruence.
  - cbn [mem]. rewrite Hm. cbn. congruence.
Qed.

(* a zeroed allocation reads as zero, whatever was there before *)
Theorem alloc_zeroed_reads_zero c s h ws size align r :
  let '(s', out) := step c s (OAlloc h ws size align true) r in
  forall id p sz, o_res out = RBlock id p sz -> forall a, p <= a < p + sz -> mem s' a = 0.
Proof.
  cbn [step]. set (s1 := tick s). destruct (negb (is_top s1 h)); [cbn; discriminate|].
  destruct (raw_alloc c s1 size align r) as [s2 [p|e]]; [|cbn; discriminate].
  unfold add_block. cbn [mem bump_id upd_live zero_fill upd_mem o_res].
  intros id p0 sz E a Ha. injection E as _ <- <-. rewrite mem_fill_inside by lia. reflexivity.
Qed.

(* fill writes exactly the block it names *)
Theorem fill_frame c s b seed r a :
  mem (fst (step c s (OFill b seed) r)) a <> mem s a ->
  exists blk, find_block (tick s) b = Some blk /\ bptr blk <= a < bptr blk + bsize blk.
Proof.
  cbn [step]. destruct (find_block (tick s) b) as [blk|]; cbn [fst mem upd_mem]; [|cbn; congruence].
  intros Hne. exists blk. split; [reflexivity|].
  destruct (Z_le_gt_dec (bptr blk) a); [destruct (Z_lt_le_dec a (bptr blk + bsize blk)); [lia|]|];
    exfalso; apply Hne; rewrite mem_fill_outside by lia; reflexivity.
Qed.

(* operations that never write *)
Theorem no_write_ops c s o r a :
  match o with
  | ODealloc _ _ _ | OCheckpoint _ | OResetTo _ _ | OReset | OResetToStart | OReserve _ _
  | OClaim _ | OUnclaim | ODrop => mem (fst (step c s o r)) a = mem s a
  | _ => True
  end.
Proof.
  destruct o; try exact I; cbn [step].
  - destruct (find_block (tick s) b); [|reflexivity].
    destruct (negb (is_top (tick s) h) || has_wrapper WDealloc ws); [reflexivity|].
    cbn [fst]. rewrite raw_dealloc_mem. reflexivity.
  - reflexivity.
  - cbn [fst]. rewrite do_reset_to_mem. reflexivity.
  - cbn [cur upd_live]. destruct (cur (tick s)); try reflexivity. cbn [chunks upd_live].
    destruct (rev (chunks (tick s))); [reflexivity|]. cbn [fst mem upd_cur upd_chunks].
    destruct (log_events_fields (upd_live (tick s) []) (reset_events c (upd_live (tick s) []))) as (_ & _ & _ & _ & _ & _ & Hm & _).
    rewrite Hm. reflexivity.
  - cbn [cur upd_live]. destruct (cur (tick s)); try reflexivity. cbn [chunks upd_live].
    destruct (chunks (tick s)); reflexivity.
  - destruct (negb (is_top (tick s) h)); [reflexivity|]. destruct (cur (tick s)) as [i| |]; try reflexivity.
    + destruct (nth_error (chunks (tick s)) i); [|reflexivity].
      match goal with |- context [if ?b then _ else _] => destruct b end; [reflexivity|].
      match goal with |- context [if ?b then _ else _] => destruct b end; [reflexivity|].
      match goal with |- context [grow_arena ?a ?b ?d ?e ?f] => pose proof (grow_arena_mem a b d e f) as Hm; destruct (grow_arena a b d e f) as [s1 [e0|]] end; cbn [fst mem upd_cur] in *; rewrite Hm; reflexivity.
    + destruct (IMAX <? n); [reflexivity|].
      match goal with |- context [grow_arena ?a ?b ?d ?e ?f] => pose proof (grow_arena_mem a b d e f) as Hm; destruct (grow_arena a b d e f) as [s1 [e0|]] end; cbn [fst mem upd_cur] in *; rewrite Hm; reflexivity.
  - destruct (is_top (tick s) h); reflexivity.
  - reflexivity.
  - destruct (Nat.eqb (depth (upd_live (tick s) [])) 0); [|reflexivity]. cbn [fst mem upd_cur upd_chunks].
    destruct (log_events_fields (upd_live (tick s) []) (drop_events c (upd_live (tick s) []))) as (_ & _ & _ & _ & _ & _ & Hm & _).
    rewrite Hm. reflexivity.
Qed.

(* ---- the WithoutShrink defect of the pinned commit, as a refutation of the frame property ----
   With `fix_without_shrink := false` (WithoutShrink::shrink copying old_layout.size() bytes,
   as the code did before commit cb4dad0) the model writes outside the block it returns; with
   the repaired behaviour the same history leaves the neighbouring block intact. *)
Module Refuted.
  Definition cf (fixed : bool) := mkCfg false true true true 512 32 16 fixed.
  Definition s0 := fst (init_with_size (cf false) 1 512 (Some (4096, 496))).
  Definition st (s : arena) (o : op) := fst (step (cf false) s o None).
  Definition s5 :=
    st (st (st (st (st s0 (OAlloc 0 [] 1 1 false)) (OAlloc 0 [] 64 1 false)) (OFill 1 7))
           (OAlloc 0 [] 16 1 false)) (OFill 2 9).
  Definition o := OShrink 0 [WShrink] 1 8 8.

  Example without_shrink_frame_refuted :
    exists a id p sz,
      o_res (snd (step (cf false) s5 o None)) = RBlock id p sz /\ ~ (p <= a < p + sz) /\
      mem (fst (step (cf false) s5 o None)) a <> mem s5 a.
  Proof. exists 4480, 3%nat, 4464, 8. vm_compute. repeat split; try discriminate. intros [_ H]; discriminate H. Qed.

  Example without_shrink_fixed_keeps_neighbour :
    forallb (fun a => mem (fst (step (cf true) s5 o None)) a =? mem s5 a)
            (map (fun k => 4479 + Z.of_nat k) (seq 0 16)) = true.
  Proof. vm_compute. reflexivity. Qed.
End Refuted.
