(* ArenaInv2.v — the arena invariant through the remaining operations: prepare, raw writes into a
   prepared region, commit, leaving an aligned region, alloc_try_with returning Err. *)
From Coq Require Import ZArith List Lia Bool ZifyBool.
From BS Require Import Word BumpSpec ChunkSpec Arena ArenaInv ArenaExt.
Import ListNotations.
Open Scope Z_scope.

Lemma inv_transfer c s s' :
  inv c s -> frame s s' -> ginv c s' ->
  (forall q sz, 0 <= sz -> placed c s q sz -> placed c s' q sz) -> inv c s'.
Proof.
  intros (Hg & Hb & Hd & Hi) (F1 & F2 & F3 & F4 & F5 & F6) Hg' Hpl. split; [exact Hg'|]. rewrite F1. split.
  - rewrite Forall_forall in *. intros b Hin. destruct (Hb b Hin) as (B1 & B2 & B3).
    split; [exact B1|]. split; [exact B2|]. apply Hpl; assumption.
  - split; [exact Hd|]. unfold ids_ok in *. rewrite F1, F6. exact Hi.
Qed.

(* ---------------------------------------------------------------- OPrepare *)
Theorem step_inv_prepare c s0 h es ea cap rev r :
  cfg_ok c -> inv c s0 -> resp_ok c s0 (es * cap) ea r ->
  inv c (fst (step c s0 (OPrepare h es ea cap rev) r)).
Proof.
  intros Hc Hinv Hr. apply inv_tick in Hinv.
  assert (Hr' : resp_ok c (tick s0) (es * cap) ea r) by (eapply resp_ok_ext; [|exact Hr]; reflexivity).
  cbn [step]. set (s := tick s0) in *.
  destruct (negb (is_top s h)); [exact Hinv|].
  destruct (IMAX <? es * cap + (ea - 1)); [exact Hinv|].
  destruct (raw_prepare_range c s (es * cap) ea r) as [s1 res] eqn:Ep.
  destruct (prepare_keeps c s (es * cap) ea r s1 res Hc (proj1 Hinv) Hr' Ep) as (Hfr & Hg1 & Hpl & _).
  assert (Hi1 : inv c s1) by (eapply inv_transfer; eassumption).
  destruct res as [[st en]|e]; exact Hi1.
Qed.

(* ---------------------------------------------------------------- OWriteRaw *)
Theorem step_inv_write_raw c s0 addr len seed r : inv c s0 -> inv c (fst (step c s0 (OWriteRaw addr len seed) r)).
Proof. intros H. cbn [step fst]. eapply inv_ext; [..|exact H]; reflexivity. Qed.

(* ---------------------------------------------------------------- OAlignPop *)
Lemma inv_change_aligns c s l :
  inv c s -> valid_min_align (hd 1 l) ->
  (forall ch, cur_chunk s = Some ch -> (hd 1 l | cpos ch)) ->
  inv c (upd_aligns s l).
Proof.
  intros ((Hok & Hd & Hm & Hcur) & Hb & Hdis & Hids) Hv Hal. split.
  - unfold ginv, malign. cbn [chunks cur aligns upd_aligns]. split; [exact Hok|]. split; [exact Hd|]. split; [exact Hv|].
    destruct (cur s) as [i| |] eqn:Ec; [|exact Hcur|exact Hcur].
    destruct Hcur as (ch & En & _). exists ch. split; [exact En|]. apply Hal. unfold cur_chunk. rewrite Ec. exact En.
  - cbn [live upd_aligns]. split.
    + rewrite Forall_forall in *. intros b Hbin. apply (block_ok_ext c s); try reflexivity. apply Hb. exact Hbin.
    + split; [exact Hdis|exact Hids].
Qed.

Lemma set_cur_pos_upd_aligns s l p : set_cur_pos (upd_aligns s l) p = upd_aligns (set_cur_pos s p) l.
Proof.
  unfold set_cur_pos. cbn [cur chunks upd_aligns]. destruct (cur s) as [k| |]; [|reflexivity|reflexivity].
  destruct (nth_error (chunks s) k); reflexivity.
Qed.

(* moving the position of the current chunk towards the free side, to an aligned address *)
Lemma realign_inv c s n :
  cfg_ok c -> inv c s -> valid_min_align n -> malign s <= n ->
  forall ch, cur_chunk s = Some ch -> inv c (set_cur_pos s (align_posZ (up c) n (cpos ch))).
Proof.
  intros Hc Hinv Hn Hle ch Ecc. pose proof Hinv as ((Hok & Hd & Hm & Hcur) & Hb & Hdis & Hids).
  destruct (cur_chunk_spec s ch Ecc) as (i & Ec & En).
  pose proof (Forall_nth_error _ _ _ _ Hok En) as Hchok.
  destruct (align_pos_in_range c n ch Hc Hchok Hn) as (Hr & Hdiv & Hdir).
  set (np := align_posZ (up c) n (cpos ch)) in *.
  eapply (set_cur_pos_inv c s i ch np Hc Hinv Ec En Hr).
  - eapply Z.divide_trans; [|exact Hdiv]. apply pow2_divide; [exact (proj1 Hm)|exact (proj1 Hn)|exact Hle].
  - intros b Hbin Hpos Hinc. rewrite Forall_forall in Hb.
    destruct (Hb b Hbin) as (_ & _ & (k & chk & Hk & Hinck & Hs)). rewrite Ec in Hs. destruct Hs as [Hki Hks].
    assert (Hki' : k = i).
    { destruct (Nat.eq_dec k i) as [E|Hnk]; [exact E|exfalso].
      pose proof (Forall_nth_error _ _ _ _ Hok Hk) as [Gk _].
      pose proof (chunk_range_in_granted c chk _ _ Hc Gk Hinck ltac:(lia)).
      pose proof (chunk_range_in_granted c ch _ _ Hc (proj1 Hchok) Hinc ltac:(lia)).
      specialize (Hd k i chk ch Hnk Hk En). lia. }
    subst k. rewrite En in Hk. injection Hk as <-. specialize (Hks eq_refl Hpos).
    destruct (up c); lia.
Qed.

(* leaving `aligned::<N>` (realign = true): the invariant holds again under the outer alignment,
   whichever chunk is current by now *)
Theorem step_inv_align_pop c s0 r inner outer rest :
  cfg_ok c -> inv c s0 -> aligns s0 = inner :: outer :: rest -> valid_min_align outer ->
  inv c (fst (step c s0 (OAlignPop true) r)).
Proof.
  intros Hc Hinv Hal Hout. apply inv_tick in Hinv. cbn [step]. set (s := tick s0) in *.
  assert (Hal' : aligns s = inner :: outer :: rest) by exact Hal. rewrite Hal'.
  pose proof Hinv as ((Hok & Hd & Hm & Hcur) & _).
  assert (Hmi : malign s = inner) by (unfold malign; rewrite Hal'; reflexivity).
  cbn [andb]. destruct (Z.ltb_spec inner outer) as [Hlt|Hge].
  - destruct (cur_chunk (upd_aligns s (outer :: rest))) as [ch|] eqn:Ecc.
    + cbn [fst]. rewrite set_cur_pos_upd_aligns.
      assert (Ecc' : cur_chunk s = Some ch) by exact Ecc.
      pose proof (realign_inv c s outer Hc Hinv Hout ltac:(lia) ch Ecc') as Hi1.
      apply inv_change_aligns; [exact Hi1|exact Hout|].
      intros ch' Hcc'. destruct (cur_chunk_spec s ch Ecc') as (i & Ec & En).
      destruct (set_cur_pos_fields s i ch (align_posZ (up c) outer (cpos ch)) Ec En) as (G1 & G2 & _).
      unfold cur_chunk in Hcc'. rewrite G2, Ec, G1 in Hcc'.
      rewrite nth_error_set_nth_eq in Hcc' by (eapply nth_error_some_lt; exact En). injection Hcc' as <-.
      pose proof (Forall_nth_error _ _ _ _ Hok En) as Hchok.
      exact (proj1 (proj2 (align_pos_in_range c outer ch Hc Hchok Hout))).
    + cbn [fst]. apply inv_change_aligns; [exact Hinv|exact Hout|].
      intros ch Hcc. assert (cur_chunk (upd_aligns s (outer :: rest)) = Some ch) by exact Hcc. congruence.
  - cbn [fst]. apply inv_change_aligns; [exact Hinv|exact Hout|].
    intros ch Hcc. destruct (cur_chunk_spec _ ch Hcc) as (i & Ec & En).
    rewrite Ec in Hcur. destruct Hcur as (ch' & En' & Hmp). rewrite En in En'. injection En' as <-.
    rewrite Hmi in Hmp, Hm. cbn [hd]. eapply Z.divide_trans; [|exact Hmp].
    apply pow2_divide; [exact (proj1 Hout)|exact (proj1 Hm)|lia].
Qed.

(* leaving `scoped_aligned::<N>` whose alignment was not lower than the outer one needs no
   re-alignment either (realign = false) *)
Theorem step_inv_align_pop_not_lowered c s0 r inner outer rest :
  cfg_ok c -> inv c s0 -> aligns s0 = inner :: outer :: rest -> valid_min_align outer -> outer <= inner ->
  inv c (fst (step c s0 (OAlignPop false) r)).
Proof.
  intros Hc Hinv Hal Hout Hle. apply inv_tick in Hinv. cbn [step]. set (s := tick s0) in *.
  assert (Hal' : aligns s = inner :: outer :: rest) by exact Hal. rewrite Hal'.
  pose proof Hinv as ((Hok & Hd & Hm & Hcur) & _).
  assert (Hmi : malign s = inner) by (unfold malign; rewrite Hal'; reflexivity).
  cbn [andb fst]. apply inv_change_aligns; [exact Hinv|exact Hout|].
  intros ch Hcc. destruct (cur_chunk_spec _ ch Hcc) as (i & Ec & En).
  rewrite Ec in Hcur. destruct Hcur as (ch' & En' & Hmp). rewrite En in En'. injection En' as <-.
  rewrite Hmi in Hmp, Hm. cbn [hd]. eapply Z.divide_trans; [|exact Hmp].
  apply pow2_divide; [exact (proj1 Hout)|exact (proj1 Hm)|lia].
Qed.

(* ---------------------------------------------------------------- OCommit *)
(* what a caller of allocate_prepared_slice(_rev) owes: (ptr, cap) describe a range of the free
   space of the current chunk, aligned for the element type — what a successful prepare returned,
   with nothing allocated in between *)
Definition commit_ok (c : cfg) (s : arena) (es ea ptr len cap : Z) (rev : bool) : Prop :=
  let lo := if rev then ptr - cap * es else ptr in
  let hi := lo + cap * es in
  0 <= es /\ 0 <= len <= cap /\ pow2 ea /\ (ea | lo) /\ (ea | es) /\
  exists i ch, cur s = Cur i /\ nth_error (chunks s) i = Some ch /\
    (if up c then cpos ch <= lo /\ hi <= content_end c ch else content_start c ch <= lo /\ hi <= cpos ch).

Lemma commit_pos_in_range c m ea dyn x lo_ hi_ :
  valid_min_align m -> pow2 ea -> (ea | x) -> (16 | lo_) -> (16 | hi_) -> lo_ <= x <= hi_ ->
  lo_ <= commit_pos c m ea dyn x <= hi_ /\ (m | commit_pos c m ea dyn x) /\
  (if up c then x <= commit_pos c m ea dyn x else commit_pos c m ea dyn x <= x).
Proof.
  intros Hm Hea Hx Hlo Hhi Hr. pose proof (min_align_pos _ Hm) as Hmp. pose proof (min_align_div16 _ Hm) as H16.
  unfold commit_pos. destruct (dyn || (ea <? m)) eqn:E.
  - unfold align_posZ. destruct (up c).
    + pose proof (up_align_ge x m Hmp).
      assert (up_alignZ x m <= hi_) by (apply up_align_min; [exact Hmp|eapply Z.divide_trans; eassumption|lia]).
      split; [lia|]. split; [apply up_align_div; exact Hmp|lia].
    + pose proof (down_align_le x m Hmp).
      assert (lo_ <= down_alignZ x m) by (apply down_align_max; [exact Hmp|eapply Z.divide_trans; eassumption|lia]).
      split; [lia|]. split; [apply down_align_div; exact Hmp|lia].
  - apply orb_false_iff in E. destruct E as [_ E]. apply Z.ltb_ge in E.
    split; [lia|]. split.
    + eapply Z.divide_trans; [|exact Hx]. apply pow2_divide; [exact (proj1 Hm)|exact Hea|exact E].
    + destruct (up c); lia.
Qed.

(* the common part of the four commit variants: the position moves to the far side of the
   committed bytes, which become a live block *)
Lemma commit_core c s i ch dst bytes ea dyn s3 id :
  cfg_ok c -> inv c s -> cur s = Cur i -> nth_error (chunks s) i = Some ch ->
  0 <= bytes -> pow2 ea -> (ea | dst) -> (ea | dst + bytes) ->
  (if up c then cpos ch <= dst /\ dst + bytes <= content_end c ch
   else content_start c ch <= dst /\ dst + bytes <= cpos ch) ->
  add_block (set_cur_pos s (commit_pos c (malign s) ea dyn (if up c then dst + bytes else dst))) dst bytes ea = (s3, id) ->
  inv c s3.
Proof.
  intros Hc Hinv Ec En Hb0 Hea Hd1 Hd2 Hfree Hadd.
  pose proof Hinv as ((Hok & Hdj & Hm & Hcur) & Hb & Hdis & Hids).
  pose proof (Forall_nth_error _ _ _ _ Hok En) as [Hgeo Hpos].
  pose proof (geom_bounds c Hc ch Hgeo) as (_ & Hse & _ & _ & Hs16 & He16 & _).
  set (x := if up c then dst + bytes else dst) in *.
  assert (Hx : content_start c ch <= x <= content_end c ch) by (unfold x; destruct (up c); lia).
  assert (Hxa : (ea | x)) by (unfold x; destruct (up c); assumption).
  destruct (commit_pos_in_range c (malign s) ea dyn x _ _ Hm Hea Hxa Hs16 He16 Hx) as (Hr & Hdiv & Hdir).
  set (np := commit_pos c (malign s) ea dyn x) in *.
  assert (Hi2 : inv c (set_cur_pos s np)).
  { eapply (set_cur_pos_inv c s i ch np Hc Hinv Ec En Hr Hdiv).
    intros b Hbin Hpos' Hinc. rewrite Forall_forall in Hb.
    destruct (Hb b Hbin) as (_ & _ & (k & chk & Hk & Hinck & Hs)). rewrite Ec in Hs. destruct Hs as [Hki Hks].
    assert (Hki' : k = i).
    { destruct (Nat.eq_dec k i) as [E|Hnk]; [exact E|exfalso].
      pose proof (Forall_nth_error _ _ _ _ Hok Hk) as [Gk _].
      pose proof (chunk_range_in_granted c chk _ _ Hc Gk Hinck ltac:(lia)).
      pose proof (chunk_range_in_granted c ch _ _ Hc Hgeo Hinc ltac:(lia)).
      specialize (Hdj k i chk ch Hnk Hk En). lia. }
    subst k. rewrite En in Hk. injection Hk as <-. specialize (Hks eq_refl Hpos').
    unfold x in *. destruct (up c); lia. }
  destruct (set_cur_pos_fields s i ch np Ec En) as (G1 & G2 & G3 & G4 & G5).
  pose proof (nth_error_some_lt _ _ _ En) as Hlt.
  destruct Hi2 as (Hg2 & Hb2 & Hdis2 & Hids2).
  eapply (inv_add_block c (set_cur_pos s np) dst bytes ea s3 id Hg2 Hb2 Hdis2 Hids2 Hb0 Hd1); [| |exact Hadd].
  - exists i, (set_pos ch np). rewrite G1, G2, Ec. split; [apply nth_error_set_nth_eq; exact Hlt|].
    split; [unfold in_chunk, content_start, content_end, set_pos in *; cbn [cbase csize cpos]; destruct (up c); lia|].
    split; [lia|]. intros _ _. cbn [set_pos cpos]. unfold x in *. destruct (up c); lia.
  - (* disjoint from every live block *)
    intros b Hbin. rewrite G4 in Hbin. rewrite Forall_forall in Hb.
    destruct (Hb b Hbin) as (Hbs & _ & (k & chk & Hk & Hinck & Hs)). rewrite Ec in Hs. destruct Hs as [Hki Hks].
    unfold disjoint_rng. destruct (Z_le_gt_dec (bsize b) 0) as [Hz|Hz]; [left; exact Hz|].
    destruct (Z_le_gt_dec bytes 0) as [Hz2|Hz2]; [right; left; exact Hz2|]. right. right.
    destruct (Nat.eq_dec k i) as [E|Hnk].
    + subst k. rewrite En in Hk. injection Hk as <-. specialize (Hks eq_refl ltac:(lia)). destruct (up c); lia.
    + pose proof (Forall_nth_error _ _ _ _ Hok Hk) as [Gk _].
      pose proof (chunk_range_in_granted c chk _ _ Hc Gk Hinck ltac:(lia)).
      assert (Hinc : in_chunk c ch dst bytes) by (unfold in_chunk; destruct (up c); lia).
      pose proof (chunk_range_in_granted c ch _ _ Hc Hgeo Hinc ltac:(lia)).
      specialize (Hdj k i chk ch Hnk Hk En). lia.
Qed.

Theorem step_inv_commit c s0 h es ea ptr len cap rev dyn r :
  cfg_ok c -> inv c s0 -> commit_ok c s0 es ea ptr len cap rev ->
  inv c (fst (step c s0 (OCommit h es ea ptr len cap rev dyn) r)).
Proof.
  intros Hc Hinv Hok. apply inv_tick in Hinv.
  assert (Hok' : commit_ok c (tick s0) es ea ptr len cap rev) by exact Hok. clear Hok.
  cbn [step]. set (s := tick s0) in *.
  destruct Hok' as (Hes & Hlen & Hea & Hlo & Hdes & i & ch & Ec & En & Hfree).
  assert (Hb0 : 0 <= len * es) by nia.
  assert (Hle : len * es <= cap * es) by nia.
  assert (Hmul : forall k, (ea | k * es)) by (intros k; apply Z.divide_mul_r; exact Hdes).
  destruct rev; destruct (up c) eqn:Eup.
  - (* reverse, upwards: contents move to the start of the range *)
    set (s1 := upd_mem s (mem_copy (mem s) (ptr - len * es) (ptr - cap * es) (len * es))).
    assert (Hi1 : inv c s1) by (eapply inv_ext; [..|exact Hinv]; reflexivity).
    destruct (add_block (set_cur_pos s1 (commit_pos c (malign s) ea dyn (ptr - cap * es + len * es))) (ptr - cap * es) (len * es) ea) as [s3 id] eqn:Ea.
    cbn [fst]. pose proof (commit_core c s1 i ch (ptr - cap * es) (len * es) ea dyn s3 id Hc Hi1 Ec En Hb0 Hea Hlo) as Hcore.
    rewrite Eup in Hcore. apply Hcore; [apply Z.divide_add_r; [exact Hlo|apply Hmul]|lia|exact Ea].
  - (* reverse, downwards: contents already end at the end of the range *)
    destruct (add_block (set_cur_pos s (commit_pos c (malign s) ea dyn (ptr - len * es))) (ptr - len * es) (len * es) ea) as [s3 id] eqn:Ea.
    cbn [fst]. pose proof (commit_core c s i ch (ptr - len * es) (len * es) ea dyn s3 id Hc Hinv Ec En Hb0 Hea) as Hcore.
    rewrite Eup in Hcore. apply Hcore; [| |lia|exact Ea].
    + replace (ptr - len * es) with (ptr - cap * es + (cap - len) * es) by lia. apply Z.divide_add_r; [exact Hlo|apply Hmul].
    + replace (ptr - len * es + len * es) with (ptr - cap * es + cap * es) by lia. apply Z.divide_add_r; [exact Hlo|apply Hmul].
  - (* forward, upwards *)
    destruct (add_block (set_cur_pos s (commit_pos c (malign s) ea dyn (ptr + len * es))) ptr (len * es) ea) as [s3 id] eqn:Ea.
    cbn [fst]. pose proof (commit_core c s i ch ptr (len * es) ea dyn s3 id Hc Hinv Ec En Hb0 Hea Hlo) as Hcore.
    rewrite Eup in Hcore. apply Hcore; [apply Z.divide_add_r; [exact Hlo|apply Hmul]|lia|exact Ea].
  - (* forward, downwards: contents move to the end of the range *)
    set (s1 := upd_mem s (mem_copy (mem s) ptr (ptr + cap * es - len * es) (len * es))).
    assert (Hi1 : inv c s1) by (eapply inv_ext; [..|exact Hinv]; reflexivity).
    destruct (add_block (set_cur_pos s1 (commit_pos c (malign s) ea dyn (ptr + cap * es - len * es))) (ptr + cap * es - len * es) (len * es) ea) as [s3 id] eqn:Ea.
    cbn [fst]. pose proof (commit_core c s1 i ch (ptr + cap * es - len * es) (len * es) ea dyn s3 id Hc Hi1 Ec En Hb0 Hea) as Hcore.
    rewrite Eup in Hcore. apply Hcore; [| |lia|exact Ea].
    + replace (ptr + cap * es - len * es) with (ptr + (cap - len) * es) by lia. apply Z.divide_add_r; [exact Hlo|apply Hmul].
    + replace (ptr + cap * es - len * es + len * es) with (ptr + cap * es) by lia. apply Z.divide_add_r; [exact Hlo|apply Hmul].
Qed.

(* what a successful prepare returns is exactly what commit asks for: as long as nothing else is
   allocated in between, every prefix of the prepared slice may be committed *)
Theorem prepare_gives_commit_ok c s0 h es ea cap rev r ptr cap' :
  cfg_ok c -> inv c s0 -> resp_ok c s0 (es * cap) ea r ->
  0 < es -> 0 <= cap -> pow2 ea -> (ea | es) ->
  o_res (snd (step c s0 (OPrepare h es ea cap rev) r)) = RRange ptr cap' ->
  forall len, 0 <= len <= cap' ->
  commit_ok c (fst (step c s0 (OPrepare h es ea cap rev) r)) es ea ptr len cap' rev.
Proof.
  intros Hc Hinv Hr Hes Hcap Hea Hdes Hres len Hlen. apply inv_tick in Hinv.
  assert (Hr' : resp_ok c (tick s0) (es * cap) ea r) by (eapply resp_ok_ext; [|exact Hr]; reflexivity).
  cbn [step] in *. set (s := tick s0) in *.
  destruct (negb (is_top s h)); [discriminate|].
  destruct (IMAX <? es * cap + (ea - 1)); [discriminate|].
  destruct (raw_prepare_range c s (es * cap) ea r) as [s1 res] eqn:Ep.
  destruct (prepare_keeps c s (es * cap) ea r s1 res Hc (proj1 Hinv) Hr' Ep) as (Hfr & Hg1 & Hpl & Hloc).
  destruct res as [[st en]|e]; [|discriminate]. cbn [snd fst o_res] in *.
  destruct Hloc as (i & ch & Ec & En & Hcp).
  destruct Hg1 as (Hok1 & _ & _ & _). pose proof (Forall_nth_error _ _ _ _ Hok1 En) as [Hgeo Hpos].
  pose proof (pow2_pos _ Hea) as Heap.
  assert (Hsz : 0 <= es * cap) by nia.
  set (k := (en - st) / es) in *.
  assert (Hk : es * k <= en - st /\ (st <= en -> 0 <= k)).
  { split; [apply Z.mul_div_le; lia|]. intros Hle. apply Z.div_pos; lia. }
  unfold commit_ok. unfold chunk_prepare in Hcp.
  destruct (up c) eqn:Eup.
  - unfold spec_prep_up in Hcp.
    destruct ((cpos ch <=? content_end c ch) && (up_alignZ (cpos ch) ea + es * cap <=? content_end c ch)) eqn:Eg; [|discriminate].
    injection Hcp as <- <-. apply andb_prop in Eg. destruct Eg as [G1 G2]. apply Z.leb_le in G1, G2.
    pose proof (up_align_ge (cpos ch) ea Heap) as U1. pose proof (up_align_div (cpos ch) ea Heap) as U2.
    pose proof (down_align_le (content_end c ch) ea Heap) as D1. pose proof (down_align_div (content_end c ch) ea Heap) as D2.
    assert (Hse : up_alignZ (cpos ch) ea <= down_alignZ (content_end c ch) ea) by (apply down_align_max; [exact Heap|exact U2|lia]).
    destruct Hk as [Hk1 Hk2]. specialize (Hk2 Hse).
    assert (Elo : (if rev then ptr - k * es else ptr) = up_alignZ (cpos ch) ea).
    { destruct rev; injection Hres as <- <-; fold k; lia. }
    assert (Ek : cap' = k) by (destruct rev; injection Hres as _ <-; reflexivity). subst cap'.
    rewrite Elo. split; [lia|]. split; [lia|]. split; [exact Hea|]. split; [exact U2|]. split; [exact Hdes|].
    exists i, ch. split; [exact Ec|]. split; [exact En|]. lia.
  - unfold spec_prep_down in Hcp.
    destruct ((content_start c ch <=? cpos ch) && (content_start c ch + es * cap <=? down_alignZ (cpos ch) ea)) eqn:Eg; [|discriminate].
    injection Hcp as <- <-. apply andb_prop in Eg. destruct Eg as [G1 G2]. apply Z.leb_le in G1, G2.
    pose proof (up_align_ge (content_start c ch) ea Heap) as U1. pose proof (up_align_div (content_start c ch) ea Heap) as U2.
    pose proof (down_align_le (cpos ch) ea Heap) as D1. pose proof (down_align_div (cpos ch) ea Heap) as D2.
    assert (Hse : up_alignZ (content_start c ch) ea <= down_alignZ (cpos ch) ea) by (apply up_align_min; [exact Heap|exact D2|lia]).
    destruct Hk as [Hk1 Hk2]. specialize (Hk2 Hse).
    assert (Elo : (if rev then ptr - k * es else ptr) = down_alignZ (cpos ch) ea - k * es).
    { destruct rev; injection Hres as <- <-; fold k; lia. }
    assert (Ek : cap' = k) by (destruct rev; injection Hres as _ <-; reflexivity). subst cap'.
    rewrite Elo. split; [lia|]. split; [lia|]. split; [exact Hea|]. split.
    { apply Z.divide_sub_r; [exact D2|apply Z.divide_mul_r; exact Hdes]. }
    split; [exact Hdes|]. exists i, ch. split; [exact Ec|]. split; [exact En|]. lia.
Qed.

(* ================================================================ OTryErr *)
(* the slow path never touches a chunk up to the one it started from, and never goes backwards *)
Lemma in_another_chunk_prefix {R} c s i (f : chunk -> option (R * chunk)) size align r s1 res :
  cfg_ok c -> ginv c s -> cur s = Cur i ->
  (forall ch p ch1, chunk_ok c ch -> (malign s | cpos ch) -> f ch = Some (p, ch1) ->
     chunk_ok c ch1 /\ same_geom ch ch1 /\ (malign s | cpos ch1) /\ True) ->
  in_another_chunk c s (Cur i) size align f r = (s1, res) ->
  (forall k, (k <= i)%nat -> nth_error (chunks s1) k = nth_error (chunks s) k) /\
  (exists j, cur s1 = Cur j /\ (i <= j)%nat).
Proof.
  intros Hc (Hok & Hd & Hm & Hcur) Ec Hf H. rewrite Ec in Hcur. destruct Hcur as (chi & Eni & Hmpi).
  pose proof (nth_error_some_lt _ _ _ Eni) as Hilt.
  unfold in_another_chunk in H.
  destruct (walk_next c f (chunks s) i (length (chunks s))) as [[cs j] wres] eqn:Ew.
  destruct (walk_next_spec c Hc (malign s) Hm R f (fun _ _ => True) Hf _ _ _ _ _ _ Hok Hilt Ew)
    as (W1 & W2 & W3 & W4 & _).
  pose proof (Forall2_length _ _ _ W2) as Hlen.
  destruct wres as [p|].
  - injection H as <- _. cbn [chunks cur upd_cur upd_chunks]. split; [exact W4|]. exists j. split; [reflexivity|lia].
  - set (s0 := upd_cur (upd_chunks s cs) (Cur j)) in *.
    unfold grow_arena in H.
    destruct (new_chunk_size c _ size align) as [n|].
    2:{ injection H as <- _. cbn [chunks cur upd_cur upd_chunks s0]. split; [exact W4|]. exists i. split; [reflexivity|lia]. }
    destruct r as [[addr g]|].
    2:{ injection H as <- _. cbn [chunks cur upd_cur upd_chunks log_event s0]. split; [exact W4|]. exists i. split; [reflexivity|lia]. }
    cbn [cur chunks upd_cur upd_chunks log_event s0] in H.
    rewrite nth_error_app_last in H.
    destruct (f (make_chunk c n addr g)) as [[res1 ch1]|]; injection H as <- _;
      cbn [chunks cur upd_cur upd_chunks log_event].
    + split.
      * intros k Hk. rewrite nth_error_set_nth_neq by lia. rewrite nth_error_app1 by lia. apply W4. exact Hk.
      * exists (length cs). split; [reflexivity|lia].
    + split.
      * intros k Hk. rewrite nth_error_app1 by lia. apply W4. exact Hk.
      * exists (length cs). split; [reflexivity|lia].
Qed.

(* after an allocation (or a sized prepare) the chunks before the one that was current are
   untouched, that one keeps its geometry, and the current chunk is not an earlier one *)
Lemma raw_alloc_prefix c s i ch size align r s1 res (mutable : bool) :
  cfg_ok c -> ginv c s -> valid_layout size align -> cur s = Cur i -> nth_error (chunks s) i = Some ch ->
  (if mutable then raw_prepare c s size align r else raw_alloc c s size align r) = (s1, res) ->
  (forall k, (k < i)%nat -> nth_error (chunks s1) k = nth_error (chunks s) k) /\
  (exists ch1, nth_error (chunks s1) i = Some ch1 /\ same_geom ch ch1) /\
  (exists j, cur s1 = Cur j /\ (i <= j)%nat).
Proof.
  intros Hc Hg Hl Ec En H. pose proof Hg as (Hok & Hd & Hm & Hcur).
  pose proof (nth_error_some_lt _ _ _ En) as Hlt.
  assert (HfA : forall ch p ch1, chunk_ok c ch -> (malign s | cpos ch) ->
            chunk_alloc c (malign s) ch size align = Some (p, ch1) ->
            chunk_ok c ch1 /\ same_geom ch ch1 /\ (malign s | cpos ch1) /\ True).
  { intros ch0 p ch1 Hcok Hcm Hca.
    destruct (chunk_alloc_geom c _ ch0 size align p ch1 Hc Hcok Hm Hcm Hl Hca) as (G1 & G2 & G3 & _).
    split; [exact G1|]. split; [exact G2|]. split; [exact G3|exact I]. }
  assert (HfP : forall ch p ch1, chunk_ok c ch -> (malign s | cpos ch) ->
            chunk_prepare_sized c (malign s) ch size align = Some (p, ch1) ->
            chunk_ok c ch1 /\ same_geom ch ch1 /\ (malign s | cpos ch1) /\ True).
  { intros ch0 p ch1 Hcok Hcm Hca. unfold chunk_prepare_sized in Hca.
    destruct (chunk_alloc c (malign s) ch0 size align) as [[p0 c0]|]; [|discriminate]. injection Hca as _ <-.
    split; [exact Hcok|]. split; [apply same_geom_refl|]. split; [exact Hcm|exact I]. }
  assert (Hsame : forall s1 : arena, (forall k, (k <= i)%nat -> nth_error (chunks s1) k = nth_error (chunks s) k) /\
                   (exists j, cur s1 = Cur j /\ (i <= j)%nat) ->
            (forall k, (k < i)%nat -> nth_error (chunks s1) k = nth_error (chunks s) k) /\
            (exists ch1, nth_error (chunks s1) i = Some ch1 /\ same_geom ch ch1) /\
            (exists j, cur s1 = Cur j /\ (i <= j)%nat)).
  { intros s2 [A B]. split; [intros k Hk; apply A; lia|]. split; [|exact B].
    exists ch. split; [rewrite A by lia; exact En|apply same_geom_refl]. }
  destruct mutable.
  - unfold raw_prepare in H. rewrite Ec, En in H.
    destruct (chunk_prepare_sized c (malign s) ch size align) as [[p c0]|] eqn:Ef.
    + injection H as <- _. split; [intros; reflexivity|]. split; [exists ch; split; [exact En|apply same_geom_refl]|].
      exists i. split; [exact Ec|lia].
    + apply (Hsame s1). eapply in_another_chunk_prefix; [exact Hc|exact Hg|exact Ec|exact HfP|exact H].
  - unfold raw_alloc in H. rewrite Ec, En in H.
    destruct (chunk_alloc c (malign s) ch size align) as [[p ch1]|] eqn:Ef.
    + injection H as <- _. cbn [chunks cur upd_chunks].
      pose proof (Forall_nth_error _ _ _ _ Hok En) as Hchok.
      rewrite Ec in Hcur. destruct Hcur as (ch' & En' & Hmp). rewrite En in En'. injection En' as <-.
      destruct (HfA ch p ch1 Hchok Hmp Ef) as (_ & G2 & _).
      split; [intros k Hk; apply nth_error_set_nth_neq; lia|]. split; [exists ch1; split; [apply nth_error_set_nth_eq; exact Hlt|exact G2]|].
      exists i. split; [exact Ec|lia].
    + apply (Hsame s1). eapply in_another_chunk_prefix; [exact Hc|exact Hg|exact Ec|exact HfA|exact H].
Qed.

(* the invariant after the slow or the fast path of a sized prepare: like allocation, without a block *)
Lemma raw_prepare_keeps c s size align r s' res :
  cfg_ok c -> ginv c s -> valid_layout size align -> resp_ok c s size align r ->
  raw_prepare c s size align r = (s', res) ->
  frame s s' /\ ginv c s' /\ (forall q sz, 0 <= sz -> placed c s q sz -> placed c s' q sz).
Proof.
  (* a sized prepare is the slow path of an allocation whose chunk keeps its position; we reuse
     the range version with the same layout: both walk the same chunks and append the same chunk *)
  intros Hc Hg Hl Hr H. pose proof Hg as (Hok & Hd & Hm & Hcur).
  unfold raw_prepare in H.
  set (f := fun ch : chunk => chunk_prepare_sized c (malign s) ch size align) in *.
  assert (Hsamef : forall ch p ch1, f ch = Some (p, ch1) -> ch1 = ch).
  { intros ch p ch1 Hf. unfold f, chunk_prepare_sized in Hf.
    destruct (chunk_alloc c (malign s) ch size align) as [[p0 c0]|]; [|discriminate]. injection Hf as _ <-. reflexivity. }
  assert (Hf : forall ch p ch1, chunk_ok c ch -> (malign s | cpos ch) -> f ch = Some (p, ch1) ->
            chunk_ok c ch1 /\ same_geom ch ch1 /\ (malign s | cpos ch1) /\ True).
  { intros ch p ch1 Hcok Hcm Hfe. rewrite (Hsamef _ _ _ Hfe). split; [exact Hcok|]. split; [apply same_geom_refl|]. split; [exact Hcm|exact I]. }
  assert (Hslow : forall h, h = cur s -> in_another_chunk c s h size align f r = (s', res) ->
            frame s s' /\ ginv c s' /\ (forall q sz, 0 <= sz -> placed c s q sz -> placed c s' q sz)).
  { intros h -> Hs. unfold in_another_chunk in Hs. destruct (cur s) as [i| |] eqn:Ec; [| |contradiction].
    - destruct Hcur as (chi & Eni & Hmpi). pose proof (nth_error_some_lt _ _ _ Eni) as Hilt.
      destruct (walk_next c f (chunks s) i (length (chunks s))) as [[cs j] wres] eqn:Ew.
      destruct (walk_next_spec c Hc (malign s) Hm Z f (fun _ _ => True) Hf _ _ _ _ _ _ Hok Hilt Ew)
        as (W1 & W2 & W3 & W4 & W5 & W6 & W7 & W8).
      pose proof (Forall2_length _ _ _ W2) as Hlen.
      assert (Hold : forall q sz, 0 <= sz -> placed c s q sz ->
                exists k0 chk, (k0 <= i)%nat /\ nth_error cs k0 = Some chk /\ in_chunk c chk q sz /\
                               (k0 = i -> alloc_side c chk q sz)).
      { intros q sz Hsz (k0 & chk & Hk0 & Hin & Hside). rewrite Ec in Hside. destruct Hside as [Hle Hs0].
        exists k0, chk. split; [exact Hle|]. split; [rewrite W4 by exact Hle; exact Hk0|]. split; assumption. }
      assert (Hcurj : exists chj, nth_error cs j = Some chj /\ (malign s | cpos chj)).
      { destruct (Nat.eq_dec j i) as [->|Hne]; [exists chi; split; [rewrite W4 by lia; exact Eni|exact Hmpi]|apply W6; lia]. }
      assert (Hg0 : ginv c (upd_cur (upd_chunks s cs) (Cur j))).
      { unfold ginv. cbn [chunks cur upd_cur upd_chunks malign aligns].
        split; [exact W1|]. split; [eapply chunks_disjoint_same_geom; eassumption|]. split; [exact Hm|exact Hcurj]. }
      assert (Hpl0 : forall q sz, 0 <= sz -> placed c s q sz -> placed c (upd_cur (upd_chunks s cs) (Cur j)) q sz).
      { intros q sz Hsz Hq. destruct (Hold q sz Hsz Hq) as (k0 & chk & Hle & Hk0 & Hin & Hs0).
        exists k0, chk. cbn [chunks cur upd_cur upd_chunks]. split; [exact Hk0|]. split; [exact Hin|].
        split; [lia|]. intros ->. apply Hs0. lia. }
      destruct wres as [p|].
      + injection Hs as <- <-. split; [repeat split|]. split; [exact Hg0|exact Hpl0].
      + set (s0 := upd_cur (upd_chunks s cs) (Cur j)) in *.
        assert (Hr0 : resp_ok c s0 size align r) by (eapply resp_ok_same_geom; [exact W2|exact Hr]).
        destruct (grow_arena c s0 size align r) as [s1 [e|]] eqn:Eg.
        * injection Hs as <- <-.
          destruct (grow_arena_spec c s0 size align r s1 (Some e) Hc Hr0 Eg) as (Hfr & Ech & Ecu).
          cbn [chunks upd_cur upd_chunks s0] in Ech.
          assert (Hal : malign s1 = malign s) by (unfold malign; destruct Hfr as (_ & _ & _ & -> & _); reflexivity).
          split; [eapply frame_trans; [|eapply frame_trans; [exact Hfr|]]; repeat split|].
          split.
          { unfold ginv. cbn [chunks cur upd_cur]. change (malign (upd_cur s1 (Cur i))) with (malign s1). rewrite Ech, Hal.
            split; [exact W1|]. split; [eapply chunks_disjoint_same_geom; eassumption|]. split; [exact Hm|].
            exists chi. split; [rewrite W4 by lia; exact Eni|exact Hmpi]. }
          intros q sz Hsz Hq. destruct (Hold q sz Hsz Hq) as (k0 & chk & Hle & Hk0 & Hin & Hs0).
          exists k0, chk. cbn [chunks cur upd_cur]. rewrite Ech. split; [exact Hk0|]. split; [exact Hin|].
          split; [exact Hle|exact Hs0].
        * destruct (grow_arena_spec c s0 size align r s1 None Hc Hr0 Eg)
            as (Hfr & ch & addr & g & -> & Ech & Ecu & Hchok & Hc16 & Ecb & Ecg).
          cbn [chunks upd_cur upd_chunks s0] in Ech, Ecu.
          assert (Hal : malign s1 = malign s) by (unfold malign; destruct Hfr as (_ & _ & _ & -> & _); reflexivity).
          rewrite Ecu in Hs. rewrite Ech in Hs at 1. rewrite nth_error_app_last in Hs.
          assert (F1 : frame s s1) by (eapply frame_trans; [|exact Hfr]; repeat split).
          assert (F2 : Forall (chunk_ok c) (chunks s1)).
          { rewrite Ech. apply Forall_app. split; [exact W1|constructor; [exact Hchok|constructor]]. }
          assert (F3 : chunks_disjoint (chunks s1)).
          { rewrite Ech. apply (chunks_disjoint_app c); [exact Hc|eapply chunks_disjoint_same_geom; eassumption|].
            intros ch0 Hin0. destruct Hr0 as (_ & _ & _ & _ & _ & R6). specialize (R6 ch0 Hin0). rewrite Ecb, Ecg. lia. }
          assert (F5 : nth_error (chunks s1) (length cs) = Some ch) by (rewrite Ech; apply nth_error_app_last).
          assert (F6 : (malign s1 | cpos ch)).
          { rewrite Hal. eapply Z.divide_trans; [apply min_align_div16; exact Hm|exact Hc16]. }
          assert (Hs1 : frame s s1 /\ ginv c s1 /\ (forall q sz, 0 <= sz -> placed c s q sz -> placed c s1 q sz)).
          { split; [exact F1|]. split.
            - unfold ginv. split; [exact F2|]. split; [exact F3|]. split; [rewrite Hal; exact Hm|].
              rewrite Ecu. exists ch. split; [exact F5|exact F6].
            - intros q sz Hsz Hq. destruct (Hold q sz Hsz Hq) as (k0 & chk & Hle & Hk0 & Hin & _).
              exists k0, chk. rewrite Ecu. split; [rewrite Ech, nth_error_app1 by lia; exact Hk0|]. split; [exact Hin|].
              split; [lia|intros E; lia]. }
          destruct (f ch) as [[res1 ch1]|] eqn:Efr.
          -- injection Hs as <- <-. rewrite (Hsamef _ _ _ Efr). rewrite set_nth_same by exact F5.
             replace (upd_chunks s1 (chunks s1)) with s1 by (destruct s1; reflexivity). exact Hs1.
          -- injection Hs as <- <-. exact Hs1.
    - assert (Hno : forall q sz, ~ placed c s q sz).
      { intros q sz (k0 & chk & _ & _ & Hside). rewrite Ec in Hside. exact Hside. }
      destruct (grow_arena c s size align r) as [s1 [e|]] eqn:Eg.
      + injection Hs as <- <-.
        destruct (grow_arena_spec c s size align r s1 (Some e) Hc Hr Eg) as (Hfr & Ech & Ecu).
        assert (Hal : malign s1 = malign s) by (unfold malign; destruct Hfr as (_ & _ & _ & -> & _); reflexivity).
        split; [exact Hfr|]. split.
        { unfold ginv. rewrite Ech, Ecu, Hal, Ec. split; [exact Hok|]. split; [exact Hd|]. split; [exact Hm|exact Hcur]. }
        intros q sz _ Hq. exfalso. exact (Hno q sz Hq).
      + destruct (grow_arena_spec c s size align r s1 None Hc Hr Eg)
          as (Hfr & ch & addr & g & -> & Ech & Ecu & Hchok & Hc16 & Ecb & Ecg).
        assert (Hal : malign s1 = malign s) by (unfold malign; destruct Hfr as (_ & _ & _ & -> & _); reflexivity).
        rewrite Hcur in Ech, Ecu. cbn [app length] in Ech, Ecu.
        rewrite Ecu in Hs. rewrite Ech in Hs at 1. cbn [nth_error] in Hs.
        assert (F5 : nth_error (chunks s1) 0%nat = Some ch) by (rewrite Ech; reflexivity).
        assert (Hs1 : frame s s1 /\ ginv c s1 /\ (forall q sz, 0 <= sz -> placed c s q sz -> placed c s1 q sz)).
        { split; [exact Hfr|]. split.
          - unfold ginv. rewrite Ech, Ecu. split; [constructor; [exact Hchok|constructor]|]. split.
            + intros i j a b Hij Ha Hb. destruct i as [|[|i]], j as [|[|j]]; cbn in Ha, Hb; try discriminate; congruence.
            + split; [rewrite Hal; exact Hm|]. exists ch. split; [reflexivity|].
              rewrite Hal. eapply Z.divide_trans; [apply min_align_div16; exact Hm|exact Hc16].
          - intros q sz _ Hq. exfalso. exact (Hno q sz Hq). }
        destruct (f ch) as [[res1 ch1]|] eqn:Efr.
        * injection Hs as <- <-. rewrite (Hsamef _ _ _ Efr). rewrite set_nth_same by exact F5.
          replace (upd_chunks s1 (chunks s1)) with s1 by (destruct s1; reflexivity). exact Hs1.
        * injection Hs as <- <-. exact Hs1. }
  cbv zeta in H. fold f in H.
  destruct (cur s) as [i| |] eqn:Ec.
  - destruct (nth_error (chunks s) i) as [ch|] eqn:En.
    + destruct (chunk_prepare_sized c (malign s) ch size align) as [[p c0]|] eqn:Ef.
      * injection H as <- <-. split; [repeat split|]. split; [exact Hg|auto].
      * apply (Hslow (Cur i)); [reflexivity|exact H].
    + injection H as <- <-. split; [repeat split|]. split; [exact Hg|auto].
  - apply (Hslow Unalloc); [reflexivity|exact H].
  - apply (Hslow Claimed); [reflexivity|exact H].
Qed.

(* reset_to for an arbitrary set of surviving blocks (OResetTo keeps those born before the
   checkpoint; the Err path of alloc_try_with keeps all: it has allocated none) *)
Definition cp_valid_gen (c : cfg) (s : arena) (cp : checkpoint) (keep : block -> bool) : Prop :=
  match cp_state cp with
  | Cur j => exists ch, nth_error (chunks s) j = Some ch /\
      content_start c ch <= cp_addr cp <= content_end c ch /\ (malign s | cp_addr cp) /\
      (forall b, In b (live s) -> keep b = true ->
         exists k chk, nth_error (chunks s) k = Some chk /\ in_chunk c chk (bptr b) (bsize b) /\ (k <= j)%nat /\
           (k = j -> 0 < bsize b -> if up c then bptr b + bsize b <= cp_addr cp else cp_addr cp <= bptr b))
  | Unalloc => forall b, In b (live s) -> keep b = true -> False
  | Claimed => False
  end.

(* the invariant without the alignment of the current position: what holds between the two model
   steps of a scoped_aligned exit (alignment back, then reset to the guard's checkpoint) *)
Definition wginv (c : cfg) (s : arena) : Prop :=
  Forall (chunk_ok c) (chunks s) /\ chunks_disjoint (chunks s) /\ valid_min_align (malign s) /\
  match cur s with
  | Cur i => exists ch, nth_error (chunks s) i = Some ch
  | Unalloc => chunks s = []
  | Claimed => False
  end.
Definition winv (c : cfg) (s : arena) : Prop :=
  wginv c s /\ Forall (block_ok c s) (live s) /\ ForallOrdPairs disjoint2 (live s) /\ ids_ok s.

Lemma inv_winv c s : inv c s -> winv c s.
Proof.
  intros ((Hok & Hd & Hm & Hcur) & Hrest). split; [|exact Hrest].
  split; [exact Hok|]. split; [exact Hd|]. split; [exact Hm|].
  destruct (cur s); [destruct Hcur as (ch & En & _); exists ch; exact En|exact Hcur|exact Hcur].
Qed.

Lemma do_reset_to_winv c s cp keep :
  cfg_ok c -> winv c s -> cp_valid_gen c s cp keep ->
  inv c (do_reset_to c (upd_live s (filter keep (live s))) cp).
Proof.
  intros Hc Hinv Hcp.
  assert (Hinv1 : Forall (block_ok c (upd_live s (filter keep (live s)))) (filter keep (live s)) /\
                  ForallOrdPairs disjoint2 (filter keep (live s)) /\ ids_ok (upd_live s (filter keep (live s)))).
  { destruct Hinv as (_ & Hb & Hd & Hi). split; [apply Forall_filter; exact Hb|].
    split; [apply ForallOrdPairs_filter; exact Hd|apply ids_ok_filter; exact Hi]. }
  unfold do_reset_to. unfold cp_valid_gen in Hcp. destruct (cp_state cp) as [j| |] eqn:Ecp; [| |contradiction].
  - destruct Hcp as (ch & En & Hrng & Hmal & Hblocks).
    cbn [chunks upd_live]. rewrite En.
    pose proof Hinv as ((Hok & Hd & Hm & Hcur) & Hb & Hdis & Hids).
    pose proof (Forall_nth_error _ _ _ _ Hok En) as [Hgeo _].
    pose proof (nth_error_some_lt _ _ _ En) as Hlt.
    assert (HF : Forall2 same_geom (chunks s) (set_nth (chunks s) j (set_pos ch (cp_addr cp)))).
    { eapply Forall2_set_nth; [apply Forall2_same_geom_refl|exact En|apply same_geom_set_pos]. }
    split.
    { unfold ginv. cbn [chunks cur upd_cur upd_chunks upd_live malign aligns].
      split; [apply Forall_set_nth; [exact Hok|exact (set_pos_ok c ch _ Hgeo Hrng)]|].
      split; [eapply chunks_disjoint_same_geom; eassumption|]. split; [exact Hm|].
      exists (set_pos ch (cp_addr cp)). split; [apply nth_error_set_nth_eq; exact Hlt|exact Hmal]. }
    destruct Hinv1 as (Hb1 & Hdis1 & Hids1).
    split; [|split; [exact Hdis1|exact Hids1]].
    cbn [live upd_cur upd_chunks upd_live]. rewrite Forall_forall in *. intros b Hin.
    apply filter_In in Hin. destruct Hin as [Hin Hk].
    destruct (Hb b Hin) as (B1 & B2 & _). split; [exact B1|]. split; [exact B2|].
    destruct (Hblocks b Hin Hk) as (k & chk & Hnk & Hinc & Hkj & Hside).
    destruct (Nat.eq_dec k j) as [->|Hne].
    + rewrite En in Hnk. injection Hnk as <-.
      exists j, (set_pos ch (cp_addr cp)). cbn [chunks cur upd_cur upd_chunks upd_live].
      split; [apply nth_error_set_nth_eq; exact Hlt|]. split; [exact Hinc|]. split; [lia|].
      intros _ Hpos. unfold alloc_side. cbn [set_pos cpos]. apply Hside; [reflexivity|exact Hpos].
    + exists k, chk. cbn [chunks cur upd_cur upd_chunks upd_live].
      split; [rewrite nth_error_set_nth_neq by congruence; exact Hnk|]. split; [exact Hinc|].
      split; [exact Hkj|intros E; congruence].
  - assert (Hnil : filter keep (live s) = []).
    { apply filter_nil_all. intros b Hin. destruct (keep b) eqn:E; [|reflexivity]. exfalso. exact (Hcp b Hin E). }
    pose proof Hinv as ((Hok & Hd & Hm & Hcur) & _).
    assert (Hbase : inv c (upd_live s []) \/ True) by (right; exact I).
    rewrite Hnil in *.
    cbn [cur upd_live]. destruct (cur s) as [i| |] eqn:Ec; [| |contradiction].
    + cbn [chunks upd_live]. destruct (chunks s) as [|ch rest] eqn:Ech.
      { destruct Hcur as (ch & En). destruct i; discriminate. }
      inversion Hok as [|x xs [Hg _] Hrest]; subst.
      destruct (fresh_pos_ok c Hc ch Hg) as [Hrok H16].
      split.
      * unfold ginv. cbn [chunks cur upd_cur upd_chunks upd_live malign aligns].
        split; [constructor; assumption|]. split.
        -- eapply (chunks_disjoint_same_geom (ch :: rest)); [|exact Hd].
           constructor; [apply same_geom_set_pos|apply Forall2_same_geom_refl].
        -- split; [exact Hm|]. exists (reset_chunk c ch). split; [reflexivity|].
           eapply Z.divide_trans; [apply min_align_div16; exact Hm|exact H16].
      * cbn [live upd_cur upd_chunks upd_live]. split; [constructor|]. split; [constructor|]. split; constructor.
    + (* nothing was ever allocated *)
      split.
      * unfold ginv. cbn [chunks cur upd_live malign aligns]. rewrite Ec.
        split; [exact Hok|]. split; [exact Hd|]. split; [exact Hm|exact Hcur].
      * cbn [live upd_live]. split; [constructor|]. split; [constructor|]. split; constructor.
Qed.

Lemma do_reset_to_inv c s cp keep :
  cfg_ok c -> inv c s -> cp_valid_gen c s cp keep ->
  inv c (do_reset_to c (upd_live s (filter keep (live s))) cp).
Proof. intros Hc Hinv. apply do_reset_to_winv; [exact Hc|apply inv_winv; exact Hinv]. Qed.

Lemma filter_all_true {A} (l : list A) : filter (fun _ => true) l = l.
Proof. induction l as [|x l IH]; [reflexivity|]. cbn. rewrite IH. reflexivity. Qed.

(* alloc_try_with(_mut) whose closure returns Err: allocate (or prepare), then rewind to where the
   operation started.  Every block that was live stays live and valid. *)
Theorem step_inv_try_err c s0 h mutable size align r :
  cfg_ok c -> inv c s0 -> valid_layout size align -> resp_ok c s0 size align r ->
  inv c (fst (step c s0 (OTryErr h mutable size align) r)).
Proof.
  intros Hc Hinv Hl Hr. apply inv_tick in Hinv.
  assert (Hr' : resp_ok c (tick s0) size align r) by (eapply resp_ok_ext; [|exact Hr]; reflexivity).
  cbn [step]. set (s := tick s0) in *.
  destruct (negb (is_top s h)); [exact Hinv|].
  set (cp := mkCp (cur s) (match cur_chunk s with Some ch => cpos ch | None => 0 end) (epoch s)).
  destruct (if mutable then raw_prepare c s size align r else raw_alloc c s size align r) as [s1 res] eqn:Ea.
  (* the state after the inner allocation satisfies the invariant *)
  assert (Hkeeps : frame s s1 /\ ginv c s1 /\ (forall q sz, 0 <= sz -> placed c s q sz -> placed c s1 q sz)).
  { destruct mutable.
    - exact (raw_prepare_keeps c s size align r s1 res Hc (proj1 Hinv) Hl Hr' Ea).
    - destruct (raw_alloc_post c s size align r s1 res Hc (proj1 Hinv) Hl Hr' Ea) as (A1 & A2 & A3 & _).
      split; [exact A1|]. split; [exact A2|exact A3]. }
  destruct Hkeeps as (Hfr & Hg1 & Hpl).
  assert (Hi1 : inv c s1) by (eapply inv_transfer; eassumption).
  destruct res as [p|e]; [|exact Hi1]. cbn [fst].
  (* rewinding to the checkpoint taken before *)
  assert (Hlive : live s1 = live s) by (destruct Hfr as (F1 & _); exact F1).
  assert (Hmal : malign s1 = malign s) by (unfold malign; destruct Hfr as (_ & _ & _ & -> & _); reflexivity).
  replace s1 with (upd_live s1 (filter (fun _ => true) (live s1))) at 1
    by (rewrite filter_all_true; destruct s1; reflexivity).
  apply do_reset_to_inv; [exact Hc|exact Hi1|].
  unfold cp_valid_gen, cp. cbn [cp_state cp_addr].
  pose proof Hinv as ((Hok & Hd & Hm & Hcur) & Hb & Hdis & Hids).
  destruct (cur s) as [i| |] eqn:Ec.
  - destruct Hcur as (ch & En & Hmp). unfold cur_chunk. rewrite Ec, En.
    destruct (raw_alloc_prefix c s i ch size align r s1 (inl p) mutable Hc (proj1 Hinv) Hl Ec En Ea)
      as (Hpre & (ch1 & En1 & Hsg) & (j & Ecj & Hij)).
    pose proof (Forall_nth_error _ _ _ _ Hok En) as [Hgeo Hpos].
    destruct (same_geom_content c _ _ Hsg) as [E1 E2].
    exists ch1. split; [exact En1|]. split; [rewrite <- E1, <- E2; exact Hpos|]. split; [rewrite Hmal; exact Hmp|].
    intros b Hin _. rewrite Hlive in Hin. rewrite Forall_forall in Hb.
    destruct (Hb b Hin) as (_ & _ & (k & chk & Hk & Hinc & Hs)). rewrite Ec in Hs. destruct Hs as [Hki Hks].
    destruct (Nat.eq_dec k i) as [->|Hne].
    + rewrite En in Hk. injection Hk as <-. exists i, ch1. split; [exact En1|].
      split; [unfold in_chunk in *; rewrite <- E1, <- E2; exact Hinc|]. split; [lia|].
      intros _ Hpos'. specialize (Hks eq_refl Hpos'). exact Hks.
    + exists k, chk. split; [rewrite Hpre by lia; exact Hk|]. split; [exact Hinc|]. split; [exact Hki|]. intros E; congruence.
  - intros b Hin _. rewrite Hlive in Hin.
    assert (Hnil : live s = []) by (apply (inv_no_live_unalloc c s Hinv); intros i0; rewrite Ec; discriminate).
    rewrite Hnil in Hin. exact Hin.
  - exact Hcur.
Qed.

(* ================================================================ leaving scoped_aligned with a lowered alignment *)
(* In the code this is ONE event: the closure returns, the type-level alignment is the outer one
   again, and the scope guard's drop resets to its checkpoint.  The model has two steps; between
   them only the weak invariant holds, after both the invariant holds again. *)
Lemma step_winv_align_pop c s0 r inner outer rest :
  inv c s0 -> aligns s0 = inner :: outer :: rest -> valid_min_align outer ->
  winv c (fst (step c s0 (OAlignPop false) r)).
Proof.
  intros Hinv Hal Hout. apply inv_tick in Hinv. cbn [step]. set (s := tick s0) in *.
  assert (Hal' : aligns s = inner :: outer :: rest) by exact Hal. rewrite Hal'. cbn [andb fst].
  destruct (inv_winv c s Hinv) as ((Hok & Hd & Hm & Hcur) & Hb & Hdis & Hids).
  split.
  - unfold wginv, malign. cbn [chunks cur aligns upd_aligns hd]. split; [exact Hok|]. split; [exact Hd|]. split; [exact Hout|exact Hcur].
  - cbn [live upd_aligns]. split.
    + rewrite Forall_forall in *. intros b Hbin. apply (block_ok_ext c s); try reflexivity. apply Hb. exact Hbin.
    + split; [exact Hdis|exact Hids].
Qed.

Lemma step_reset_to_from_winv c s1 h cp r :
  cfg_ok c -> winv c s1 -> cp_valid c s1 cp -> inv c (fst (step c s1 (OResetTo h cp) r)).
Proof.
  intros Hc Hw Hcp. cbn [step fst].
  assert (Hw' : winv c (tick s1)).
  { destruct Hw as (Hg & Hb & Hd & Hi). split; [exact Hg|]. split; [|split; [exact Hd|exact Hi]].
    rewrite Forall_forall in *. intros b Hin. apply (block_ok_ext c s1); try reflexivity. apply Hb. exact Hin. }
  apply (do_reset_to_winv c (tick s1) cp (fun b => Nat.leb (born b) (cp_epoch cp)) Hc Hw').
  unfold cp_valid in Hcp. unfold cp_valid_gen. destruct (cp_state cp) as [j| |]; [| |exact Hcp].
  - destruct Hcp as (ch & En & Hrng & Hmal & _ & Hblocks). exists ch. split; [exact En|]. split; [exact Hrng|]. split; [exact Hmal|].
    intros b Hin Hk. apply Nat.leb_le in Hk. exact (Hblocks b Hin Hk).
  - destruct Hcp as [_ Hnone]. intros b Hin Hk. apply Nat.leb_le in Hk. exact (Hnone b Hin Hk).
Qed.

Theorem scoped_aligned_exit_inv c s0 r r' h cp inner outer rest :
  cfg_ok c -> inv c s0 -> aligns s0 = inner :: outer :: rest -> valid_min_align outer ->
  cp_valid c (fst (step c s0 (OAlignPop false) r)) cp ->
  inv c (fst (step c (fst (step c s0 (OAlignPop false) r)) (OResetTo h cp) r')).
Proof.
  intros Hc Hinv Hal Hout Hcp. apply step_reset_to_from_winv; [exact Hc| |exact Hcp].
  eapply step_winv_align_pop; eassumption.
Qed.

(* ================================================================ every operation, every history *)
(* the contract of each operation: what the safe API guarantees by types, or the documented
   contract of the unsafe entry points (reset_to's checkpoint, allocate_prepared_slice's range) *)
Definition op_ok2 (c : cfg) (s : arena) (o : op) : Prop :=
  match o with
  | OAlignPush _ n => valid_min_align n
  | OAlignPop realign =>
    match aligns s with
    | inner :: outer :: _ => valid_min_align outer /\ (realign = true \/ outer <= inner)
    | _ => True
    end
  | OCommit _ es ea ptr len cap rev _ => commit_ok c s es ea ptr len cap rev
  | _ => op_ok c s o
  end.

Definition op_resp_ok2 (c : cfg) (s : arena) (o : op) (r : resp) : Prop :=
  match o with
  | OPrepare _ es ea cap _ => resp_ok c s (es * cap) ea r
  | _ => op_resp_ok c s o r
  end.

Theorem step_inv c s o r :
  cfg_ok c -> inv c s -> op_ok2 c s o -> op_resp_ok2 c s o r -> inv c (fst (step c s o r)).
Proof.
  intros Hc Hinv Hok Hr.
  destruct o; try (apply step_inv_partial; [exact Hc|exact Hinv|reflexivity|exact Hok|exact Hr]).
  - apply step_inv_try_err; assumption.
  - apply step_inv_align_push; assumption.
  - cbn [op_ok2] in Hok. destruct (aligns s) as [|inner [|outer rest]] eqn:Ea.
    + apply inv_tick in Hinv. cbn [step]. assert (E : aligns (tick s) = []) by exact Ea. rewrite E. exact Hinv.
    + apply inv_tick in Hinv. cbn [step]. assert (E : aligns (tick s) = [inner]) by exact Ea. rewrite E. exact Hinv.
    + destruct Hok as [Hv [->|Hle]].
      * eapply step_inv_align_pop; eassumption.
      * destruct realign; [eapply step_inv_align_pop; eassumption|eapply step_inv_align_pop_not_lowered; eassumption].
  - apply step_inv_prepare; assumption.
  - apply step_inv_write_raw; assumption.
  - apply step_inv_commit; assumption.
Qed.

(* histories: single operations, and the exit of a scoped_aligned region with a lowered alignment
   as the pair it is in the model *)
Inductive hstep :=
| HOp (o : op) (r : resp)
| HScopedAlignedExit (h : nat) (cp : checkpoint) (r r' : resp).

Definition hrun1 (c : cfg) (s : arena) (x : hstep) : arena :=
  match x with
  | HOp o r => fst (step c s o r)
  | HScopedAlignedExit h cp r r' => fst (step c (fst (step c s (OAlignPop false) r)) (OResetTo h cp) r')
  end.

Definition hok1 (c : cfg) (s : arena) (x : hstep) : Prop :=
  match x with
  | HOp o r => op_ok2 c s o /\ op_resp_ok2 c s o r
  | HScopedAlignedExit h cp r r' =>
    exists inner outer rest, aligns s = inner :: outer :: rest /\ valid_min_align outer /\
      cp_valid c (fst (step c s (OAlignPop false) r)) cp
  end.

Fixpoint hrun (c : cfg) (s : arena) (xs : list hstep) : arena :=
  match xs with [] => s | x :: rest => hrun c (hrun1 c s x) rest end.
Fixpoint hok (c : cfg) (s : arena) (xs : list hstep) : Prop :=
  match xs with [] => True | x :: rest => hok1 c s x /\ hok c (hrun1 c s x) rest end.

Theorem run_inv c xs : forall s, cfg_ok c -> inv c s -> hok c s xs -> inv c (hrun c s xs).
Proof.
  induction xs as [|x rest IH]; intros s Hc Hinv Hok; [exact Hinv|].
  destruct Hok as [H1 H2]. cbn [hrun]. apply IH; [exact Hc| |exact H2].
  destruct x as [o r|h cp r r']; cbn [hrun1 hok1] in *.
  - destruct H1. apply step_inv; assumption.
  - destruct H1 as (inner & outer & rest0 & Ea & Hv & Hcp). eapply scoped_aligned_exit_inv; eassumption.
Qed.
