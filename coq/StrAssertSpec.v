(* StrAssertSpec.v — which character-boundary assertions the string operations must make.  The string model (Str.v)
   was proved to panic exactly when std::string::String does (StrProofs.v: *_panics_iff); in the code those panics
   are the calls of `assert_char_boundary` (plus the range checks of polyfill::slice::range).  tools/strsites.py reads
   the calls out of the CURRENT sources (gen/StrAsserts.v); asserts_ok decides that every operation asserts exactly
   the indices the model's panic condition mentions, in every string type that implements it. *)
From Coq Require Import String List Bool.
Import ListNotations.
Local Open Scope string_scope.

Definition expected_asserts (fn : string) : option (list string) :=
  if fn =? "generic_insert" then Some ["idx"]
  else if fn =? "generic_insert_str" then Some ["idx"]
  else if fn =? "generic_extend_from_within" then Some ["start"; "end"]
  else if fn =? "generic_replace_range" then Some ["start"; "end"]
  (* split_off: the branch that keeps the front asserts start, the one that keeps the back asserts end, the
     branch for an interior range asserts both - BEFORE the early return for an empty range (genuine defect 4:
     the pinned commit returned first) *)
  else if fn =? "split_off" then Some ["start"; "end"; "start"; "end"; "#empty-range-return"]
  else if fn =? "truncate" then Some ["new_len"]
  else if fn =? "drain" then Some ["start"; "end"]
  else None.

Fixpoint list_eqb (a b : list string) : bool :=
  match a, b with
  | [], [] => true
  | x :: a', y :: b' => (x =? y) && list_eqb a' b'
  | _, _ => false
  end.

Definition row_ok (r : string * string * list string) : bool :=
  let '(_, fn, args) := r in
  match expected_asserts fn with Some e => list_eqb args e | None => false end.

Definition required : list (string * string) :=
  [("src/bump_string.rs", "generic_insert"); ("src/bump_string.rs", "generic_insert_str");
   ("src/bump_string.rs", "generic_extend_from_within"); ("src/bump_string.rs", "generic_replace_range");
   ("src/mut_bump_string.rs", "generic_insert"); ("src/mut_bump_string.rs", "generic_insert_str");
   ("src/mut_bump_string.rs", "generic_extend_from_within"); ("src/mut_bump_string.rs", "generic_replace_range");
   ("src/fixed_bump_string.rs", "generic_insert"); ("src/fixed_bump_string.rs", "generic_insert_str");
   ("src/fixed_bump_string.rs", "generic_extend_from_within"); ("src/fixed_bump_string.rs", "generic_replace_range");
   ("src/fixed_bump_string.rs", "split_off"); ("src/bump_box.rs", "split_off");
   ("src/bump_box.rs", "truncate"); ("src/bump_box.rs", "drain")].

Definition has_row (rows : list (string * string * list string)) (k : string * string) : bool :=
  existsb (fun r => let '(f, fn, _) := r in (f =? fst k) && (fn =? snd k)) rows.

Definition asserts_ok (rows : list (string * string * list string)) : bool :=
  forallb row_ok rows && forallb (has_row rows) required.

(* what a passing table means *)
Lemma list_eqb_eq a : forall b, list_eqb a b = true -> a = b.
Proof.
  induction a as [|x a IH]; intros [|y b] H; try discriminate; [reflexivity|].
  cbn in H. apply andb_true_iff in H. destruct H as [H1 H2]. apply String.eqb_eq in H1. subst. f_equal. apply IH. exact H2.
Qed.

Theorem asserts_ok_spec rows :
  asserts_ok rows = true ->
  (forall f fn args, In (f, fn, args) rows -> expected_asserts fn = Some args) /\
  (forall k, In k required -> exists args, In (fst k, snd k, args) rows).
Proof.
  unfold asserts_ok. intros H. apply andb_true_iff in H. destruct H as [H1 H2].
  rewrite forallb_forall in H1, H2. split.
  - intros f fn args Hin. specialize (H1 _ Hin). unfold row_ok in H1.
    destruct (expected_asserts fn) as [e|]; [|discriminate]. apply list_eqb_eq in H1. subst. reflexivity.
  - intros k Hk. specialize (H2 _ Hk). unfold has_row in H2. apply existsb_exists in H2.
    destruct H2 as ([[f fn] args] & Hin & E). apply andb_true_iff in E. destruct E as [E1 E2].
    apply String.eqb_eq in E1. apply String.eqb_eq in E2. subst. exists args. exact Hin.
Qed.
