(* ArenaSplit.v — C01 / C16: split-off parts of a block count as separate live blocks, and the
   allocator tolerates blocks that are sub-ranges of an allocation.
   `Arena.split_block` replaces a live block by two adjacent parts (pure bookkeeping: chunks,
   positions and memory are untouched).  The arena invariant survives it - the parts are placed,
   aligned as quoted, disjoint from each other and from every other live block - and therefore
   every later operation on a part (deallocate, grow, shrink through any handle or wrapper) is
   covered by the step theorems: `step_inv` needs nothing but the invariant. *)
From Coq Require Import ZArith List Bool Lia.
From BS Require Import Word BumpSpec ChunkSpec Arena ArenaInv ArenaInv2.
Import ListNotations.
Open Scope Z_scope.

Lemma placed_sub c s p sz p' sz' :
  placed c s p sz -> p <= p' -> p' + sz' <= p + sz -> 0 <= sz' -> placed c s p' sz'.
Proof.
  intros (k & ch & Hk & [I1 I2] & Hcur) H1 H2 H3. exists k, ch. split; [exact Hk|]. split; [split; lia|].
  destruct (cur s) as [i| |]; try contradiction. destruct Hcur as [Hle Hside]. split; [exact Hle|].
  intros E Hpos. specialize (Hside E). unfold alloc_side in Hside.
  assert (Hp : 0 < sz) by lia. specialize (Hside Hp). destruct (up c); lia.
Qed.

Lemma disjoint_rng_sub p1 s1 p sz p' sz' :
  disjoint_rng p1 s1 p sz -> p <= p' -> p' + sz' <= p + sz -> 0 <= sz' -> disjoint_rng p1 s1 p' sz'.
Proof. unfold disjoint_rng. intros H H1 H2 H3. lia. Qed.

(* adding one block with a fresh identity, whatever scope it is attributed to *)
Lemma inv_push_block c s blk :
  inv c s -> 0 <= bsize blk -> (balign blk | bptr blk) -> placed c s (bptr blk) (bsize blk) ->
  (forall b, In b (live s) -> disjoint_rng (bptr b) (bsize b) (bptr blk) (bsize blk)) ->
  bid blk = nextid s ->
  inv c (bump_id (upd_live s (blk :: live s))).
Proof.
  intros (Hg & Hb & Hd & [Hn Hlt]) Hsz Hal Hpl Hdis Hid.
  split; [exact Hg|]. split.
  - cbn [live bump_id upd_live]. constructor; [|exact Hb]. repeat split; assumption.
  - split.
    + cbn [live bump_id upd_live]. constructor; [|exact Hd].
      rewrite Forall_forall. intros b Hin. unfold disjoint2. apply disjoint_rng_sym. apply Hdis. exact Hin.
    + unfold ids_ok. cbn [live bump_id upd_live nextid map]. split.
      * constructor; [|exact Hn]. intros Hin. apply in_map_iff in Hin. destruct Hin as (b & E & Hb').
        rewrite Forall_forall in Hlt. specialize (Hlt b Hb'). lia.
      * constructor; [lia|]. rewrite Forall_forall in *. intros b Hb'. specialize (Hlt b Hb'). lia.
Qed.

Theorem split_keeps_inv c s b blk mid ralign :
  inv c s -> find_block s b = Some blk -> 0 <= mid <= bsize blk -> (ralign | bptr blk + mid) ->
  inv c (split_block s b mid ralign).
Proof.
  intros Hinv Hf Hmid Hal. unfold split_block. rewrite Hf.
  destruct (remove_block_facts c s b blk Hinv Hf) as (Hinv1 & B1 & B2 & B3 & B4).
  set (s1 := remove_block s b) in *.
  set (left := mkBlock (nextid s1) (bptr blk) mid (balign blk) (born blk)).
  set (right := mkBlock (S (nextid s1)) (bptr blk + mid) (bsize blk - mid) ralign (born blk)).
  assert (HL : inv c (bump_id (upd_live s1 (left :: live s1)))).
  { apply inv_push_block.
    - exact Hinv1.
    - cbn [bsize left]. lia.
    - cbn [balign bptr left]. exact B2.
    - cbn [bsize bptr left]. apply (placed_sub c s1 (bptr blk) (bsize blk)); [exact B3|lia|lia|lia].
    - intros b0 Hb0. cbn [bsize bptr left]. apply (disjoint_rng_sub _ _ (bptr blk) (bsize blk)); [exact (B4 b0 Hb0)|lia|lia|lia].
    - reflexivity. }
  set (s2 := bump_id (upd_live s1 (left :: live s1))) in *.
  assert (E : bump_id (bump_id (upd_live s1 (right :: left :: live s1))) = bump_id (upd_live s2 (right :: live s2))) by reflexivity.
  rewrite E. apply inv_push_block.
  - exact HL.
  - cbn [bsize right]. lia.
  - cbn [balign bptr right]. exact Hal.
  - cbn [bsize bptr right].
    assert (P : placed c s1 (bptr blk + mid) (bsize blk - mid)) by (apply (placed_sub c s1 (bptr blk) (bsize blk)); [exact B3|lia|lia|lia]).
    destruct P as (k & ch & Hk & Hin & Hcur). exists k, ch. split; [exact Hk|]. split; [exact Hin|exact Hcur].
  - intros b0 Hb0. cbn [bsize bptr right]. cbn [live s2 bump_id upd_live] in Hb0. destruct Hb0 as [<-|Hb0].
    + cbn [bptr bsize left]. unfold disjoint_rng. lia.
    + apply (disjoint_rng_sub _ _ (bptr blk) (bsize blk)); [exact (B4 b0 Hb0)|lia|lia|lia].
  - reflexivity.
Qed.

(* nothing but the bookkeeping changes, and the two parts are exactly the original range *)
Theorem split_is_bookkeeping s b mid ralign :
  chunks (split_block s b mid ralign) = chunks s /\ cur (split_block s b mid ralign) = cur s /\
  (forall a, mem (split_block s b mid ralign) a = mem s a) /\ depth (split_block s b mid ralign) = depth s /\
  ledger (split_block s b mid ralign) = ledger s.
Proof. unfold split_block. destruct (find_block s b); repeat split. Qed.

Theorem split_parts s b blk mid ralign :
  find_block s b = Some blk ->
  exists l r, live (split_block s b mid ralign) = r :: l :: live (remove_block s b) /\
    bptr l = bptr blk /\ bsize l = mid /\ balign l = balign blk /\
    bptr r = bptr blk + mid /\ bsize r = bsize blk - mid /\ balign r = ralign /\
    bptr l + bsize l = bptr r /\ bsize l + bsize r = bsize blk /\
    born l = born blk /\ born r = born blk /\ bid l = nextid s /\ bid r = S (nextid s).
Proof.
  intros Hf. unfold split_block. rewrite Hf. eexists. eexists. split; [reflexivity|].
  cbn [bptr bsize balign born bid nextid remove_block upd_live]. repeat split; lia.
Qed.

(* the allocator tolerates blocks that are sub-ranges of an allocation: whatever is done next with a
   part - or with anything else - keeps the invariant (all live blocks valid, aligned, disjoint) *)
Corollary step_after_split_keeps_inv c s b blk mid ralign o r :
  cfg_ok c -> inv c s -> find_block s b = Some blk -> 0 <= mid <= bsize blk -> (ralign | bptr blk + mid) ->
  op_ok2 c (split_block s b mid ralign) o -> op_resp_ok2 c (split_block s b mid ralign) o r ->
  inv c (fst (step c (split_block s b mid ralign) o r)).
Proof.
  intros Hc Hinv Hf Hmid Hal Hok Hr. apply step_inv; try assumption. apply (split_keeps_inv c s b blk); assumption.
Qed.

(* which part is "the newest allocation" afterwards: the part that touches the bump position - the
   second one in an upward arena, the first one in a downward arena - exactly when the whole was *)
Theorem split_is_last c s ptr size mid :
  (up c = true -> is_last c s (ptr + mid) (size - mid) = is_last c s ptr size) /\
  (up c = false -> is_last c s ptr mid = is_last c s ptr size).
Proof.
  unfold is_last. split; intros Hu; rewrite Hu; destruct (cur_chunk s) as [ch|]; try reflexivity.
  replace (ptr + mid + (size - mid)) with (ptr + size) by lia. reflexivity.
Qed.

(* and the other part is not, unless it is empty or the part at the position is *)
Theorem split_other_part_not_last c s ptr size mid ch :
  cur_chunk s = Some ch -> 0 < mid < size ->
  (up c = true -> is_last c s ptr mid = true -> is_last c s ptr size = false) /\
  (up c = false -> is_last c s (ptr + mid) (size - mid) = true -> is_last c s ptr size = false).
Proof.
  intros Hc Hm. unfold is_last. rewrite Hc. split; intros Hu; rewrite Hu; intros H; apply Z.eqb_eq in H; apply Z.eqb_neq; lia.
Qed.

(* histories that interleave arena operations with splits *)
Inductive xop := XOp (o : op) (r : resp) | XSplit (b : nat) (mid ralign : Z).
Definition xstep (c : cfg) (s : arena) (x : xop) : arena :=
  match x with XOp o r => fst (step c s o r) | XSplit b mid ralign => split_block s b mid ralign end.
Definition xok (c : cfg) (s : arena) (x : xop) : Prop :=
  match x with
  | XOp o r => op_ok2 c s o /\ op_resp_ok2 c s o r
  | XSplit b mid ralign => forall blk, find_block s b = Some blk -> 0 <= mid <= bsize blk /\ (ralign | bptr blk + mid)
  end.
Fixpoint xrun_ok (c : cfg) (s : arena) (xs : list xop) : Prop :=
  match xs with [] => True | x :: r => xok c s x /\ xrun_ok c (xstep c s x) r end.

Theorem xrun_inv c : forall xs s, cfg_ok c -> inv c s -> xrun_ok c s xs -> inv c (fold_left (xstep c) xs s).
Proof.
  induction xs as [|x xs IH]; intros s Hc Hinv Hok; cbn [fold_left]; [exact Hinv|].
  destruct Hok as [Hx Hrest]. apply IH; [exact Hc| |exact Hrest].
  destruct x as [o r|b mid ralign]; cbn [xstep xok] in *.
  - destruct Hx as [H1 H2]. apply step_inv; assumption.
  - destruct (find_block s b) as [blk|] eqn:Hf.
    + destruct (Hx blk eq_refl) as [Hm Ha]. apply (split_keeps_inv c s b blk); assumption.
    + unfold split_block. rewrite Hf. exact Hinv.
Qed.
