(* StatsSpec.v — the statistics as summing rules.  src/stats.rs and src/stats/any.rs compute count / size / capacity /
   allocated / remaining as: a term of the current chunk, plus a term per earlier chunk, plus a term per later
   chunk.  tools/statsites.py reads those rules out of the CURRENT source (gen/StatsRules.v); this file
   evaluates a rule over the model's chunk list and says what the right rules are: rules_ok decides it, and
   rules_ok_spec proves that a table that passes computes Arena.arena_stats for every arena state. *)
From Coq Require Import ZArith List Bool Lia.
From BS Require Import Word Arena.
Export ListNotations.
Open Scope Z_scope.

Inductive sname := Scount | Ssize | Scapacity | Sallocated | Sremaining.
Inductive field := Fsize | Fcapacity | Fallocated | Fremaining.
Inductive term := TOne | TField (f : field).
Record rule := mkRule { r_name : sname; r_init : term; r_prev : option term; r_next : option term }.

Definition field_of (c : cfg) (f : field) (ch : chunk) : Z :=
  match f with
  | Fsize => csize ch | Fcapacity => capacity c ch
  | Fallocated => allocated_in c ch | Fremaining => remaining_in c ch
  end.
Definition term_of (c : cfg) (t : term) (ch : chunk) : Z := match t with TOne => 1 | TField f => field_of c f ch end.
Definition opt_sum (c : cfg) (t : option term) (l : list chunk) : Z :=
  match t with None => 0 | Some t => sumZ (map (term_of c t) l) end.

(* what the code computes for a rule when `cur` is the current chunk, `before` / `after` the chunks on either side *)
Definition eval_rule (c : cfg) (r : rule) (before : list chunk) (cur : chunk) (after : list chunk) : Z :=
  term_of c (r_init r) cur + opt_sum c (r_prev r) before + opt_sum c (r_next r) after.

Definition term_eqb (a b : term) : bool :=
  match a, b with
  | TOne, TOne => true
  | TField Fsize, TField Fsize | TField Fcapacity, TField Fcapacity
  | TField Fallocated, TField Fallocated | TField Fremaining, TField Fremaining => true
  | _, _ => false
  end.
Definition oterm_eqb (a b : option term) : bool :=
  match a, b with None, None => true | Some x, Some y => term_eqb x y | _, _ => false end.

(* the right rule for each statistic *)
Definition expected (n : sname) : term * option term * option term :=
  match n with
  | Scount => (TOne, Some TOne, Some TOne)
  | Ssize => (TField Fsize, Some (TField Fsize), Some (TField Fsize))
  | Scapacity => (TField Fcapacity, Some (TField Fcapacity), Some (TField Fcapacity))
  | Sallocated => (TField Fallocated, Some (TField Fcapacity), None)
  | Sremaining => (TField Fremaining, None, Some (TField Fcapacity))
  end.
Definition rule_ok (r : rule) : bool :=
  let '(i, p, n) := expected (r_name r) in
  term_eqb (r_init r) i && oterm_eqb (r_prev r) p && oterm_eqb (r_next r) n.
Definition sname_eqb (a b : sname) : bool :=
  match a, b with Scount, Scount | Ssize, Ssize | Scapacity, Scapacity | Sallocated, Sallocated | Sremaining, Sremaining => true | _, _ => false end.
Definition rules_ok (l : list rule) : bool :=
  forallb rule_ok l &&
  forallb (fun n => existsb (fun r => sname_eqb (r_name r) n) l) [Scount; Ssize; Scapacity; Sallocated; Sremaining].

Lemma term_eqb_eq a b : term_eqb a b = true -> a = b.
Proof. destruct a as [|[]], b as [|[]]; cbn; intros; congruence. Qed.
Lemma oterm_eqb_eq a b : oterm_eqb a b = true -> a = b.
Proof. destruct a, b; cbn; intros H; try discriminate; [f_equal; apply term_eqb_eq; exact H|reflexivity]. Qed.

Lemma sumZ_app l1 l2 : sumZ (l1 ++ l2) = sumZ l1 + sumZ l2.
Proof. unfold sumZ. induction l1 as [|x t IH]; cbn; [reflexivity|]. rewrite IH. lia. Qed.

Lemma sumZ_ones {A} (l : list A) : sumZ (map (fun _ => 1) l) = Z.of_nat (length l).
Proof. unfold sumZ. induction l as [|x t IH]; [reflexivity|]. cbn [map fold_right length]. rewrite IH. lia. Qed.

Lemma sum_tone c (l : list chunk) : sumZ (map (term_of c TOne) l) = Z.of_nat (length l).
Proof. unfold sumZ. induction l as [|x t IH]; [reflexivity|]. cbn [map fold_right length term_of]. rewrite IH. lia. Qed.
Lemma sum_tfield c f (l : list chunk) : sumZ (map (term_of c (TField f)) l) = sumZ (map (field_of c f) l).
Proof. reflexivity. Qed.
Lemma sumZ_cons x l : sumZ (x :: l) = x + sumZ l. Proof. reflexivity. Qed.

(* a rule that passes computes the model's statistic: the chunk list is before ++ cur :: after *)
Theorem rule_ok_spec c r before cur after :
  rule_ok r = true ->
  eval_rule c r before cur after =
  let all := before ++ cur :: after in
  match r_name r with
  | Scount => Z.of_nat (length all)
  | Ssize => sumZ (map (field_of c Fsize) all)
  | Scapacity => sumZ (map (field_of c Fcapacity) all)
  | Sallocated => field_of c Fallocated cur + sumZ (map (field_of c Fcapacity) before)
  | Sremaining => field_of c Fremaining cur + sumZ (map (field_of c Fcapacity) after)
  end.
Proof.
  unfold rule_ok, eval_rule. destruct r as [n i p x]. cbn [r_name r_init r_prev r_next].
  destruct (expected n) as [[ei ep] en] eqn:E. intros H.
  apply andb_true_iff in H. destruct H as [H Hn]. apply andb_true_iff in H. destruct H as [Hi Hp].
  apply term_eqb_eq in Hi. apply oterm_eqb_eq in Hp. apply oterm_eqb_eq in Hn. subst i p x.
  cbv zeta. destruct n; cbn in E; injection E as <- <- <-; cbn [opt_sum].
  - rewrite !sum_tone, app_length. cbn [length term_of]. lia.
  - rewrite !sum_tfield, map_app, sumZ_app. cbn [map term_of]. rewrite sumZ_cons. lia.
  - rewrite !sum_tfield, map_app, sumZ_app. cbn [map term_of]. rewrite sumZ_cons. lia.
  - rewrite !sum_tfield. cbn [term_of]. lia.
  - rewrite !sum_tfield. cbn [term_of]. lia.
Qed.

(* ... and that is Arena.arena_stats, for every state whose current chunk exists *)
Theorem rules_compute_arena_stats c s i ch rs r :
  cur s = Cur i -> nth_error (chunks s) i = Some ch -> forallb rule_ok rs = true -> In r rs ->
  eval_rule c r (firstn i (chunks s)) ch (skipn (S i) (chunks s)) =
  let st := arena_stats c s in
  match r_name r with
  | Scount => st_count st | Ssize => st_size st | Scapacity => st_capacity st
  | Sallocated => st_allocated st | Sremaining => st_remaining st
  end.
Proof.
  intros Hc Hn Hall Hin. rewrite forallb_forall in Hall. specialize (Hall r Hin).
  rewrite (rule_ok_spec c r _ _ _ Hall). cbv zeta.
  assert (Hsplit : firstn i (chunks s) ++ ch :: skipn (S i) (chunks s) = chunks s).
  { clear - Hn. revert i Hn. induction (chunks s) as [|x t IH]; intros i Hn; [destruct i; discriminate|].
    destruct i as [|i]; [cbn in Hn; injection Hn as ->; reflexivity|]. cbn [firstn skipn app]. f_equal. apply IH. exact Hn. }
  rewrite Hsplit. unfold arena_stats, cur_chunk, chunks_before, chunks_after. rewrite Hc, Hn.
  destruct (r_name r); reflexivity.
Qed.
