(* ArenaWrites.v — C05: every byte the arena itself writes (zeroing, the copies of grow / shrink /
   commit, fill through a block) lies inside a block it was granted by the base allocator and
   still holds.  (Writes to the chunk headers are not modelled; OWriteRaw is the user's own write
   into a range it was handed.) *)
From Coq Require Import ZArith List Lia Bool.
From BS Require Import Word BumpSpec ChunkSpec Arena ArenaInv ArenaMem ArenaMem2 ArenaExt ArenaInv2.
Import ListNotations.
Open Scope Z_scope.

Definition in_granted (s : arena) (a : Z) : Prop :=
  exists ch, In ch (chunks s) /\ cbase ch <= a < cbase ch + cgranted ch.

Lemma placed_in_granted c s p sz a :
  cfg_ok c -> Forall (chunk_ok c) (chunks s) -> placed c s p sz -> p <= a < p + sz -> in_granted s a.
Proof.
  intros Hc Hok (k & ch & En & (H1 & H2) & _) Ha.
  pose proof (Forall_nth_error _ _ _ _ Hok En) as [Hg _].
  pose proof (geom_bounds c Hc ch Hg) as (_ & _ & _ & _ & _ & _ & B1 & B2).
  destruct Hg as (_ & _ & _ & _ & _ & _ & G & _).
  exists ch. split; [eapply nth_error_In; exact En|]. lia.
Qed.

(* the block an operation returns is live afterwards *)
Lemma add_block_live s p sz al : exists blk, In blk (live (fst (add_block s p sz al))) /\ bptr blk = p /\ bsize blk = sz.
Proof. unfold add_block. cbn [fst live bump_id upd_live]. eexists. split; [left; reflexivity|]. split; reflexivity. Qed.

Lemma finish_add_block_live s0 s p sz al ub :
  let '(s', out) := (let '(s3, id) := add_block s p sz al in (s3, mkOut (RBlock id p sz) (new_events s0 s3) ub)) in
  exists blk, In blk (live s') /\ bptr blk = p /\ bsize blk = sz.
Proof.
  destruct (add_block s p sz al) as [s3 id] eqn:E. pose proof (add_block_live s p sz al) as H. rewrite E in H. exact H.
Qed.

Theorem result_block_is_live c s0 o r id p sz :
  o_res (snd (step c s0 o r)) = RBlock id p sz ->
  exists blk, In blk (live (fst (step c s0 o r))) /\ bptr blk = p /\ bsize blk = sz.
Proof.
  destruct o; cbn [step]; set (s := tick s0).
  - (* OAlloc *)
    destruct (negb (is_top s h)); [cbn; discriminate|].
    destruct (raw_alloc c s size align r) as [s1 [q|e]]; [|cbn; discriminate].
    pose proof (finish_add_block_live s (if zeroed then zero_fill s1 q size else s1) q size align false) as H.
    destruct (add_block (if zeroed then zero_fill s1 q size else s1) q size align) as [s3 id']. cbn [fst snd o_res].
    intros E. injection E as _ <- <-. exact H.
  - (* ODealloc *) destruct (find_block s b); [destruct (negb (is_top s h) || has_wrapper WDealloc ws)|]; cbn; discriminate.
  - (* OGrow *)
    destruct (find_block s b) as [blk|]; [|cbn; discriminate].
    destruct (negb (is_top s h)); [cbn; discriminate|].
    destruct (raw_grow c s (bptr blk) (bsize blk) (balign blk) nsize nalign r) as [s1 [ro|e]]; [|cbn; discriminate].
    match goal with |- context [add_block ?a ?b0 ?c0 ?d] => pose proof (finish_add_block_live s a b0 c0 d (ro_ub ro)) as H; destruct (add_block a b0 c0 d) as [s3 id'] end.
    cbn [fst snd o_res]. intros E. injection E as _ <- <-. exact H.
  - (* OShrink *)
    destruct (find_block s b) as [blk|]; [|cbn; discriminate].
    destruct (negb (is_top s h) && negb (has_wrapper WShrink ws && divides nalign (bptr blk))).
    + destruct (divides nalign (bptr blk)); [|cbn; discriminate].
      match goal with |- context [add_block ?a ?b0 ?c0 ?d] => pose proof (finish_add_block_live s a b0 c0 d false) as H; destruct (add_block a b0 c0 d) as [s3 id'] end.
      cbn [fst snd o_res]. intros E. injection E as _ <- <-. exact H.
    + destruct ((if has_wrapper WShrink ws then ws_shrink else raw_shrink) c s (bptr blk) (bsize blk) (balign blk) nsize nalign r) as [s1 [ro|e]]; [|cbn; discriminate].
      match goal with |- context [add_block ?a ?b0 ?c0 ?d] => pose proof (finish_add_block_live s a b0 c0 d (ro_ub ro)) as H; destruct (add_block a b0 c0 d) as [s3 id'] end.
      cbn [fst snd o_res]. intros E. injection E as _ <- <-. exact H.
  - destruct (find_block s b); cbn; discriminate.
  - cbn; discriminate.
  - cbn; discriminate.
  - cbn [cur upd_live]. destruct (cur s); try (cbn; discriminate). cbn [chunks upd_live]. destruct (rev (chunks s)); cbn; discriminate.
  - cbn [cur upd_live]. destruct (cur s); try (cbn; discriminate). cbn [chunks upd_live]. destruct (chunks s); cbn; discriminate.
  - (* OReserve *)
    destruct (negb (is_top s h)); [cbn; discriminate|]. destruct (cur s).
    + destruct (nth_error (chunks s) i); [|cbn; discriminate].
      match goal with |- context [if ?b then _ else _] => destruct b end; [cbn; discriminate|].
      match goal with |- context [if ?b then _ else _] => destruct b end; [cbn; discriminate|].
      match goal with |- context [grow_arena c s ?a ?b ?r0] => destruct (grow_arena c s a b r0) as [s1 [e|]] end; cbn; discriminate.
    + match goal with |- context [if ?b then _ else _] => destruct b end; [cbn; discriminate|].
      destruct (grow_arena c s n 1 r) as [s1 [e|]]; cbn; discriminate.
    + cbn; discriminate.
  - (* OTryErr *)
    destruct (negb (is_top s h)); [cbn; discriminate|].
    destruct (if mutable then raw_prepare c s size align r else raw_alloc c s size align r) as [s1 [q|e]]; cbn; discriminate.
  - destruct (is_top s h); cbn; discriminate.
  - cbn; discriminate.
  - destruct (aligns s) as [|i1 [|o1 rest]]; try (cbn; discriminate).
    destruct (realign && (i1 <? o1)); [destruct (cur_chunk (upd_aligns s (o1 :: rest)))|]; cbn; discriminate.
  - (* OPrepare *)
    destruct (negb (is_top s h)); [cbn; discriminate|]. destruct (IMAX <? es * cap + (ea - 1)); [cbn; discriminate|].
    destruct (raw_prepare_range c s (es * cap) ea r) as [s1 [[st en]|e]]; cbn; discriminate.
  - cbn; discriminate.
  - (* OCommit *)
    match goal with |- context [if ?b then _ else _] => destruct b end; destruct (up c);
      match goal with |- context [add_block ?a ?b0 ?c0 ?d] => pose proof (finish_add_block_live s a b0 c0 d false) as H; destruct (add_block a b0 c0 d) as [s3 id'] end;
      cbn [fst snd o_res]; intros E; injection E as _ <- <-; exact H.
  - destruct (is_top s h); cbn; discriminate.
  - cbn; discriminate.
  - cbn [upd_live depth]. destruct (Nat.eqb (depth s) 0); cbn; discriminate.
Qed.

(* commit writes only inside the block it returns *)
Lemma commit_frame c s0 h es ea ptr len cap rv dyn r a :
  let '(s', out) := step c s0 (OCommit h es ea ptr len cap rv dyn) r in
  mem s' a <> mem s0 a -> exists id p sz, o_res out = RBlock id p sz /\ p <= a < p + sz.
Proof.
  cbn [step]. set (s := tick s0).
  assert (Hms : forall x, mem s x = mem s0 x) by reflexivity.
  destruct rv, (up c);
    match goal with |- context [add_block ?x ?p ?sz ?al] => destruct (add_block x p sz al) as [s3 id] eqn:Eadd end;
    unfold add_block in Eadd; injection Eadd as <- _; cbn [mem bump_id upd_live o_res]; rewrite ?set_cur_pos_mem; cbn [mem upd_mem];
    intros Hne; try (exfalso; apply Hne; reflexivity).
  - eexists _, _, _. split; [reflexivity|].
    destruct (Z_le_gt_dec (ptr - cap * es) a); [destruct (Z_lt_le_dec a (ptr - cap * es + len * es)); [lia|]|]; exfalso; apply Hne; rewrite mem_copy_outside by lia; reflexivity.
  - eexists _, _, _. split; [reflexivity|].
    destruct (Z_le_gt_dec (ptr + cap * es - len * es) a); [destruct (Z_lt_le_dec a (ptr + cap * es - len * es + len * es)); [lia|]|]; exfalso; apply Hne; rewrite mem_copy_outside by lia; reflexivity.
Qed.

(* C05: whatever byte one of these operations changes lies inside a block granted by the base
   allocator that the arena holds afterwards *)
Theorem writes_stay_inside_granted_blocks c s0 o r a :
  cfg_ok c -> inv c s0 -> op_ok2 c s0 o -> op_resp_ok2 c s0 o r ->
  match o with OWriteRaw _ _ _ | OTryErr _ _ _ _ | OShrink _ _ _ _ _ => False | _ => True end ->
  mem (fst (step c s0 o r)) a <> mem s0 a -> in_granted (fst (step c s0 o r)) a.
Proof.
  intros Hc Hinv Hok Hr Hcls Hne.
  pose proof (step_inv c s0 o r Hc Hinv Hok Hr) as Hinv'.
  pose proof Hinv' as ((Hokc' & _) & Hblk' & _).
  assert (Hvia : forall id p sz, o_res (snd (step c s0 o r)) = RBlock id p sz -> p <= a < p + sz -> in_granted (fst (step c s0 o r)) a).
  { intros id p sz E Ha. destruct (result_block_is_live c s0 o r id p sz E) as (blk & Hin & <- & <-).
    rewrite Forall_forall in Hblk'. destruct (Hblk' blk Hin) as (_ & _ & Hpl).
    exact (placed_in_granted c _ _ _ a Hc Hokc' Hpl Ha). }
  destruct o; try destruct Hcls;
    try (exfalso; apply Hne; match goal with |- context [step c s0 ?oo r] => exact (no_write_ops c s0 oo r a) end).
  - (* OAlloc *)
    pose proof (alloc_frame c s0 h ws size align zeroed r a) as H.
    destruct (step c s0 (OAlloc h ws size align zeroed) r) as [s' out]. cbn [fst snd] in *.
    destruct (H Hne) as (_ & id & p & E & Ha). exact (Hvia id p size E Ha).
  - (* OGrow *)
    cbn [op_ok2 op_ok] in Hok. destruct Hok as [_ Hsz].
    destruct (find_block (tick s0) b) as [blk|] eqn:Ef.
    + pose proof Hinv as (_ & Hblk & _). destruct (find_block_spec (tick s0) b blk Ef) as [Hin _].
      assert (H0 : 0 <= bsize blk) by (rewrite Forall_forall in Hblk; destruct (Hblk blk Hin) as (B0 & _); exact B0).
      pose proof (grow_contents_and_frame c s0 h ws b nsize nalign zeroed r blk Ef (Hsz blk Ef) H0) as H.
      destruct (step c s0 (OGrow h ws b nsize nalign zeroed) r) as [s' out]. cbn [fst snd] in *.
      destruct (o_res out) as [id p sz| | | | | |] eqn:Eo; [|exfalso; apply Hne; apply H..].
      destruct H as (-> & _ & _ & Hfr).
      assert (Hin_rng : p <= a < p + nsize).
      { destruct (Z_le_gt_dec p a) as [L1|L1]; [destruct (Z_lt_le_dec a (p + nsize)) as [L2|L2]; [lia|]|]; exfalso; apply Hne; apply Hfr; lia. }
      exact (Hvia id p nsize eq_refl Hin_rng).
    + exfalso. apply Hne. cbn [step]. rewrite Ef. reflexivity.
  - (* OFill *)
    destruct (fill_frame c s0 b seed r a Hne) as (blk & Ef & Ha).
    destruct (find_block_spec (tick s0) b blk Ef) as [Hin _].
    pose proof Hinv as ((Hokc & _) & Hblk & _). rewrite Forall_forall in Hblk. destruct (Hblk blk Hin) as (_ & _ & Hpl).
    assert (Ech : chunks (fst (step c s0 (OFill b seed) r)) = chunks s0) by (cbn [step]; rewrite Ef; reflexivity).
    destruct (placed_in_granted c s0 _ _ a Hc Hokc Hpl Ha) as (ch & Hch & Hr'). exists ch. rewrite Ech. split; assumption.
  - (* OStats *) exfalso. apply Hne. cbn [step]. destruct (is_top (tick s0) h); reflexivity.
  - (* OAlignPush *) exfalso. apply Hne. cbn [step].
    destruct (malign (tick s0) <? n); [destruct (cur_chunk (tick s0))|]; cbn [fst mem upd_aligns]; rewrite ?set_cur_pos_mem; reflexivity.
  - (* OAlignPop *) exfalso. apply Hne. cbn [step].
    destruct (aligns (tick s0)) as [|i1 [|o1 rest]]; try reflexivity.
    destruct (realign && (i1 <? o1)); [destruct (cur_chunk (upd_aligns (tick s0) (o1 :: rest)))|]; cbn [fst mem upd_aligns]; rewrite ?set_cur_pos_mem; reflexivity.
  - (* OPrepare *) exfalso. apply Hne. cbn [step].
    destruct (negb (is_top (tick s0) h)); [reflexivity|]. destruct (IMAX <? es * cap + (ea - 1)); [reflexivity|].
    destruct (raw_prepare_range c (tick s0) (es * cap) ea r) as [s1 res] eqn:Ep.
    assert (Hm : mem s1 = mem (tick s0)).
    { destruct (prepare_keeps c (tick s0) (es * cap) ea r s1 res Hc (proj1 (inv_tick c s0 Hinv)) ltac:(eapply resp_ok_ext; [|exact Hr]; reflexivity) Ep) as ((_ & F2 & _) & _). exact F2. }
    destruct res as [[st en]|e]; cbn [fst]; rewrite Hm; reflexivity.
  - (* OCommit *)
    pose proof (commit_frame c s0 h es ea ptr len cap rev dyn r a) as H.
    destruct (step c s0 (OCommit h es ea ptr len cap rev dyn) r) as [s' out]. cbn [fst snd] in *.
    destruct (H Hne) as (id & p & sz & E & Ha). exact (Hvia id p sz E Ha).
Qed.

(* the same for shrink (repaired WithoutShrink::shrink; the pinned one overran the block, C02) *)
Theorem shrink_writes_stay_inside_granted_blocks c s0 h ws b nsize nalign r a :
  cfg_ok c -> inv c s0 -> fix_without_shrink c = true ->
  op_ok2 c s0 (OShrink h ws b nsize nalign) -> op_resp_ok2 c s0 (OShrink h ws b nsize nalign) r ->
  mem (fst (step c s0 (OShrink h ws b nsize nalign) r)) a <> mem s0 a ->
  in_granted (fst (step c s0 (OShrink h ws b nsize nalign) r)) a.
Proof.
  intros Hc Hinv Hfix Hok Hr Hne.
  pose proof (step_inv c s0 _ r Hc Hinv Hok Hr) as Hinv'.
  pose proof Hinv' as ((Hokc' & _) & Hblk' & _).
  cbn [op_ok2 op_ok] in Hok. destruct Hok as [(_ & Hn0 & _) Hsz].
  destruct (find_block (tick s0) b) as [blk|] eqn:Ef.
  - pose proof (shrink_contents_and_frame c s0 h ws b nsize nalign r blk Hfix Ef (conj Hn0 (Hsz blk Ef))) as H.
    pose proof (result_block_is_live c s0 (OShrink h ws b nsize nalign) r) as Hlive.
    destruct (step c s0 (OShrink h ws b nsize nalign) r) as [s' out]. cbn [fst snd] in *.
    destruct (o_res out) as [id p sz| | | | | |] eqn:Eo; [|exfalso; apply Hne; apply H..].
    destruct H as (Hle & _ & Hfr).
    assert (Hin_rng : p <= a < p + nsize).
    { destruct (Z_le_gt_dec p a) as [L1|L1]; [destruct (Z_lt_le_dec a (p + nsize)) as [L2|L2]; [lia|]|]; exfalso; apply Hne; apply Hfr; lia. }
    destruct (Hlive id p sz eq_refl) as (blk' & Hin & <- & <-).
    rewrite Forall_forall in Hblk'. destruct (Hblk' blk' Hin) as (_ & _ & Hpl).
    apply (placed_in_granted c _ _ _ a Hc Hokc' Hpl). lia.
  - exfalso. apply Hne. cbn [step]. rewrite Ef. reflexivity.
Qed.
