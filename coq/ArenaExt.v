(* ArenaExt.v — claims (C14), minimum-alignment regions (C18), prepared slices (C15) and the
   interchangeability of entry points (C17) over the arena model. *)
From Coq Require Import ZArith List Bool Lia.
From BS Require Import Word BumpSpec BumpRefine ChunkSpec Arena ArenaInv ArenaStats ArenaMem ArenaMisc.
From BS.gen Require Bumping.
Import ListNotations.
Open Scope Z_scope.

(* =========================== C14: claims =========================== *)
(* every memory request through a claimed handle fails and changes nothing but the clock *)
Theorem claimed_requests_fail c s h r :
  h <> depth s ->
  (forall ws size align z, step c s (OAlloc h ws size align z) r = (tick s, mkOut (RErr ErrClaimed) [] false)) /\
  (forall n, step c s (OReserve h n) r = (tick s, mkOut (RErr ErrClaimed) [] false)) /\
  (forall mu size align, step c s (OTryErr h mu size align) r = (tick s, mkOut (RErr ErrClaimed) [] false)) /\
  (forall es ea cap rev, step c s (OPrepare h es ea cap rev) r = (tick s, mkOut (RErr ErrClaimed) [] false)).
Proof.
  intros Hne.
  assert (Ht : is_top (tick s) h = false).
  { unfold is_top. cbn [tick depth]. apply Nat.eqb_neq. exact Hne. }
  assert (Hev : new_events (tick s) (tick s) = []) by (unfold new_events; rewrite Nat.sub_diag; reflexivity).
  repeat split; intros; cbn [step]; rewrite Ht; cbn [negb]; rewrite Hev; reflexivity.
Qed.

Theorem claimed_grow_fails c s h ws b blk nsize nalign z r :
  h <> depth s -> find_block (tick s) b = Some blk ->
  step c s (OGrow h ws b nsize nalign z) r = (tick s, mkOut (RErr ErrClaimed) [] false).
Proof.
  intros Hne Hf. cbn [step]. rewrite Hf.
  assert (Ht : is_top (tick s) h = false) by (unfold is_top; cbn [tick depth]; apply Nat.eqb_neq; exact Hne).
  rewrite Ht. cbn [negb]. unfold new_events. rewrite Nat.sub_diag. reflexivity.
Qed.

(* deallocate through a claimed handle touches neither chunks nor positions nor memory *)
Theorem claimed_dealloc_noop c s h ws b r :
  h <> depth s ->
  let s' := fst (step c s (ODealloc h ws b) r) in
  chunks s' = chunks s /\ cur s' = cur s /\ (forall a, mem s' a = mem s a) /\ depth s' = depth s.
Proof.
  intros Hne. cbv zeta. cbn [step]. destruct (find_block (tick s) b); [|repeat split].
  assert (Ht : is_top (tick s) h = false) by (unfold is_top; cbn [tick depth]; apply Nat.eqb_neq; exact Hne).
  rewrite Ht. cbn [negb orb fst]. repeat split.
Qed.

(* a shrink through a claimed handle does nothing to the arena: a block that already satisfies the
   new alignment comes back unchanged (also through WithoutShrink), any other request fails *)
Theorem claimed_shrink_noop c s h ws b nsize nalign r :
  h <> depth s ->
  let s' := fst (step c s (OShrink h ws b nsize nalign) r) in
  chunks s' = chunks s /\ cur s' = cur s /\ (forall a, mem s' a = mem s a) /\ depth s' = depth s /\
  forall blk, find_block (tick s) b = Some blk ->
    o_res (snd (step c s (OShrink h ws b nsize nalign) r)) =
      (if divides nalign (bptr blk)
       then RBlock (nextid (tick s)) (bptr blk) (if has_wrapper WShrink ws then nsize else bsize blk)
       else RErr ErrClaimed).
Proof.
  intros Hne. cbv zeta. cbn [step].
  assert (Ht : is_top (tick s) h = false) by (unfold is_top; cbn [tick depth]; apply Nat.eqb_neq; exact Hne).
  destruct (find_block (tick s) b) as [blk|] eqn:Efb; [|repeat split; intros blk0 Hb; discriminate].
  rewrite Ht. cbn [negb andb].
  destruct (has_wrapper WShrink ws) eqn:Ew; cbn [andb negb].
  - destruct (divides nalign (bptr blk)) eqn:Ed; cbn [negb].
    + unfold ws_shrink. rewrite Ed. cbn [fst snd ro_ptr ro_size ro_ub]. repeat split.
      intros blk0 Hb. injection Hb as <-. rewrite Ed. reflexivity.
    + repeat split. intros blk0 Hb. injection Hb as <-. rewrite Ed. reflexivity.
  - destruct (divides nalign (bptr blk)) eqn:Ed.
    + cbn [fst snd]. repeat split. intros blk0 Hb. injection Hb as <-. rewrite Ed. reflexivity.
    + repeat split. intros blk0 Hb. injection Hb as <-. rewrite Ed. reflexivity.
Qed.

Theorem claimed_stats_zero c s h r :
  h <> depth s -> o_res (snd (step c s (OStats h) r)) = RStats (mkStats 0 0 0 0 0) true.
Proof.
  intros Hne. cbn [step].
  assert (Ht : is_top (tick s) h = false) by (unfold is_top; cbn [tick depth]; apply Nat.eqb_neq; exact Hne).
  rewrite Ht. reflexivity.
Qed.

Theorem second_claim_panics c s h r :
  h <> depth s -> step c s (OClaim h) r = (tick s, mkOut RPanic [] false).
Proof.
  intros Hne. cbn [step].
  assert (Ht : is_top (tick s) h = false) by (unfold is_top; cbn [tick depth]; apply Nat.eqb_neq; exact Hne).
  rewrite Ht. unfold new_events. rewrite Nat.sub_diag. reflexivity.
Qed.

(* claiming and un-claiming change nothing but the handle index: the original handle continues
   exactly where the guard stopped (chunks, current chunk, positions, live blocks, bytes) *)
Theorem claim_unclaim_only_move_the_handle c s r :
  let s1 := fst (step c s (OClaim (depth s)) r) in
  let s2 := fst (step c s OUnclaim r) in
  (chunks s1 = chunks s /\ cur s1 = cur s /\ live s1 = live s /\ (forall a, mem s1 a = mem s a) /\ depth s1 = S (depth s)) /\
  (chunks s2 = chunks s /\ cur s2 = cur s /\ live s2 = live s /\ (forall a, mem s2 a = mem s a) /\ depth s2 = pred (depth s)).
Proof.
  cbv zeta. cbn [step]. unfold is_top. cbn [tick depth]. rewrite Nat.eqb_refl. cbn [fst]. repeat split.
Qed.

(* =========================== C18: minimum-alignment regions =========================== *)
Lemma align_pos_in_range c n ch :
  cfg_ok c -> chunk_ok c ch -> valid_min_align n ->
  content_start c ch <= align_posZ (up c) n (cpos ch) <= content_end c ch /\
  (n | align_posZ (up c) n (cpos ch)) /\
  (if up c then cpos ch <= align_posZ (up c) n (cpos ch) else align_posZ (up c) n (cpos ch) <= cpos ch).
Proof.
  intros Hc [Hg Hp] Hn. pose proof (min_align_pos _ Hn) as Hnp. pose proof (min_align_div16 _ Hn) as H16.
  pose proof (geom_bounds c Hc ch Hg) as (_ & _ & _ & _ & Hs16 & He16 & _).
  unfold align_posZ. destruct (up c).
  - pose proof (up_align_ge (cpos ch) n Hnp).
    assert (up_alignZ (cpos ch) n <= content_end c ch).
    { apply up_align_min; [exact Hnp|eapply Z.divide_trans; eassumption|lia]. }
    split; [lia|]. split; [apply up_align_div; exact Hnp|lia].
  - pose proof (down_align_le (cpos ch) n Hnp).
    assert (content_start c ch <= down_alignZ (cpos ch) n).
    { apply down_align_max; [exact Hnp|eapply Z.divide_trans; eassumption|lia]. }
    split; [lia|]. split; [apply down_align_div; exact Hnp|lia].
Qed.

(* raising the minimum alignment aligns the position at entry; every block stays where it is *)
Theorem step_inv_align_push c s0 h n r :
  cfg_ok c -> inv c s0 -> valid_min_align n ->
  inv c (fst (step c s0 (OAlignPush h n) r)) /\
  malign (fst (step c s0 (OAlignPush h n) r)) = n.
Proof.
  intros Hc Hinv Hn. apply inv_tick in Hinv. cbn [step]. set (s := tick s0) in *. cbn [fst].
  pose proof Hinv as ((Hok & Hd & Hm & Hcur) & Hb & Hdis & Hids).
  destruct (Z.ltb_spec (malign s) n) as [Hlt|Hge].
  - destruct (cur_chunk s) as [ch|] eqn:Ecc.
    + destruct (cur_chunk_spec s ch Ecc) as (i & Ec & En).
      pose proof (Forall_nth_error _ _ _ _ Hok En) as Hchok.
      destruct (align_pos_in_range c n ch Hc Hchok Hn) as (Hr & Hdiv & Hdir).
      set (np := align_posZ (up c) n (cpos ch)) in *.
      assert (Hinv1 : inv c (set_cur_pos s np)).
      { eapply (set_cur_pos_inv c s i ch np Hc Hinv Ec En Hr).
        - rewrite Ec in Hcur. destruct Hcur as (ch' & En' & Hmp). rewrite En in En'. injection En' as <-.
          (* malign s divides n-aligned positions: both powers of two, malign s < n *)
          eapply Z.divide_trans; [|exact Hdiv]. apply pow2_divide; [exact (proj1 Hm)|exact (proj1 Hn)|lia].
        - intros b Hbin Hpos Hinc. rewrite Forall_forall in Hb.
          destruct (Hb b Hbin) as (_ & _ & (k & chk & Hk & Hinck & Hs)). rewrite Ec in Hs. destruct Hs as [Hki Hks].
          assert (Hki' : k = i).
          { destruct (Nat.eq_dec k i) as [E|Hnk]; [exact E|exfalso].
            pose proof (Forall_nth_error _ _ _ _ Hok Hk) as [Gk _].
            pose proof (chunk_range_in_granted c chk _ _ Hc Gk Hinck ltac:(lia)).
            pose proof (chunk_range_in_granted c ch _ _ Hc (proj1 Hchok) Hinc ltac:(lia)).
            specialize (Hd k i chk ch Hnk Hk En). lia. }
          subst k. rewrite En in Hk. injection Hk as <-. specialize (Hks eq_refl Hpos).
          destruct (up c); lia. }
      destruct (set_cur_pos_fields s i ch np Ec En) as (G1 & G2 & G3 & G4 & G5).
      split; [|unfold malign; reflexivity].
      destruct Hinv1 as ((Hok1 & Hd1 & _ & Hcur1) & Hb1 & Hdis1 & Hids1).
      split.
      * unfold ginv, malign. cbn [chunks cur aligns upd_aligns hd]. split; [exact Hok1|]. split; [exact Hd1|]. split; [exact Hn|].
        rewrite G2, Ec. exists (set_pos ch np). split; [rewrite G1; apply nth_error_set_nth_eq; eapply nth_error_some_lt; exact En|exact Hdiv].
      * cbn [live upd_aligns]. split.
        { rewrite Forall_forall in *. intros b Hbin. apply (block_ok_ext c (set_cur_pos s np)); try reflexivity. apply Hb1. exact Hbin. }
        split; [exact Hdis1|exact Hids1].
    + (* no chunk: nothing to align *)
      split; [|unfold malign; reflexivity].
      split.
      * unfold ginv, malign in *. cbn [chunks cur aligns upd_aligns hd]. split; [exact Hok|]. split; [exact Hd|]. split; [exact Hn|].
        unfold cur_chunk in Ecc. destruct (cur s) as [i| |]; [|exact Hcur|exact Hcur].
        destruct Hcur as (ch & En & _). rewrite En in Ecc. discriminate.
      * cbn [live upd_aligns]. split.
        { rewrite Forall_forall in *. intros b Hbin. apply (block_ok_ext c s); try reflexivity. apply Hb. exact Hbin. }
        split; [exact Hdis|exact Hids].
  - (* not raised: the position is already a multiple of n (n <= current minimum alignment) *)
    split; [|unfold malign; reflexivity].
    split.
    + unfold ginv, malign in *. cbn [chunks cur aligns upd_aligns hd]. split; [exact Hok|]. split; [exact Hd|]. split; [exact Hn|].
      destruct (cur s) as [i| |]; [|exact Hcur|exact Hcur].
      destruct Hcur as (ch & En & Hmp). exists ch. split; [exact En|].
      eapply Z.divide_trans; [|exact Hmp]. apply pow2_divide; [exact (proj1 Hn)|exact (proj1 Hm)|lia].
    + cbn [live upd_aligns]. split.
      { rewrite Forall_forall in *. intros b Hbin. apply (block_ok_ext c s); try reflexivity. apply Hb. exact Hbin. }
      split; [exact Hdis|exact Hids].
Qed.

(* leaving a lowered region re-aligns the position of the (possibly different) current chunk *)
Theorem align_pop_realigns c s0 inner outer rest r :
  cfg_ok c -> inv c s0 -> aligns s0 = inner :: outer :: rest -> valid_min_align outer ->
  let s' := fst (step c s0 (OAlignPop true) r) in
  malign s' = outer /\ forall ch, cur_chunk s' = Some ch -> (outer | cpos ch).
Proof.
  intros Hc Hinv Hal Hout. apply inv_tick in Hinv. cbv zeta. cbn [step]. set (s := tick s0) in *.
  assert (Hal' : aligns s = inner :: outer :: rest) by exact Hal. rewrite Hal'.
  pose proof Hinv as ((Hok & Hd & Hm & Hcur) & _).
  assert (Hmi : malign s = inner) by (unfold malign; rewrite Hal'; reflexivity).
  cbn [andb]. destruct (Z.ltb_spec inner outer) as [Hlt|Hge].
  - set (s1 := upd_aligns s (outer :: rest)).
    destruct (cur_chunk s1) as [ch|] eqn:Ecc.
    + cbn [fst]. destruct (cur_chunk_spec s1 ch Ecc) as (i & Ec & En).
      cbn [cur chunks upd_aligns s1] in Ec, En.
      pose proof (Forall_nth_error _ _ _ _ Hok En) as Hchok.
      destruct (align_pos_in_range c outer ch Hc Hchok Hout) as (Hr & Hdiv & _).
      assert (Ec1 : cur s1 = Cur i) by exact Ec. assert (En1 : nth_error (chunks s1) i = Some ch) by exact En.
      destruct (set_cur_pos_fields s1 i ch (align_posZ (up c) outer (cpos ch)) Ec1 En1) as (G1 & G2 & G3 & _).
      split; [unfold malign; rewrite G3; reflexivity|].
      intros ch' Hcc'. unfold cur_chunk in Hcc'. rewrite G2, Ec1, G1 in Hcc'.
      rewrite nth_error_set_nth_eq in Hcc' by (eapply nth_error_some_lt; exact En). injection Hcc' as <-. exact Hdiv.
    + cbn [fst]. split; [reflexivity|]. intros ch Hcc. rewrite Ecc in Hcc. discriminate.
  - cbn [fst]. split; [reflexivity|]. intros ch Hcc.
    destruct (cur_chunk_spec _ ch Hcc) as (i & Ec & En). cbn [cur chunks upd_aligns] in Ec, En.
    rewrite Ec in Hcur. destruct Hcur as (ch' & En' & Hmp). rewrite En in En'. injection En' as <-.
    rewrite Hmi in Hmp, Hm. eapply Z.divide_trans; [|exact Hmp]. apply pow2_divide; [exact (proj1 Hout)|exact (proj1 Hm)|lia].
Qed.

(* =========================== C15: prepared slices =========================== *)
Lemma commit_pos_bounds c m ea dyn x :
  valid_min_align m ->
  (if up c then x <= commit_pos c m ea dyn x < x + m else x - m < commit_pos c m ea dyn x <= x).
Proof.
  intros Hm. pose proof (min_align_pos _ Hm) as Hp. unfold commit_pos, align_posZ.
  destruct (dyn || (ea <? m)); destruct (up c); cbv iota; try lia.
  - pose proof (up_align_ge x m Hp). pose proof (up_align_lt x m Hp). lia.
  - pose proof (down_align_le x m Hp). pose proof (down_align_gt x m Hp). lia.
Qed.

(* the typed and the trait-object commit compute the same position whenever the committed end is
   aligned for the element type (it always is: prepared ranges have aligned ends) *)
Lemma commit_pos_dyn_eq c m ea x :
  valid_min_align m -> pow2 ea -> (ea | x) -> commit_pos c m ea true x = commit_pos c m ea false x.
Proof.
  intros Hm Hea Hdiv. pose proof (min_align_pos _ Hm) as Hp. unfold commit_pos. cbn [orb].
  destruct (Z.ltb_spec ea m); [reflexivity|].
  assert (Hmx : (m | x)) by (eapply Z.divide_trans; [|exact Hdiv]; apply pow2_divide; [exact (proj1 Hm)|exact Hea|lia]).
  unfold align_posZ. destruct (up c); cbv iota; [apply up_align_id|apply down_align_id]; assumption.
Qed.

(* committing (forward, upwards) advances the position by the contents plus less than one minimum
   alignment, registers exactly the written bytes as the new block, and writes nothing *)
Theorem commit_up_advance c s h es ea ptr len cap dyn r :
  up c = true -> valid_min_align (malign s) ->
  let '(s', out) := step c s (OCommit h es ea ptr len cap false dyn) r in
  (exists id, o_res out = RBlock id ptr (len * es)) /\
  (forall a, mem s' a = mem s a) /\
  (forall ch, cur_chunk s = Some ch -> exists ch', cur_chunk s' = Some ch' /\
     ptr + len * es <= cpos ch' < ptr + len * es + malign s).
Proof.
  intros Hup Hm. cbn [step]. rewrite Hup. unfold add_block. cbn [o_res mem bump_id upd_live].
  split; [eexists; reflexivity|]. split.
  - intros a. rewrite set_cur_pos_mem. reflexivity.
  - intros ch Hcc. destruct (cur_chunk_spec _ ch Hcc) as (i & Ec & En).
    assert (Ec' : cur (tick s) = Cur i) by exact Ec. assert (En' : nth_error (chunks (tick s)) i = Some ch) by exact En.
    set (np := commit_pos c (malign (tick s)) ea dyn (ptr + len * es)).
    destruct (set_cur_pos_fields (tick s) i ch np Ec' En') as (G1 & G2 & _).
    exists (set_pos ch np). split.
    + unfold cur_chunk. cbn [cur chunks bump_id upd_live]. rewrite G2, Ec', G1.
      apply nth_error_set_nth_eq. eapply nth_error_some_lt; exact En.
    + cbn [set_pos cpos]. pose proof (commit_pos_bounds c (malign s) ea dyn (ptr + len * es) Hm) as Hb.
      rewrite Hup in Hb. exact Hb.
Qed.

(* committing downwards moves the filled prefix to the end of the prepared range: the new block
   holds exactly the bytes that were written at the start *)
Theorem commit_down_contents c s h es ea ptr len cap dyn r :
  up c = false ->
  let '(s', out) := step c s (OCommit h es ea ptr len cap false dyn) r in
  let dst := ptr + cap * es - len * es in
  (exists id, o_res out = RBlock id dst (len * es)) /\
  (forall k, 0 <= k < len * es -> mem s' (dst + k) = mem s (ptr + k)) /\
  (forall a, ~ (dst <= a < dst + len * es) -> mem s' a = mem s a).
Proof.
  intros Hup. cbn [step]. rewrite Hup. unfold add_block. cbn [o_res mem bump_id upd_live].
  split; [eexists; reflexivity|]. split.
  - intros k Hk. rewrite set_cur_pos_mem. cbn [mem upd_mem tick]. rewrite mem_copy_inside by lia. f_equal. lia.
  - intros a Ha. rewrite set_cur_pos_mem. cbn [mem upd_mem tick]. apply mem_copy_outside. exact Ha.
Qed.

(* =========================== C17: entry points =========================== *)
(* the three LayoutProps classes (and every other truthful hint combination) give the same
   result: a direct corollary of the refinement theorems of C11 *)
Theorem hints_do_not_matter_up start end_ m size align ac sc mu ac' sc' mu' :
  valid_min_align m -> valid_layout size align -> valid_up start end_ m ->
  (mu = true -> (align | size)) -> (mu' = true -> (align | size)) ->
  Bumping.bump_up (Bumping.mkBumpProps start end_ m (mkLayout size align) ac sc mu) =
  Bumping.bump_up (Bumping.mkBumpProps start end_ m (mkLayout size align) ac' sc' mu').
Proof.
  intros Hm Hl Hv H1 H2.
  rewrite (bump_up_refines start end_ m size align ac sc mu Hm Hl Hv H1).
  rewrite (bump_up_refines start end_ m size align ac' sc' mu' Hm Hl Hv H2). reflexivity.
Qed.

Theorem hints_do_not_matter_down start end_ m size align ac sc mu ac' sc' mu' :
  valid_min_align m -> valid_layout size align -> valid_down start end_ m ->
  (mu = true -> (align | size)) -> (mu' = true -> (align | size)) ->
  Bumping.bump_down (Bumping.mkBumpProps start end_ m (mkLayout size align) ac sc mu) =
  Bumping.bump_down (Bumping.mkBumpProps start end_ m (mkLayout size align) ac' sc' mu').
Proof.
  intros Hm Hl Hv H1 H2.
  rewrite (bump_down_refines start end_ m size align ac sc mu Hm Hl Hv H1).
  rewrite (bump_down_refines start end_ m size align ac' sc' mu' Hm Hl Hv H2). reflexivity.
Qed.

(* the typed and the trait-object commit of the same prepared slice are the same step *)
Theorem dyn_commit_equals_typed c s h es ea ptr len cap rev r :
  valid_min_align (malign s) -> pow2 ea ->
  (ea | ptr) -> (ea | es) ->
  step c s (OCommit h es ea ptr len cap rev true) r = step c s (OCommit h es ea ptr len cap rev false) r.
Proof.
  intros Hm Hea Hp Hes.
  assert (Hd : forall x, (ea | x) -> commit_pos c (malign (tick s)) ea true x = commit_pos c (malign (tick s)) ea false x).
  { intros x Hx. apply commit_pos_dyn_eq; assumption. }
  assert (Hmul : forall k, (ea | k * es)) by (intros k; apply Z.divide_mul_r; exact Hes).
  cbn [step]. destruct rev; destruct (up c).
  - rewrite Hd; [reflexivity|]. replace (ptr - cap * es + len * es) with (ptr + (len - cap) * es) by lia.
    apply Z.divide_add_r; [exact Hp|apply Hmul].
  - rewrite Hd; [reflexivity|]. apply Z.divide_sub_r; [exact Hp|apply Hmul].
  - rewrite Hd; [reflexivity|]. apply Z.divide_add_r; [exact Hp|apply Hmul].
  - rewrite Hd; [reflexivity|]. replace (ptr + cap * es - len * es) with (ptr + (cap - len) * es) by lia.
    apply Z.divide_add_r; [exact Hp|apply Hmul].
Qed.

(* preparing a slice never moves a bump position that could matter: every chunk up to and
   including the old current one is untouched (at most later, empty chunks are reset or a new
   chunk is appended and becomes current) *)
Theorem prepare_keeps_positions c s i size align r s1 res :
  cfg_ok c -> ginv c s -> cur s = Cur i ->
  raw_prepare_range c s size align r = (s1, res) ->
  (forall k, (k <= i)%nat -> nth_error (chunks s1) k = nth_error (chunks s) k) /\
  (exists j, cur s1 = Cur j /\ (i <= j)%nat).
Proof.
  intros Hc (Hok & Hd & Hm & Hcur) Ec H. rewrite Ec in Hcur. destruct Hcur as (chi & Eni & Hmpi).
  pose proof (nth_error_some_lt _ _ _ Eni) as Hilt.
  unfold raw_prepare_range in H. rewrite Ec, Eni in H.
  set (f := fun ch : chunk => match chunk_prepare c ch size align with Some rng => Some (rng, ch) | None => None end) in *.
  cbv beta in H. destruct (chunk_prepare c chi size align) as [rng|] eqn:Ef.
  { injection H as <- _. split; [intros; reflexivity|]. exists i. split; [exact Ec|lia]. }
  unfold in_another_chunk in H.
  assert (Hf : forall ch p ch1, chunk_ok c ch -> (malign s | cpos ch) -> f ch = Some (p, ch1) ->
            chunk_ok c ch1 /\ same_geom ch ch1 /\ (malign s | cpos ch1) /\ True).
  { intros ch p ch1 Hcok Hcm Hfe. unfold f in Hfe. destruct (chunk_prepare c ch size align); [|discriminate].
    injection Hfe as _ <-. split; [exact Hcok|]. split; [apply same_geom_refl|]. split; [exact Hcm|exact I]. }
  destruct (walk_next c f (chunks s) i (length (chunks s))) as [[cs j] wres] eqn:Ew.
  destruct (walk_next_spec c Hc (malign s) Hm (Z * Z) f (fun _ _ => True) Hf _ _ _ _ _ _ Hok Hilt Ew)
    as (W1 & W2 & W3 & W4 & _).
  pose proof (Forall2_length _ _ _ W2) as Hlen.
  destruct wres as [p|].
  - injection H as <- _. cbn [chunks cur upd_cur upd_chunks]. split; [exact W4|]. exists j. split; [reflexivity|lia].
  - set (s0 := upd_cur (upd_chunks s cs) (Cur j)) in *.
    unfold grow_arena in H.
    destruct (new_chunk_size c _ size align) as [n|].
    2:{ injection H as <- _. cbn [chunks cur upd_cur upd_chunks s0]. split; [exact W4|]. exists i. split; [reflexivity|lia]. }
    destruct r as [[addr g]|].
    2:{ injection H as <- _. cbn [chunks cur upd_cur upd_chunks log_event s0]. split; [exact W4|]. exists i. split; [reflexivity|lia]. }
    cbn [cur chunks upd_cur upd_chunks log_event s0] in H.
    rewrite nth_error_app_last in H.
    destruct (f (make_chunk c n addr g)) as [[res1 ch1]|]; injection H as <- _;
      cbn [chunks cur upd_cur upd_chunks log_event].
    + split.
      * intros k Hk. rewrite nth_error_set_nth_neq by lia. rewrite nth_error_app1 by lia. apply W4. exact Hk.
      * exists (length cs). split; [reflexivity|lia].
    + split.
      * intros k Hk. rewrite nth_error_app1 by lia. apply W4. exact Hk.
      * exists (length cs). split; [reflexivity|lia].
Qed.

(* the chunk appended for a layout has room for that layout: the `unreachable_unchecked` at the
   end of RawBump::in_another_chunk is never reached, for allocation and for preparation *)
Lemma make_chunk_fits c prev size align m n addr g :
  cfg_ok c -> valid_layout size align -> valid_min_align m ->
  new_chunk_size c prev size align = Some n -> n <= g -> (ha c | addr) ->
  chunk_alloc c m (make_chunk c n addr g) size align <> None /\
  ((align | size) -> chunk_prepare c (make_chunk c n addr g) size align <> None).
Proof.
  intros [Hh Hmc] Hl Hm En Hg Hb. unfold new_chunk_size in En.
  destruct (W <=? spec_hint (up c) (hs c) (ha c) size align); [discriminate|].
  destruct (W <=? match prev with Some ps => 2 * ps | None => 0 end); [discriminate|].
  match type of En with context [spec_size0 _ _ ?h] => remember h as hint eqn:Ehint end.
  destruct (W <=? spec_size0 (hs c) (ha c) hint); [discriminate|].
  destruct (IMAX - (ha c - 1) <? spec_size_from_hint (up c) (hs c) (ha c) hint); [discriminate|].
  injection En as <-.
  assert (Hhint : spec_hint (up c) (hs c) (ha c) size align <= hint) by (subst hint; lia).
  pose proof (fresh_chunk_fits (up c) (hs c) (ha c) Hh size align m Hl Hm hint g addr Hhint Hg Hb) as [Hu Hd].
  cbv zeta in Hu, Hd.
  unfold chunk_alloc, chunk_prepare, make_chunk, fresh_pos, content_start, content_end.
  cbn [cpos cbase csize set_pos].
  destruct (up c) eqn:Eup.
  - specialize (Hu eq_refl). split.
    + destruct (spec_up _ _ m size align) as [[p np]|]; [discriminate|exfalso; apply Hu; reflexivity].
    + intros _. eapply spec_prep_up_fits. exact Hu.
  - specialize (Hd eq_refl). split.
    + destruct (spec_down _ _ m size align) as [p|]; [discriminate|exfalso; apply Hd; reflexivity].
    + intros Hmul. apply (spec_prep_down_fits _ _ m); assumption.
Qed.

(* a prepare (the growth of a MutBumpVec / MutBumpVecRev / MutBumpString) that fails leaves the
   chunk the outstanding prepared slice lives in current, so that a later commit of that slice
   sets the position of the right chunk *)
Theorem failed_prepare_keeps_current c s i size align r s1 e :
  cfg_ok c -> ginv c s -> cur s = Cur i ->
  valid_layout size align -> (align | size) -> resp_ok c s size align r ->
  raw_prepare_range c s size align r = (s1, inr e) ->
  cur s1 = Cur i /\ (forall k, (k <= i)%nat -> nth_error (chunks s1) k = nth_error (chunks s) k).
Proof.
  intros Hc (Hok & Hd & Hm & Hcur) Ec Hl Hmul Hr H. rewrite Ec in Hcur. destruct Hcur as (chi & Eni & Hmpi).
  pose proof (nth_error_some_lt _ _ _ Eni) as Hilt.
  unfold raw_prepare_range in H. rewrite Ec, Eni in H.
  set (f := fun ch : chunk => match chunk_prepare c ch size align with Some rng => Some (rng, ch) | None => None end) in *.
  cbv beta in H. destruct (chunk_prepare c chi size align) as [rng|] eqn:Ef; [discriminate|].
  unfold in_another_chunk in H.
  assert (Hf : forall ch p ch1, chunk_ok c ch -> (malign s | cpos ch) -> f ch = Some (p, ch1) ->
            chunk_ok c ch1 /\ same_geom ch ch1 /\ (malign s | cpos ch1) /\ True).
  { intros ch p ch1 Hcok Hcm Hfe. unfold f in Hfe. destruct (chunk_prepare c ch size align); [|discriminate].
    injection Hfe as _ <-. split; [exact Hcok|]. split; [apply same_geom_refl|]. split; [exact Hcm|exact I]. }
  destruct (walk_next c f (chunks s) i (length (chunks s))) as [[cs j] wres] eqn:Ew.
  destruct (walk_next_spec c Hc (malign s) Hm (Z * Z) f (fun _ _ => True) Hf _ _ _ _ _ _ Hok Hilt Ew)
    as (W1 & W2 & W3 & W4 & _).
  destruct wres as [p|]; [discriminate|].
  set (s0 := upd_cur (upd_chunks s cs) (Cur j)) in *.
  assert (Hr0 : resp_ok c s0 size align r) by (eapply resp_ok_same_geom; [exact W2|exact Hr]).
  unfold grow_arena in H. fold (prev_size s0) in H.
  destruct (new_chunk_size c (prev_size s0) size align) as [n|] eqn:En.
  2:{ injection H as <- _. cbn [chunks cur upd_cur upd_chunks s0]. split; [reflexivity|exact W4]. }
  destruct r as [[addr g]|].
  2:{ injection H as <- _. cbn [chunks cur upd_cur upd_chunks log_event s0]. split; [reflexivity|exact W4]. }
  exfalso. cbn [cur chunks upd_cur upd_chunks log_event s0] in H.
  rewrite nth_error_app_last in H.
  destruct Hr0 as (_ & Hb & _ & _ & Hng & _).
  destruct (make_chunk_fits c (prev_size s0) size align (malign s) n addr g Hc Hl Hm En (Hng n En) Hb) as [_ Hfit].
  unfold f in H. destruct (chunk_prepare c (make_chunk c n addr g) size align) as [rng|]; [discriminate|].
  apply (Hfit Hmul). reflexivity.
Qed.

(* the same for every use of the slow path: when it fails, the chunk that was current stays
   current and no chunk up to it is touched *)
Lemma in_another_chunk_failed {R} c s (f : chunk -> option (R * chunk)) size align r s1 e :
  cfg_ok c -> ginv c s -> resp_ok c s size align r ->
  (forall ch p ch1, chunk_ok c ch -> (malign s | cpos ch) -> f ch = Some (p, ch1) ->
     chunk_ok c ch1 /\ same_geom ch ch1 /\ (malign s | cpos ch1) /\ True) ->
  (forall prev n addr g, new_chunk_size c prev size align = Some n -> n <= g -> (ha c | addr) ->
     f (make_chunk c n addr g) <> None) ->
  in_another_chunk c s (cur s) size align f r = (s1, inr e) ->
  cur s1 = cur s /\
  match cur s with
  | Cur i => forall k, (k <= i)%nat -> nth_error (chunks s1) k = nth_error (chunks s) k
  | _ => chunks s1 = chunks s
  end.
Proof.
  intros Hc (Hok & Hd & Hm & Hcur) Hr Hf Hfresh H.
  unfold in_another_chunk in H. destruct (cur s) as [i| |] eqn:Ec.
  - destruct Hcur as (chi & Eni & Hmpi). pose proof (nth_error_some_lt _ _ _ Eni) as Hilt.
    destruct (walk_next c f (chunks s) i (length (chunks s))) as [[cs j] wres] eqn:Ew.
    destruct (walk_next_spec c Hc (malign s) Hm R f (fun _ _ => True) Hf _ _ _ _ _ _ Hok Hilt Ew)
      as (W1 & W2 & W3 & W4 & _).
    destruct wres as [p|]; [discriminate|].
    set (s0 := upd_cur (upd_chunks s cs) (Cur j)) in *.
    assert (Hr0 : resp_ok c s0 size align r) by (eapply resp_ok_same_geom; [exact W2|exact Hr]).
    unfold grow_arena in H. fold (prev_size s0) in H.
    destruct (new_chunk_size c (prev_size s0) size align) as [n|] eqn:En.
    2:{ injection H as <- _. cbn [chunks cur upd_cur upd_chunks s0]. split; [reflexivity|exact W4]. }
    destruct r as [[addr g]|].
    2:{ injection H as <- _. cbn [chunks cur upd_cur upd_chunks log_event s0]. split; [reflexivity|exact W4]. }
    exfalso. cbn [cur chunks upd_cur upd_chunks log_event s0] in H.
    rewrite nth_error_app_last in H.
    destruct Hr0 as (_ & Hb & _ & _ & Hng & _).
    pose proof (Hfresh (prev_size s0) n addr g En (Hng n En) Hb) as Hfit.
    destruct (f (make_chunk c n addr g)) as [[res1 ch1]|]; [discriminate|]. apply Hfit. reflexivity.
  - unfold grow_arena in H. fold (prev_size s) in H.
    destruct (new_chunk_size c (prev_size s) size align) as [n|] eqn:En.
    2:{ injection H as <- _. split; [exact Ec|reflexivity]. }
    destruct r as [[addr g]|].
    2:{ injection H as <- _. cbn [chunks cur log_event]. split; [exact Ec|reflexivity]. }
    exfalso. cbn [cur chunks upd_cur upd_chunks log_event] in H.
    rewrite nth_error_app_last in H.
    destruct Hr as (_ & Hb & _ & _ & Hng & _).
    pose proof (Hfresh (prev_size s) n addr g En (Hng n En) Hb) as Hfit.
    destruct (f (make_chunk c n addr g)) as [[res1 ch1]|]; [discriminate|]. apply Hfit. reflexivity.
  - injection H as <- _. split; [exact Ec|reflexivity].
Qed.

Theorem failed_alloc_keeps_current c s size align r s1 e :
  cfg_ok c -> ginv c s -> valid_layout size align -> resp_ok c s size align r ->
  raw_alloc c s size align r = (s1, inr e) ->
  cur s1 = cur s /\
  match cur s with
  | Cur i => forall k, (k <= i)%nat -> nth_error (chunks s1) k = nth_error (chunks s) k
  | _ => chunks s1 = chunks s
  end.
Proof.
  intros Hc Hg Hl Hr H. pose proof Hg as (Hok & Hd & Hm & Hcur).
  assert (HfA : forall ch p ch1, chunk_ok c ch -> (malign s | cpos ch) ->
            chunk_alloc c (malign s) ch size align = Some (p, ch1) ->
            chunk_ok c ch1 /\ same_geom ch ch1 /\ (malign s | cpos ch1) /\ True).
  { intros ch p ch1 Hcok Hcm Hca.
    destruct (chunk_alloc_geom c _ ch size align p ch1 Hc Hcok Hm Hcm Hl Hca) as (G1 & G2 & G3 & _).
    split; [exact G1|]. split; [exact G2|]. split; [exact G3|exact I]. }
  assert (Hfresh : forall prev n addr g, new_chunk_size c prev size align = Some n -> n <= g -> (ha c | addr) ->
            chunk_alloc c (malign s) (make_chunk c n addr g) size align <> None).
  { intros prev n addr g En Hng Hb. apply (make_chunk_fits c prev size align (malign s) n addr g Hc Hl Hm En Hng Hb). }
  unfold raw_alloc in H. destruct (cur s) as [i| |] eqn:Ec.
  - destruct (nth_error (chunks s) i) as [ch|] eqn:En.
    + destruct (chunk_alloc c (malign s) ch size align) as [[p ch1]|]; [discriminate|].
      rewrite <- Ec in H.
      pose proof (in_another_chunk_failed c s _ size align r s1 e Hc Hg Hr HfA Hfresh H) as R0.
      rewrite Ec in R0. exact R0.
    + injection H as <- _. split; [exact Ec|reflexivity].
  - rewrite <- Ec in H.
    pose proof (in_another_chunk_failed c s _ size align r s1 e Hc Hg Hr HfA Hfresh H) as R0.
    rewrite Ec in R0. exact R0.
  - rewrite <- Ec in H.
    pose proof (in_another_chunk_failed c s _ size align r s1 e Hc Hg Hr HfA Hfresh H) as R0.
    rewrite Ec in R0. exact R0.
Qed.

(* ================================================================ invariant through prepare / commit *)
(* preparing a slice keeps the geometric invariant and every placed range where it was: no
   position of a chunk that holds a range moves; the slow path at most makes a later (reset or
   new) chunk current *)
Lemma prepare_keeps c s size align r s' res :
  cfg_ok c -> ginv c s -> resp_ok c s size align r ->
  raw_prepare_range c s size align r = (s', res) ->
  frame s s' /\ ginv c s' /\ (forall q sz, 0 <= sz -> placed c s q sz -> placed c s' q sz) /\
  match res with
  | inl rng => exists i ch, cur s' = Cur i /\ nth_error (chunks s') i = Some ch /\ chunk_prepare c ch size align = Some rng
  | inr _ => True
  end.
Proof.
  intros Hc Hg Hr H. pose proof Hg as (Hok & Hd & Hm & Hcur).
  set (f := fun ch : chunk => match chunk_prepare c ch size align with Some rng => Some (rng, ch) | None => None end) in *.
  assert (Hsame : forall ch p ch1, f ch = Some (p, ch1) -> ch1 = ch).
  { intros ch p ch1 Hf. unfold f in Hf. destruct (chunk_prepare c ch size align); [|discriminate]. injection Hf as _ <-. reflexivity. }
  assert (Hval : forall ch p ch1, f ch = Some (p, ch1) -> chunk_prepare c ch size align = Some p).
  { intros ch p ch1 Hfe. unfold f in Hfe. destruct (chunk_prepare c ch size align); [|discriminate]. injection Hfe as <- _. reflexivity. }
  assert (Hf : forall ch p ch1, chunk_ok c ch -> (malign s | cpos ch) -> f ch = Some (p, ch1) ->
            chunk_ok c ch1 /\ same_geom ch ch1 /\ (malign s | cpos ch1) /\ chunk_prepare c ch1 size align = Some p).
  { intros ch p ch1 Hcok Hcm Hfe. rewrite (Hsame _ _ _ Hfe). split; [exact Hcok|]. split; [apply same_geom_refl|]. split; [exact Hcm|exact (Hval _ _ _ Hfe)]. }
  assert (Hslow : forall h, h = cur s -> in_another_chunk c s h size align f r = (s', res) ->
            frame s s' /\ ginv c s' /\ (forall q sz, 0 <= sz -> placed c s q sz -> placed c s' q sz) /\
            match res with
            | inl rng => exists i ch, cur s' = Cur i /\ nth_error (chunks s') i = Some ch /\ chunk_prepare c ch size align = Some rng
            | inr _ => True
            end).
  { intros h -> Hs. unfold in_another_chunk in Hs. destruct (cur s) as [i| |] eqn:Ec; [| |contradiction].
    - destruct Hcur as (chi & Eni & Hmpi). pose proof (nth_error_some_lt _ _ _ Eni) as Hilt.
      destruct (walk_next c f (chunks s) i (length (chunks s))) as [[cs j] wres] eqn:Ew.
      destruct (walk_next_spec c Hc (malign s) Hm (Z * Z) f (fun ch1 p => chunk_prepare c ch1 size align = Some p) Hf _ _ _ _ _ _ Hok Hilt Ew)
        as (W1 & W2 & W3 & W4 & W5 & W6 & W7 & W8).
      pose proof (Forall2_length _ _ _ W2) as Hlen.
      assert (Hold : forall q sz, 0 <= sz -> placed c s q sz ->
                exists k0 chk, (k0 <= i)%nat /\ nth_error cs k0 = Some chk /\ in_chunk c chk q sz /\
                               (k0 = i -> alloc_side c chk q sz)).
      { intros q sz Hsz (k0 & chk & Hk0 & Hin & Hside). rewrite Ec in Hside. destruct Hside as [Hle Hs0].
        exists k0, chk. split; [exact Hle|]. split; [rewrite W4 by exact Hle; exact Hk0|]. split; assumption. }
      assert (Hcurj : exists chj, nth_error cs j = Some chj /\ (malign s | cpos chj)).
      { destruct (Nat.eq_dec j i) as [->|Hne]; [exists chi; split; [rewrite W4 by lia; exact Eni|exact Hmpi]|apply W6; lia]. }
      assert (Hg0 : ginv c (upd_cur (upd_chunks s cs) (Cur j))).
      { unfold ginv. cbn [chunks cur upd_cur upd_chunks malign aligns].
        split; [exact W1|]. split; [eapply chunks_disjoint_same_geom; eassumption|]. split; [exact Hm|exact Hcurj]. }
      assert (Hpl0 : forall q sz, 0 <= sz -> placed c s q sz -> placed c (upd_cur (upd_chunks s cs) (Cur j)) q sz).
      { intros q sz Hsz Hq. destruct (Hold q sz Hsz Hq) as (k0 & chk & Hle & Hk0 & Hin & Hs0).
        exists k0, chk. cbn [chunks cur upd_cur upd_chunks]. split; [exact Hk0|]. split; [exact Hin|].
        split; [lia|]. intros ->. apply Hs0. lia. }
      destruct wres as [p|].
      + injection Hs as <- <-. split; [repeat split|]. split; [exact Hg0|]. split; [exact Hpl0|].
        destruct (W8 p eq_refl) as (chj & Ej & Hq). exists j, chj. cbn [chunks cur upd_cur upd_chunks]. split; [reflexivity|]. split; [exact Ej|exact Hq].
      + set (s0 := upd_cur (upd_chunks s cs) (Cur j)) in *.
        assert (Hr0 : resp_ok c s0 size align r) by (eapply resp_ok_same_geom; [exact W2|exact Hr]).
        destruct (grow_arena c s0 size align r) as [s1 [e|]] eqn:Eg.
        * injection Hs as <- <-.
          destruct (grow_arena_spec c s0 size align r s1 (Some e) Hc Hr0 Eg) as (Hfr & Ech & Ecu).
          cbn [chunks upd_cur upd_chunks s0] in Ech.
          assert (Hal : malign s1 = malign s) by (unfold malign; destruct Hfr as (_ & _ & _ & -> & _); reflexivity).
          split; [eapply frame_trans; [|eapply frame_trans; [exact Hfr|]]; repeat split|].
          split.
          { unfold ginv. cbn [chunks cur upd_cur]. change (malign (upd_cur s1 (Cur i))) with (malign s1). rewrite Ech, Hal.
            split; [exact W1|]. split; [eapply chunks_disjoint_same_geom; eassumption|]. split; [exact Hm|].
            exists chi. split; [rewrite W4 by lia; exact Eni|exact Hmpi]. }
          split; [|exact I].
          intros q sz Hsz Hq. destruct (Hold q sz Hsz Hq) as (k0 & chk & Hle & Hk0 & Hin & Hs0).
          exists k0, chk. cbn [chunks cur upd_cur]. rewrite Ech. split; [exact Hk0|]. split; [exact Hin|].
          split; [exact Hle|exact Hs0].
        * destruct (grow_arena_spec c s0 size align r s1 None Hc Hr0 Eg)
            as (Hfr & ch & addr & g & -> & Ech & Ecu & Hchok & Hc16 & Ecb & Ecg).
          cbn [chunks upd_cur upd_chunks s0] in Ech, Ecu.
          assert (Hal : malign s1 = malign s) by (unfold malign; destruct Hfr as (_ & _ & _ & -> & _); reflexivity).
          rewrite Ecu in Hs. rewrite Ech in Hs at 1. rewrite nth_error_app_last in Hs.
          assert (F1 : frame s s1) by (eapply frame_trans; [|exact Hfr]; repeat split).
          assert (F2 : Forall (chunk_ok c) (chunks s1)).
          { rewrite Ech. apply Forall_app. split; [exact W1|constructor; [exact Hchok|constructor]]. }
          assert (F3 : chunks_disjoint (chunks s1)).
          { rewrite Ech. apply (chunks_disjoint_app c); [exact Hc|eapply chunks_disjoint_same_geom; eassumption|].
            intros ch0 Hin0. destruct Hr0 as (_ & _ & _ & _ & _ & R6). specialize (R6 ch0 Hin0). rewrite Ecb, Ecg. lia. }
          assert (F5 : nth_error (chunks s1) (length cs) = Some ch) by (rewrite Ech; apply nth_error_app_last).
          assert (F6 : (malign s1 | cpos ch)).
          { rewrite Hal. eapply Z.divide_trans; [apply min_align_div16; exact Hm|exact Hc16]. }
          assert (Hs1 : frame s s1 /\ ginv c s1 /\ (forall q sz, 0 <= sz -> placed c s q sz -> placed c s1 q sz)).
          { split; [exact F1|]. split.
            - unfold ginv. split; [exact F2|]. split; [exact F3|]. split; [rewrite Hal; exact Hm|].
              rewrite Ecu. exists ch. split; [exact F5|exact F6].
            - intros q sz Hsz Hq. destruct (Hold q sz Hsz Hq) as (k0 & chk & Hle & Hk0 & Hin & _).
              exists k0, chk. rewrite Ecu. split; [rewrite Ech, nth_error_app1 by lia; exact Hk0|]. split; [exact Hin|].
              split; [lia|intros E; lia]. }
          destruct (f ch) as [[res1 ch1]|] eqn:Efr.
          -- injection Hs as <- <-. rewrite (Hsame _ _ _ Efr). rewrite set_nth_same by exact F5.
             replace (upd_chunks s1 (chunks s1)) with s1 by (destruct s1; reflexivity).
             destruct Hs1 as (A1 & A2 & A3). split; [exact A1|]. split; [exact A2|]. split; [exact A3|].
             exists (length cs), ch. split; [exact Ecu|]. split; [exact F5|exact (Hval _ _ _ Efr)].
          -- injection Hs as <- <-. destruct Hs1 as (A1 & A2 & A3). split; [exact A1|]. split; [exact A2|]. split; [exact A3|exact I].
    - (* unallocated *)
      assert (Hno : forall q sz, ~ placed c s q sz).
      { intros q sz (k0 & chk & _ & _ & Hside). rewrite Ec in Hside. exact Hside. }
      destruct (grow_arena c s size align r) as [s1 [e|]] eqn:Eg.
      + injection Hs as <- <-.
        destruct (grow_arena_spec c s size align r s1 (Some e) Hc Hr Eg) as (Hfr & Ech & Ecu).
        assert (Hal : malign s1 = malign s) by (unfold malign; destruct Hfr as (_ & _ & _ & -> & _); reflexivity).
        split; [exact Hfr|]. split.
        { unfold ginv. rewrite Ech, Ecu, Hal, Ec. split; [exact Hok|]. split; [exact Hd|]. split; [exact Hm|exact Hcur]. }
        split; [|exact I]. intros q sz _ Hq. exfalso. exact (Hno q sz Hq).
      + destruct (grow_arena_spec c s size align r s1 None Hc Hr Eg)
          as (Hfr & ch & addr & g & -> & Ech & Ecu & Hchok & Hc16 & Ecb & Ecg).
        assert (Hal : malign s1 = malign s) by (unfold malign; destruct Hfr as (_ & _ & _ & -> & _); reflexivity).
        rewrite Hcur in Ech, Ecu. cbn [app length] in Ech, Ecu.
        rewrite Ecu in Hs. rewrite Ech in Hs at 1. cbn [nth_error] in Hs.
        assert (F5 : nth_error (chunks s1) 0%nat = Some ch) by (rewrite Ech; reflexivity).
        assert (Hs1 : frame s s1 /\ ginv c s1 /\ (forall q sz, 0 <= sz -> placed c s q sz -> placed c s1 q sz)).
        { split; [exact Hfr|]. split.
          - unfold ginv. rewrite Ech, Ecu. split; [constructor; [exact Hchok|constructor]|]. split.
            + intros i j a b Hij Ha Hb. destruct i as [|[|i]], j as [|[|j]]; cbn in Ha, Hb; try discriminate; congruence.
            + split; [rewrite Hal; exact Hm|]. exists ch. split; [reflexivity|].
              rewrite Hal. eapply Z.divide_trans; [apply min_align_div16; exact Hm|exact Hc16].
          - intros q sz _ Hq. exfalso. exact (Hno q sz Hq). }
        destruct (f ch) as [[res1 ch1]|] eqn:Efr.
        * injection Hs as <- <-. rewrite (Hsame _ _ _ Efr). rewrite set_nth_same by exact F5.
          replace (upd_chunks s1 (chunks s1)) with s1 by (destruct s1; reflexivity).
          destruct Hs1 as (A1 & A2 & A3). split; [exact A1|]. split; [exact A2|]. split; [exact A3|].
          exists 0%nat, ch. split; [exact Ecu|]. split; [exact F5|exact (Hval _ _ _ Efr)].
        * injection Hs as <- <-. destruct Hs1 as (A1 & A2 & A3). split; [exact A1|]. split; [exact A2|]. split; [exact A3|exact I]. }
  unfold raw_prepare_range in H. cbv zeta in H. fold f in H.
  destruct (cur s) as [i| |] eqn:Ec.
  - destruct (nth_error (chunks s) i) as [ch|] eqn:En.
    + destruct (chunk_prepare c ch size align) as [rng|] eqn:Ef.
      * injection H as <- <-. split; [repeat split|]. split; [exact Hg|]. split; [auto|].
        exists i, ch. split; [exact Ec|]. split; [exact En|exact Ef].
      * apply (Hslow (Cur i)); [reflexivity|exact H].
    + injection H as <- <-. split; [repeat split|]. split; [exact Hg|]. split; [auto|exact I].
  - apply (Hslow Unalloc); [reflexivity|exact H].
  - apply (Hslow Claimed); [reflexivity|exact H].
Qed.
